"""Wording for MANIFEST.json: per-property text lives in bin/props/<ID>.py (TEXT); reasons for unclaimed properties here."""
from vprops import TEXT  # noqa: F401
NOT_YET = {}
