#!/usr/bin/env python3
"""Writes one task file per property to /root/seedtasks/<ID>.txt for the fresh sub-agents that try to break a property.
The task text contains ONLY the property's own text (title, statement, quantifier, anchored files) — nothing from /verif."""
import os, json
VERIF = os.path.dirname(os.path.dirname(os.path.abspath(__file__)))
OUT = '/root/seedtasks'
import glob, sys
ROUNDS = sys.argv[1:] or ['a', 'b']      # e.g. `mkseedtasks.py c` writes the third-round task files
AVOID = {}
for mp in sorted(glob.glob(os.path.join(VERIF, 'seeded', '*', 'meta.json'))):
    try:
        m = json.load(open(mp))
    except ValueError:
        continue
    AVOID.setdefault(m.get('property'), []).append((m.get('summary') or '')[:400])
os.makedirs(OUT, exist_ok=True)
T = '''You are stress-testing how well a Go project's guarantees are protected. The project is anz-bank/sysl (a system
specification language toolchain: ANTLR parser, protobuf model, expression evaluator, importers/exporters, diagram and
code generators). Its repository is at /repo — DO NOT edit /repo. Make your own scratch checkout:
    git -C /repo worktree add --detach /tmp/mut_{PID}_{K} HEAD
and work only there. The directory /verif is OFF LIMITS: do not read, list or search anything under it.
Environment for every shell: export GOFLAGS=-mod=mod GOPROXY=off GOSUMDB=off GOTOOLCHAIN=local   (no network exists).

THE PROPERTY users rely on:
  {TITLE}
  {STATEMENT}
  It is meant to hold for: {QUANT}
  Code it rests on (starting points): {FILES}

YOUR TASK: produce {N} DIFFERENT source changes ("regressions"), each of which BREAKS this property while the project still
compiles and the EXISTING test suite still passes unchanged. Each should look like something a developer could
plausibly commit by mistake (a refactoring slip, a wrong boundary, a dropped case, a lost sort or copy, a swapped
argument, a guard moved, an early return, state shared that should be fresh, …) — not sabotage with a magic constant, and
not a change to tests, golden files or generated parser code. IMPORTANT: prefer regressions that need something SPECIFIC
to show themselves — an unusual but legal input, a particular nesting depth or count (e.g. only from the third
occurrence on), a multi-step sequence of operations, a particular interleaving / completion order of concurrent work, a
fault at a particular point, or two cooperating edit sites that each look harmless alone — rather than ones ordinary use
would expose at once. Make the {N} changes differ in kind and in the code site they touch.

For EACH change k = 1..{N}:
  1. Edit the source in your worktree (Go files under pkg/ or cmd/, not *_test.go, not testdata, not pkg/grammar/sysl_*.go).
  2. Check it compiles: go build ./... && go vet ./pkg/... >/dev/null 2>&1 || true
  3. Run the existing tests for every package that could notice (at least the packages you touched and cmd/sysl,
     pkg/parse, pkg/sysl): go test -vet=off -count=1 ./pkg/<...>/... ./cmd/...   — they must pass exactly as they do
     without your change (a few tests need the network and fail in this sandbox with or without your change — ignore
     those, but list them). Then the whole suite once: go test -vet=off -count=1 ./... 2>&1 | grep -v '^ok\\|no test files'
     and compare with the same command on a pristine checkout. Do NOT use `git stash` for that (the stash is shared by all worktrees of /repo and other people work in parallel): make a second pristine worktree (git -C /repo worktree add --detach /tmp/mut_{PID}_{K}_pristine HEAD), run there, and remove it afterwards.
  4. Write a demonstration: a Go test file (e.g. pkg/<pkg>/mutdemo_test.go, package-internal or external as needed) or a
     small Go program under cmd/mutdemo/ that exercises the public behaviour the property talks about and FAILS (test
     failure / non-zero exit) with your change and PASSES without it. It must not depend on timing luck: if it needs a
     particular interleaving, force it (channels, a custom reader, GOMAXPROCS, repetition with a deterministic check).
  5. Save to /root/seedout/{PID}_{K}_<k>/ :
        patch.diff   = `git diff -- . ':(exclude)**/mutdemo_test.go' ':(exclude)cmd/mutdemo'` (the source change ONLY)
        demo/        = the demonstration file(s) with their path inside the repository preserved (e.g. demo/pkg/parse/mutdemo_test.go)
        demo.sh      = a script taking the checkout directory as $1 that copies demo/ into it, runs the demonstration and
                       exits 0 when it passes / non-zero when it fails (include the go env exports)
        meta.json    = {"property":"{PID}","summary":"<one sentence: what was changed>","breaks":"<which clause of the
                       property fails and how>","needs_to_manifest":"<the specific input / sequence / interleaving /
                       fault needed>","files_changed":[...],"tests_run":"<commands>","suite_result":"<e.g. all packages
                       ok except network-only X,Y which fail on pristine too>","demo_with_change":"fails: <message>",
                       "demo_without_change":"passes"}
  6. Revert the worktree to pristine (git checkout -- . ; remove the demo files) before the next change.

When done: git -C /repo worktree remove --force /tmp/mut_{PID}_{K}. Leave nothing else in /tmp.
FINAL REPORT (≤ 200 words): for each change the directory, one line on what it does and what it needs to manifest, and
the evidence that suite passes / demo fails with / demo passes without.
'''
for l in open(os.path.join(VERIF, 'properties.jsonl')):
    p = json.loads(l)
    files = ', '.join(p['anchors'].get('files', []))
    for k, n in [(r, 2) for r in ROUNDS]:
        extra = ''
        if k != 'a' and AVOID.get(p['id']):
            extra = '\nAn earlier round already produced these regressions for this property — yours must differ from them in code site AND in kind:\n' + ''.join('  * %s\n' % a for a in AVOID[p['id']])
        s = (T.replace('{PID}', p['id']).replace('{K}', k).replace('{N}', str(n)).replace('{TITLE}', p['title'])
              .replace('{STATEMENT}', p['statement']).replace('{QUANT}', p['quantifier']['text']).replace('{FILES}', files).replace('YOUR TASK:', extra + '\nYOUR TASK:' if extra else 'YOUR TASK:'))
        open(os.path.join(OUT, '%s_%s.txt' % (p['id'], k)), 'w').write(s)
print('written', len(os.listdir(OUT)), 'task files to', OUT)
