CFG = dict(
    gen=['SeqShape'],
    prop_file='Properties/C13.v',
    coq_extra=['Seq/Run.v', 'Seq/SeqShapeProps.v'],
    harness='c13',
    trusted=[
        'labels and payload texts are outside the model: FormatReturnParam is only observed as "formatted payload empty or not" per return statement (asked of the real function by the harness), endpoint/app labels, titles, note texts, indentation and the group boxes are not modelled (group boxes are judged by the Go oracle only)',
        'the SeqShape translator decides what visitor.go says about the two lookups, the in-progress branch, MakeAgent, the statement switch and the isLastStmt / alt rules',
        'the PlantUML-sequence reader of the harness (line oriented, rejects any line it does not understand) and the builder that turns an abstract module into *sysl.Module (protobuf built directly; the Sysl parser is not on this path)',
    ],
    assumptions=['one call of sequencediagram.GenerateSequenceDiag per case (the per-application loop of DoConstructSequenceDiagrams and its format strings are not modelled)'],
)
TEXT = dict(
    level='PLACEHOLDER',
    note='PLACEHOLDER',
    technique='Coq proof over a transliterated visitor/writer model + regenerated shape table + differential runs on random call graphs',
)
