CFG = dict(
    gen=['RelmodShape'],
    prop_file='Properties/C17.v',
    coq_extra=['Relmod/Run.v'],
    harness='c17',
    trusted=[
        'placeholder',
    ],
    assumptions=[],
)
TEXT = dict(
    level='placeholder',
    note='placeholder',
    technique='Coq proof over row model + regenerated shape table + differential census of compiled modules',
)
