CFG = dict(
    gen=['ImportRules'],
    prop_file='Properties/C05.v',
    coq_extra=['Imports/Run.v'],
    harness='c05',
    timeout={'quick': 600, 'thorough': 3000},
    trusted=[
        'the model has two yield points per collectSpecs goroutine (the mutex-protected claim, the completion of its read); that nothing else in collectSpecs touches shared state is what the ImportRules translator checks on the source (lookup and insert under one Lock/Unlock, fi.imports written before the fan-out), the Go memory model / sync.Mutex / errgroup are trusted',
        'import-statement text -> canonical index (ANTLR pre-parse of the import lines, filepath.Join in EnterImport_stmt, cleanImportFilename) is not modelled: the graph over canonical indices is the model\'s input; the harness generates relative / rooted / redundant spellings and checks on the real code that they reach one file (oracle clause wrong-path / double-read)',
        'the harness decides that the real collection has come to rest by inspecting goroutine stacks (every parse/errgroup goroutine parked in the gate or in WaitGroup.Wait)',
    ],
    assumptions=['reads are the only blocking operations of the collection; the retriever returns the same content for a path whenever it is asked'],
)
TEXT = dict(
    level='TODO',
    note='TODO',
    technique='Coq proof over a transition-system model of the concurrent import collector + regenerated rule table + lock-step schedule replay through the real parser',
)
