CFG = dict(
    gen=['IntsShape'],
    prop_file='Properties/C14.v',
    coq_extra=['Ints/Run.v'],
    harness='c14',
    trusted=[
        'the id <-> name table, the statement projection (Cond/Loop/LoopN/Foreach/Group -> Block, Action/Ret -> Other) and the PlantUML arrow parser are in the harness',
        'the IntsShape translator decides what counts as a guard / AddCall / FinalApps append / WalkPassthrough statement of a handler, and compares expressions in go/types.ExprString spelling',
        'protobuf getters, syslutil.StrSet / HasPattern / GetAppName and sort.Strings are taken to do what their names say (nil-safety of the getters is modelled: an undefined app or endpoint is not human / not hidden, the call is recorded)',
        'the EPA (endpoint analysis) view, package boxes of the clustered view, mixin arrows and the "system" view are judged by the Go oracle only (EPA) or not at all; they are not in the Coq model',
    ],
    assumptions=[
        'Go stack exhaustion is modelled as OutOfFuel of a recursion-depth counter; "terminates" = the recursion depth is bounded by the number of call targets written in the module',
        'the collector endpoint ".. * <- *" of a listed app is not a source of calls (the three passes skip it by name)',
    ],
)
TEXT = dict(
    level='Theorems in Coq over a transliteration of MakeBuilderfromStmt (seed / callers / indirect passes, ProcessCalls over every statement kind, the recursive pass-through walk, the de-duplicated dependency list) and of the arrow loop of DrawIntsView, for all modules, listings, exclude and pass-through sets: (1) termination - the current walk never exceeds a recursion depth of 1 + the number of call targets in the module, cycles included, whereas the walk as written before fix C14-1 exhausts any stack on a pass-through 2-cycle (proved for every fuel), and the guard changes no outcome where the old walk terminated (same DepsOut, same FinalApps as lists, same panic); (2) soundness - every dependency and every drawn arrow is backed by a call statement of the source app to the target app at some nesting depth and touches no excluded app (false before fix C14-2 for an app both listed and excluded: refutation proved); (3) completeness - every call of a listed, defined, non-human, non-excluded app to a non-excluded, non-human app and non-hidden endpoint is in the list and, if the target differs, drawn as a direct arrow; no dependency and no ordered app pair appears twice. The handlers of the model are proved equal to the interpretation of the statement lists that the translator re-reads from ints_builder.go on every run (guards in source order, seed filter, pass-through guard, ProcessCalls arms, de-duplication key). Tied to the code by running the real MakeBuilderfromStmt and GenerateIntegrations (plain, clustered, EPA) on ~900 (quick) / ~18 000 (thorough) random models and comparing DepsOut, FinalApps and the parsed arrows of the plain and clustered diagrams with the model inside Coq; a Go oracle judges termination (child process), soundness and completeness of list and arrows directly on the statement trees, for all three views.',
    note='Trusted: Coq kernel + vm_compute, the IntsShape translator, the harness (name table, arrow parser). The EPA view is judged by the Go oracle only; package boxes, mixin arrows, the "system" view, labels and colours are outside the model. Calls to undefined apps / endpoints go through nil-safe getters and are recorded like any other; the model builder has no Panic outcome left (C14_never_panics) and the oracle reports any panic of the real builder or of a view. Completeness is proved for listed apps (the property\'s clause); callers of seeds and calls among the final apps are in the model and compared, not separately specified. Stack exhaustion is modelled as fuel.',
    technique='Coq proof over builder + renderer model, regenerated handler statement lists, differential runs on random call graphs with pass-through cycles',
)
