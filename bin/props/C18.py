CFG = dict(
    gen=['ChrootOps'],
    prop_file='Properties/C18.v',
    coq_extra=['Chroot/Run.v', 'Chroot/Import.v'],
    harness='c18',
    trusted=[
        "Go's path/filepath (Clean/Join/Rel/Abs on Unix) is modelled in Chroot/Path.v, not verified; the model is tied by exhaustive small-alphabet correspondence through the real ChrootFs over a recording afero.Fs",
        'the string-to-segment splitting (which spellings are "", ".", "..") is done by the harness',
        'afero and the inner filesystem; lexical confinement only: symlinks inside the root and the remote-import cache are not modelled',
    ],
    assumptions=['paths are compared lexically (segment-wise) after cleaning, as the property spells them; Unix separator'],
)
TEXT = dict(
    level='Theorems in Coq over a segment-level model of filepath.Clean/Join/Rel: openAllowed accepts exactly the paths under the cleaned root (all roots, all spellings, unbounded length); every afero.Fs operation of the CURRENT chroot_fs.go (operation table regenerated from the source on every run) hands the inner filesystem only such paths; inside paths keep working and resolve to one file however spelled. The model is tied to the code by running the real ChrootFs over a recording filesystem on every spelling up to 4 (quick) / 6 (thorough) segments over the property\'s alphabet, for every method and both Rename arguments, and comparing with the model inside Coq. Import statements (relative and rooted spellings, from any directory) and the module argument are covered end to end: theorems import_confined / import_inside_served / import_same_file over the listener\'s name construction, tied by driving loader.LoadSyslModule over a recording filesystem on ~700 (quick) / 8 000 (thorough) random spellings.',
    note='Trusted: Coq kernel + vm_compute; the go/ast translator that classifies each path argument as Checked/JoinedOnly/Raw; the harness. path/filepath is modelled, not verified (tied by exhaustive correspondence). Lexical confinement only (no symlinks, no remote-import cache).  Remote ("//host/...") imports are outside the model (they need the network and a git cache outside afero).',
    technique='Coq proof over path model + regenerated operation table + exhaustive small-alphabet correspondence',
)
