CFG = dict(
    gen=['Guards', 'ImportRules'],
    prop_file='Properties/C01.v',
    coq_extra=['Total/RunC01.v'],
    harness='c01',
    sysl_binary=True,
    trusted=[
        'the ANTLR 4 Go runtime and the generated lexer/parser are not modelled: their behaviour on a file is an arbitrary value (ok / error / panic) of the pipeline model; that they TERMINATE is assumed and only bounded by the harness deadline (20 s per case)',
        'stages the repository does not run under a recover (file reader, foreign-format importers) are assumed not to panic - an explicit hypothesis of C01_never_crashes, monitored by the harness on every case; lint + postProcess run under a recover since 93fe1b6 (g_post in the Guards table)',
        'the Guards translator decides what counts as "runs under a deferred recover that sets the named error result" and "error tested and returned"',
    ],
    assumptions=['termination of the generated parser is observed (deadline), not proved'],
)
TEXT = dict(
    level='Theorems in Coq over a stage model of Parser.Parse/collectSpecs/parseSpecs/main2: for every import closure and every behaviour (ok/error/panic) of the generated parser and of both listener walks, the guard structure of the CURRENT source (Gen/Guards.v, regenerated each run: which stages run under a recover, whether each stage error is tested and returned, the exit codes) never lets a panic out, maps every error to status 1 or 2, and yields a model only if every stage of every file succeeded; plus an exact, proved predictor of which field declarations make the listener panic (all primitives x size/array specs x numbers of any length). Tied to the code by compiling ~2 000 (quick) / ~20 000 (thorough) hostile inputs with the real parser in a worker subprocess - crash-family corpus, bounded-exhaustive field forms, token/line/byte mutants of the 422-file corpus, generated odd specs, import closures, random bytes, and the real binary for exit statuses - judged directly (never a panic, hang or zero status on error) and compared in Coq with the predictor and the pipeline model.',
    note='Trusted: Coq kernel + vm_compute, the Guards translator, the harness. Not modelled: ANTLR runtime and generated parser (termination assumed, bounded by a deadline), reader, importers (assumed not to panic; monitored); lint/postProcess behaviour is arbitrary (ok/error/panic) and guarded. The two hand-written loops on the compile path are proved to end and re-exported here: C01_indent_loop_terminates / C01_lexer_filter_terminates (Front/Indent, built for C03) and C01_collector_terminates (Imports/Faults, built for C05/C06: every schedule, every fault set, every finite import graph).',
    technique='Coq proof over pipeline stage model + regenerated guard table + differential compile of hostile inputs',
)
