CFG = dict(
    gen=['ExportTables'],
    prop_file='Properties/C12.v',
    coq_extra=['Export/Run.v'],
    harness='c12',
    timeout=dict(quick=600, thorough=3000),
    trusted=[],
    assumptions=[],
)
TEXT = dict(level='', note='', technique='')
