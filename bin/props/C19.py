CFG = dict(
    gen=['MapRanges', 'ExportTables', 'ConcShape', 'DbTables', 'ImportRules'],
    prop_file='Properties/C19.v',
    coq_extra=['Determ/Run.v'],
    harness='c19',
    sysl_binary=True,
    timeout={'quick': 900, 'thorough': 3000},
    trusted=[
        'the MapRanges translator (go/ast + go/types, offline source importer): which `range` statements are over maps and the syntactic class of each loop body; calls in expression position are taken to be effect-free and error exits are ignored',
        'the hand-written review list Determ/Classified.v `reviewed` (28 loops whose shape alone is not order-independent, each with its reason)',
        'the Go runtime re-randomises map iteration per loop (the repetition oracle relies on it); protobuf-go output is stable within one binary',
        'generators without a Gallina model of their whole output (all of them: only the loop shapes are modelled) are covered by the classification of their map ranges, by the order correspondence at the observed sites, and by repetition',
    ],
    assumptions=[
        'output = the bytes a command writes to its output files / stdout; log lines and which of several errors is reported first are not output',
        'result maps file-name -> content are compared as sets of files (the CLI writes one file per entry)',
    ],
)
TEXT = dict(
    level='Theorems in Coq over a model of Go map iteration (an oracle returning any permutation): a sorted permutation is unique (byte-wise string order proved total, transitive, antisymmetric), so the collect-sort-emit loop shape gives the same output under any two oracles, for every filter and payload; map-to-map loops give the same destination map provided no two entries write one key (and the proviso is necessary: refuted otherwise); emission in loop order is refuted for every map with two keys; sorting by a non-injective key is refuted. Every `range` over a map in the generator packages of the CURRENT source is classified by a translator on every run (Gen.MapRanges, 103 loops; 127 before the repairs) and the obligations state that the loops that are not order-independent by shape are exactly 28 reviewed ones (compared as multisets of function+class), that the 24 functions the property relies on keep their collect-then-sort loops, and that no code takes an unordered slice out of a string set. Per generator, from the models of the sub-tasks that own them (imported, not copied): OpenAPI3 export, module post-processing, relational model (relmod.Normalize, through a re-reading wrapper) give equal results under any two permuting oracles, the database depth pass gives equal depths (partial), import collection is schedule-independent; Ints / Seq / DataModel models have no oracle parameter and are covered by classification + repetition only. Tied to the code by (a) comparing inside Coq the order observed in real output at 7 sites with the order the model computes from the class in the table, and (b) exploration in support: 39 generator/option sets run 6x (quick) / 30x (thorough) in-process (arr.ai-backed ones 2x / 12x, spanner export and OpenAPI3 import thorough only) and the CLI binary as subprocesses on generated models with 2-9 entries per map, outputs compared byte for byte; plus a second generation from the same parsed module in one process (state leaking into the model) and two-file models with equal line numbers (sort-key ties).',
    note='Trusted: Coq kernel + vm_compute; the MapRanges translator and its effect heuristics (expression-position calls assumed pure); the reviewed list; the harness. The proofs are about loop shapes, not about whole generators: a generator is covered when all its map ranges are classified order-independent or reviewed. Non-determinism that does not come from a Go map range (arr.ai transform scripts behind `export -f proto|spanner` and `import` of OpenAPI3, goroutines) is covered by repetition only. Error paths (which error is returned first) are outside the model.',
    technique='Coq proof over loop-shape model + regenerated map-range classification + repeated-run byte comparison',
)
