CFG = dict(
    gen=['LexerTables'],
    prop_file='Properties/C03.v',
    coq_extra=['Front/Run.v'],
    harness='c03',
    trusted=[
        'the ANTLR runtime and the generated lexer (how a text is cut into raw tokens, in which lexer mode) are not modelled; the model starts at the raw token stream BaseLexer.NextToken delivers and is tied to the real SyslLexer.NextToken output token by token',
        'parser + listener are taken to be a function of the default-channel token sequence; that a layout change does not alter how the text of a line is cut into tokens is not proved but checked on every case by the metamorphic oracle (compile both texts with the real parser, compare modules and acceptance)',
        'the LexerTables translator decides what Gen/LexerTables.v says about rule actions, the bypass list, calcSpaces weights and the statement sequence of getNextToken',
    ],
    assumptions=['layout transformations are applied to whole lines as the lexer sees them (a line whose first column starts a token); whole-line comments starting in the first column only where the default lexer mode is active'],
)
TEXT = dict(
    level='placeholder',
    note='placeholder',
    technique='Coq proof over lexer indentation model + regenerated lexer tables + token-level and metamorphic correspondence',
)
