CFG = dict(
    gen=['LexerTables'],
    prop_file='Properties/C03.v',
    coq_extra=['Front/Run.v'],
    harness='c03',
    timeout=dict(quick=900, thorough=3000),
    trusted=[
        'the ANTLR runtime and the generated lexer (how a text is cut into raw tokens, in which lexer mode) are not modelled; the model starts at the raw token stream BaseLexer.NextToken delivers and is tied to the real SyslLexer.NextToken output token by token',
        'parser + listener are taken to be a function of the default-channel token sequence; that a layout change leaves the cutting of each line into tokens unchanged is not proved but checked on every case by the metamorphic oracle (both texts compiled with the real parser; modules compared after clearing source contexts; acceptance compared)',
        'the LexerTables translator decides what Gen/LexerTables.v says about rule actions, the bypass list, calcSpaces weights and the statement sequence of getNextToken',
    ],
    assumptions=['layout transformations are applied to whole lines as the lexer sees them (a line in whose first column a token starts - continuation lines of multi-line tokens are left alone); whole-line comments starting in the first column only where the default lexer mode is active (inside view bodies `#` in column 0 is not a comment for the grammar)'],
)
TEXT = dict(
    level='Theorems in Coq over a transliteration of getNextToken (indent stack, spaces, gotNewLine, synthetic INDENT/DEDENT) and calcSpaces, for all token streams and all lexer tables: the synthesis loop never pops an empty stack and ends within stack-height+1 rounds; multiplying the line-leading whitespace by any k>0 (inner whitespace untouched), replacing any 4-space unit of a whitespace token by a tab at any offset (also spaces-then-tab) or back, and inserting any number of blank-line / whole-line-comment tokens at any set of line boundaries (after ANY line-ending token; before the first line when it starts in column 0) leave the default-channel token sequence incl. INDENT/DEDENT unchanged - and so does every composition of these, applied or undone. The tables (rule actions, bypass list, comment token, tab weight 4, statement sequence of getNextToken and its helpers) are regenerated from sysl_lexer.go / lexer_impl.go on every run and the side conditions (every layout token kind is a bypassed line end; tab = 4 spaces) are re-proved against them. Tied to the code token by token: the real SyslLexer.NextToken output (hidden tokens included) of generated specs, corpus files, their re-laid-out variants and all whitespace strings up to length 6 (quick) / 9 (thorough) is compared in Coq with the model. The property itself (equal compiled models, equal acceptance) is judged on every (text, layout script) pair by compiling both with the real parser.',
    note='Trusted: Coq kernel + vm_compute, the LexerTables translator, the harness. Not modelled: ANTLR tokenisation of a line (incl. the lexer predicates that read `spaces`), parser and listener - the step from "same default-channel tokens" to "same model" is covered only by the metamorphic oracle on sampled texts, not proved. Known finding: the indentation of the very first line of a file is ignored unless a blank/comment line precedes it. Design items not built: Blocks.v (forest view of INDENT/DEDENT); thorough tier samples boundaries/subsets instead of enumerating every corpus file x every boundary.',
    technique='Coq proof over lexer indentation model + regenerated lexer tables + token-level and metamorphic correspondence',
)
