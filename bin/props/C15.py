CFG = dict(
    gen=['DmShape'],
    prop_file='Properties/C15.v',
    coq_extra=['DataModel/Run.v'],
    harness='c15',
    trusted=[
        'the projection of *sysl.Module into the model input (harness): names as lists of \'.\'-free chunks (what strings.Split(s, ".") returns), application names as single chunks, entities and fields presented in sort.Strings order (the model does not sort them; every theorem holds for any order)',
        'the PlantUML reader of the harness (class / field / relationship lines back into items); enum item lines, title and header are skipped',
        'the parser (pkg/parse) is used to build modules and is not part of this model; DmShape translator: classifies the UniqueVarForAppName arguments, the Count expressions and the per-kind dispatch of datamodelview.go',
    ],
    assumptions=[
        'application names contain no "." (true of parser output unless %2E escapes are used; not generated)',
        'a reference "refers to" the type App.Path where App is the application named in the reference or else the referring type\'s own application; for a table column reference Table.column the last path element is the column',
    ],
)
TEXT = dict(
    level='Theorems in Coq over a statement-by-statement model of datamodelview.go (UniqueVarForAppName, getNames, DrawRelation, DrawPrimitive, DrawTuple, DrawEnum header, DrawRelationship, GenerateDataView) parameterised by a shape table regenerated from the source on every run (how each Draw* function builds its alias key, the Count expressions, target check, dispatch order). Proved for all modules, both views, unbounded size: (blocks) the diagram is exactly, for every covered table / tuple / primitive alias / enum in order, its class header, one line per field, the closing brace, then relationship lines only; (classes, partial) tables, tuples and enums with different App.Type names get different aliases; (edges, partial) between any two allocated symbols the number of relationship lines equals the number of fields whose reference the code resolves to that pair - a second reference is a second line, nothing extra - and that resolution is the plain one for one-element paths. Proved false of the current code, with witnesses: two primitive aliases of one short name share an alias; a reference to a primitive alias ends at an alias that declares no class; a nested-name reference (A.B) to a declared type gets no line; a collection-typed table column is listed as no_primitive. The model is tied to the code by compiling generated Sysl text with the real parser, drawing it with the real GenerateDataModels (whole-model view via --direct, per-application view via a project) and comparing the parsed PlantUML item by item with the model inside Coq; an independent Go census of the compiled type graph judges the property itself.',
    note='Trusted: Coq kernel + vm_compute; the DmShape translator; the harness projection (names as chunk lists, sort.Strings order supplied by the harness) and its PlantUML reader. Partial: edge exactness is stated relative to the code\'s own reference resolution (tuple_parts / rel_parts) with a lemma that it is the plain resolution for one-element paths; field labels of tuples are characterised by lemmas (ref_label_names_path), not by one closed statement. Not modelled: enum item lines, cardinality labels beyond transliteration (not part of the property), title/header, application names containing ".", in-place (anonymous) tuple fields, reference columns without a column part (DrawRelation indexes Path[1]: crash site of C20). Known findings (primitive-alias aliases, nested-name references, collection columns of tables) are reported by the oracle under narrow keys and reproduced by the model.',
    technique='Coq proof over a transliterated model + regenerated shape table + differential correspondence through the real parser and diagram generator',
)
