CFG = dict(
    gen=['DmShape'],
    prop_file='Properties/C15.v',
    coq_extra=['DataModel/Run.v'],
    harness='c15',
    trusted=[],
    assumptions=[],
)
TEXT = dict(level='wip', note='wip', technique='Coq proof over a transliterated model + regenerated shape table + correspondence')
