CFG = dict(
    gen=['EvalTables'],
    prop_file='Properties/C10.v',
    coq_extra=['Eval/Run.v'],
    harness='c10',
    trusted=['TODO'],
    assumptions=[],
)
TEXT = dict(level='TODO', note='TODO', technique='TODO')
