"""Per-property configuration of bin/vcheck."""

COMMON_TRUSTED = [
    'Coq 8.16.1 kernel incl. vm_compute (used to evaluate models on harness cases and for finite reflexivity lemmas); native_compute is not used; no extraction',
    'the development declares no axioms (hygiene gate greps every run); Print Assumptions output is recorded below',
    'table translators /verif/translate (Go, go/ast): they decide what theories/Gen/*.v say the source says',
    'correspondence harness /verif/harness (generators, projectors, Gallina printer) and the driver\'s parsing of `Print M`',
]

PROPS = {
    'C18': dict(
        gen=['ChrootOps'],
        prop_file='Properties/C18.v',
        coq_extra=['Chroot/Run.v'],
        harness='c18',
        trusted=[
            "Go's path/filepath (Clean/Join/Rel/Abs on Unix) is modelled in Chroot/Path.v, not verified; the model is tied by exhaustive small-alphabet correspondence through the real ChrootFs over a recording afero.Fs",
            'the string-to-segment splitting (which spellings are "", ".", "..") is done by the harness',
            'afero and the inner filesystem; lexical confinement only: symlinks inside the root and the remote-import cache are not modelled',
        ],
        assumptions=['paths are compared lexically (segment-wise) after cleaning, as the property spells them; Unix separator'],
    ),
}
