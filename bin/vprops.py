"""Per-property configuration of bin/vcheck: one file per property under bin/props/<ID>.py defining CFG and TEXT."""
import os, glob, importlib.machinery, importlib.util

COMMON_TRUSTED = [
    'Coq 8.16.1 kernel incl. vm_compute (used to evaluate models on harness cases and for finite reflexivity lemmas); native_compute is not used; no extraction',
    'the development declares no axioms (hygiene gate greps every run); Print Assumptions output is recorded below',
    'table translators /verif/translate (Go, go/ast): they decide what theories/Gen/*.v say the source says',
    'correspondence harness /verif/harness (generators, projectors, Gallina printer) and the driver\'s parsing of `Print M`',
]

PROPS, TEXT = {}, {}
for _p in sorted(glob.glob(os.path.join(os.path.dirname(os.path.abspath(__file__)), 'props', 'C*.py'))):
    _id = os.path.basename(_p)[:-3]
    _l = importlib.machinery.SourceFileLoader('vprop_' + _id, _p)
    _s = importlib.util.spec_from_loader('vprop_' + _id, _l)
    _m = importlib.util.module_from_spec(_s)
    _l.exec_module(_m)
    if getattr(_m, 'ENABLED', True):
        PROPS[_id] = _m.CFG
        TEXT[_id] = _m.TEXT

# properties whose check has been accepted by the main session (one id per line); MANIFEST.json and bin/setup use only these
CLAIMED = [l.strip() for l in open(os.path.join(os.path.dirname(os.path.abspath(__file__)), 'claimed.txt')) if l.strip() and not l.startswith('#')]
