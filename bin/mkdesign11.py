#!/usr/bin/env python3
"""Regenerates DESIGN.md §11 ("As built") from notes/*.md, known-findings.json, seeded/*/meta.json and
bin/design11_static.md, between the markers <!-- BEGIN §11 --> and <!-- END §11 -->."""
import os, json, glob, subprocess, re
VERIF = os.path.dirname(os.path.dirname(os.path.abspath(__file__)))
os.chdir(VERIF)
static = open('bin/design11_static.md').read()
parts = dict(re.findall(r'<!-- PART (\w+) -->\n(.*?)(?=<!-- PART |\Z)', static, re.S))
claimed = [l.strip() for l in open('bin/claimed.txt') if l.strip()]
ids = [json.loads(l)['id'] for l in open('properties.jsonl')]
out = ['<!-- BEGIN §11 -->', '## 11. As built', '', parts.get('intro', '').strip(), '']
out += ['### 11.1 The framework as it runs', '', parts.get('framework', '').strip(), '']

# 11.2 per property
out += ['### 11.2 Per property: model, theorems, tie, findings', '',
        'Claimed in MANIFEST.json: ' + ', '.join(i for i in ids if i in claimed) + '. '
        + ('Not claimed (see MANIFEST `not_applicable`): ' + ', '.join(i for i in ids if i not in claimed) + '.' if any(i not in claimed for i in ids) else 'All twenty are claimed.'), '']
for i in ids:
    p = 'notes/%s.md' % i
    if os.path.exists(p):
        t = open(p).read().strip()
        t = re.sub(r'^#+\s*', '#### ', t, count=1) if t.startswith('#') else '#### %s — as built\n\n%s' % (i, t)
        t = re.sub(r'^(#{1,3}) ', '##### ', t[0:0]) + t  # keep
        # demote any further headings below level 4
        lines = t.split('\n')
        for k in range(1, len(lines)):
            m = re.match(r'^(#+)\s', lines[k])
            if m and len(m.group(1)) < 5:
                lines[k] = '#####' + lines[k][len(m.group(1)):]
        out += ['\n'.join(lines), '']
    else:
        out += ['#### %s — as built' % i, '', '(no check built; see MANIFEST `not_applicable`)', '']

# 11.3 defects
kf = json.load(open('known-findings.json'))
out += ['### 11.3 Genuine defects: repaired (`fix:` commits in /repo) and listed (known findings)', '', parts.get('defects', '').strip(), '',
        '| property | status | commit / key | what |', '|---|---|---|---|']
for e in sorted(kf, key=lambda e: (e['property'], e['status'] != 'fixed', e.get('key', ''))):
    what = e['what'].replace('|', '\\|')
    what = re.sub(r'^fixed: property=\S+ \S+ ', '', what)
    out.append('| %s | %s | %s | %s |' % (e['property'], e['status'], ('`%s` ' % e['commit'] if e.get('commit') else '') + '`%s`' % e.get('key', ''), what[:400]))
out.append('')

# 11.4 false alarms
out += ['### 11.4 False alarms met while building, and how each check was corrected', '', parts.get('falsealarms', '').strip(), '']

# 11.5 seeded
out += ['### 11.5 Seeded changes: which check catches which', '', parts.get('seeded', '').strip(), '',
        '| seeded change | property | what was changed | needs to manifest | confirmed (suite passes, demo fails with / passes without) | check result |', '|---|---|---|---|---|---|']
for d in sorted(glob.glob('seeded/*/meta.json')):
    m = json.load(open(d))
    name = os.path.basename(os.path.dirname(d))
    conf = m.get('confirmed_by_main_session', {})
    ok = conf and all(conf.get(k) for k in ('applies', 'compiles', 'pinned_suite_passes', 'demo_fails_with_change', 'demo_passes_without'))
    cr = m.get('check_result', {})
    crs = '; '.join('%s: %s' % (k, ('caught, replay with failing input' if v.get('with_failing_input') else 'caught (no-failing-input-found)') if v.get('caught') else 'MISSED') for k, v in cr.items()) or 'not run yet'
    if m.get('history'):
        crs += ' — ' + m['history']
    out.append('| `%s` | %s | %s | %s | %s | %s |' % (name, m.get('property'), str(m.get('summary', '')).replace('|', '\\|')[:260], str(m.get('needs_to_manifest', '')).replace('|', '\\|')[:260], 'yes' if ok else 'NO', crs))
out.append('')

out += ['### 11.6 Trusted base as measured', '', parts.get('trusted', '').strip(), '']
out += ['### 11.7 Interactions between properties met during the build', '', parts.get('interactions', '').strip(), '', '<!-- END §11 -->']
text = '\n'.join(out) + '\n'
s = open('DESIGN.md').read()
if '<!-- BEGIN §11 -->' in s:
    s = re.sub(r'<!-- BEGIN §11 -->.*?<!-- END §11 -->\n', lambda _: text, s, flags=re.S)
else:
    s = s.replace('## Appendix A — feasibility spike (indentation model), kept as the template', text + '\n## Appendix A — feasibility spike (indentation model), kept as the template', 1)
open('DESIGN.md', 'w').write(s)
print('DESIGN.md §11 regenerated: %d lines' % len(text.split('\n')))
