#!/usr/bin/env python3
"""Writes /root/deepen/<ID>.txt (task text for a builder sub-task that deepens an accepted check) from bin/deepen_prompt.txt."""
import os, sys
VERIF = os.path.dirname(os.path.dirname(os.path.abspath(__file__)))
T = open(os.path.join(VERIF, 'bin', 'deepen_prompt.txt')).read()
G = {
 'C18': dict(cmd='c18', hours=4, goals="""
 1. BYTE-LEVEL PATH MODEL. Today paths are lists of segments and the harness does the string->segment splitting (trusted).
    Add `Chroot/Bytes.v` (definitions only): Go's Unix `filepath.Clean` transliterated on `list ascii` / `string` exactly as
    written in the Go standard library (read $(go env GOROOT)/src/path/filepath/path.go: the `lazybuf` loop with `r`, `dotdot`,
    `rooted`, the back-tracking to the previous separator, the final "." for an empty result), `filepath.Join` (skip leading
    empty elements, join with "/", Clean), `filepath.Abs` on an absolute path (= Clean), `filepath.Rel` as written (two-pointer
    scan over the cleaned strings) and `ChrootFs.join` / `openAllowed` (`rel != "" && strings.Split(rel, "/")[0] == ".."`) /
    `wrapCall` / `Rename` over strings. In `Chroot/BytesProps.v` prove, for ALL byte strings: (a) `go_clean s` for rooted `s`
    equals `render (clean_abs (split s))` — i.e. the existing segment model is a correct abstraction (names are now byte
    strings without '/'); (b) Clean is idempotent and its result has no empty / "." / ".." segment when rooted; (c) the
    string-level `allowed` agrees with the segment-level one; (d) the property itself at byte level: for every absolute
    root string and every name string, the path handed to the inner filesystem by any Checked operation is either the
    cleaned root or starts with cleaned-root ++ "/" (root "/" treated exactly), and a name without ".." segments is never
    refused. Export them in Properties/C18.v. The harness must now print RAW strings (add spellings with "//", a trailing
    "/", "...", "..x", "x..", names with spaces, dots, backslashes, bytes >= 0x80, very long segments, an un-clean root such
    as "/r/./s", "/r//s/", "/r/s/..", root "/") and compare the exact inner path STRING with the byte-level model in Coq.
 2. RELATIVE ROOT. `NewChrootFs` with a relative root calls `filepath.Abs(root)` (= Join(cwd, root)); model it with the
    working directory as a parameter, state confinement relative to the resulting root, drive it in the harness (os.Chdir in a
    worker or pass an absolute cwd explicitly, whichever the code allows).
 3. Every other place in /repo where a user-supplied path reaches a filesystem on the compile path (pkg/loader
    ConfigureProject / projectRoot search, pkg/parse import name construction for local files incl. the `@version` suffix
    and Windows-style separators in import statements): extend `Chroot/Import.v` + the import stream where the notes list
    it as not covered, with theorems of the same shape (import_confined ...).
"""),
 'C04': dict(cmd='c04', hours=4, goals="""
 1. MORE MEMBER KINDS IN THE MERGE MODEL. notes/C04.md lists as not covered: views, unions, aliases, mixins, `!wrap`,
    subscriptions, endpoint parameters, path/query parameters, nested statements, docstrings / body annotations (`@k = v`
    lines inside an application, type, endpoint), field re-declaration. Add, in this order, keeping the check green after
    each: (a) `@name = value` annotation lines on applications / types / endpoints spread over several blocks (string and
    array values; what mergeAttrs / addAttrWithPrecedence do when two blocks set the same name); (b) `!alias`, `!union`,
    `!enum` distributed over blocks and files (each declared once, but in different blocks / files / orders) and what the
    listener does when the SAME name is declared in two blocks (model it as the code does; if the second silently replaces
    the first, that is what the model says); (c) mixins `-|> App` and subscriptions `Pub -> Evt:` in re-opened blocks;
    (d) endpoint parameters, REST path variables with types and query parameters on re-opened REST paths; (e) nested
    statements (if/else, loops, one of) in endpoint bodies that are re-opened in a later block (are the statements
    appended? in which order?); (f) the same field name declared in two blocks of one type. For each, extend
    `merge_partition_invariant` (all partitions, all block orders that respect the property's side conditions, all file
    assignments) or prove `…_refuted` + the strongest `…_partial` and report the finding (narrow key).
 2. The generator already spells some type / enum / field / application names with %XX escapes (`spell`); make sure split
    declarations of such names appear in every stream (types, tables with ~pk, enums, REST) and that names differing only
    in escaping vs. literal spelling (`a%2Db` vs `a-b`) denote the same member.
 3. `.pb` / `.pb.json` files in the import closure next to `.sysl` files declaring the same application (the mergo path in
    pkg/parse): at least the Go oracle (split = joined) and, if time allows, the model.
"""),
 'C12': dict(cmd='c12', hours=4, goals="""
 (Round 3 already did goal 1 — table / union / json_map_key / cross-application kinds; see notes/C12.md "Deepen round 3".
 This is the second pass: start with 0, then goals 2 and 3.)
 0. (FIRST) PARAMETERS OF DECLARED TYPES AND THE CLI FORMAT MATRIX. (a) Non-body parameters — path (`/orders/{id <: OrderId}`),
    query (`?status={Status}` / `?status=Status`), header (`(trace <: TraceToken [~header])`) — whose type is a DECLARED type
    (alias, enum, tuple, table) rather than a primitive: the exported parameter must carry a schema that refers to that type
    (`$ref`), never the empty schema; add them to the export model (`C12_export_complete_params` over reference-typed
    parameters), the generator and the oracle, for both formats. (b) `sysl export` itself (cmd/sysl/cmd_export.go): the
    matrix `-f openapi3|openapi2|swagger` x output name `x.json|x.yaml|x.yml|no extension` x `--mode`/other flags through the
    REAL BINARY: the bytes written must be in the format the output name / flags ask for (a `.json` file parses as JSON,
    a `.yaml` file as YAML), decode to the same document as the library call, and one file per application where the
    command says so; make which struct field cmd_export.go hands to SerializeOutput in each branch a Gen fact.
 1. TYPE KINDS. notes/C12.md lists as not covered: `!table`, `!union`, nested / in-place type names, cross-application
    references (`App.Type`), json_map_key maps. Add them to the abstract model, the OpenAPI 3 export model and the Swagger
    type-output model (transliterating what pkg/exporter and pkg/syslwrapper really do for them), to the generator, and to
    the well-formedness / completeness oracle ("every type, field, endpoint, parameter and response of the model appears
    in the exported document with the right kind, and the document is valid"). Extend the complete_* theorems to them.
 2. RESPONSES NESTED in if/else, loops and one-of blocks; several return statements with the same status; RPC-style
    (non-REST) endpoints in an exported application (are they skipped? silently?); info attributes (version, description,
    host / basePath / env.N.url) — model what is read and emitted, judge in the oracle what the property demands.
 3. ROUND TRIP as an oracle clause where the property says so: export -> import (pkg/importer) -> compile -> compare the
    type/endpoint census with the original, for both formats, on the widened generator; every loss is either a listed known
    finding (narrow key) or a violation.
"""),
 'C14': dict(cmd='c14', hours=4, goals="""
 1. THE OTHER VIEWS IN COQ. notes/C14.md: only the plain view's arrow loop is modelled; EPA (`--epa`), clustered and system
    views are judged by the Go oracle only or not at all. Transliterate the rest of pkg/integrationdiagram/ints_view.go
    (`DrawIntsView` for EPA: endpoint-level nodes, state boxes, pattern labels; clustered: package boxes by attribute;
    `DrawSystemView`), parse the real PlantUML into the same abstract events, compare in Coq, and prove for EACH view the two
    halves of the property: every arrow drawn is backed by a call among the selected applications (soundness) and every such
    call is drawn (completeness), for all modules, exclude / pass-through sets.
 2. INPUT FEATURES not yet generated: mixins (an app's calls via mixed-in endpoints), pubsub (`<->` events and subscribers),
    `restrict_by`, `--filter` regex on output names, several project applications in one command run, calls inside deeply
    nested blocks mixed with one-of, call targets differing only by `::` namespace depth.
 3. `cmd_ints.go` plumbing: output-name templating (%(epname)), which views are generated for which project endpoints, and
    that one failing view does not silently drop the others.
"""),
 'C01': dict(cmd='c01', hours=4, goals="""
 1. PROCESS-KILLING SITES. The property says compilation "never kills the host process". Besides panics there are
    `logrus.Fatal*` / `log.Fatal*` / `os.Exit` calls reachable from `parse.Parser.Parse` (e.g. pkg/parse/linter.go recordApp /
    recordEndpoint call logrus.Fatal when the same location is recorded twice; pkg/importer/writer.go, grammar.go). Add a Gen
    table (translator over every non-test Go file of the packages on the compile path: pkg/parse, pkg/grammar, pkg/importer,
    pkg/syslutil, pkg/loader, pkg/pbutil, pkg/mod, pkg/env — compute the path from imports if you can) listing every such
    site with its enclosing function and the condition guarding it; model the linter's record graph (`graph.recordApp`,
    `recordEndpoint`, `recordMethod`, `recordAsCall`, keyed by lower-cased app name and "file:line:col" locations) in Coq and
    prove the Fatal branches unreachable under the invariant the parser really provides (each file of the closure is walked
    once, so locations are pairwise distinct per (file,line,col)) — and state that invariant as a theorem over the import
    model (flattenSpecs lists each index once: reuse Imports/). Generator: closures in which one file is reachable under several
    spellings (`./a.sysl`, `sub/../a.sysl`, `a.sysl`, `a@main`, upper/lower case on the same name, the same app re-opened in
    many files, app names differing only in case) so that a double walk would show as `died` in the worker.
 2. MORE OF THE LISTENER'S ABORT SITES IN THE PREDICTOR. The anchors list listener_impl.go panic/Assert/PanicOnError sites
    (…:328, 459, 500, 504, 536, 993, 1631, 1649, 1670, 1885, 2645, 2885-3019, utils.go:179-185). `FieldPanics.v` predicts the
    field-type ones exactly. Extend the exact predictor (model + `<->` theorem + bounded-exhaustive stream) to the others
    that grammatical input can reach (second `!wrap`, view literals / `ExitLiteral`, `return` payload forms, MustUnescape on a
    bad %-escape in every name position, enum values, array sizes), so that the correspondence checks "ParseError exactly
    when the model says Panic-under-recover, model otherwise" rather than only "no crash".
 3. Hang side: non-termination is only observed by a deadline. List every hand-written loop / recursion on the compile path
    (Gen table: `for` without a condition or with a condition not of the form i < n, recursive functions) and give each a
    termination theorem over a model or name it in the notes as not proved.
"""),
 'C02': dict(cmd='c02', hours=4, goals="""
 0. (FIRST) COLLECTOR BLOCKS. `.. * <- *:` blocks and what Parser.postProcess makes of them (pkg/parse/parse.go
    collectorPubSubCalls / applyAttributes: the attributes declared on a collector entry are applied to EVERY matching call
    statement of the application's endpoints, at any nesting depth — if/else, loops, for each, one of, groups — and however
    many times the same target/endpoint is called inside one block) are not modelled and not generated. Add them to `denote`
    (transliterate applyAttributes' recursion exactly, including its boolean accumulation), to the generator (the same call
    repeated 2-4 times inside one nested block, first match in a deeper sub-block, matches in sibling blocks and in different
    one-of choices, several collector entries hitting one call), to the Intent oracle (every matching call carries the
    collector's attributes; no other does) and to the correspondence; theorem `collector_applies_to_all_matches`.
 0b. DECLARATION ORDER AND LISTENER STATE. The listener keeps "current" maps between callbacks (`s.typemap`, `s.fieldname`,
    current type path, rest_* stacks); which of them are reset when a block ends is invisible unless a LATER declaration of
    another kind uses them. Generate, inside one application, every ordered pair (and some triples) of member kinds —
    `!type` / `!table` / `!enum` / `!alias` / `!union` / view / simple endpoint with and without parameter list / REST path
    with path variables typed `int`, `Type`, `Type.field`, `App.Type` / event / mixin / annotation — so that each kind is
    followed directly by each other kind; oracle: nothing undeclared appears and nothing declared is altered (a declared
    field keeps its type and tags; a type gets no field it did not declare). Model the resets as the code does them (Gen
    fact: which listener fields each Exit* handler clears) and prove `member_order_irrelevant` for the modelled kinds.
 1. notes/C02.md "Still missing": the GLOBAL equality `listen s = Some (canon s)` / `denote_canon` excludes REST endpoints and
    subscriptions. Extend `wf_sub`, `canon` and the proofs to REST trees (prefix / attribute stacks in closed form, path
    variables, query parameters, every HTTP verb) and to subscriptions (they write into the publisher's application; the
    grouping lemma needs a two-application form). Keep `canon spec = observed` checked on every case where it applies and
    report the share of cases it now covers.
 2. "Not modelled": views / transforms (at least their headers, parameter lists, return types and the expression tree shape
    that ends up in the protobuf), `!wrap`, collector blocks (`.. * <- *`) and what postProcess makes of them, in-place
    tuples. Add them to `denote`, the generator, the Intent oracle and the correspondence, construct by construct, check green
    after each.
 3. Multi-file specifications (imports; the same application continued in an imported file) through the same pipeline.
"""),
 'C03': dict(cmd='c03', hours=4, goals="""
 0. (FIRST) LAYOUT INSIDE MULTI-LINE CONSTRUCTS. The insertion transformations (blank line, whole-line comment at column 0 or
    indented) are applied between declarations and statements, but not BETWEEN THE LINES OF ONE MULTI-LINE CONSTRUCT: two or
    more consecutive `| text` doc-string lines of one statement (in simple endpoints, nested blocks, REST methods, as
    endpoint docstring), multi-line `@x =:` annotation blocks, multi-line array attributes, a run of `@` annotations, the
    choices of a one-of, `else` after `if`. Generate specs rich in these and insert at EVERY line boundary of the file
    (bounded-exhaustive for small files). Where the listener coalesces lines (EnterText_stmt / EnterDoc_string) the model
    must say on what it decides (token adjacency in the default channel, never line numbers): transliterate that decision
    and prove it invariant under the insertions; a listener that consults `GetLine()` for model content should break it.
 1. notes/C03.md "Not covered": that the parser + listener depend only on the default-channel token sequence is sampled only,
    and layout changes inside view bodies / expressions (lexer modes with predicates on `spaces`, `inSqBrackets`,
    `blockTextLine`, `noMoreImports`, `startsWithKeyword`) are limited. Model the lexer's hand-written STATE (pkg/grammar/
    lexer_impl.go: every field of lexerState, every action and predicate in SyslLexer.g4 that reads or writes it — regenerate
    the action table from the .g4 as now) for ALL modes, not just indentation; prove that the layout transformations of
    the property (indent width scaling, blank / comment line insertion, trailing spaces, tabs vs spaces where allowed) leave
    every predicate's value unchanged at every token, hence the token types unchanged; tie by token-level correspondence on
    the corpus AND on generated specs with views, annotations, multi-line arrays, doc strings, REST, one-of.
 2. The two known findings (first line indented; bare `#` at EOF without newline) stay listed; widen the transformation
    set: CRLF vs LF, form feed, trailing whitespace-only lines at EOF, comments after statements (`# ...` at line end) where
    the grammar allows them, continuation lines inside `[...]` attribute lists and `(...)` parameter lists.
 3. Import-section layout (extractImports is a textual pre-scan: every layout the lexer accepts for an import line must be
    seen by the pre-scan): model both and prove they agree on all layouts of the import section.
"""),
 'C05': dict(cmd='c05', hours=4, goals="""
 FILE OWNERSHIP inside coq/theories/Imports/: yours are Collect*.v, Index*.v, Extract*.v, Rules.v, Current.v, Run.v,
 FlattenProps.v, TermProps.v and new files you create; Faults*.v, CurrentFaults.v, RunFaults.v and Fault*/Foreign* files
 belong to the C06 sub-task, which may be working at the same time — do not edit them, and keep every definition they import
 from your files (check with `grep -n "Require" coq/theories/Imports/Fault*.v`) backward compatible. translate/importrules.go
 is yours; translate/guards.go is shared (C01/C06): add a new translator file for new tables.
 0. (FIRST) TWO INPUT FAMILIES THE GENERATOR LACKS. (a) HISTORIES ON ONE Parser VALUE: `parse.Parser` is reused (Set, Parse, Set,
    Parse ...): sequences such as Set(MaxImportDepth n > 0); Parse; Set(Settings{}) or a Set that omits the depth; Parse —
    every Parse must behave like a fresh parser with the settings of the latest Set (model `Set` as replace, Gen fact from
    its body; theorem `parse_depends_on_latest_settings`). (b) SAME IMPORT TEXT, DIFFERENT MEANING: two files of one closure
    in DIFFERENT directories (or one local, one remote at a version) containing byte-identical relative import lines
    (`import common`), which resolve to different files; with BOTH completion orders forced by the gate reader. Anything
    the collector remembers per compile must be keyed by what the import MEANS (importing directory / repository / version
    + text), never by the text alone: the model's claim key is the resolved index; oracle: both targets are in the result
    under every order.
 1. NAMES. `Index.v` models fileNameToIndex / cleanImportFilename on strings; the listener's construction of the imported
    file's NAME (pkg/parse/listener_impl.go EnterImport_stmt: relative to the importing file's directory, rooted `/x`, remote
    `//host/org/repo/path@version`, relative imports INSIDE a remote file resolved with path.Join against its base, the
    `@version` / `~` app-name suffix handling, default branches main/master/develop in the different-version check) is not.
    Transliterate it over byte strings, prove: two spellings that name the same file (after path.Clean-style normalisation)
    get the same index, hence are claimed once (extend closure_unlimited to spellings), and distinct files get distinct
    indices (dot-files vs plain, `../x` vs `x`, `.shared/t` vs `shared/t`). Drive the real Parse through a reader that records
    every name it is asked for (no network: a map-backed reader answering `//host/...` names works, see how
    pkg/parse tests fake remote files) and compare names, claims and the final file list with the model.
 2. notes/C05.md "Not covered": the different-version / different-app-name error paths, and racing claims in lock-step.
 3. The depth-limit finding stays known; state precisely (theorem) for which graphs the result IS schedule-independent under a
    depth limit (e.g. all paths to every file have equal length) so the known-finding key can be narrowed further.
"""),
 'C06': dict(cmd='c06', hours=4, goals="""
 FILE OWNERSHIP inside coq/theories/Imports/: yours are Faults*.v, CurrentFaults.v, RunFaults.v and new files you create
 (name them Fault*.v / Foreign*.v); Collect*.v, Index*.v, Extract*.v, Rules.v, Current.v, Run.v, FlattenProps.v, TermProps.v
 belong to the C05 sub-task, which may be working at the same time — import them, do not edit them. translate/importrules.go
 and translate/guards.go are shared with C05 / C01: add a NEW translator file for new tables instead of editing those.
 1. FOREIGN FORMATS IN THE CLOSURE. notes/C06.md "Not covered": OpenAPI 3 / protobuf / `.pb` / `.pb.json` / `.textpb` imports and
    ambiguous format detection. Extend the fault model and the generator: for EVERY input kind the import statement accepts
    (pkg/parse/parse.go parseSpecs + pkg/importer/formats.go GuessFileType + pkg/pbutil/input.go), a fault of every class
    (unreadable, empty, truncated at any byte, wrong content for the extension, two format signatures at once, undecodable
    payload, decodable but invalid) at every position of the closure must make the whole compile fail with a non-zero status
    and no model; model `GuessFileType` (extension + signature matching, the ambiguity message) and `FromPBByteContents`
    dispatch in Coq with `fault_fails_clean` extended; Gen table of the accepted suffixes and the error propagation in each
    arm (an arm whose error is dropped or shadowed must break an obligation).
 2. Several failing files at once (which error wins is free, THAT one wins is not), failures during the concurrent stage-1
    conversions, and failures in files imported only by a file that itself fails.
 3. CLI level: `sysl pb`, `sysl validate`, `sysl import` exit statuses for the same faults through the real binary.
"""),
 'C07': dict(cmd='c07', hours=4, goals="""
 0. (FIRST) TWO LEADS TO FOLLOW UP ON THE UNCHANGED TREE. (a) Reported by a reviewer, not yet confirmed: compiling the SAME
    source twice can give different models when two views of one application each contain an untyped nested transform:
    `inferTypes` (pkg/parse, called from postProcess) restarts the `AnonType_0__` counter for every view and iterates the
    views map, so which view's anonymous type gets which name / survives depends on map order. Reproduce it (same process,
    many repetitions; fresh processes), decide genuine defect vs false lead, and if genuine either repair it (sorted
    iteration / per-application counter — only if goldens allow) or list it as a known finding with a narrow key; either way
    put `inferTypes`' iteration into the post-processing order model and the determinism theorem (sorted: independent;
    map order: refuted with this witness). (b) Import identities under concurrency: two imports whose paths differ only in
    letter case (`billing/Types.sysl` vs `billing/types.sysl`), in leading `./`, or in other spellings that a careless
    normalisation would identify — with BOTH completion orders forced by a gate reader — must each be compiled, and the
    result must not depend on which read finishes first. Add this stream (the gate reader exists in harness/cmd/c05; copy
    what you need) with the oracle "same model under every forced completion order".
 1. notes/C07.md "Not covered": `parse.Parser` values shared between goroutines, non-mixin parts of postProcess, import
    fetching under concurrency. Extend ConcShape (Gen) to EVERY package-level variable and every struct field of
    `parse.Parser` / `TreeShapeListener` that is written after construction and reachable from two compilations (classify:
    immutable after init / guarded by a mutex / per-compilation / SHARED-MUTABLE), model the shared ones as the keyed map is
    modelled, and prove non-interference for them or refute it with a schedule that the harness then replays on the real
    code (a genuine finding). Add streams: one `parse.Parser` used by k goroutines; compilations that share an import
    (same reader, same files) racing on the retrieved-file table; LSP-style repeated compile of changing text.
 2. Determinism half of the property: the same inputs compiled under every schedule give byte-identical models —
    postProcess order, map-ordered loops on the compile path (reuse C19's MapRanges translator on pkg/parse), collector
    application order. Theorem over the post-processing model for all application orders (sorted: independent; refuted for
    map order with the mixin chain) extended to every loop of postProcess that reads another application.
 3. Thorough tier: keep the cold-start race batch; add `-race` runs of the new streams.
"""),
 'C08': dict(cmd='c08', hours=4, goals="""
 0. (FIRST) TINY FILES AND HELPER STATE ACROSS FILES. The position helper (`sourceCtxHelper` in pkg/parse/utils.go, the listener's
    `sc`, `lastEnd`) lives across the files of one compilation; how parseSpecs switches it from file to file is part of
    the model (Gen fact: a fresh helper per file vs fields assigned in place). Generate multi-file specifications made of
    very small files: an imported file holding nothing but a body-less, attribute-less application (`Legacy:\n    ...`),
    files that begin — without imports, comments or attributes — with an application header of the same token shape as
    the previous file's last element, files whose first element has the same token indices as the last element of the file
    parsed before it, in every import order; oracle as before (file = declaring file, start = first character).
 1. notes/C08.md "Not covered": views / expressions, parameter and path/query parameter types, mixins, imports' own context,
    enum / alias / union, collector / subscribe, doc-string statements, multi-line annotation values, in-place tuples, CRLF.
    Add element kinds to the walk model, the recording renderer and the oracle in that order, green after each. End
    positions are proved only >= start: prove them EXACT for the kinds where the code computes them from the stop token
    (`end_exact`), for all layouts.
 2. Multi-file declaration order: the order of contexts of an element declared in several files must follow the order in
    which the files are parsed (flattenSpecs: depth-first pre-order over imports, each file once); model it (reuse Imports/
    flatten) and prove `decl_order` for all import graphs incl. cross edges and cycles.
 3. Known findings stay listed with their narrow keys; check that each still reproduces and that nothing else hides
    behind them (e.g. array-of-array annotation values re-declared, annotations on re-opened REST methods).
"""),
 'C09': dict(cmd='c09', hours=4, goals="""
 0. (FIRST) THE CLI's OWN ENCODING PATHS. The harness encodes through pkg/pbutil; `sysl pb` (cmd/sysl/cmd_protobuf.go) has code
    of its own between the model and the encoder: `--mode json|textpb|pb` x `--compact` (which runs removeSourceContext /
    removeSourceContextImpl over the model by reflection before encoding) x `--split-apps` x `-o` file vs stdout. Drive every
    combination through the real binary AND through the functions cmd_protobuf.go calls, decode the bytes, and compare with
    the compiled model "apart from source locations" — exactly that: every field that is not a source context must survive
    (e.g. Endpoint.Source of a pubsub subscriber `Pub -> Evt:`, whose Go name merely starts with "Source"). Generator: models
    using every message field of sysl.proto at least once (subscriptions, mixins, views with expressions, every type kind,
    attributes of every value kind). Model the location stripper as a function on the projected model (which fields it
    clears — regenerate the field-name test from the source as a Gen fact) and prove `strip_only_locations`.
 1. notes/C09.md "Not covered": `--split-apps`, stdin `.pb` input, merging a compiled model WITH further Sysl sources,
    `SYSL_DEV_RENEST_FLATTENED_TYPES`. Add: (a) re-import of a compiled model together with extra `.sysl` sources that
    re-open its applications (what must hold: the result equals compiling all sources together, up to the listed
    postProcess findings); (b) every output mode x every input suffix through the real file writers and readers,
    including `--split-apps` directory output read back application by application; (c) the `renest` step as a model
    function with `renest (flatten m) = m` on its domain or a refutation.
 2. The JSON clean-up regex model: prove `clean` is the identity on every STRING VALUE (not only keys) — i.e. no byte inside
    any JSON string literal is changed for any model — by a lexical invariant over protojson's output grammar; widen the
    generator to names / texts containing `": `, escaped quotes, backslashes, newlines, `backslash-u` escapes, non-BMP runes.
 3. Text / binary / JSON encoders on maps with 0, 1, many entries and deep statement trees: `decode (encode m) = m` checked on
    the generator's whole range with proto.Equal AND byte-stable re-encoding (second encode equals first).
"""),
 'C10': dict(cmd='c10', hours=4, goals="""
 0. (FIRST) CALL RESOLUTION. `evalCall` (pkg/eval/exprEval.go) resolves a call name against, in a fixed order, the transform
    application's own views, the `.count`-style builtins and the native Go helper table GoFuncMap (Contains, Count, Fields,
    FindAllString, HasPrefix, HasSuffix, Join, LastIndex, MatchString, Replace, Split, Title, ToLower, ToTitle, ToUpper, Trim,
    TrimLeft, TrimPrefix, TrimRight, TrimSpace, TrimSuffix). Model the lookup order (Gen fact from the statement order of
    evalCall + the key set of GoFuncMap), generate views whose NAME is one of the helper names and that are CALLED from
    another view (with fitting and non-fitting arity / argument kinds), unknown names, and helpers called directly; oracle:
    a call to a defined view evaluates that view's body on the arguments — the same view on the same arguments gives the
    same value whether reached by call or by EvaluateView; theorem `call_resolves_to_view_first`.
 1. notes/C10.md "Not covered": decimals / floats (model as exact rationals or skip arithmetic but cover comparison and
    dispatch), templates / string formatting built-ins, whereMap, union of map sets, `single`, `str`, bool negation,
    map-entry transforms; the parser route covers only the renderable subset. Add operators and value kinds to `Value.v` /
    `Interp.v` with their dispatch rows regenerated from binexprEval.go / unaryEval.go, extend `eval_total_on_typed`
    (no "unsupported operation" exit for any well-typed expression over the modelled kinds — every table hole is either
    proved unreachable for typed input or reported as a finding with the expression as replay), and render them through
    the real parser.
 2. PURITY in full: after `EvaluateView` the caller's scope, the module and every argument value are unchanged
    (deep comparison in the oracle; theorem `eval_pure` over the model with the two known findings carved out exactly by
    their keys), for nested transforms, recursive views, and views called with the same arguments twice.
 3. A closed-form fuel bound for view recursion and a theorem that evaluation of a non-recursive view terminates for every
    input (no fuel hypothesis).
"""),
 'C11': dict(cmd='c11', hours=4, goals="""
 0. (FIRST) TYPE/FORMAT TABLE AND MEDIA TYPES. (a) The OpenAPI type x format -> Sysl type mapping (pkg/importer/openapi.go
    mapOpenAPITypeAndFormatToType and its callers, the XSD built-in type table): regenerate the table as a Gen fact, model the
    fallback (an unlisted format falls back to the bare type's mapping) and generate every type with every listed format,
    NO format, and legal but unlisted formats (integer/number with uint32, uint64, int16, decimal, byte; string with uuid,
    email, ...) in every position (property, array item, parameter incl. path parameters, top-level definition, response);
    oracle: the compiled field / parameter is a primitive of the right kind, never a reference to an undefined type named
    like the OpenAPI type. (b) Operations with two or more request media types (`consumes` with >= 2 entries and a body
    parameter; OpenAPI 3 requestBody with several content entries), several produces / response contents: every body
    parameter is present, and importing the same document repeatedly (>= 16 times in one process and in fresh processes)
    gives byte-identical text (a sort that is computed but not used shows only then).
 1. STRUCTURE COMPLETENESS for the importers in Coq is proved for the flat OpenAPI 2 subset. Extend `import_complete` /
    `import_sound` to: nested inline objects, arrays of arrays, allOf / oneOf / enums, `$ref` chains, path-level +
    operation-level parameters in every location (incl. the shared-Parameters aliasing shape: two operations of one path
    without own parameters), request bodies, responses per status incl. default, XSD complex types with extension /
    restriction, attributes, minOccurs / maxOccurs, and the SQL/Spanner importer if pkg/importer has one that is reachable
    without the network. Oracle: the imported text compiles and contains every definition, property, parameter, operation
    and response of the foreign document with the right kind and optionality.
 2. NAME ESCAPING proved for all byte strings is done for property names; do the same for type names, parameter names,
    enum values and path segments on every writer path (Go writer and, by correspondence only, the arr.ai OpenAPI 3 path).
 3. Determinism of import (the same document imported twice gives the same text): map-order obligations over pkg/importer
    (reuse C19's MapRanges translator) + repetition in the harness; the listed nondeterminism finding stays narrow.
"""),
 'C13': dict(cmd='c13', hours=4, goals="""
 1. notes/C13.md "Not covered": label / payload / note TEXT, `sd` option handling and output naming, statements with nil
    `Stmt`. Model the label pipeline (pkg/cmdutils Labeler / format strings with %(epname), %(appname), %(@attr), controls,
    `~` patterns, the `seqtitle` / `appfmt` / `epfmt` attributes; MergeAttributes) over strings, prove it pure and total
    (every format string, every attribute map: a label or an error, no panic, attributes of the model never written), tie it
    by comparing the label texts of the real diagram; add the blackbox / upto options to the model with the theorem "nothing below a blackbox is drawn, everything above is",
    and drive them through EVERY entry point the code has, not by handing ready-made Upto maps to GenerateSequenceDiag:
    the command-line form (`-b 'App <- Ep=note'`, cmdutils.TransformBlackboxesToUptos / ParseBlackBoxesFromArgument,
    CmdContextParamSeqgen.Blackboxes / BlackboxesFlag), the `blackboxes` attribute of a project endpoint / application in the
    templated (`-a`, %(epname)) mode, with notes that are empty, a single blank, white space only, one character, with
    surrounding spaces, and keys with odd spacing around `<-`; the conventions between these sites (what a one-character or
    empty comment means in MakeEndpointCollectionElement) belong in the model. Oracle: an endpoint named as a blackbox in
    any accepted form is a cut point (no arrow below it); a blackbox that was given but not hit is reported.
 2. The `follows the call tree` half at full strength: arrows = pre-order of the call tree with cycles cut at the first
    repeated (app, endpoint) pair ON THE CURRENT PATH — check that the model's cut rule is the code's (visited counter
    semantics) for re-entrancy through different endpoints, and prove the tree theorem without the reachability hypothesis
    if one remains.
 3. Several start endpoints in one diagram (`-s` repeated, project endpoints with several calls): participants declared
    once overall, per-section activation balance.
"""),
 'C15': dict(cmd='c15', hours=4, goals="""
 1. notes/C15.md "Not covered": enum items, cardinality labels, in-place tuples, `%2E` / dots in names, application names with
    `.`, the `sysl datamodel` CLI wrapping (cmd_datamodel.go: --direct, project mode with %(epname), class format
    attributes, output naming). Add to model / generator / oracle. The property's completeness half ("every type, field and
    relationship") must be judged for every type KIND the compiler can produce (tuple, relation, enum, alias of primitive /
    reference / collection, union, map, one-of) and every field kind (primitive with constraints, reference local /
    cross-app / nested, set / sequence / list of each).
 2. Many known findings hang on reference RESOLUTION (`path[0]` as application, nested names). Write the intended
    resolution as a Coq function `resolve` (the compiler's own scoping rule: pkg/parse fixTypeRefScope / syslutil), prove
    the diagram complete and sound RELATIVE to the code's resolution (done) AND characterise exactly when the code's
    resolution equals `resolve` (theorem `resolution_agrees_iff`), so that the known-finding keys are provably the whole
    difference.
 3. Mermaid data-model view (pkg/mermaid/datamodeldiagram) under the same oracle.
"""),
 'C16': dict(cmd='c16', hours=4, goals="""
 0. (FIRST) COLUMN KINDS IN DELTAS. For a table present in both versions, and for a table new in the second version, add /
    remove / retype columns of every type kind the compiler can produce: primitive (each), `Table.column` reference,
    reference to an alias or `!type` of the application (`price <: Money`), reference to an undefined name, set / sequence of
    each. The creation path and the delta path must treat each kind the same way (same column definition or the same
    documented omission) and neither may panic; put the column-definition function (writeCreateSQLForAColumn) and its
    callers' post-processing of the returned text in the model.
 1. notes/C16.md "Not covered": dropped tables, multi-app runs, non-table types in the app, uniqueness / type compatibility
    of referenced columns. Extend the delta model to table removal (DROP order must be reverse dependency order), table
    addition together with references to it from retained tables, renamed primary keys, several applications in one run
    (`--app-names a,b`), and prove `delta_sound` (applying the delta script to the old schema yields the new schema, in the
    interpreter already in the harness lifted into Coq: a small SQL-DDL state machine `apply : schema -> stmt -> option
    schema`) for all pairs of versions in the modelled class; the four known delta findings stay carved out by their keys.
 2. Creation script: `apply_all create_script empty = Some (schema_of model)` as a theorem (completeness + ordering in one
    statement), for every model incl. cycles (rejected cleanly), self references, composite keys, autoinc.
 3. Identifier quoting / reserved words / names needing escapes in generated SQL (Go side oracle at least).
"""),
 'C17': dict(cmd='c17', hours=4, goals="""
 1. notes/C17.md "Not covered": payload grammar internals and annotation value conversion (oracle only), `Src.*` relations,
    `transform/utils.go` assembly and `cmd_transform.go`. Model the return-payload parser (`parseReturnPayload`: status, name,
    type reference resolution against the statement's application, sequence / set wrappers, attributes) and the annotation
    value conversion (string / array / nested array / number forms) in Coq, include them in `rows_lossless`
    (`rebuild (normalize m) = project m` for the widened `project`), and the Src relations (source contexts per row) at
    least in the correspondence.
 2. Every type kind and constraint form in `normalizeType` / `normalizeField` (maps, one-of, no-type, bit width, ranges,
    precision / scale, several constraints) with `rebuild` extended; views: parameters, return type, the expression as
    opaque text.
 3. `sysl transform` end to end on the same modules (arr.ai side is a black box: oracle only) — the relational model a
    script sees equals `normalize m`.
"""),
 'C19': dict(cmd='c19', hours=4, goals="""
 1. notes/C19.md "NOT covered": `sort.Slice` comparators (ties are judged by the harness only), purity of calls in expression
    position, non-determinism that does not come from a map range. Add to the MapRanges translator: every `sort.Slice` /
    `sort.SliceStable` / `sort.Sort` comparator in the generator packages classified as TOTAL-ORDER-ON-KEY (compares a key
    that is unique in the slice, or breaks ties down to one) vs PARTIAL (ties possible) with the obligation that PARTIAL ones
    sort an input whose order is itself deterministic (stable + deterministic source) — model `sort.Slice` as "any
    permutation consistent with the comparator" and prove: total comparator => unique result; partial comparator on
    map-ordered input => refuted. Generator: models with colliding sort keys for every comparator found.
 2. Whole-output determinism theorems exist per generator for the modelled loops; extend the per-generator models to
    the generators listed as not modelled (templates / codegen / `transform` if runnable offline, protobuf export, Spanner /
    SQL export), at least with range-classification obligations + the repetition oracle (same module, same process, twice;
    fresh process, 8 times; GOMAXPROCS varied).
 3. State leaks between generator runs in one process (package-level caches, memoisation maps): Gen table of package-level
    mutable variables in generator packages + harness stream running generators in different orders.
"""),
 'C20': dict(cmd='c20', hours=4, goals="""
 0. (FIRST) RICHER CYCLES. The untidy models have cycles with one edge per direction. For every generator with a visited /
    in-progress set (`sysl ints` WalkPassthrough with `passthrough=[...]`, sd, mermaid, db depth) generate cycles in which EACH of
    two or three nodes has two or more edges to the other (calls in `if` and `else`, retries, at different nesting depths),
    cycles with chords, and self loops repeated; the walk model's marker discipline (when a key is marked, when unmarked,
    relative to the re-entry test) must be read from the source as a Gen fact, `walk_terminates` must hold for that
    discipline on all graphs, and a `…_refuted` companion shows that un-marking on a cut re-entry loses termination.
 0b. DELTA COMMAND INPUTS. `generate-db-scripts-delta` is run on version pairs: for a table present in BOTH versions add, remove
    and retype columns of EVERY type kind — primitive, `Table.column` reference, reference to an alias / `!type` of the
    application (`price <: Money`), reference to a name defined nowhere, set / sequence — and the same for tables new in the
    second version; every such pair must end with a script or an error, never a panic (watch the string surgery on returned
    column definitions, e.g. trimming a trailing comma of an empty string).
 1. notes/C20.md "Not covered": `codegen`, `template`, `transform`, `test-rig`, `repl`, `lsp`, options whose value does
    not compile as a regular expression. Add every remaining CLI command that can run offline to the command outcome model
    and the subprocess matrix (for each: the guard structure read from the source, fuel for its recursion, and the verdict
    on untidy but valid models: dangling references, cycles, empty applications, types without fields, endpoints without
    statements, very deep nesting, very long names, non-ASCII). Every abort site (panic / Fatal / os.Exit outside main /
    index without bound check / map write on nil / type assertion without ok) in the packages those commands reach goes
    into the Gen table with `modelled_functions_do_not_panic` extended.
 2. Option values: every flag of every command with boundary values (empty, unknown enum value, invalid regex, missing
    file, directory instead of file, output path in a missing directory, read-only output) must end with an error
    message and non-zero status, never a panic: subprocess matrix + model of the flag validation.
 3. Hang side: every recursion in the reached packages has a termination theorem over the walk model or is named as not
    proved; CPU-limit based hang verdict stays.
"""),
}
PASS2 = '''(SECOND PASS. An earlier sub-task already worked on this list in this round: read the section "## Deepen round 3" of
 notes/{PID}.md first — it says which goals are done, which are partly done and what is still not covered. Do NOT redo what
 is done. Take, in this order: (i) the extra items listed under EXTRA below, if any; (ii) the goals of the list below that the
 notes report as not started or only partly done; (iii) the notes' own "still not covered" / "unfinished" list. /repo has moved
 on since (many new `fix:` commits): make your worktree from the current HEAD and expect the check to be green on it before
 you change anything — if it is not, that is your first job. Write your section as "## Deepen round 3, second pass".)
 EXTRA: {EXTRA}
'''
args = [a for a in sys.argv[1:] if not a.startswith('--')]
pass2 = '--pass2' in sys.argv
extra = {}
for a in sys.argv[1:]:
    if a.startswith('--extra='):
        k, v = a[len('--extra='):].split(':', 1)
        extra[k] = open(v).read().strip() if os.path.exists(v) else v
for pid in args:
    g = dict(G[pid])
    if pass2:
        g['goals'] = PASS2.replace('{PID}', pid).replace('{EXTRA}', extra.get(pid, '(none)')) + g['goals']
    s = T.replace('{PID}', pid).replace('{CMD}', g['cmd']).replace('{HOURS}', str(g['hours'])).replace('{GOALS}', g['goals'].strip('\n')).replace('{{', '{').replace('}}', '}')
    os.makedirs('/root/deepen', exist_ok=True)
    open('/root/deepen/%s.txt' % pid, 'w').write(s)
    print('written /root/deepen/%s.txt' % pid)
