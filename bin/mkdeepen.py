#!/usr/bin/env python3
"""Writes /root/deepen/<ID>.txt (task text for a builder sub-task that deepens an accepted check) from bin/deepen_prompt.txt."""
import os, sys
VERIF = os.path.dirname(os.path.dirname(os.path.abspath(__file__)))
T = open(os.path.join(VERIF, 'bin', 'deepen_prompt.txt')).read()
G = {
 'C18': dict(cmd='c18', hours=4, goals="""
 1. BYTE-LEVEL PATH MODEL. Today paths are lists of segments and the harness does the string->segment splitting (trusted).
    Add `Chroot/Bytes.v` (definitions only): Go's Unix `filepath.Clean` transliterated on `list ascii` / `string` exactly as
    written in the Go standard library (read $(go env GOROOT)/src/path/filepath/path.go: the `lazybuf` loop with `r`, `dotdot`,
    `rooted`, the back-tracking to the previous separator, the final "." for an empty result), `filepath.Join` (skip leading
    empty elements, join with "/", Clean), `filepath.Abs` on an absolute path (= Clean), `filepath.Rel` as written (two-pointer
    scan over the cleaned strings) and `ChrootFs.join` / `openAllowed` (`rel != "" && strings.Split(rel, "/")[0] == ".."`) /
    `wrapCall` / `Rename` over strings. In `Chroot/BytesProps.v` prove, for ALL byte strings: (a) `go_clean s` for rooted `s`
    equals `render (clean_abs (split s))` — i.e. the existing segment model is a correct abstraction (names are now byte
    strings without '/'); (b) Clean is idempotent and its result has no empty / "." / ".." segment when rooted; (c) the
    string-level `allowed` agrees with the segment-level one; (d) the property itself at byte level: for every absolute
    root string and every name string, the path handed to the inner filesystem by any Checked operation is either the
    cleaned root or starts with cleaned-root ++ "/" (root "/" treated exactly), and a name without ".." segments is never
    refused. Export them in Properties/C18.v. The harness must now print RAW strings (add spellings with "//", a trailing
    "/", "...", "..x", "x..", names with spaces, dots, backslashes, bytes >= 0x80, very long segments, an un-clean root such
    as "/r/./s", "/r//s/", "/r/s/..", root "/") and compare the exact inner path STRING with the byte-level model in Coq.
 2. RELATIVE ROOT. `NewChrootFs` with a relative root calls `filepath.Abs(root)` (= Join(cwd, root)); model it with the
    working directory as a parameter, state confinement relative to the resulting root, drive it in the harness (os.Chdir in a
    worker or pass an absolute cwd explicitly, whichever the code allows).
 3. Every other place in /repo where a user-supplied path reaches a filesystem on the compile path (pkg/loader
    ConfigureProject / projectRoot search, pkg/parse import name construction for local files incl. the `@version` suffix
    and Windows-style separators in import statements): extend `Chroot/Import.v` + the import stream where the notes list
    it as not covered, with theorems of the same shape (import_confined ...).
"""),
 'C04': dict(cmd='c04', hours=4, goals="""
 1. MORE MEMBER KINDS IN THE MERGE MODEL. notes/C04.md lists as not covered: views, unions, aliases, mixins, `!wrap`,
    subscriptions, endpoint parameters, path/query parameters, nested statements, docstrings / body annotations (`@k = v`
    lines inside an application, type, endpoint), field re-declaration. Add, in this order, keeping the check green after
    each: (a) `@name = value` annotation lines on applications / types / endpoints spread over several blocks (string and
    array values; what mergeAttrs / addAttrWithPrecedence do when two blocks set the same name); (b) `!alias`, `!union`,
    `!enum` distributed over blocks and files (each declared once, but in different blocks / files / orders) and what the
    listener does when the SAME name is declared in two blocks (model it as the code does; if the second silently replaces
    the first, that is what the model says); (c) mixins `-|> App` and subscriptions `Pub -> Evt:` in re-opened blocks;
    (d) endpoint parameters, REST path variables with types and query parameters on re-opened REST paths; (e) nested
    statements (if/else, loops, one of) in endpoint bodies that are re-opened in a later block (are the statements
    appended? in which order?); (f) the same field name declared in two blocks of one type. For each, extend
    `merge_partition_invariant` (all partitions, all block orders that respect the property's side conditions, all file
    assignments) or prove `…_refuted` + the strongest `…_partial` and report the finding (narrow key).
 2. The generator already spells some type / enum / field / application names with %XX escapes (`spell`); make sure split
    declarations of such names appear in every stream (types, tables with ~pk, enums, REST) and that names differing only
    in escaping vs. literal spelling (`a%2Db` vs `a-b`) denote the same member.
 3. `.pb` / `.pb.json` files in the import closure next to `.sysl` files declaring the same application (the mergo path in
    pkg/parse): at least the Go oracle (split = joined) and, if time allows, the model.
"""),
 'C12': dict(cmd='c12', hours=4, goals="""
 1. TYPE KINDS. notes/C12.md lists as not covered: `!table`, `!union`, nested / in-place type names, cross-application
    references (`App.Type`), json_map_key maps. Add them to the abstract model, the OpenAPI 3 export model and the Swagger
    type-output model (transliterating what pkg/exporter and pkg/syslwrapper really do for them), to the generator, and to
    the well-formedness / completeness oracle ("every type, field, endpoint, parameter and response of the model appears
    in the exported document with the right kind, and the document is valid"). Extend the complete_* theorems to them.
 2. RESPONSES NESTED in if/else, loops and one-of blocks; several return statements with the same status; RPC-style
    (non-REST) endpoints in an exported application (are they skipped? silently?); info attributes (version, description,
    host / basePath / env.N.url) — model what is read and emitted, judge in the oracle what the property demands.
 3. ROUND TRIP as an oracle clause where the property says so: export -> import (pkg/importer) -> compile -> compare the
    type/endpoint census with the original, for both formats, on the widened generator; every loss is either a listed known
    finding (narrow key) or a violation.
"""),
 'C14': dict(cmd='c14', hours=4, goals="""
 1. THE OTHER VIEWS IN COQ. notes/C14.md: only the plain view's arrow loop is modelled; EPA (`--epa`), clustered and system
    views are judged by the Go oracle only or not at all. Transliterate the rest of pkg/integrationdiagram/ints_view.go
    (`DrawIntsView` for EPA: endpoint-level nodes, state boxes, pattern labels; clustered: package boxes by attribute;
    `DrawSystemView`), parse the real PlantUML into the same abstract events, compare in Coq, and prove for EACH view the two
    halves of the property: every arrow drawn is backed by a call among the selected applications (soundness) and every such
    call is drawn (completeness), for all modules, exclude / pass-through sets.
 2. INPUT FEATURES not yet generated: mixins (an app's calls via mixed-in endpoints), pubsub (`<->` events and subscribers),
    `restrict_by`, `--filter` regex on output names, several project applications in one command run, calls inside deeply
    nested blocks mixed with one-of, call targets differing only by `::` namespace depth.
 3. `cmd_ints.go` plumbing: output-name templating (%(epname)), which views are generated for which project endpoints, and
    that one failing view does not silently drop the others.
"""),
}
for pid in sys.argv[1:]:
    g = G[pid]
    s = T.replace('{PID}', pid).replace('{CMD}', g['cmd']).replace('{HOURS}', str(g['hours'])).replace('{GOALS}', g['goals'].strip('\n')).replace('{{', '{').replace('}}', '}')
    os.makedirs('/root/deepen', exist_ok=True)
    open('/root/deepen/%s.txt' % pid, 'w').write(s)
    print('written /root/deepen/%s.txt' % pid)
