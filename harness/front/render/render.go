// Package render: abstract specification -> Sysl text with random but legal surface choices (indent unit,
// %-escaping of names, quoting style, optional spaces, blank and comment lines, spelling of numbers and
// keywords whose spelling is not semantic). It also records where it wrote the first character of every
// element (for C08) and the construct kind of every line (block skeleton).
package render

import (
	"fmt"
	"strings"
	"unicode/utf8"

	"verifharness/common"
	"verifharness/front/gen"
	"verifharness/front/proj"
)

type Pos struct {
	File string `json:"file"`
	Line int    `json:"line"` // 0-based
	Col  int    `json:"col"`  // 0-based, in code points
}

type Out struct {
	Files    map[string]string
	Root     string
	Pos      map[string][]Pos // element path -> one position per (re)declaration
	Skeleton []string         // one "<file>:<depth>:<construct>" per content line
}

// Options: Plain switches every random surface choice off (canonical layout).
type Options struct {
	Plain bool
}

type rnd struct {
	r     *common.Rng
	plain bool
}

func (x *rnd) chance(p, q int) bool {
	if x.plain {
		return false
	}
	return x.r.Chance(p, q)
}
func (x *rnd) intn(n int) int {
	if x.plain {
		return 0
	}
	return x.r.Intn(n)
}

type writer struct {
	x     *rnd
	out   *Out
	file  string
	unit  string
	depth int
	lines []string
}

func (w *writer) indent() string { return strings.Repeat(w.unit, w.depth) }

// line writes one content line at the current depth, recording key (if any) at its first character.
func (w *writer) line(kind, key, text string) {
	w.noise()
	ind := w.indent()
	if key != "" {
		w.out.Pos[key] = append(w.out.Pos[key], Pos{w.file, len(w.lines), utf8.RuneCountInString(ind)})
	}
	w.out.Skeleton = append(w.out.Skeleton, fmt.Sprintf("%s:%d:%s", w.file, w.depth, kind))
	w.lines = append(w.lines, ind+text)
}

// rawline: no noise before it (continuation lines that must stay adjacent)
func (w *writer) rawline(kind, text string) {
	w.out.Skeleton = append(w.out.Skeleton, fmt.Sprintf("%s:%d:%s", w.file, w.depth, kind))
	w.lines = append(w.lines, w.indent()+text)
}

// noise: blank lines and whole-line comments before a content line
func (w *writer) noise() {
	for w.x.chance(1, 12) {
		switch w.x.intn(4) {
		case 0:
			w.lines = append(w.lines, "")
		case 1:
			w.lines = append(w.lines, w.indent()+"  ")
		case 2:
			w.lines = append(w.lines, w.indent()+"# a comment: with [brackets] and \"quotes\"")
		default:
			w.lines = append(w.lines, w.indent()+w.unit+"#deeper comment")
		}
	}
}

// ---------------------------------------------------------------- lexical spelling

func isNameStart(c byte) bool { return c == '_' || (c >= 'a' && c <= 'z') || (c >= 'A' && c <= 'Z') }
func isNameChar(c byte) bool  { return isNameStart(c) || c == '-' || (c >= '0' && c <= '9') }

// Name spells a semantic name as a lexer `Name` token: bytes outside [-a-zA-Z0-9_] are %-escaped, as is
// everything before the first letter; with small probability also bytes that would not need it.
func (x *rnd) Name(s string) string {
	anchor := -1
	for i := 0; i < len(s); i++ {
		if isNameStart(s[i]) {
			anchor = i
			break
		}
	}
	if anchor < 0 {
		panic("render: name without a letter cannot be spelled: " + s)
	}
	var sb strings.Builder
	for i := 0; i < len(s); i++ {
		c := s[i]
		switch {
		case i < anchor:
			fmt.Fprintf(&sb, "%%%02X", c)
		case i == anchor:
			sb.WriteByte(c)
		case isNameChar(c) && !x.chance(1, 40):
			sb.WriteByte(c)
		default:
			if x.chance(1, 2) {
				fmt.Fprintf(&sb, "%%%02X", c)
			} else {
				fmt.Fprintf(&sb, "%%%02x", c)
			}
		}
	}
	return sb.String()
}

var kwPrefixes = []string{"sequence of", "set of", "return", "for", "one of", "else", "if", "loop", "until", "alt", "while", "import"}

// textLineOK: can s be written verbatim as one TEXT_LINE token?
func textLineOK(s string) bool {
	words := strings.Split(s, " ")
	if len(words) < 2 {
		return false
	}
	for _, w := range words {
		if w == "" {
			return false
		}
		for i := 0; i < len(w); i++ {
			c := w[i]
			if !(isNameStart(c) || (c >= '0' && c <= '9') || c == '&' || c == '+' || c == '$' || c >= 0x80) {
				return false
			}
		}
	}
	lower := strings.ToLower(s)
	for _, k := range kwPrefixes {
		if strings.HasPrefix(lower, k) {
			return false
		}
	}
	return true
}

// NameStr spells a name where the grammar takes name_str: Name token or, for multi-word names, TEXT_LINE.
func (x *rnd) NameStr(s string) string {
	if textLineOK(s) && (x.plain || x.r.Chance(2, 3)) {
		return s
	}
	return x.Name(s)
}

func (x *rnd) sp() string { // optional insignificant space
	if x.chance(1, 6) {
		return " "
	}
	return ""
}
func (x *rnd) sp1of() string {
	if x.intn(6) == 1 {
		return "\t"
	}
	return " "
}
func (x *rnd) sp1() string { // at least nothing / one / two spaces where WS is hidden
	switch x.intn(8) {
	case 1:
		return "  "
	case 2:
		return "\t"
	}
	return " "
}

func (x *rnd) AppName(parts []string) string {
	it := make([]string, len(parts))
	for i, p := range parts {
		it[i] = x.NameStr(p)
	}
	sep := " :: "
	switch x.intn(6) {
	case 1:
		sep = "::"
	case 2:
		sep = " ::"
	case 3:
		sep = ":: "
	}
	return strings.Join(it, sep)
}

// QString spells a string value as a QSTRING token the listener unquotes back to s.
func (x *rnd) QString(s string) string {
	single := !strings.ContainsAny(s, "'\n\r\t\\") && !strings.HasPrefix(s, "\"") && x.chance(1, 4)
	if single {
		return "'" + s + "'"
	}
	var sb strings.Builder
	sb.WriteByte('"')
	for i := 0; i < len(s); i++ {
		switch c := s[i]; c {
		case '"':
			sb.WriteString(`\"`)
		case '\\':
			sb.WriteString(`\\`)
		case '\n':
			sb.WriteString(`\n`)
		case '\r':
			sb.WriteString(`\r`)
		case '\t':
			sb.WriteString(`\t`)
		default:
			sb.WriteByte(c)
		}
	}
	sb.WriteByte('"')
	return sb.String()
}

func (x *rnd) attr(a proj.Attr) string {
	if a.Kind == "s" {
		return x.QString(a.S)
	}
	it := make([]string, len(a.Elts))
	for i, e := range a.Elts {
		it[i] = x.attr(e)
	}
	return "[" + x.sp() + strings.Join(it, ","+x.sp()) + x.sp() + "]"
}

func (x *rnd) Attribs(es []gen.Entry) string {
	if len(es) == 0 {
		return ""
	}
	it := make([]string, len(es))
	for i, e := range es {
		if e.Tag != "" {
			it[i] = "~" + e.Tag
		} else {
			it[i] = e.Name + x.sp() + "=" + x.sp() + x.attr(e.Val)
		}
	}
	return "[" + x.sp() + strings.Join(it, ","+x.sp1()) + x.sp() + "]"
}

func (x *rnd) num(n int64) string {
	s := fmt.Sprint(n)
	if x.chance(1, 10) {
		s = "0" + s
	}
	return s
}

func (x *rnd) size(z gen.SizeSpec) string {
	switch z.Kind {
	case gen.ZSize1:
		return "(" + x.sp() + x.num(z.A) + x.sp() + ")"
	case gen.ZSize2:
		return "(" + x.num(z.A) + "." + x.num(z.B) + ")"
	case gen.ZArrOpen:
		return "(" + x.num(z.A) + "..)"
	case gen.ZArr:
		return "(" + x.num(z.A) + ".." + x.num(z.B) + ")"
	}
	return ""
}

func (x *rnd) casing(s string) string {
	switch x.intn(5) {
	case 1:
		return strings.ToUpper(s)
	case 2:
		return strings.ToUpper(s[:1]) + s[1:]
	}
	return s
}

func (x *rnd) tyexpr(t gen.TypeExpr) string {
	switch t.Kind {
	case gen.XNative:
		return x.casing(gen.Natives[t.Native])
	case gen.XLocal:
		return x.NameStr(t.Local)
	case gen.XRef:
		it := make([]string, len(t.RefPath))
		for i, p := range t.RefPath {
			it[i] = x.Name(p)
		}
		return x.AppName(t.RefApp) + "." + strings.Join(it, ".")
	}
	return ""
}

func (x *rnd) coll(c int) string {
	switch c {
	// exactly one blank (or tabs) between the two words: "set  of T" with two spaces lexes as one TEXT_LINE
	// (a reference to a type of that name), see notes/C02.md
	case gen.CSet:
		return x.casing("set") + x.sp1of() + "of "
	case gen.CSeq:
		return x.casing("sequence") + x.sp1of() + "of "
	}
	return ""
}

// typeSpec: [set of|sequence of] type [size]
func (x *rnd) typeSpec(c int, t gen.TypeExpr, z gen.SizeSpec) string {
	return x.coll(c) + x.tyexpr(t) + x.size(z)
}

func (x *rnd) lessColon() string {
	switch x.intn(5) {
	case 1:
		return "<:"
	case 2:
		return "  <:  "
	case 3:
		return " <:"
	}
	return " <: "
}

// fieldInline: a field written on one line (table item without annotations, or a parameter)
func (x *rnd) fieldInline(f gen.Field) string {
	s := x.NameStr(f.Name)
	if f.Ty.Kind == gen.XNone {
		return s
	}
	if f.Array {
		s += x.sp() + []string{"(0..)", "(1..3)", "(0..10)"}[x.intn(3)]
	}
	s += x.lessColon() + x.typeSpec(f.Coll, f.Ty, f.Size)
	if f.Opt {
		s += x.sp() + "?"
	}
	if len(f.Attribs) > 0 {
		s += " " + x.Attribs(f.Attribs)
	}
	if f.Doc != nil {
		s += " " + x.QString(*f.Doc)
	}
	return s
}

// ---------------------------------------------------------------- structure

func (w *writer) anno(key string, a gen.Anno) {
	head := "@" + a.Name + w.x.sp() + "=" + w.x.sp()
	switch a.Kind {
	case 0:
		w.line("anno", key, head+w.x.QString(a.S))
	case 1:
		w.line("anno", key, head+w.x.attr(a.Arr))
	default:
		w.line("anno", key, head+":")
		w.depth++
		for _, l := range a.Lines {
			w.rawline("docline", "|"+l)
		}
		w.depth--
	}
}

func (w *writer) field(key string, f gen.Field) {
	s := w.x.fieldInline(f)
	if len(f.Annos) > 0 {
		s += w.x.sp() + ":"
	} else if w.x.chance(1, 15) && f.Doc == nil {
		s += "  # trailing comment"
	}
	w.line("field", key, s)
	if len(f.Annos) > 0 {
		w.depth++
		for _, a := range f.Annos {
			w.anno(key+"@"+a.Name, a)
		}
		w.depth--
	}
}

// inTuple: `name <:` / `name(1..) <:` and the nested fields one level deeper
func (w *writer) inTuple(key string, t *gen.InTuple) {
	s := w.x.NameStr(t.Name)
	if t.Array {
		s += w.x.sp() + []string{"(0..)", "(1..3)", "(0..10)"}[w.x.intn(3)]
	}
	k := key + "." + t.Name
	w.line("field", k, s+w.x.sp()+"<:")
	w.depth++
	for _, n := range t.Fields {
		if n.Field != nil {
			w.field(k+"."+n.Field.Name, *n.Field)
		} else {
			w.inTuple(k, n.Tuple)
		}
	}
	w.depth--
}

func (x *rnd) params(ps []gen.Field) string {
	if len(ps) == 0 {
		return ""
	}
	it := make([]string, len(ps))
	for i, p := range ps {
		it[i] = x.fieldInline(p)
	}
	return "(" + x.sp() + strings.Join(it, ","+x.sp1()) + x.sp() + ")"
}

var blockKw = map[int]string{gen.KIf: "if", gen.KElse: "else", gen.KFor: "for", gen.KLoop: "loop", gen.KAlt: "alt", gen.KWhile: "while", gen.KUntil: "until", gen.KForEach: "for each"}

func (w *writer) stmts(key string, ss []gen.Stmt) { w.stmtsOff(key, ss, 0) }

func (w *writer) stmtsOff(key string, ss []gen.Stmt, off int) {
	for i, s := range ss {
		k := fmt.Sprintf("%s/%d", key, off+i)
		switch s.Kind {
		case gen.KAction:
			t := s.Text
			if len(s.Attribs) > 0 {
				t += " " + w.x.Attribs(s.Attribs)
			}
			w.line("action", k, t)
		case gen.KCall:
			var t string
			if s.Self {
				t = "." + []string{" ", "  ", "\t"}[w.x.intn(3)] + "<-"
			} else {
				t = w.x.AppName(s.Target) + w.x.sp1() + "<-"
			}
			t += []string{" ", "", "  "}[w.x.intn(3)] + s.Ep
			if s.HasArgs {
				t += " (" + strings.Join(s.Args, ","+w.x.sp1()) + ")"
			}
			if len(s.Attribs) > 0 {
				t += " " + w.x.Attribs(s.Attribs)
			}
			w.line("call", k, t)
		case gen.KRet:
			w.line("ret", k, w.x.casing("return")+" "+s.Text+[]string{"", " ", "  "}[w.x.intn(3)])
		case gen.KOneOf:
			w.line("oneof", k, w.x.casing("one")+w.x.sp1()+"of"+w.x.sp()+":")
			w.depth++
			for j, c := range s.Cases {
				w.line("case", fmt.Sprintf("%s/case%d", k, j), c.Label+w.x.sp()+":")
				w.depth++
				w.stmts(fmt.Sprintf("%s/case%d", k, j), c.Body)
				w.depth--
			}
			w.depth--
		case gen.KGroup:
			w.line("group", k, s.Text+w.x.sp()+":")
			w.depth++
			w.stmts(k, s.Body)
			w.depth--
		default:
			kw := blockKw[s.Kind]
			var head string
			switch s.Kind {
			case gen.KIf, gen.KFor, gen.KLoop, gen.KAlt: // keyword spelling and spacing are part of the compiled text
				head = kw + " " + s.Text + w.x.sp() + ":"
			case gen.KElse:
				if s.Text == "" {
					head = kw + w.x.sp() + ":"
				} else {
					head = kw + " " + s.Text + w.x.sp() + ":"
				}
			default: // while / until / for each: keyword not kept, predicate kept verbatim
				kwS := w.x.casing(kw)
				if s.Kind == gen.KForEach {
					kwS = w.x.casing("for") + w.x.sp1() + w.x.casing("each")
				}
				head = kwS + w.x.sp1() + s.Text + ":"
			}
			w.line(kw, k, head)
			w.depth++
			w.stmts(k, s.Body)
			w.depth--
		}
	}
}

// body with annotations interleaved at random positions among the top-level statements
func (w *writer) epBody(key string, annos []gen.Anno, doc []string, body []gen.Stmt) {
	w.depth++
	for _, d := range doc {
		w.line("docstring", "", "|"+d)
	}
	ai := 0
	for i := range body {
		for ai < len(annos) && body[i].Kind != gen.KElse && w.x.chance(1, 2) { // never between an if and its else
			w.anno(key+"@"+annos[ai].Name, annos[ai])
			ai++
		}
		w.stmtsOff(key, body[i:i+1], i)
	}
	for ; ai < len(annos); ai++ {
		w.anno(key+"@"+annos[ai].Name, annos[ai])
	}
	w.depth--
}

func (w *writer) endpointHeader(name string, long *string, params []gen.Field, attribs []gen.Entry) string {
	h := name
	if long != nil {
		h += " " + w.x.QString(*long)
	}
	if len(params) > 0 {
		h += w.x.sp() + w.x.params(params)
	}
	if len(attribs) > 0 {
		h += " " + w.x.Attribs(attribs)
	}
	return h + w.x.sp() + ":"
}

func (w *writer) pathSegs(segs []gen.PathSeg) string {
	if len(segs) == 0 {
		return "/"
	}
	var sb strings.Builder
	for _, s := range segs {
		sb.WriteByte('/')
		if s.Var != "" {
			sb.WriteString("{" + w.x.sp() + s.Var + w.x.lessColon() + w.x.tyexpr(s.VarTy) + w.x.sp() + "}")
		} else {
			sb.WriteString(s.Static)
		}
	}
	return sb.String()
}

func (w *writer) rest(key string, n *gen.RestNode) {
	h := w.pathSegs(n.Segs)
	if len(n.Attribs) > 0 {
		h += " " + w.x.Attribs(n.Attribs)
	}
	w.line("rest", key, h+w.x.sp()+":")
	w.depth++
	for i, c := range n.Children {
		k := fmt.Sprintf("%s/%d", key, i)
		switch {
		case c.Anno != nil:
			w.anno(k+"@"+c.Anno.Name, *c.Anno)
		case c.Sub != nil:
			w.rest(k, c.Sub)
		default:
			m := c.Method
			h := m.Verb
			if len(m.Params) > 0 {
				h += w.x.sp1() + w.x.params(m.Params)
			}
			if len(m.Query) > 0 {
				it := make([]string, len(m.Query))
				for j, q := range m.Query {
					t := w.x.tyexpr(q.Ty)
					if q.Ty.Kind == gen.XLocal {
						t = "{" + q.Ty.Local + "}"
					}
					it[j] = q.Name + "=" + t
					if q.Opt {
						it[j] += "?"
					}
				}
				h += w.x.sp1() + "?" + strings.Join(it, "&")
			}
			if len(m.Attribs) > 0 {
				h += " " + w.x.Attribs(m.Attribs)
			}
			w.line("method", k, h+w.x.sp()+":")
			w.epBody(k, m.Annos, m.Doc, m.Body)
		}
	}
	w.depth--
}

func (w *writer) member(key string, m gen.Member) {
	x := w.x
	switch m.Kind {
	case gen.MAnno:
		w.anno(key+"@"+m.Anno.Name, *m.Anno)
	case gen.MType, gen.MTable:
		kw := "!type"
		if m.Kind == gen.MTable {
			kw = "!table"
		}
		h := kw + x.sp1() + x.NameStr(m.Name)
		if len(m.Attribs) > 0 {
			h += " " + x.Attribs(m.Attribs)
		}
		k := key + "." + m.Name
		if m.Whatever {
			w.line("type", k, h+x.sp()+":"+x.sp1()+"...")
			return
		}
		w.line("type", k, h+x.sp()+":")
		w.depth++
		for _, it := range m.Items {
			switch {
			case it.Field != nil:
				w.field(k+"."+it.Field.Name, *it.Field)
			case it.Tuple != nil:
				w.inTuple(k, it.Tuple)
			default:
				w.anno(k+"@"+it.Anno.Name, *it.Anno)
			}
		}
		w.depth--
	case gen.MEnum:
		h := "!enum" + x.sp1() + x.Name(m.Name)
		if len(m.Attribs) > 0 {
			h += " " + x.Attribs(m.Attribs)
		}
		k := key + "." + m.Name
		w.line("enum", k, h+x.sp()+":")
		w.depth++
		for _, a := range m.Annos {
			w.anno(k+"@"+a.Name, a)
		}
		for _, e := range m.Enum {
			w.line("enumitem", k+"."+e.Name, e.Name+x.sp()+":"+x.sp()+x.num(e.Val))
		}
		w.depth--
	case gen.MAlias:
		h := "!alias" + x.sp1() + x.NameStr(m.Name)
		if len(m.Attribs) > 0 {
			h += " " + x.Attribs(m.Attribs)
		}
		k := key + "." + m.Name
		ts := x.typeSpec(m.AliasColl, m.AliasTy, m.AliasSize)
		if len(m.Annos) == 0 && x.chance(1, 3) {
			w.line("alias", k, h+x.sp()+":"+x.sp1()+ts)
			return
		}
		w.line("alias", k, h+x.sp()+":")
		w.depth++
		for _, a := range m.Annos {
			w.anno(k+"@"+a.Name, a)
		}
		w.line("aliastype", "", ts)
		w.depth--
	case gen.MUnion:
		h := "!union" + x.sp1() + x.NameStr(m.Name)
		if len(m.Attribs) > 0 {
			h += " " + x.Attribs(m.Attribs)
		}
		k := key + "." + m.Name
		w.line("union", k, h+x.sp()+":")
		w.depth++
		ai := 0
		for i, u := range m.Union {
			for ai < len(m.Annos) && x.chance(1, 2) {
				w.anno(k+"@"+m.Annos[ai].Name, m.Annos[ai])
				ai++
			}
			w.line("unionmember", fmt.Sprintf("%s#%d", k, i), x.typeSpec(u.Coll, u.Ty, u.Size))
		}
		for ; ai < len(m.Annos); ai++ {
			w.anno(k+"@"+m.Annos[ai].Name, m.Annos[ai])
		}
		w.depth--
	case gen.MEndpoint:
		k := key + " <- " + m.Name
		h := w.endpointHeader(m.Name, m.Long, m.Params, m.Attribs)
		if len(m.Body) == 0 && len(m.Annos) == 0 {
			w.line("endpoint", k, h+x.sp1()+"...")
			return
		}
		w.line("endpoint", k, h)
		w.epBody(k, m.Annos, nil, m.Body)
	case gen.MRest:
		w.rest(key+" <- rest", m.Rest)
	case gen.MMixin:
		w.line("mixin", key+" -|> "+strings.Join(m.App, "::"), "-|>"+x.sp1()+x.AppName(m.App))
	case gen.MEvent:
		k := key + " <-> " + m.Name
		h := w.endpointHeader("<->"+x.sp1()+m.Name, nil, m.Params, m.Attribs)
		if len(m.Body) == 0 {
			w.line("event", k, h+x.sp1()+"...")
			return
		}
		w.line("event", k, h)
		w.epBody(k, nil, nil, m.Body)
	case gen.MSubscribe:
		k := key + " <- " + strings.Join(m.App, " :: ") + " -> " + m.Name
		h := w.endpointHeader(x.AppName(m.App)+" -> "+m.Name, nil, nil, m.Attribs)
		if len(m.Body) == 0 {
			w.line("subscribe", k, h+x.sp1()+"...")
			return
		}
		w.line("subscribe", k, h)
		w.epBody(k, nil, nil, m.Body)
	case gen.MCollector:
		k := key + " <- .. * <- *"
		if len(m.Collector) == 0 {
			w.line("collector", k, ".. * <- *"+x.sp()+":"+x.sp1()+"...")
			return
		}
		w.line("collector", k, ".. * <- *"+x.sp()+":")
		w.depth++
		for i, c := range m.Collector {
			var t string
			switch c.Kind {
			case gen.CCall:
				t = x.AppName(c.Target) + x.sp1() + "<-" + []string{" ", "", "  "}[x.intn(3)] + c.Ep
			case gen.CAction:
				t = c.Ep
			default:
				t = c.Verb + x.sp1() + c.Ep
			}
			w.line("collectorentry", fmt.Sprintf("%s/%d", k, i), t+" "+x.Attribs(c.Attribs))
		}
		w.depth--
	}
}

var units = []string{"    ", "  ", "   ", "\t", "        ", " "}

// Render writes every file of the spec.
func Render(spec *gen.Spec, r *common.Rng, opt Options) *Out {
	out := &Out{Files: map[string]string{}, Pos: map[string][]Pos{}}
	x := &rnd{r: r, plain: opt.Plain}
	for fi, f := range spec.Files {
		w := &writer{x: x, out: out, file: f.Name, unit: units[x.intn(len(units))]}
		if fi == 0 {
			out.Root = f.Name
		}
		for _, imp := range f.Imports {
			w.lines = append(w.lines, "import "+imp)
		}
		if len(f.Imports) > 0 {
			w.lines = append(w.lines, "")
		}
		for _, b := range f.Blocks {
			key := strings.Join(b.App, " :: ")
			h := x.AppName(b.App)
			if b.Long != nil {
				h += x.sp1() + x.QString(*b.Long)
			}
			if len(b.Attribs) > 0 {
				h += " " + x.Attribs(b.Attribs)
			}
			w.line("app", key, h+x.sp()+":")
			w.depth++
			for _, m := range b.Members {
				w.member(key, m)
			}
			w.depth--
			if x.chance(1, 2) {
				w.lines = append(w.lines, "")
			}
		}
		out.Files[f.Name] = strings.Join(w.lines, "\n") + "\n"
	}
	return out
}
