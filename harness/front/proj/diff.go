package proj

import (
	"fmt"
	"reflect"
	"strings"
)

// Difference between the declared (expected) projection and the compiled (observed) one. Key is the abstract
// class used for known-findings matching ("field.opt", "stmt.count", "endpoint.undeclared" ...); Path names
// the element; What is a one-line human description.
type Difference struct {
	Key  string
	Path string
	What string
}

type differ struct{ out []Difference }

func (d *differ) add(key, path, format string, a ...interface{}) {
	d.out = append(d.out, Difference{key, path, fmt.Sprintf(format, a...)})
}

func attrStr(a Attr) string {
	switch a.Kind {
	case "s":
		return fmt.Sprintf("%q", a.S)
	case "a":
		it := make([]string, len(a.Elts))
		for i, e := range a.Elts {
			it[i] = attrStr(e)
		}
		return "[" + strings.Join(it, ",") + "]"
	}
	return "<" + a.Kind + ">"
}

func (d *differ) attrs(kind, path string, e, o Attrs) {
	for _, k := range sortedKeys(e) {
		ov, ok := o[k]
		if !ok {
			d.add(kind+".attr.missing", path+"@"+k, "declared attribute %s=%s is missing", k, attrStr(e[k]))
			continue
		}
		if !reflect.DeepEqual(normAttr(e[k]), normAttr(ov)) {
			d.add(kind+".attr.altered", path+"@"+k, "attribute %s declared %s, compiled %s", k, attrStr(e[k]), attrStr(ov))
		}
	}
	for _, k := range sortedKeys(o) {
		if _, ok := e[k]; !ok {
			d.add(kind+".attr.undeclared", path+"@"+k, "undeclared attribute %s=%s appears", k, attrStr(o[k]))
		}
	}
}

func normAttr(a Attr) Attr {
	if len(a.Elts) == 0 {
		a.Elts = nil
	} else {
		n := make([]Attr, len(a.Elts))
		for i, e := range a.Elts {
			n[i] = normAttr(e)
		}
		a.Elts = n
	}
	return a
}

func scopeStr(s *Scope) string {
	if s == nil {
		return "-"
	}
	return strings.Join(s.App, "::") + "|" + strings.Join(s.Path, ".")
}

func consStr(cs []Constraint) string {
	it := make([]string, len(cs))
	for i, c := range cs {
		it[i] = fmt.Sprintf("{bits=%d len=%d..%d prec=%d scale=%d range=%v}", c.BitWidth, c.LenMin, c.LenMax, c.Precision, c.Scale, c.HasRange)
	}
	return "[" + strings.Join(it, " ") + "]"
}

// typ compares a field-level / alias / member / param type. kind is the key prefix ("field", "param", ...).
func (d *differ) typ(kind, path string, e, o *Type) {
	if e == nil || o == nil {
		if e != o {
			d.add(kind+".type", path, "declared type %v, compiled %v", e != nil, o != nil)
		}
		return
	}
	if e.Kind != o.Kind {
		d.add(kind+".kind", path, "declared as %s, compiled as %s", e.Kind, o.Kind)
		return
	}
	if e.Opt != o.Opt {
		d.add(kind+".opt", path, "optional declared %v, compiled %v", e.Opt, o.Opt)
	}
	if e.Doc != o.Doc {
		d.add(kind+".doc", path, "docstring declared %q, compiled %q", e.Doc, o.Doc)
	}
	if !consEq(e.Cons, o.Cons) {
		d.add(kind+".constraint", path, "constraints declared %s, compiled %s", consStr(e.Cons), consStr(o.Cons))
	}
	d.attrs(kind, path, e.Attrs, o.Attrs)
	switch e.Kind {
	case "prim":
		if e.Prim != o.Prim {
			d.add(kind+".prim", path, "primitive declared %s, compiled %s", e.Prim, o.Prim)
		}
	case "ref":
		if scopeStr(e.Ref) != scopeStr(o.Ref) {
			d.add(kind+".ref", path, "reference target declared %s, compiled %s", scopeStr(e.Ref), scopeStr(o.Ref))
		}
		// the reference CONTEXT (where the reference was written) is the compiler's bookkeeping, not something the
		// text declares: the oracle does not judge it (the Coq correspondence compares it with the listener model)
	case "set", "seq", "list":
		d.typ(kind+".inner", path+"/"+e.Kind, e.Inner, o.Inner)
	case "tuple", "relation":
		d.fields(path, e.Fields, o.Fields)
		if e.Kind == "relation" && !reflect.DeepEqual(append([]string{}, e.PK...), append([]string{}, o.PK...)) {
			d.add("table.pk", path, "primary key declared %v, compiled %v", e.PK, o.PK)
		}
	case "enum":
		for _, k := range sortedKeys(e.Items) {
			ov, ok := o.Items[k]
			if !ok {
				d.add("enum.item.missing", path+"."+k, "declared enum item %s is missing", k)
			} else if ov != e.Items[k] {
				d.add("enum.item.value", path+"."+k, "enum item %s declared %d, compiled %d", k, e.Items[k], ov)
			}
		}
		for _, k := range sortedKeys(o.Items) {
			if _, ok := e.Items[k]; !ok {
				d.add("enum.item.undeclared", path+"."+k, "undeclared enum item %s appears", k)
			}
		}
	case "oneof":
		if len(e.Members) != len(o.Members) {
			d.add("union.count", path, "union declares %d members, compiled %d", len(e.Members), len(o.Members))
			return
		}
		for i := range e.Members {
			d.typ("union.member", fmt.Sprintf("%s#%d", path, i), e.Members[i], o.Members[i])
		}
	}
}

func consEq(a, b []Constraint) bool {
	if len(a) != len(b) {
		return false
	}
	for i := range a {
		if a[i] != b[i] {
			return false
		}
	}
	return true
}

func (d *differ) fields(path string, e, o map[string]*Type) {
	for _, k := range sortedKeys(e) {
		ov, ok := o[k]
		if !ok {
			d.add("field.missing", path+"."+k, "declared field %s is missing", k)
			continue
		}
		d.typ("field", path+"."+k, e[k], ov)
	}
	for _, k := range sortedKeys(o) {
		if _, ok := e[k]; !ok {
			d.add("field.undeclared", path+"."+k, "undeclared field %s appears", k)
		}
	}
}

func (d *differ) params(kind, path string, e, o []Param) {
	if len(e) != len(o) {
		d.add(kind+".count", path, "%d declared, %d compiled", len(e), len(o))
		return
	}
	for i := range e {
		if e[i].Name != o[i].Name {
			d.add(kind+".name", fmt.Sprintf("%s#%d", path, i), "declared %q, compiled %q", e[i].Name, o[i].Name)
			continue
		}
		d.typ(kind, path+"."+e[i].Name, e[i].Type, o[i].Type)
	}
}

func (d *differ) stmts(path string, e, o []Stmt) {
	if len(e) != len(o) {
		d.add("stmt.count", path, "%d statements declared, %d compiled", len(e), len(o))
		return
	}
	for i := range e {
		p := fmt.Sprintf("%s/%d", path, i)
		a, b := e[i], o[i]
		if a.Kind != b.Kind {
			d.add("stmt.kind", p, "declared %s, compiled %s", a.Kind, b.Kind)
			continue
		}
		if a.Text != b.Text || a.Mode != b.Mode {
			d.add("stmt.text", p, "%s declared %q %s, compiled %q %s", a.Kind, a.Text, a.Mode, b.Text, b.Mode)
		}
		d.attrs("stmt", p, a.Attrs, b.Attrs)
		if a.Kind == "call" {
			if strings.Join(a.Target, "\x00") != strings.Join(b.Target, "\x00") || a.Ep != b.Ep {
				d.add("stmt.call", p, "call declared %v <- %q, compiled %v <- %q", a.Target, a.Ep, b.Target, b.Ep)
			}
			if a.HasArgs != b.HasArgs || strings.Join(a.Args, "\x00") != strings.Join(b.Args, "\x00") {
				d.add("stmt.args", p, "call arguments declared %v, compiled %v", a.Args, b.Args)
			}
		}
		d.stmts(p, a.Body, b.Body)
		if len(a.Choices) != len(b.Choices) {
			d.add("stmt.choices", p, "%d cases declared, %d compiled", len(a.Choices), len(b.Choices))
			continue
		}
		for j := range a.Choices {
			if a.Choices[j].Cond != b.Choices[j].Cond {
				d.add("stmt.text", fmt.Sprintf("%s/case%d", p, j), "case label declared %q, compiled %q", a.Choices[j].Cond, b.Choices[j].Cond)
			}
			d.stmts(fmt.Sprintf("%s/case%d", p, j), a.Choices[j].Body, b.Choices[j].Body)
		}
	}
}

func (d *differ) endpoint(path string, e, o *Endpoint) {
	if e.Name != o.Name {
		d.add("endpoint.name", path, "name declared %q, compiled %q", e.Name, o.Name)
	}
	if e.Long != o.Long {
		d.add("endpoint.long", path, "long name declared %q, compiled %q", e.Long, o.Long)
	}
	if e.Doc != o.Doc {
		d.add("endpoint.doc", path, "docstring declared %q, compiled %q", e.Doc, o.Doc)
	}
	if e.Pubsub != o.Pubsub {
		d.add("endpoint.pubsub", path, "event flag declared %v, compiled %v", e.Pubsub, o.Pubsub)
	}
	if strings.Join(e.Source, "\x00") != strings.Join(o.Source, "\x00") {
		d.add("endpoint.source", path, "subscription source declared %v, compiled %v", e.Source, o.Source)
	}
	if o.Flag {
		d.add("endpoint.undeclared-flag", path, "undeclared flags appear")
	}
	d.attrs("endpoint", path, e.Attrs, o.Attrs)
	d.params("param", path+"(", e.Params, o.Params)
	if (e.Rest == nil) != (o.Rest == nil) {
		d.add("endpoint.rest", path, "REST declared %v, compiled %v", e.Rest != nil, o.Rest != nil)
	} else if e.Rest != nil {
		if e.Rest.Method != o.Rest.Method {
			d.add("rest.method", path, "method declared %s, compiled %s", e.Rest.Method, o.Rest.Method)
		}
		if e.Rest.Path != o.Rest.Path {
			d.add("rest.path", path, "path declared %q, compiled %q", e.Rest.Path, o.Rest.Path)
		}
		d.params("rest.query", path+"?", e.Rest.Query, o.Rest.Query)
		d.params("rest.urlparam", path+"{", e.Rest.URL, o.Rest.URL)
	}
	d.stmts(path, e.Stmts, o.Stmts)
}

// Diff lists how the compiled module o deviates from the declared module e (empty = the model says exactly
// what the text declares).
func Diff(e, o *Module) []Difference {
	d := &differ{}
	for _, an := range sortedKeys(e.Apps) {
		ea := e.Apps[an]
		oa, ok := o.Apps[an]
		if !ok {
			d.add("app.missing", an, "declared application %q is missing", an)
			continue
		}
		if strings.Join(ea.Parts, "\x00") != strings.Join(oa.Parts, "\x00") {
			d.add("app.name", an, "name parts declared %q, compiled %q", ea.Parts, oa.Parts)
		}
		if ea.Long != oa.Long {
			d.add("app.long", an, "long name declared %q, compiled %q", ea.Long, oa.Long)
		}
		if oa.Doc != "" || len(oa.Other) > 0 {
			d.add("app.undeclared-construct", an, "undeclared constructs appear: doc=%q %v", oa.Doc, oa.Other)
		}
		d.attrs("app", an, ea.Attrs, oa.Attrs)
		for _, tn := range sortedKeys(ea.Types) {
			ot, ok := oa.Types[tn]
			if !ok {
				d.add("type.missing", an+"."+tn, "declared type %s is missing", tn)
				continue
			}
			d.typ("type", an+"."+tn, ea.Types[tn], ot)
		}
		for _, tn := range sortedKeys(oa.Types) {
			if _, ok := ea.Types[tn]; !ok {
				d.add("type.undeclared", an+"."+tn, "undeclared type %s appears", tn)
			}
		}
		for _, en := range sortedKeys(ea.Eps) {
			oe, ok := oa.Eps[en]
			if !ok {
				d.add("endpoint.missing", an+" <- "+en, "declared endpoint %q is missing", en)
				continue
			}
			d.endpoint(an+" <- "+en, ea.Eps[en], oe)
		}
		for _, en := range sortedKeys(oa.Eps) {
			if _, ok := ea.Eps[en]; !ok {
				d.add("endpoint.undeclared", an+" <- "+en, "undeclared endpoint %q appears", en)
			}
		}
		if len(ea.Mixins) != len(oa.Mixins) {
			d.add("mixin.count", an, "%d mixins declared, %d compiled", len(ea.Mixins), len(oa.Mixins))
		} else {
			for i := range ea.Mixins {
				if strings.Join(ea.Mixins[i], "\x00") != strings.Join(oa.Mixins[i], "\x00") {
					d.add("mixin.name", an, "mixin declared %v, compiled %v", ea.Mixins[i], oa.Mixins[i])
				}
			}
		}
	}
	for _, an := range sortedKeys(o.Apps) {
		if _, ok := e.Apps[an]; !ok {
			d.add("app.undeclared", an, "undeclared application %q appears", an)
		}
	}
	return d.out
}
