// Package proj: the observable projection of a compiled *sysl.Module named by property C02 (and reused by
// C04/C08/C09/C19/C20): applications, types, fields, endpoints, statements, attributes - no source contexts.
// The shapes mirror coq/theories/Front/Ast.v (projection side) one to one; Gallina() prints a term of
// type Front.Ast.module.
package proj

import (
	"fmt"
	"sort"
	"strings"

	"github.com/anz-bank/sysl/pkg/sysl"
)

type Attr struct {
	Kind string // "s" | "a" | "unset" | "other"
	S    string
	Elts []Attr
}
type Attrs map[string]Attr

type Scope struct {
	App  []string
	Path []string
}

type Constraint struct {
	BitWidth, LenMin, LenMax, Precision, Scale int64
	HasRange                                   bool
	RangeMin, RangeMax                         int64
	Other                                      bool // a constraint field outside the projection is set (resolution, non-int range)
}

// Type mirrors sysl.Type (one recursive message).
type Type struct {
	Kind    string // unset notype prim ref set seq list tuple relation enum oneof other
	Prim    string // Type_Primitive name
	Ctx     *Scope
	Ref     *Scope
	Inner   *Type
	Fields  map[string]*Type
	PK      []string
	Items   map[string]int64
	Members []*Type
	Opt     bool
	Cons    []Constraint
	Attrs   Attrs
	Doc     string
}

type Stmt struct {
	Kind    string // action call ret cond loop foreach group alt other
	Attrs   Attrs
	Text    string // action / payload / test / criterion / collection / title
	Mode    string // loop: WHILE | UNTIL | NO_Mode
	Target  []string
	Ep      string
	HasArgs bool
	Args    []string
	Body    []Stmt
	Choices []Choice
}
type Choice struct {
	Cond string
	Body []Stmt
}

type Param struct {
	Name string
	Type *Type
}
type Rest struct {
	Method string
	Path   string
	Query  []Param
	URL    []Param
}
type Endpoint struct {
	Name   string
	Long   string
	Doc    string
	Attrs  Attrs
	Pubsub bool
	Source []string
	Params []Param
	Rest   *Rest
	Stmts  []Stmt
	Flag   bool // any field outside the projection set (flag)
}
type App struct {
	Parts  []string
	Long   string
	Doc    string
	Attrs  Attrs
	Types  map[string]*Type
	Eps    map[string]*Endpoint
	Mixins [][]string
	Other  []string // constructs outside the projection that are present (views, wrapped)
}
type Module struct {
	Apps map[string]*App
}

// ---------------------------------------------------------------- from the real module

func attrOf(a *sysl.Attribute) Attr {
	if a == nil {
		return Attr{Kind: "unset"}
	}
	switch x := a.Attribute.(type) {
	case nil:
		return Attr{Kind: "unset"}
	case *sysl.Attribute_S:
		return Attr{Kind: "s", S: x.S}
	case *sysl.Attribute_A:
		r := Attr{Kind: "a"}
		for _, e := range x.A.GetElt() {
			r.Elts = append(r.Elts, attrOf(e))
		}
		return r
	}
	return Attr{Kind: "other"}
}

func attrsOf(m map[string]*sysl.Attribute) Attrs {
	if len(m) == 0 {
		return nil
	}
	r := Attrs{}
	for k, v := range m {
		r[k] = attrOf(v)
	}
	return r
}

func scopeOf(s *sysl.Scope) *Scope {
	if s == nil {
		return nil
	}
	return &Scope{App: append([]string(nil), s.GetAppname().GetPart()...), Path: append([]string(nil), s.GetPath()...)}
}

func consOf(cs []*sysl.Type_Constraint) []Constraint {
	var out []Constraint
	for _, c := range cs {
		if c == nil {
			out = append(out, Constraint{Other: true})
			continue
		}
		k := Constraint{BitWidth: int64(c.BitWidth), LenMin: c.GetLength().GetMin(), LenMax: c.GetLength().GetMax(),
			Precision: int64(c.Precision), Scale: int64(c.Scale)}
		if c.Range != nil {
			k.HasRange = true
			mi, ok1 := c.Range.GetMin().GetValue().(*sysl.Value_I)
			ma, ok2 := c.Range.GetMax().GetValue().(*sysl.Value_I)
			if ok1 && ok2 {
				k.RangeMin, k.RangeMax = mi.I, ma.I
			} else {
				k.Other = true
			}
		}
		if c.Resolution != nil {
			k.Other = true
		}
		out = append(out, k)
	}
	return out
}

func TypeOf(t *sysl.Type) *Type {
	if t == nil {
		return nil
	}
	r := &Type{Opt: t.Opt, Cons: consOf(t.Constraint), Attrs: attrsOf(t.Attrs), Doc: t.Docstring}
	fields := func(m map[string]*sysl.Type) map[string]*Type {
		o := map[string]*Type{}
		for k, v := range m {
			o[k] = TypeOf(v)
		}
		return o
	}
	switch x := t.Type.(type) {
	case nil:
		r.Kind = "unset"
	case *sysl.Type_NoType_:
		r.Kind = "notype"
	case *sysl.Type_Primitive_:
		r.Kind = "prim"
		r.Prim = x.Primitive.String()
	case *sysl.Type_TypeRef:
		r.Kind = "ref"
		r.Ctx = scopeOf(x.TypeRef.GetContext())
		r.Ref = scopeOf(x.TypeRef.GetRef())
		if r.Ref == nil {
			r.Ref = &Scope{}
		}
	case *sysl.Type_Set:
		r.Kind = "set"
		r.Inner = TypeOf(x.Set)
	case *sysl.Type_Sequence:
		r.Kind = "seq"
		r.Inner = TypeOf(x.Sequence)
	case *sysl.Type_List_:
		r.Kind = "list"
		r.Inner = TypeOf(x.List.GetType())
	case *sysl.Type_Tuple_:
		r.Kind = "tuple"
		r.Fields = fields(x.Tuple.GetAttrDefs())
	case *sysl.Type_Relation_:
		r.Kind = "relation"
		r.Fields = fields(x.Relation.GetAttrDefs())
		r.PK = append([]string(nil), x.Relation.GetPrimaryKey().GetAttrName()...)
		if len(x.Relation.GetKey()) > 0 || len(x.Relation.GetInject()) > 0 {
			r.Kind = "other"
		}
	case *sysl.Type_Enum_:
		r.Kind = "enum"
		r.Items = map[string]int64{}
		for k, v := range x.Enum.GetItems() {
			r.Items[k] = v
		}
	case *sysl.Type_OneOf_:
		r.Kind = "oneof"
		for _, m := range x.OneOf.GetType() {
			r.Members = append(r.Members, TypeOf(m))
		}
	default:
		r.Kind = "other"
	}
	return r
}

func stmtsOf(ss []*sysl.Statement) []Stmt {
	var out []Stmt
	for _, s := range ss {
		out = append(out, stmtOf(s))
	}
	return out
}

func stmtOf(s *sysl.Statement) Stmt {
	if s == nil {
		return Stmt{Kind: "other"}
	}
	r := Stmt{Attrs: attrsOf(s.Attrs)}
	switch x := s.Stmt.(type) {
	case *sysl.Statement_Action:
		r.Kind, r.Text = "action", x.Action.GetAction()
	case *sysl.Statement_Call:
		r.Kind = "call"
		r.Target = append([]string(nil), x.Call.GetTarget().GetPart()...)
		r.Ep = x.Call.GetEndpoint()
		if x.Call.Arg != nil {
			r.HasArgs = true
			for _, a := range x.Call.Arg {
				r.Args = append(r.Args, a.GetName())
			}
		}
	case *sysl.Statement_Ret:
		r.Kind, r.Text = "ret", x.Ret.GetPayload()
	case *sysl.Statement_Cond:
		r.Kind, r.Text, r.Body = "cond", x.Cond.GetTest(), stmtsOf(x.Cond.GetStmt())
	case *sysl.Statement_Loop:
		r.Kind, r.Text, r.Mode, r.Body = "loop", x.Loop.GetCriterion(), x.Loop.GetMode().String(), stmtsOf(x.Loop.GetStmt())
	case *sysl.Statement_Foreach:
		r.Kind, r.Text, r.Body = "foreach", x.Foreach.GetCollection(), stmtsOf(x.Foreach.GetStmt())
	case *sysl.Statement_Group:
		r.Kind, r.Text, r.Body = "group", x.Group.GetTitle(), stmtsOf(x.Group.GetStmt())
	case *sysl.Statement_Alt:
		r.Kind = "alt"
		for _, c := range x.Alt.GetChoice() {
			r.Choices = append(r.Choices, Choice{Cond: c.GetCond(), Body: stmtsOf(c.GetStmt())})
		}
	default:
		r.Kind = "other"
	}
	return r
}

func paramsOf(ps []*sysl.Endpoint_RestParams_QueryParam) []Param {
	var out []Param
	for _, p := range ps {
		out = append(out, Param{Name: p.GetName(), Type: TypeOf(p.GetType())})
	}
	return out
}

func EndpointOf(e *sysl.Endpoint) *Endpoint {
	r := &Endpoint{Name: e.Name, Long: e.LongName, Doc: e.Docstring, Attrs: attrsOf(e.Attrs), Pubsub: e.IsPubsub,
		Source: append([]string(nil), e.GetSource().GetPart()...), Stmts: stmtsOf(e.Stmt), Flag: len(e.Flag) > 0}
	for _, p := range e.Param {
		r.Params = append(r.Params, Param{Name: p.GetName(), Type: TypeOf(p.GetType())})
	}
	if rp := e.RestParams; rp != nil {
		r.Rest = &Rest{Method: rp.Method.String(), Path: rp.Path, Query: paramsOf(rp.QueryParam), URL: paramsOf(rp.UrlParam)}
	}
	return r
}

func AppOf(a *sysl.Application) *App {
	r := &App{Parts: append([]string(nil), a.GetName().GetPart()...), Long: a.LongName, Doc: a.Docstring, Attrs: attrsOf(a.Attrs),
		Types: map[string]*Type{}, Eps: map[string]*Endpoint{}}
	for k, v := range a.Types {
		r.Types[k] = TypeOf(v)
	}
	for k, v := range a.Endpoints {
		r.Eps[k] = EndpointOf(v)
	}
	for _, m := range a.Mixin2 {
		r.Mixins = append(r.Mixins, append([]string(nil), m.GetName().GetPart()...))
	}
	if len(a.Views) > 0 {
		r.Other = append(r.Other, "views")
	}
	if a.Wrapped != nil {
		r.Other = append(r.Other, "wrapped")
	}
	return r
}

func FromModule(m *sysl.Module) *Module {
	r := &Module{Apps: map[string]*App{}}
	for k, v := range m.GetApps() {
		r.Apps[k] = AppOf(v)
	}
	return r
}

// ---------------------------------------------------------------- Gallina printer

// GStr renders a Go string as a Coq term of type string. Printable ASCII goes into a literal; anything
// else (newlines, tabs, non-ASCII bytes) is spelled as bytes through Front.Ast.sb.
func GStr(s string) string {
	plain := true
	for i := 0; i < len(s); i++ {
		if s[i] < 0x20 || s[i] > 0x7e {
			plain = false
			break
		}
	}
	if plain {
		return "\"" + strings.ReplaceAll(s, "\"", "\"\"") + "\""
	}
	it := make([]string, len(s))
	for i := 0; i < len(s); i++ {
		it[i] = fmt.Sprint(s[i])
	}
	return "(sb [" + strings.Join(it, ";") + "])"
}

func GStrs(ss []string) string {
	it := make([]string, len(ss))
	for i, s := range ss {
		it[i] = GStr(s)
	}
	return "[" + strings.Join(it, ";") + "]"
}

func GZ(i int64) string {
	if i < 0 {
		return fmt.Sprintf("(%d)", i)
	}
	return fmt.Sprint(i)
}

func gbool(b bool) string {
	if b {
		return "true"
	}
	return "false"
}

func (a Attr) Gallina() string {
	switch a.Kind {
	case "s":
		return "AS " + GStr(a.S)
	case "a":
		it := make([]string, len(a.Elts))
		for i, e := range a.Elts {
			it[i] = e.Gallina()
		}
		return "AA [" + strings.Join(it, ";") + "]"
	case "unset":
		return "AUnset"
	}
	return "ABad"
}

func sortedKeys[V any](m map[string]V) []string {
	ks := make([]string, 0, len(m))
	for k := range m {
		ks = append(ks, k)
	}
	sort.Strings(ks)
	return ks
}

func (a Attrs) Gallina() string {
	var it []string
	for _, k := range sortedKeys(a) {
		it = append(it, "("+GStr(k)+","+a[k].Gallina()+")")
	}
	return "[" + strings.Join(it, ";") + "]"
}

func (s *Scope) Gallina() string {
	return "Sc " + GStrs(s.App) + " " + GStrs(s.Path)
}

var primG = map[string]string{"NO_Primitive": "PNone", "EMPTY": "PEmpty", "ANY": "PAny", "BOOL": "PBool", "INT": "PInt", "FLOAT": "PFloat",
	"DECIMAL": "PDecimal", "STRING": "PString", "BYTES": "PBytes", "STRING_8": "PString8", "DATE": "PDate", "DATETIME": "PDatetime",
	"XML": "PXml", "UUID": "PUuid"}

func (c Constraint) Gallina() string {
	if c.Other {
		return "CBad"
	}
	rg := "None"
	if c.HasRange {
		rg = fmt.Sprintf("(Some (%s,%s))", GZ(c.RangeMin), GZ(c.RangeMax))
	}
	return fmt.Sprintf("C %s %s %s %s %s %s", GZ(c.BitWidth), GZ(c.LenMin), GZ(c.LenMax), GZ(c.Precision), GZ(c.Scale), rg)
}

func (t *Type) Gallina() string {
	if t == nil {
		return "TyNil"
	}
	var k string
	flds := func() string {
		var it []string
		for _, n := range sortedKeys(t.Fields) {
			it = append(it, "("+GStr(n)+","+t.Fields[n].Gallina()+")")
		}
		return "[" + strings.Join(it, ";") + "]"
	}
	switch t.Kind {
	case "unset":
		k = "KUnset"
	case "notype":
		k = "KNoType"
	case "prim":
		k = "KPrim " + primG[t.Prim]
	case "ref":
		ctx := "None"
		if t.Ctx != nil {
			ctx = "(Some (" + t.Ctx.Gallina() + "))"
		}
		k = "KRef " + ctx + " (" + t.Ref.Gallina() + ")"
	case "set":
		k = "KSet (" + t.Inner.Gallina() + ")"
	case "seq":
		k = "KSeq (" + t.Inner.Gallina() + ")"
	case "list":
		k = "KList (" + t.Inner.Gallina() + ")"
	case "tuple":
		k = "KTuple " + flds()
	case "relation":
		k = "KRel " + flds() + " " + GStrs(t.PK)
	case "enum":
		var it []string
		for _, n := range sortedKeys(t.Items) {
			it = append(it, "("+GStr(n)+","+GZ(t.Items[n])+")")
		}
		k = "KEnum [" + strings.Join(it, ";") + "]"
	case "oneof":
		it := make([]string, len(t.Members))
		for i, m := range t.Members {
			it[i] = m.Gallina()
		}
		k = "KOneOf [" + strings.Join(it, ";") + "]"
	default:
		k = "KBad"
	}
	cs := make([]string, len(t.Cons))
	for i, c := range t.Cons {
		cs[i] = c.Gallina()
	}
	return fmt.Sprintf("Ty (%s) %s [%s] %s %s", k, gbool(t.Opt), strings.Join(cs, ";"), t.Attrs.Gallina(), GStr(t.Doc))
}

func gStmts(ss []Stmt) string {
	it := make([]string, len(ss))
	for i, s := range ss {
		it[i] = s.Gallina()
	}
	return "[" + strings.Join(it, ";") + "]"
}

func (s Stmt) Gallina() string {
	a := s.Attrs.Gallina()
	switch s.Kind {
	case "action":
		return "SAction " + a + " " + GStr(s.Text)
	case "call":
		args := "None"
		if s.HasArgs {
			args = "(Some " + GStrs(s.Args) + ")"
		}
		return "SCall " + a + " " + GStrs(s.Target) + " " + GStr(s.Ep) + " " + args
	case "ret":
		return "SRet " + a + " " + GStr(s.Text)
	case "cond":
		return "SCond " + a + " " + GStr(s.Text) + " " + gStmts(s.Body)
	case "loop":
		m := "LNone"
		switch s.Mode {
		case "WHILE":
			m = "LWhile"
		case "UNTIL":
			m = "LUntil"
		}
		return "SLoop " + a + " " + m + " " + GStr(s.Text) + " " + gStmts(s.Body)
	case "foreach":
		return "SForeach " + a + " " + GStr(s.Text) + " " + gStmts(s.Body)
	case "group":
		return "SGroup " + a + " " + GStr(s.Text) + " " + gStmts(s.Body)
	case "alt":
		it := make([]string, len(s.Choices))
		for i, c := range s.Choices {
			it[i] = "(" + GStr(c.Cond) + "," + gStmts(c.Body) + ")"
		}
		return "SAlt " + a + " [" + strings.Join(it, ";") + "]"
	}
	return "SBad"
}

func gParams(ps []Param) string {
	it := make([]string, len(ps))
	for i, p := range ps {
		it[i] = "(" + GStr(p.Name) + "," + p.Type.Gallina() + ")"
	}
	return "[" + strings.Join(it, ";") + "]"
}

var methG = map[string]string{"NO_Method": "MNone", "GET": "MGet", "PUT": "MPut", "POST": "MPost", "DELETE": "MDelete", "PATCH": "MPatch",
	"DONOTUSE_OPTIONS": "MOptions", "DONOTUSE_HEAD": "MHead"}

func (e *Endpoint) Gallina() string {
	rest := "None"
	if e.Rest != nil {
		rest = fmt.Sprintf("(Some (R %s %s %s %s))", methG[e.Rest.Method], GStr(e.Rest.Path), gParams(e.Rest.Query), gParams(e.Rest.URL))
	}
	nm := GStr(e.Name)
	if e.Flag {
		nm = "\"<flag set>\""
	}
	return fmt.Sprintf("E %s %s %s %s %s %s %s %s %s", nm, GStr(e.Long), GStr(e.Doc), e.Attrs.Gallina(), gbool(e.Pubsub), GStrs(e.Source),
		gParams(e.Params), rest, gStmts(e.Stmts))
}

func (a *App) Gallina() string {
	var ts, es, ms []string
	for _, n := range sortedKeys(a.Types) {
		ts = append(ts, "("+GStr(n)+","+a.Types[n].Gallina()+")")
	}
	for _, n := range sortedKeys(a.Eps) {
		es = append(es, "("+GStr(n)+","+a.Eps[n].Gallina()+")")
	}
	for _, m := range a.Mixins {
		ms = append(ms, GStrs(m))
	}
	long := GStr(a.Long)
	if len(a.Other) > 0 || a.Doc != "" {
		long = "\"<constructs outside the projection>\""
	}
	return fmt.Sprintf("A %s %s %s\n   [%s]\n   [%s]\n   [%s]", GStrs(a.Parts), long, a.Attrs.Gallina(),
		strings.Join(ts, ";\n    "), strings.Join(es, ";\n    "), strings.Join(ms, ";"))
}

func (m *Module) Gallina() string {
	var it []string
	for _, n := range sortedKeys(m.Apps) {
		it = append(it, "("+GStr(n)+",\n  "+m.Apps[n].Gallina()+")")
	}
	return "[" + strings.Join(it, ";\n ") + "]"
}
