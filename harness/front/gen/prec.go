package gen

import (
	"fmt"

	"verifharness/common"
	"verifharness/front/proj"
)

// ---------------------------------------------------------------- attribute precedence (addAttrWithPrecedence)
//
// One attribute NAME given several times on ONE element: inline in the header `[name=value]` and again as
// `@name = value` annotations in the body. The language rule (pkg/parse addAttrWithPrecedence): the FIRST
// non-empty value declared for the name is the one the element holds - for strings and arrays alike; an empty
// string / empty array is overwritten by the next value. GeneratePrec writes every element kind that takes both an
// inline list and annotations (application, !type, !table, field, !enum, !alias, !union, simple endpoint, REST
// method) with 1-3 contested names each, the values drawn from every value kind in every order: string, empty
// string, array, empty array, nested arrays, multi-line text.

var precNames = []string{"owners", "team", "tier", "cost_centre"}

func (x *g) precValue(kind int) proj.Attr {
	s := func() proj.Attr {
		for {
			v := x.pick(attrVals)
			if v != "" {
				return proj.Attr{Kind: "s", S: v}
			}
		}
	}
	switch kind {
	case 0:
		return s()
	case 1:
		return proj.Attr{Kind: "s", S: ""}
	case 2:
		a := proj.Attr{Kind: "a"}
		for i, n := 0, 1+x.r.Intn(3); i < n; i++ {
			a.Elts = append(a.Elts, s())
		}
		return a
	case 3:
		return proj.Attr{Kind: "a"}
	default:
		a := proj.Attr{Kind: "a"}
		for i, n := 0, 1+x.r.Intn(2); i < n; i++ {
			in := proj.Attr{Kind: "a"}
			for j, m := 0, x.r.Intn(3); j < m; j++ {
				in.Elts = append(in.Elts, s())
			}
			a.Elts = append(a.Elts, in)
		}
		return a
	}
}

// contest: for each of 1-3 names an optional inline entry and 1-3 annotations, the annotations of all names shuffled
// together (their relative order per name is what matters)
func (x *g) contest() ([]Entry, []Anno) {
	var es []Entry
	var as []Anno
	used := map[string]bool{}
	for i, n := 0, 1+x.r.Intn(3); i < n; i++ {
		name := x.fresh(precNames, used)
		if x.r.Chance(3, 4) {
			es = append(es, Entry{Name: name, Val: x.precValue(x.r.Intn(5))})
		}
		for j, m := 0, 1+x.r.Intn(3); j < m; j++ {
			a := Anno{Name: name}
			switch k := x.r.Intn(6); {
			case k == 5:
				a.Kind = 2
				for l, nl := 0, 1+x.r.Intn(2); l < nl; l++ {
					a.Lines = append(a.Lines, x.pick(docLines))
				}
			default:
				v := x.precValue(k)
				if v.Kind == "s" {
					a.Kind, a.S = 0, v.S
				} else {
					a.Kind, a.Arr = 1, v
				}
			}
			as = append(as, a)
		}
	}
	if x.r.Bool() {
		es = append(es, Entry{Tag: x.pick(tagNames)})
	}
	// interleave the annotations of different names, keeping each name's own order
	for i := len(as) - 1; i > 0; i-- {
		j := x.r.Intn(i + 1)
		if as[i].Name != as[j].Name {
			ok := true
			lo, hi := j, i
			for t := lo; t <= hi; t++ {
				if t != i && t != j && (as[t].Name == as[i].Name || as[t].Name == as[j].Name) {
					ok = false
				}
			}
			if ok {
				as[i], as[j] = as[j], as[i]
			}
		}
	}
	return es, as
}

func GeneratePrec(r *common.Rng) *Spec {
	x := &g{r: r, k: DefaultKnobs()}
	x.budget = 40
	nat := func(s string) TypeExpr {
		for i, v := range Natives {
			if v == s {
				return TypeExpr{Kind: XNative, Native: i}
			}
		}
		panic(s)
	}
	var blocks []Block
	for ai, napps := 0, 1+x.r.Intn(2); ai < napps; ai++ {
		parts := []string{[]string{"Shop", "Bank"}[ai]}
		b := Block{App: parts}
		var appAnnos []Anno
		b.Attribs, appAnnos = x.contest()
		var ms []Member
		n := 0
		name := func(p string) string { n++; return fmt.Sprintf("%s%d", p, n) }
		// !type / !table with a contested header and a contested field
		for _, table := range []bool{false, true} {
			if x.r.Chance(1, 4) {
				continue
			}
			m := Member{Kind: MType, Name: name("Account")}
			if table {
				m.Kind = MTable
			}
			var tas []Anno
			m.Attribs, tas = x.contest()
			f1 := Field{Name: "id", Ty: nat("int")}
			f2 := Field{Name: "who", Ty: nat("string"), Coll: x.coll()}
			f2.Attribs, f2.Annos = x.contest()
			m.Items = []TableItem{{Field: &f1}, {Field: &f2}}
			for _, a := range tas {
				a := a
				pos := x.r.Intn(len(m.Items) + 1)
				m.Items = append(m.Items[:pos], append([]TableItem{{Anno: &a}}, m.Items[pos:]...)...)
			}
			ms = append(ms, m)
		}
		if x.r.Chance(2, 3) {
			m := Member{Kind: MEnum, Name: name("Colour"), Enum: []EnumItem{{Name: "red", Val: 1}, {Name: "blue", Val: 2}}}
			m.Attribs, m.Annos = x.contest()
			ms = append(ms, m)
		}
		if x.r.Chance(2, 3) {
			m := Member{Kind: MAlias, Name: name("Ids"), AliasColl: CSet, AliasTy: nat("int")}
			m.Attribs, m.Annos = x.contest()
			ms = append(ms, m)
		}
		if x.r.Chance(2, 3) {
			m := Member{Kind: MUnion, Name: name("Either"), Union: []UnionMember{{Ty: nat("int")}, {Ty: nat("string")}}}
			m.Attribs, m.Annos = x.contest()
			ms = append(ms, m)
		}
		// simple endpoint
		{
			m := Member{Kind: MEndpoint, Name: name("Pay"), Body: []Stmt{{Kind: KAction, Text: "check"}, {Kind: KRet, Text: "ok"}}}
			m.Attribs, m.Annos = x.contest()
			ms = append(ms, m)
		}
		// REST method (and a sibling without anything contested)
		{
			verbs := []string{"GET", "POST", "PUT", "DELETE", "PATCH"}
			vi := x.r.Intn(len(verbs))
			md := &Method{Verb: verbs[vi], Body: []Stmt{{Kind: KRet, Text: "ok"}}}
			md.Attribs, md.Annos = x.contest()
			node := &RestNode{Segs: []PathSeg{{Static: name("accounts")}}, Children: []RestChild{{Method: md}}}
			if x.r.Bool() {
				node.Children = append(node.Children, RestChild{Method: &Method{Verb: verbs[(vi+1)%len(verbs)], Body: []Stmt{{Kind: KRet, Text: "ok"}}}})
			}
			ms = append(ms, Member{Kind: MRest, Rest: node})
		}
		// the application's own annotations, anywhere among the members
		for _, a := range appAnnos {
			a := a
			pos := x.r.Intn(len(ms) + 1)
			ms = append(ms[:pos], append([]Member{{Kind: MAnno, Anno: &a}}, ms[pos:]...)...)
		}
		if len(ms) >= 4 && x.r.Chance(1, 3) {
			// the application continued in a second block whose header gives one of the names again
			cut := 2 + x.r.Intn(len(ms)-3)
			b.Members = ms[:cut]
			es2, _ := x.contest()
			blocks = append(blocks, b, Block{App: parts, Attribs: es2, Members: ms[cut:]})
		} else {
			b.Members = ms
			blocks = append(blocks, b)
		}
	}
	return &Spec{Files: []File{{Name: "root.sysl", Blocks: blocks}}}
}
