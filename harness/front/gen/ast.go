// Package gen: the abstract specification (what a generated Sysl text DECLARES), its seeded generator and the
// declared ("intended") projection. The shapes mirror coq/theories/Front/Ast.v (source side) one to one;
// Gallina() prints a term of type Front.Ast.spec.
//
// All strings are SEMANTIC values (after %-unescaping, unquoting, trimming): how they are spelled on the
// line is the renderer's business (harness/front/render).
package gen

import (
	"fmt"
	"strings"

	"verifharness/front/proj"
)

// ---- attributes
type Entry struct { // one entry of [ ... ]: a modifier (~tag, ~a+b) or name=value
	Tag  string
	Name string
	Val  proj.Attr // Kind "s" or "a"
}
type Anno struct { // @name = value
	Name  string
	Kind  int // 0 "quoted", 1 [arrays], 2 multi-line docstring
	S     string
	Arr   proj.Attr
	Lines []string // text after the '|' of each line, verbatim
}

// ---- types
var Natives = []string{"int", "int32", "int64", "float", "float32", "float64", "string", "date", "bool", "decimal", "datetime", "bytes", "any"}
var nativeG = []string{"NInt", "NInt32", "NInt64", "NFloat", "NFloat32", "NFloat64", "NString", "NDate", "NBool", "NDecimal", "NDatetime", "NBytes", "NAny"}

const (
	XNative = iota
	XLocal
	XRef
	XNone
)

type TypeExpr struct {
	Kind    int
	Native  int
	Local   string
	RefApp  []string
	RefPath []string
}

const (
	ZNone = iota
	ZSize1
	ZSize2
	ZArrOpen
	ZArr
)

type SizeSpec struct {
	Kind int
	A, B int64
}

const (
	CNone = iota
	CSet
	CSeq
)

type Field struct {
	Name    string
	Array   bool // legacy `name(lo..hi) <: T`
	Coll    int
	Ty      TypeExpr
	Size    SizeSpec
	Opt     bool
	Attribs []Entry
	Annos   []Anno
	Doc     *string
}

// ---- statements
const (
	KAction = iota // Text as it appears (quotes included for the quoted form)
	KCall
	KRet
	KIf
	KElse // Text "" or "if ..." etc.
	KFor
	KLoop
	KAlt
	KWhile
	KUntil
	KForEach
	KGroup
	KOneOf
)

var stmtKindG = []string{"", "", "", "BIf", "BElse", "BFor", "BLoop", "BAlt", "BWhile", "BUntil", "BForEach", "BGroup"}

type Case struct {
	Label string
	Body  []Stmt
}
type Stmt struct {
	Kind    int
	Text    string
	Self    bool     // ". <- ep"
	Target  []string // app name parts
	Ep      string
	HasArgs bool
	Args    []string
	Body    []Stmt
	Cases   []Case
	Attribs []Entry // trailing [ ... ] (single-line statements only)
}

// ---- members
const (
	MAnno = iota
	MType
	MTable
	MEnum
	MAlias
	MUnion
	MEndpoint
	MRest
	MMixin
	MEvent
	MSubscribe
	MCollector
)

// one line of a `.. * <- *:` block
const (
	CCall   = iota // Target <- Ep [..]   (also `Sub <- Pub -> Evt [..]`: the lexer reads `Pub -> Evt` as one endpoint text)
	CAction        // EndpointName [..]
	CHttp          // VERB /path [..]
)

type CEntry struct {
	Kind    int
	Target  []string
	Ep      string // CCall: endpoint text; CAction: endpoint name; CHttp: path as written after the verb
	Verb    string
	Attribs []Entry // never empty (the grammar requires [ ... ])
}

type TableItem struct { // a field, an annotation line or an in-place tuple inside !type / !table
	Field *Field
	Anno  *Anno
	Tuple *InTuple
}

// `name <:` (or `name(1..) <:`) followed by an indented block of fields; nested to any depth
type InTuple struct {
	Name   string
	Array  bool
	Fields []NField
}
type NField struct {
	Field *Field
	Tuple *InTuple
}

func (t *InTuple) gallina(ctor string) string {
	return ctor + " " + gs(t.Name) + " " + gb(t.Array) + " " + glist(t.Fields, func(n NField) string {
		if n.Field != nil {
			return "NField (" + n.Field.Gallina() + ")"
		}
		return n.Tuple.gallina("NTuple")
	})
}
type EnumItem struct {
	Name string
	Val  int64
}
type UnionMember struct {
	Coll int
	Ty   TypeExpr
	Size SizeSpec
}
type PathSeg struct {
	Static string
	Var    string
	VarTy  TypeExpr // XNative or XLocal
}
type QueryVar struct {
	Name string
	Ty   TypeExpr // XNative, or XLocal (written {Name})
	Opt  bool
}
type Method struct {
	Verb    string
	Params  []Field
	Query   []QueryVar
	Attribs []Entry
	Annos   []Anno
	Doc     []string // leading "| text" lines
	Body    []Stmt
}
type RestChild struct {
	Method *Method
	Sub    *RestNode
	Anno   *Anno
}
type RestNode struct {
	Segs     []PathSeg // empty = "/"
	Attribs  []Entry
	Children []RestChild
}

type Member struct {
	Kind    int
	Name    string
	Anno    *Anno
	Attribs []Entry
	Annos   []Anno
	// type / table
	Items    []TableItem
	Whatever bool // "!type T: ..."
	// enum
	Enum []EnumItem
	// alias
	AliasColl int
	AliasTy   TypeExpr
	AliasSize SizeSpec
	// union
	Union []UnionMember
	// endpoint / event / subscribe
	Long   *string
	Params []Field
	Body   []Stmt
	Rest   *RestNode
	App    []string // mixin target / subscription source
	// collector
	Collector []CEntry
}

type Block struct {
	App     []string
	Long    *string
	Attribs []Entry
	Members []Member
}
type File struct {
	Name    string
	Imports []string
	Blocks  []Block
}
type Spec struct {
	Files []File // flatten order; Files[0] is the root
}

func (s *Spec) Blocks() []Block {
	var out []Block
	for _, f := range s.Files {
		out = append(out, f.Blocks...)
	}
	return out
}

// ---------------------------------------------------------------- Gallina

var gs = proj.GStr
var gss = proj.GStrs

func gopt(s *string) string {
	if s == nil {
		return "None"
	}
	return "(Some " + gs(*s) + ")"
}
func gb(b bool) string {
	if b {
		return "true"
	}
	return "false"
}
func glist[T any](xs []T, f func(T) string) string {
	it := make([]string, len(xs))
	for i, x := range xs {
		it[i] = f(x)
	}
	return "[" + strings.Join(it, ";") + "]"
}

func (e Entry) Gallina() string {
	if e.Tag != "" {
		return "ETag " + gs(e.Tag)
	}
	return "ENvp " + gs(e.Name) + " (" + e.Val.Gallina() + ")"
}
func gEntries(es []Entry) string { return glist(es, Entry.Gallina) }

func (a Anno) Gallina() string {
	switch a.Kind {
	case 0:
		return "An " + gs(a.Name) + " (NQ " + gs(a.S) + ")"
	case 1:
		return "An " + gs(a.Name) + " (NArr (" + a.Arr.Gallina() + "))"
	}
	return "An " + gs(a.Name) + " (NMulti " + gss(a.Lines) + ")"
}
func gAnnos(as []Anno) string { return glist(as, Anno.Gallina) }

func (t TypeExpr) Gallina() string {
	switch t.Kind {
	case XNative:
		return "XNative " + nativeG[t.Native]
	case XLocal:
		return "XLocal " + gs(t.Local)
	case XRef:
		return "XRef " + gss(t.RefApp) + " " + gss(t.RefPath)
	}
	return "XNone"
}
func (z SizeSpec) Gallina() string {
	switch z.Kind {
	case ZSize1:
		return fmt.Sprintf("ZSize %d None", z.A)
	case ZSize2:
		return fmt.Sprintf("ZSize %d (Some %d)", z.A, z.B)
	case ZArrOpen:
		return fmt.Sprintf("ZArr %d None", z.A)
	case ZArr:
		return fmt.Sprintf("ZArr %d (Some %d)", z.A, z.B)
	}
	return "ZNone"
}

var collG = []string{"CNone", "CSet", "CSeq"}

func (f Field) Gallina() string {
	return fmt.Sprintf("Fd %s %s %s (%s) (%s) %s %s %s %s", gs(f.Name), gb(f.Array), collG[f.Coll], f.Ty.Gallina(), f.Size.Gallina(), gb(f.Opt),
		gEntries(f.Attribs), gAnnos(f.Annos), gopt(f.Doc))
}
func gFields(fs []Field) string { return glist(fs, Field.Gallina) }

func gStmts(ss []Stmt) string { return glist(ss, Stmt.Gallina) }
func (s Stmt) Gallina() string {
	switch s.Kind {
	case KAction:
		return "XAction " + gEntries(s.Attribs) + " " + gs(s.Text)
	case KCall:
		tg := "None"
		if !s.Self {
			tg = "(Some " + gss(s.Target) + ")"
		}
		args := "None"
		if s.HasArgs {
			args = "(Some " + gss(s.Args) + ")"
		}
		return "XCall " + gEntries(s.Attribs) + " " + tg + " " + gs(s.Ep) + " " + args
	case KRet:
		return "XRet " + gs(s.Text)
	case KOneOf:
		return "XOneOf " + glist(s.Cases, func(c Case) string { return "(" + gs(c.Label) + "," + gStmts(c.Body) + ")" })
	}
	return "XBlock " + stmtKindG[s.Kind] + " " + gs(s.Text) + " " + gStmts(s.Body)
}

func (p PathSeg) Gallina() string {
	if p.Var != "" {
		return "PVar " + gs(p.Var) + " (" + p.VarTy.Gallina() + ")"
	}
	return "PStatic " + gs(p.Static)
}

var verbG = map[string]string{"GET": "MGet", "PUT": "MPut", "POST": "MPost", "DELETE": "MDelete", "PATCH": "MPatch"}

func (m *Method) Gallina() string {
	q := glist(m.Query, func(q QueryVar) string { return "Qv " + gs(q.Name) + " (" + q.Ty.Gallina() + ") " + gb(q.Opt) })
	return fmt.Sprintf("Md %s %s %s %s %s %s %s", verbG[m.Verb], gFields(m.Params), q, gEntries(m.Attribs), gAnnos(m.Annos), gss(m.Doc), gStmts(m.Body))
}
func (n *RestNode) Gallina() string {
	ch := glist(n.Children, func(c RestChild) string {
		switch {
		case c.Method != nil:
			return "RMethod (" + c.Method.Gallina() + ")"
		case c.Sub != nil:
			return "RSub (" + c.Sub.Gallina() + ")"
		}
		return "RAnno (" + c.Anno.Gallina() + ")"
	})
	return "RNode " + glist(n.Segs, PathSeg.Gallina) + " " + gEntries(n.Attribs) + " " + ch
}

func (m Member) Gallina() string {
	switch m.Kind {
	case MAnno:
		return "MAnno (" + m.Anno.Gallina() + ")"
	case MType, MTable:
		items := glist(m.Items, func(t TableItem) string {
			if t.Field != nil {
				return "TField (" + t.Field.Gallina() + ")"
			}
			if t.Tuple != nil {
				return t.Tuple.gallina("TTuple")
			}
			return "TAnno (" + t.Anno.Gallina() + ")"
		})
		return fmt.Sprintf("MType %s %s %s %s %s", gb(m.Kind == MTable), gs(m.Name), gEntries(m.Attribs), gb(m.Whatever), items)
	case MEnum:
		return fmt.Sprintf("MEnum %s %s %s %s", gs(m.Name), gEntries(m.Attribs), gAnnos(m.Annos),
			glist(m.Enum, func(e EnumItem) string { return "(" + gs(e.Name) + "," + proj.GZ(e.Val) + ")" }))
	case MAlias:
		return fmt.Sprintf("MAlias %s %s %s %s (%s) (%s)", gs(m.Name), gEntries(m.Attribs), gAnnos(m.Annos), collG[m.AliasColl], m.AliasTy.Gallina(), m.AliasSize.Gallina())
	case MUnion:
		return fmt.Sprintf("MUnion %s %s %s %s", gs(m.Name), gEntries(m.Attribs), gAnnos(m.Annos),
			glist(m.Union, func(u UnionMember) string {
				return "Um " + collG[u.Coll] + " (" + u.Ty.Gallina() + ") (" + u.Size.Gallina() + ")"
			}))
	case MEndpoint:
		return fmt.Sprintf("MEndpoint %s %s %s %s %s %s", gs(m.Name), gopt(m.Long), gFields(m.Params), gEntries(m.Attribs), gAnnos(m.Annos), gStmts(m.Body))
	case MRest:
		return "MRest (" + m.Rest.Gallina() + ")"
	case MMixin:
		return "MMixin " + gss(m.App)
	case MEvent:
		return fmt.Sprintf("MEvent %s %s %s %s", gs(m.Name), gFields(m.Params), gEntries(m.Attribs), gStmts(m.Body))
	case MSubscribe:
		return fmt.Sprintf("MSubscribe %s %s %s %s", gss(m.App), gs(m.Name), gEntries(m.Attribs), gStmts(m.Body))
	case MCollector:
		return "MCollector " + glist(m.Collector, func(c CEntry) string {
			switch c.Kind {
			case CCall:
				return "CCall " + gss(c.Target) + " " + gs(c.Ep) + " " + gEntries(c.Attribs)
			case CAction:
				return "CAction " + gs(c.Ep) + " " + gEntries(c.Attribs)
			}
			return "CHttp " + verbG[c.Verb] + " " + gs(c.Ep) + " " + gEntries(c.Attribs)
		})
	}
	panic("member kind")
}

func (b Block) Gallina() string {
	return fmt.Sprintf("Bk %s %s %s\n   %s", gss(b.App), gopt(b.Long), gEntries(b.Attribs),
		"["+strings.Join(func() []string {
			it := make([]string, len(b.Members))
			for i, m := range b.Members {
				it[i] = m.Gallina()
			}
			return it
		}(), ";\n    ")+"]")
}

// Gallina prints the spec as `list (list block)` (one list of blocks per file, in flatten order).
func (s *Spec) Gallina() string {
	return glist(s.Files, func(f File) string { return "\n " + glist(f.Blocks, func(b Block) string { return "\n  " + b.Gallina() }) })
}
