package gen

import (
	"sort"
	"strings"

	"verifharness/front/proj"
)

// Intent computes what a well-formed specification DECLARES, as the same projection the compiled module is
// reduced to. It is written from the language's meaning (lang-spec + sysl.proto), independently of the Coq
// model of the listener; property C02 is `Diff(Intent(spec), FromModule(compile(render(spec)))) = nothing`.
// Reference contexts are bookkeeping, not declarations: Diff does not look at them.
func Intent(spec *Spec) *proj.Module {
	m := &proj.Module{Apps: map[string]*proj.App{}}
	for _, b := range spec.Blocks() {
		key := strings.Join(b.App, " :: ")
		a := getApp(m, b.App)
		a.Parts = append([]string(nil), b.App...)
		if b.Long != nil {
			a.Long = *b.Long
		}
		a.Attrs = mergeDeclared(a.Attrs, entriesAttrs(b.Attribs))
		for _, mem := range b.Members {
			intentMember(m, a, key, mem)
		}
	}
	// mixins: the types of the mixed-in application become types of the application (own declarations win)
	for _, an := range sortedApps(m) {
		a := m.Apps[an]
		applyCollector(a)
		for _, mx := range a.Mixins {
			src, ok := m.Apps[strings.Join(mx, " :: ")]
			if !ok {
				continue
			}
			for tn, t := range src.Types {
				if _, has := a.Types[tn]; !has {
					a.Types[tn] = t
				}
			}
		}
		// `T.f` written where an application-qualified reference is expected means field f of the local type T
		for _, t := range a.Types {
			if t.Kind == "tuple" || t.Kind == "relation" {
				for _, f := range t.Fields {
					localDeepRef(m, a, an, f)
				}
			}
		}
		for _, e := range a.Eps {
			for _, p := range e.Params {
				localDeepRef(m, a, an, p.Type)
			}
		}
	}
	return m
}

const CollectorName = ".. * <- *"

// applyCollector: what a `.. * <- *:` block means. `Target <- Endpoint [attrs]` declares these attributes on EVERY
// call of that target and endpoint written anywhere in the application's endpoints (any nesting depth, however
// often); `EndpointName [attrs]` / `VERB /path [attrs]` declares them on that endpoint. Nothing else changes.
func applyCollector(a *proj.App) {
	ce, ok := a.Eps[CollectorName]
	if !ok {
		return
	}
	for _, cs := range ce.Stmts {
		switch cs.Kind {
		case "action":
			if e, ok := a.Eps[cs.Text]; ok {
				e.Attrs = mergeDeclared(copyAttrs(e.Attrs), cs.Attrs)
			}
		case "call":
			for name, e := range a.Eps {
				if name != CollectorName {
					markCalls(e.Stmts, cs)
				}
			}
		}
	}
}

func markCalls(ss []proj.Stmt, cs proj.Stmt) {
	for i := range ss {
		s := &ss[i]
		if s.Kind == "call" && s.Ep == cs.Ep && strings.Join(s.Target, "\x00") == strings.Join(cs.Target, "\x00") && len(s.Target) == len(cs.Target) {
			s.Attrs = mergeDeclared(copyAttrs(s.Attrs), cs.Attrs)
		}
		markCalls(s.Body, cs)
		for j := range s.Choices {
			markCalls(s.Choices[j].Body, cs)
		}
	}
}

func sortedApps(m *proj.Module) []string {
	var ks []string
	for k := range m.Apps {
		ks = append(ks, k)
	}
	sort.Strings(ks)
	return ks
}

func localDeepRef(m *proj.Module, a *proj.App, an string, f *proj.Type) {
	if f == nil || f.Kind != "ref" || len(f.Ref.App) != 1 || len(f.Ref.Path) == 0 {
		return
	}
	x := f.Ref.App[0]
	if x == an {
		return
	}
	if other, ok := m.Apps[x]; ok {
		if _, ok := other.Types[f.Ref.Path[0]]; ok {
			return
		}
	}
	if _, ok := a.Types[x]; ok {
		f.Ref = &proj.Scope{Path: append([]string{x}, f.Ref.Path...)}
	}
}

func getApp(m *proj.Module, parts []string) *proj.App {
	key := strings.Join(parts, " :: ")
	a, ok := m.Apps[key]
	if !ok {
		a = &proj.App{Parts: append([]string(nil), parts...), Types: map[string]*proj.Type{}, Eps: map[string]*proj.Endpoint{}}
		m.Apps[key] = a
	}
	return a
}

func entriesAttrs(es []Entry) proj.Attrs {
	if len(es) == 0 {
		return nil
	}
	out := proj.Attrs{}
	var tags []proj.Attr
	for _, e := range es {
		if e.Tag != "" {
			tags = append(tags, proj.Attr{Kind: "s", S: e.Tag})
		} else {
			out[e.Name] = e.Val
		}
	}
	if len(tags) > 0 {
		out["patterns"] = proj.Attr{Kind: "a", Elts: tags}
	}
	return out
}

// mergeDeclared: attributes declared in a later place are added; tags accumulate in declaration order.
func mergeDeclared(dst, src proj.Attrs) proj.Attrs {
	if len(src) == 0 {
		return dst
	}
	if dst == nil {
		dst = proj.Attrs{}
	}
	for k, v := range src {
		if old, ok := dst[k]; ok && old.Kind == "a" && v.Kind == "a" {
			dst[k] = proj.Attr{Kind: "a", Elts: append(append([]proj.Attr{}, old.Elts...), v.Elts...)}
		} else {
			dst[k] = v
		}
	}
	return dst
}

func AnnoValue(a Anno) proj.Attr {
	switch a.Kind {
	case 0:
		return proj.Attr{Kind: "s", S: a.S}
	case 1:
		return a.Arr
	}
	ls := make([]string, len(a.Lines))
	for i, l := range a.Lines {
		ls[i] = strings.TrimPrefix(l, " ")
	}
	return proj.Attr{Kind: "s", S: strings.TrimLeft(strings.Join(ls, "\n"), " ") + "\n"}
}

// addAnnos: `@name = value` lines. The FIRST non-empty value declared for a name on an element is the one the
// element holds - whether it was given inline in the header or by an earlier annotation, and for strings and
// arrays alike; an empty string / empty array is no value and is overwritten by the next one. Tags (`patterns`)
// accumulate.
func attrNonEmpty(a proj.Attr) bool {
	return (a.Kind == "s" && a.S != "") || (a.Kind == "a" && len(a.Elts) > 0)
}

func addAnnos(dst proj.Attrs, as []Anno) proj.Attrs {
	for _, a := range as {
		if dst == nil {
			dst = proj.Attrs{}
		}
		v := AnnoValue(a)
		old, ok := dst[a.Name]
		switch {
		case ok && a.Name == "patterns" && old.Kind == "a" && v.Kind == "a":
			dst[a.Name] = proj.Attr{Kind: "a", Elts: append(append([]proj.Attr{}, old.Elts...), v.Elts...)}
		case ok && attrNonEmpty(old):
		default:
			dst[a.Name] = v
		}
	}
	return dst
}

var nativePrim = []string{"INT", "INT", "INT", "FLOAT", "FLOAT", "FLOAT", "STRING", "DATE", "BOOL", "DECIMAL", "DATETIME", "BYTES", "ANY"}

func nativeCons(n int) []proj.Constraint {
	switch Natives[n] {
	case "int32":
		return []proj.Constraint{{BitWidth: 32, HasRange: true, RangeMin: -2147483648, RangeMax: 2147483647}}
	case "int64":
		return []proj.Constraint{{BitWidth: 64, HasRange: true, RangeMin: -9223372036854775808, RangeMax: 9223372036854775807}}
	case "float32":
		return []proj.Constraint{{BitWidth: 32}}
	case "float64":
		return []proj.Constraint{{BitWidth: 64}}
	}
	return nil
}

// SizeAllowed: which primitives take which size specification (the others are rejected by the compiler).
func SizeAllowed(native int, z int) bool {
	p := nativePrim[native]
	switch z {
	case ZNone:
		return true
	case ZSize1:
		return p == "INT" || p == "STRING" || p == "BYTES" || p == "DATE" || p == "DATETIME" || p == "DECIMAL"
	case ZSize2:
		return p == "DECIMAL"
	}
	return p == "INT" || p == "STRING" || p == "BYTES" || p == "DATE" || p == "DATETIME" || p == "DECIMAL"
}

func tyIntent(app []string, path []string, t TypeExpr, z SizeSpec) *proj.Type {
	ctx := &proj.Scope{App: append([]string(nil), app...), Path: append([]string(nil), path...)}
	switch t.Kind {
	case XNative:
		r := &proj.Type{Kind: "prim", Prim: nativePrim[t.Native], Cons: nativeCons(t.Native)}
		var bits int64
		for _, c := range r.Cons {
			if c.BitWidth > 0 {
				bits = c.BitWidth
				break
			}
		}
		switch z.Kind {
		case ZSize1:
			if r.Prim == "DECIMAL" {
				r.Cons = []proj.Constraint{{LenMax: z.A}}
			} else {
				r.Cons = []proj.Constraint{{BitWidth: bits, LenMax: z.A}}
			}
		case ZSize2:
			r.Cons = []proj.Constraint{{LenMax: z.A, Precision: z.A, Scale: z.B}}
		case ZArrOpen:
			r.Cons = []proj.Constraint{{BitWidth: bits, LenMin: z.A}}
		case ZArr:
			r.Cons = []proj.Constraint{{BitWidth: bits, LenMin: z.A, LenMax: z.B}}
		}
		return r
	case XLocal:
		return &proj.Type{Kind: "ref", Ctx: ctx, Ref: &proj.Scope{Path: []string{t.Local}}}
	case XRef:
		return &proj.Type{Kind: "ref", Ctx: ctx, Ref: &proj.Scope{App: append([]string(nil), t.RefApp...), Path: append([]string(nil), t.RefPath...)}}
	}
	return &proj.Type{Kind: "notype"}
}

func collWrap(c int, inner *proj.Type) *proj.Type {
	switch c {
	case CSet:
		return &proj.Type{Kind: "set", Inner: inner}
	case CSeq:
		return &proj.Type{Kind: "seq", Inner: inner}
	}
	return inner
}

func fieldIntent(app, path []string, f Field) *proj.Type {
	t := collWrap(f.Coll, tyIntent(app, path, f.Ty, f.Size))
	t.Opt = f.Opt
	t.Attrs = addAnnos(entriesAttrs(f.Attribs), f.Annos)
	if f.Doc != nil {
		t.Doc = *f.Doc
	}
	if f.Array {
		t = &proj.Type{Kind: "list", Inner: t}
	}
	return t
}

// inTupleIntent: `name <:` + indented fields declares (1) in the enclosing type the field `name`, a reference to
// [name] (a list of it for the array form) and (2) a tuple type of its own, named by the dotted path
// Type.name[.inner...], that holds the nested fields; references inside it are written in the context of that path.
func inTupleIntent(a *proj.App, app, path []string, t *InTuple) *proj.Type {
	sub := append(append([]string(nil), path...), t.Name)
	nt := &proj.Type{Kind: "tuple", Fields: map[string]*proj.Type{}}
	for _, n := range t.Fields {
		if n.Field != nil {
			nt.Fields[n.Field.Name] = fieldIntent(app, sub, *n.Field)
		} else {
			nt.Fields[n.Tuple.Name] = inTupleIntent(a, app, sub, n.Tuple)
		}
	}
	a.Types[strings.Join(sub, ".")] = nt
	f := &proj.Type{Kind: "ref", Ref: &proj.Scope{Path: []string{t.Name}}}
	if t.Array {
		f = &proj.Type{Kind: "list", Inner: f}
	}
	return f
}

func paramsIntent(app []string, ps []Field) []proj.Param {
	var out []proj.Param
	for _, p := range ps {
		out = append(out, proj.Param{Name: p.Name, Type: fieldIntent(app, nil, p)})
	}
	return out
}

func StmtsIntent(app []string, ss []Stmt) []proj.Stmt {
	var out []proj.Stmt
	for _, s := range ss {
		r := proj.Stmt{Attrs: entriesAttrs(s.Attribs)}
		switch s.Kind {
		case KAction:
			r.Kind, r.Text = "action", s.Text
		case KCall:
			r.Kind, r.Ep = "call", s.Ep
			if s.Self {
				r.Target = append([]string(nil), app...)
			} else {
				r.Target = append([]string(nil), s.Target...)
			}
			r.HasArgs, r.Args = s.HasArgs, append([]string(nil), s.Args...)
		case KRet:
			r.Kind, r.Text = "ret", s.Text
		case KIf:
			r.Kind, r.Text = "cond", "if "+s.Text
		case KElse:
			r.Kind, r.Text = "cond", strings.TrimSpace("else "+s.Text)
		case KFor:
			r.Kind, r.Text = "group", "for "+s.Text
		case KLoop:
			r.Kind, r.Text = "group", "loop "+s.Text
		case KAlt:
			r.Kind, r.Text = "group", "alt "+s.Text
		case KWhile:
			r.Kind, r.Text, r.Mode = "loop", s.Text, "WHILE"
		case KUntil:
			r.Kind, r.Text, r.Mode = "loop", s.Text, "UNTIL"
		case KForEach:
			r.Kind, r.Text = "foreach", s.Text
		case KGroup:
			r.Kind, r.Text = "group", s.Text
		case KOneOf:
			r.Kind = "alt"
			for _, c := range s.Cases {
				r.Choices = append(r.Choices, proj.Choice{Cond: c.Label, Body: StmtsIntent(app, c.Body)})
			}
		}
		r.Body = StmtsIntent(app, s.Body)
		out = append(out, r)
	}
	return out
}

func hasTag(es []Entry, t string) bool {
	for _, e := range es {
		if e.Tag == t {
			return true
		}
	}
	return false
}

func intentMember(m *proj.Module, a *proj.App, key string, mem Member) {
	switch mem.Kind {
	case MAnno:
		a.Attrs = addAnnos(a.Attrs, []Anno{*mem.Anno})
	case MType, MTable:
		t, ok := a.Types[mem.Name]
		if !ok {
			t = &proj.Type{Kind: "tuple", Fields: map[string]*proj.Type{}}
			if mem.Kind == MTable {
				t.Kind = "relation"
			}
			a.Types[mem.Name] = t
		}
		t.Attrs = mergeDeclared(t.Attrs, entriesAttrs(mem.Attribs))
		if mem.Whatever {
			*t = proj.Type{Kind: "unset", Attrs: t.Attrs}
			return
		}
		var pk []string
		for _, it := range mem.Items {
			if it.Anno != nil {
				t.Attrs = addAnnos(t.Attrs, []Anno{*it.Anno})
				continue
			}
			if it.Tuple != nil {
				t.Fields[it.Tuple.Name] = inTupleIntent(a, a.Parts, []string{mem.Name}, it.Tuple)
				continue
			}
			t.Fields[it.Field.Name] = fieldIntent(a.Parts, []string{mem.Name}, *it.Field)
			if hasTag(it.Field.Attribs, "pk") {
				pk = append(pk, it.Field.Name)
			}
		}
		if t.Kind == "relation" && len(pk) > 0 {
			t.PK = pk
		}
	case MEnum:
		t := &proj.Type{Kind: "enum", Items: map[string]int64{}, Attrs: addAnnos(entriesAttrs(mem.Attribs), mem.Annos)}
		for _, e := range mem.Enum {
			t.Items[e.Name] = e.Val
		}
		a.Types[mem.Name] = t
	case MAlias:
		t := collWrap(mem.AliasColl, tyIntent(a.Parts, []string{mem.Name}, mem.AliasTy, mem.AliasSize))
		t.Attrs = addAnnos(entriesAttrs(mem.Attribs), mem.Annos)
		a.Types[mem.Name] = t
	case MUnion:
		t := &proj.Type{Kind: "oneof", Attrs: addAnnos(entriesAttrs(mem.Attribs), mem.Annos)}
		for _, u := range mem.Union {
			t.Members = append(t.Members, collWrap(u.Coll, tyIntent(a.Parts, []string{mem.Name}, u.Ty, u.Size)))
		}
		a.Types[mem.Name] = t
	case MEndpoint:
		e, ok := a.Eps[mem.Name]
		if !ok {
			e = &proj.Endpoint{Name: mem.Name}
			a.Eps[mem.Name] = e
		}
		if mem.Long != nil {
			e.Long = *mem.Long
		}
		e.Attrs = addAnnos(mergeDeclared(e.Attrs, entriesAttrs(mem.Attribs)), mem.Annos)
		e.Params = append(e.Params, paramsIntent(a.Parts, mem.Params)...)
		e.Stmts = append(e.Stmts, StmtsIntent(a.Parts, mem.Body)...)
	case MRest:
		intentRest(a, mem.Rest, "", nil, nil)
	case MMixin:
		a.Mixins = append(a.Mixins, append([]string(nil), mem.App...))
	case MEvent:
		e, ok := a.Eps[mem.Name]
		if !ok {
			e = &proj.Endpoint{Name: mem.Name, Pubsub: true}
			a.Eps[mem.Name] = e
		}
		if len(mem.Attribs) > 0 {
			e.Attrs = entriesAttrs(mem.Attribs)
		}
		e.Params = append(e.Params, paramsIntent(a.Parts, mem.Params)...)
		e.Stmts = append(e.Stmts, StmtsIntent(a.Parts, mem.Body)...)
	case MSubscribe:
		name := strings.Join(mem.App, " :: ") + " -> " + mem.Name
		a.Eps[name] = &proj.Endpoint{Name: name, Source: append([]string(nil), mem.App...), Attrs: entriesAttrs(mem.Attribs),
			Stmts: StmtsIntent(a.Parts, mem.Body)}
		// the publisher's event calls every subscriber
		src := getApp(m, mem.App)
		ev, ok := src.Eps[mem.Name]
		if !ok {
			ev = &proj.Endpoint{Name: mem.Name, Pubsub: true}
			src.Eps[mem.Name] = ev
		}
		ev.Stmts = append(ev.Stmts, proj.Stmt{Kind: "call", Target: append([]string(nil), a.Parts...), Ep: name})
	case MCollector:
		e, ok := a.Eps[CollectorName]
		if !ok {
			e = &proj.Endpoint{Name: CollectorName}
			a.Eps[CollectorName] = e
		}
		if len(mem.Collector) > 0 { // a block with entries is THE collector of the application
			e.Stmts = nil
			for _, c := range mem.Collector {
				st := proj.Stmt{Attrs: entriesAttrs(c.Attribs)}
				switch c.Kind {
				case CCall:
					st.Kind, st.Target, st.Ep = "call", append([]string(nil), c.Target...), c.Ep
				case CAction:
					st.Kind, st.Text = "action", c.Ep
				default:
					st.Kind, st.Text = "action", c.Verb+" "+c.Ep
				}
				e.Stmts = append(e.Stmts, st)
			}
		}
	}
}

func intentRest(a *proj.App, n *RestNode, prefix string, inherited []proj.Attrs, urlParams []proj.Param) {
	path := prefix
	if len(n.Segs) == 0 {
		path += "/"
	}
	for _, s := range n.Segs {
		if s.Var != "" {
			path += "/{" + s.Var + "}"
			var t *proj.Type
			switch s.VarTy.Kind {
			case XNative:
				t = tyIntent(a.Parts, nil, s.VarTy, SizeSpec{})
			case XRef:
				// `{v <: Type.field}` / `{v <: App.Type}`: a path variable's reference is kept as one dotted path
				t = &proj.Type{Kind: "ref", Ctx: &proj.Scope{App: a.Parts},
					Ref: &proj.Scope{Path: append(append([]string(nil), s.VarTy.RefApp...), s.VarTy.RefPath...)}}
			default:
				t = &proj.Type{Kind: "ref", Ctx: &proj.Scope{App: a.Parts}, Ref: &proj.Scope{Path: []string{s.VarTy.Local}}}
			}
			urlParams = append(urlParams, proj.Param{Name: s.Var, Type: t})
		} else {
			path += "/" + s.Static
		}
	}
	own := entriesAttrs(n.Attribs)
	for _, c := range n.Children {
		switch {
		case c.Anno != nil:
			own = addAnnos(own, []Anno{*c.Anno})
		case c.Sub != nil:
			intentRest(a, c.Sub, path, append(append([]proj.Attrs{}, inherited...), copyAttrs(own)), append([]proj.Param{}, urlParams...))
		default:
			md := c.Method
			name := md.Verb + " " + path
			e, ok := a.Eps[name]
			if !ok {
				e = &proj.Endpoint{Name: name, Rest: &proj.Rest{Method: md.Verb, Path: path}}
				a.Eps[name] = e
			}
			at := proj.Attrs{"patterns": proj.Attr{Kind: "a", Elts: []proj.Attr{{Kind: "s", S: "rest"}}}}
			for _, inh := range inherited {
				at = mergeDeclared(at, inh)
			}
			at = mergeDeclared(at, own)
			at = mergeDeclared(at, entriesAttrs(md.Attribs))
			e.Attrs = addAnnos(mergeDeclared(e.Attrs, at), md.Annos)
			e.Params = append(e.Params, paramsIntent(a.Parts, md.Params)...)
			for _, q := range md.Query {
				var t *proj.Type
				if q.Ty.Kind == XNative {
					t = tyIntent(a.Parts, nil, q.Ty, SizeSpec{})
				} else {
					t = &proj.Type{Kind: "ref", Ctx: &proj.Scope{App: a.Parts}, Ref: &proj.Scope{Path: []string{q.Ty.Local}}}
				}
				t.Opt = q.Opt
				e.Rest.Query = append(e.Rest.Query, proj.Param{Name: q.Name, Type: t})
			}
			e.Rest.URL = append([]proj.Param{}, urlParams...)
			for _, d := range md.Doc {
				d = strings.TrimPrefix(d, " ")
				if e.Doc != "" {
					e.Doc += " "
				}
				e.Doc += d
			}
			e.Stmts = append(e.Stmts, StmtsIntent(a.Parts, md.Body)...)
		}
	}
}

func copyAttrs(a proj.Attrs) proj.Attrs {
	if a == nil {
		return nil
	}
	o := proj.Attrs{}
	for k, v := range a {
		o[k] = v
	}
	return o
}
