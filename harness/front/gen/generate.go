package gen

import (
	"fmt"

	"verifharness/common"
	"verifharness/front/proj"
)

// Knobs bound the size of a generated specification and select the constructs in scope.
// Level: 1 apps only; 2 + types/tables; 3 + enums/aliases/unions; 4 + simple endpoints and statements;
// 5 + REST; 6 + mixins/events/subscriptions; 7 + annotations (every attribute form) and escaped names;
// 8 + collector blocks (`.. * <- *:`); 9 + in-place tuples (`field <:` + indented fields, nested, array form).
type Knobs struct {
	Level     int
	MaxApps   int
	MaxMember int
	MaxFields int
	StmtDepth int
	MaxStmts  int
}

func DefaultKnobs() Knobs {
	return Knobs{Level: 9, MaxApps: 4, MaxMember: 5, MaxFields: 5, StmtDepth: 3, MaxStmts: 4}
}

type appInfo struct {
	parts []string
	types []string // tuple/table/enum/alias/union names declared (any block)
	eps   []string
	evs   []string
}

type g struct {
	r     *common.Rng
	k     Knobs
	apps  []*appInfo
	nAttr int
	nName int
	cur   *appInfo
	// names of types of the current app that are plain tuples/tables (re-openable)
	budget int // statements left for this specification (keeps texts to a few dozen lines)
}

var plainApps = []string{"Shop", "Bank", "Ledger", "Core_Svc", "api-gw", "X", "Billing2", "Mobile"}
var nsParts = []string{"Org", "Team", "Pay", "Retail"}
var specialApps = []string{"Big App", "Front End App", "R&D", "caf\xc3\xa9", "Q1 Core", "a+b"}
var typeNames = []string{"Account", "Order", "Item", "User", "Txn", "Addr", "Money_T", "Req", "Resp", "Line-Item", "Cfg", "Blob"}
var specialTypes = []string{"Order Line", "P&L", "Gro\xc3\x9fe"}
var fieldNames = []string{"id", "name", "amount", "when", "flag", "qty", "ref", "items", "owner", "note", "code", "total", "x", "y2", "created_at"}
var specialFields = []string{"unit price", "a&b", "na\xc3\xafve"}
var epNames = []string{"Create", "Get", "List", "Update", "Delete", "Ping", "DoIt", "Handle", "Refund", "Sync"}
var evNames = []string{"Created", "Changed", "Tick", "Closed"}
var tagNames = []string{"db", "abstract", "json", "hidden", "v2", "external", "human"}
var attrVals = []string{"v", "some value", "with \"quotes\"", "back\\slash", "tab\there", "line1\nline2", "caf\xc3\xa9", "a:b, c", "[x]", "#not a comment", "it's", "100%", ""}
var words = []string{"do", "the", "thing", "check", "stock", "send", "mail", "now", "Reserve", "funds", "AND", "more", "step2", "x"}
var predicates = []string{"x", "x > 1", "amount <= limit", "not found", "a == b && c", "every item in order", "user.ok?", "i < 10", "retry"}
var payloads = []string{"ok", "ok <: Resp", "error", "200 <: Account", "Item", "set of Item", "ok <: sequence of Order", "404", "x <: string"}
var pathStatics = []string{"accounts", "v1", "orders", "items", "health-check", "a_b", "users"}
var argTexts = []string{"x", "amount", "id <: int", "\"lit\"", "acc <: Account", "some value"}
var docLines = []string{" This is a doc line", " second: with colon", "  indented more", " [brackets] and \"quotes\"", " x", " tail \\ backslash"}

func (x *g) pick(ss []string) string { return ss[x.r.Intn(len(ss))] }

func (x *g) fresh(pool []string, used map[string]bool) string {
	for i := 0; i < 30; i++ {
		s := x.pick(pool)
		if !used[s] {
			used[s] = true
			return s
		}
	}
	x.nName++
	s := fmt.Sprintf("%s%d", pool[0], x.nName)
	used[s] = true
	return s
}

func (x *g) attrName() string { x.nAttr++; return fmt.Sprintf("a%d", x.nAttr) }

func (x *g) attrVal(depth int) proj.Attr {
	if depth < 2 && x.r.Chance(1, 4) {
		n := x.r.Intn(4)
		a := proj.Attr{Kind: "a"}
		for i := 0; i < n; i++ {
			a.Elts = append(a.Elts, x.attrVal(depth+1))
		}
		return a
	}
	return proj.Attr{Kind: "s", S: x.pick(attrVals)}
}

// entries: [~tag, name="v", ...] (possibly empty)
func (x *g) entries(p, q int) []Entry {
	if !x.r.Chance(p, q) {
		return nil
	}
	n := 1 + x.r.Intn(3)
	var out []Entry
	usedTag := map[string]bool{}
	for i := 0; i < n; i++ {
		if x.r.Bool() {
			t := x.fresh(tagNames, usedTag)
			if x.r.Chance(1, 8) {
				t += "+" + x.pick(tagNames)
			}
			out = append(out, Entry{Tag: t})
		} else {
			out = append(out, Entry{Name: x.attrName(), Val: x.attrVal(0)})
		}
	}
	return out
}

func (x *g) anno() Anno {
	a := Anno{Name: x.attrName()}
	switch x.r.Intn(4) {
	case 0, 1:
		a.Kind, a.S = 0, x.pick(attrVals)
		if x.r.Chance(1, 6) {
			a.Name = a.Name + ".sub-key_1"
		}
	case 2:
		a.Kind = 1
		a.Arr = x.attrVal(0)
		if a.Arr.Kind != "a" {
			a.Arr = proj.Attr{Kind: "a", Elts: []proj.Attr{a.Arr}}
		}
	default:
		a.Kind = 2
		n := 1 + x.r.Intn(3)
		for i := 0; i < n; i++ {
			a.Lines = append(a.Lines, x.pick(docLines))
		}
	}
	return a
}

func (x *g) annos(p, q int) []Anno {
	if x.k.Level < 7 || !x.r.Chance(p, q) {
		return nil
	}
	n := 1 + x.r.Intn(2)
	var out []Anno
	for i := 0; i < n; i++ {
		out = append(out, x.anno())
	}
	return out
}

func (x *g) num() int64 {
	switch x.r.Intn(8) {
	case 0:
		return 0
	case 1:
		return 1
	case 2:
		return 65536 + int64(x.r.Intn(100000))
	case 3:
		return 2147483647
	}
	return int64(1 + x.r.Intn(300))
}

// tyexpr: a type expression legal where `types` is expected inside the current app.
func (x *g) tyexpr(allowRef bool) TypeExpr {
	switch c := x.r.Intn(10); {
	case c < 6 || !allowRef:
		return TypeExpr{Kind: XNative, Native: x.r.Intn(len(Natives))}
	case c < 8 && len(x.cur.types) > 0:
		return TypeExpr{Kind: XLocal, Local: x.pick(x.cur.types)}
	default:
		// cross-application (or same-application qualified) reference
		a := x.apps[x.r.Intn(len(x.apps))]
		var path []string
		if len(a.types) > 0 && !x.r.Chance(1, 6) {
			path = []string{x.pick(a.types)}
		} else {
			path = []string{x.pick(typeNames)}
		}
		if x.r.Chance(1, 5) {
			path = append(path, x.pick(fieldNames))
		}
		return TypeExpr{Kind: XRef, RefApp: append([]string(nil), a.parts...), RefPath: path}
	}
}

func (x *g) size(t TypeExpr) SizeSpec {
	if t.Kind != XNative || !x.r.Chance(2, 5) {
		return SizeSpec{}
	}
	z := 1 + x.r.Intn(4)
	if !SizeAllowed(t.Native, z) {
		return SizeSpec{}
	}
	s := SizeSpec{Kind: z, A: x.num(), B: x.num()}
	if z == ZSize1 || z == ZSize2 {
		if s.A == 0 {
			s.A = 7
		}
	}
	return s
}

func (x *g) coll() int {
	switch x.r.Intn(6) {
	case 0:
		return CSet
	case 1, 2:
		return CSeq
	}
	return CNone
}

func (x *g) field(name string, inTable bool) Field {
	f := Field{Name: name, Coll: x.coll(), Ty: x.tyexpr(true)}
	f.Size = x.size(f.Ty)
	f.Opt = x.r.Chance(2, 5)
	// the combination the property text names: optional sequence of a cross-app reference (with size spec on a native)
	if x.r.Chance(1, 10) && len(x.apps) > 0 {
		a := x.apps[x.r.Intn(len(x.apps))]
		if len(a.types) > 0 {
			f.Coll, f.Opt = CSeq, true
			f.Ty = TypeExpr{Kind: XRef, RefApp: append([]string(nil), a.parts...), RefPath: []string{x.pick(a.types)}}
			f.Size = SizeSpec{}
		}
	}
	f.Attribs = x.entries(1, 3)
	if inTable && x.r.Chance(1, 5) {
		f.Attribs = append([]Entry{{Tag: "pk"}}, f.Attribs...)
		for i := 1; i < len(f.Attribs); i++ {
			if f.Attribs[i].Tag == "pk" {
				f.Attribs[i].Tag = "fk"
			}
		}
	}
	if inTable && x.r.Chance(1, 15) { // legacy array form `name(0..) <: T`
		f.Array, f.Attribs = true, nil
	}
	if x.k.Level >= 7 {
		f.Annos = x.annos(1, 6)
		if len(f.Annos) == 0 && x.r.Chance(1, 8) {
			d := x.pick(attrVals)
			f.Doc = &d
		}
	}
	return f
}

func (x *g) fieldName(used map[string]bool) string {
	if x.k.Level >= 7 && x.r.Chance(1, 10) {
		return x.fresh(specialFields, used)
	}
	return x.fresh(fieldNames, used)
}

func (x *g) typeName(used map[string]bool) string {
	if x.k.Level >= 7 && x.r.Chance(1, 10) {
		return x.fresh(specialTypes, used)
	}
	return x.fresh(typeNames, used)
}

// ---------------------------------------------------------------- statements

func (x *g) actionText() string {
	switch x.r.Intn(5) {
	case 0:
		return x.pick(words)
	case 1:
		return "\"" + x.pick([]string{"quoted action", "x: y", "a [b]", "it's"}) + "\""
	case 2:
		return "..."
	}
	n := 2 + x.r.Intn(3)
	s := ""
	for i := 0; i < n; i++ {
		if i > 0 {
			s += " "
		}
		s += x.pick(words)
	}
	return s
}

func (x *g) stmts(depth int, min int) []Stmt {
	n := min + x.r.Intn(x.k.MaxStmts)
	// else-branches and others with more than four statements (Appendix B)
	if x.r.Chance(1, 10) {
		n = 5 + x.r.Intn(4)
	}
	if x.budget <= 0 {
		n = 1
	}
	var out []Stmt
	for i := 0; i < n; i++ {
		out = append(out, x.stmt(depth)...)
	}
	return out
}

func (x *g) stmt(depth int) []Stmt {
	c := x.r.Intn(16)
	x.budget--
	if (depth <= 0 || x.budget <= 0) && c >= 8 {
		c = x.r.Intn(8)
	}
	switch {
	case c < 3:
		return []Stmt{{Kind: KAction, Text: x.actionText(), Attribs: x.entries(1, 6)}}
	case c < 6:
		s := Stmt{Kind: KCall, Ep: x.pick(epNames)}
		if x.r.Chance(1, 3) {
			s.Self = true
		} else {
			a := x.apps[x.r.Intn(len(x.apps))]
			s.Target = append([]string(nil), a.parts...)
			if len(a.eps) > 0 && x.r.Chance(3, 4) {
				s.Ep = x.pick(a.eps)
			}
		}
		if x.r.Chance(1, 6) {
			s.Ep = x.pick([]string{"GET", "POST", "PATCH", "DELETE", "PUT"}) + " /" + x.pick(pathStatics) + x.pick([]string{"", "/{id}", "/sub"})
		}
		if x.r.Chance(1, 3) {
			s.HasArgs = true
			n := 1 + x.r.Intn(3)
			for i := 0; i < n; i++ {
				s.Args = append(s.Args, x.pick(argTexts))
			}
		}
		s.Attribs = x.entries(1, 8)
		return []Stmt{s}
	case c < 8:
		return []Stmt{{Kind: KRet, Text: x.pick(payloads)}}
	case c < 10:
		// if / else chain
		out := []Stmt{{Kind: KIf, Text: x.pick(predicates), Body: x.stmts(depth-1, 1)}}
		ne := x.r.Intn(3)
		for i := 0; i < ne; i++ {
			e := Stmt{Kind: KElse, Body: x.stmts(depth-1, 1)}
			if i < ne-1 || x.r.Chance(1, 3) {
				e.Text = "if " + x.pick(predicates)
			}
			if x.r.Chance(1, 3) {
				e.Body = append(e.Body, x.stmts(depth-1, 3)...)
			}
			out = append(out, e)
		}
		return out
	case c < 13:
		k := []int{KFor, KLoop, KAlt, KWhile, KUntil, KForEach}[x.r.Intn(6)]
		return []Stmt{{Kind: k, Text: x.pick(predicates), Body: x.stmts(depth-1, 1)}}
	case c < 14:
		return []Stmt{{Kind: KGroup, Text: x.pick([]string{"Phase1", "do in parallel", "\"a label\"", "retry block"}), Body: x.stmts(depth-1, 1)}}
	default:
		s := Stmt{Kind: KOneOf}
		n := 1 + x.r.Intn(3)
		for i := 0; i < n; i++ {
			s.Cases = append(s.Cases, Case{Label: x.pick([]string{"case A", "ok", "\"quoted case\"", "the other one"}), Body: x.stmts(depth-1, 1)})
		}
		return []Stmt{s}
	}
}

func (x *g) params() []Field {
	if !x.r.Chance(1, 2) {
		return nil
	}
	n := 1 + x.r.Intn(3)
	used := map[string]bool{}
	var out []Field
	for i := 0; i < n; i++ {
		f := Field{Name: x.fresh(fieldNames, used), Ty: x.tyexpr(true)}
		if f.Ty.Kind == XNative {
			f.Size = x.size(f.Ty)
		}
		switch x.r.Intn(6) {
		case 0:
			f.Coll = CSeq
		case 1:
			f.Coll = CSet
		}
		f.Opt = x.r.Chance(1, 4)
		if x.r.Chance(1, 8) {
			f.Attribs = x.entries(1, 1)
		}
		out = append(out, f)
	}
	return out
}

// ---------------------------------------------------------------- members

func (x *g) tableMember(name string, table bool) Member {
	m := Member{Kind: MType, Name: name}
	if table {
		m.Kind = MTable
	}
	m.Attribs = x.entries(1, 3)
	if x.r.Chance(1, 12) {
		m.Whatever = true
		return m
	}
	used := map[string]bool{}
	n := 1 + x.r.Intn(x.k.MaxFields)
	for i := 0; i < n; i++ {
		f := x.field(x.fieldName(used), table)
		m.Items = append(m.Items, TableItem{Field: &f})
	}
	if x.k.Level >= 9 && x.r.Chance(1, 2) {
		for i, nt := 0, 1+x.r.Intn(2); i < nt; i++ {
			t := x.inTuple(used, 2, table)
			pos := x.r.Intn(len(m.Items) + 1)
			m.Items = append(m.Items[:pos], append([]TableItem{{Tuple: t}}, m.Items[pos:]...)...)
		}
	}
	for _, a := range x.annos(1, 5) {
		a := a
		pos := x.r.Intn(len(m.Items) + 1)
		m.Items = append(m.Items[:pos], append([]TableItem{{Anno: &a}}, m.Items[pos:]...)...)
	}
	return m
}

// inTuple: `name <:` + 1-3 nested fields, some of them in-place tuples themselves (depth levels left)
func (x *g) inTuple(used map[string]bool, depth int, table bool) *InTuple {
	name := x.fieldName(used)
	if x.r.Chance(1, 4) {
		name = x.fresh(inplaceNames, used)
	}
	t := &InTuple{Name: name, Array: x.r.Chance(1, 3)}
	inner := map[string]bool{}
	for i, n := 0, 1+x.r.Intn(3); i < n; i++ {
		if depth > 0 && x.r.Chance(1, 3) {
			t.Fields = append(t.Fields, NField{Tuple: x.inTuple(inner, depth-1, table)})
		} else {
			f := x.field(x.fieldName(inner), false)
			f.Array, f.Doc = false, nil
			t.Fields = append(t.Fields, NField{Field: &f})
		}
	}
	return t
}

// names that must be escaped on the line, some with a literal percent sign that survives unescaping
var inplaceNames = []string{"m n", "a%41b", "rate 100%", "geo/pos", "x%2Fy", "caf\xc3\xa9"}

func (x *g) restNode(depth int, usedPaths map[string]bool) *RestNode {
	return x.restNodeAt(depth, usedPaths, "")
}

func segsPath(prefix string, segs []PathSeg) string {
	if len(segs) == 0 {
		return prefix + "/"
	}
	for _, s := range segs {
		if s.Var != "" {
			prefix += "/{" + s.Var + "}"
		} else {
			prefix += "/" + s.Static
		}
	}
	return prefix
}

func (x *g) restNodeAt(depth int, usedPaths map[string]bool, prefix string) *RestNode {
	n := &RestNode{}
	ns := x.r.Intn(3)
	if depth > 0 && ns == 0 {
		ns = 1
	}
	for i := 0; i < ns; i++ {
		if x.r.Chance(1, 3) {
			v := PathSeg{Var: x.pick([]string{"id", "key", "oid", "n"}) + fmt.Sprint(depth)}
			if x.r.Chance(3, 4) || len(x.cur.types) == 0 {
				v.VarTy = TypeExpr{Kind: XNative, Native: x.r.Intn(len(Natives))}
			} else {
				v.VarTy = TypeExpr{Kind: XLocal, Local: x.pick(x.cur.types)}
			}
			n.Segs = append(n.Segs, v)
		} else {
			n.Segs = append(n.Segs, PathSeg{Static: x.pick(pathStatics)})
		}
	}
	n.Attribs = x.entries(1, 4)
	nc := 1 + x.r.Intn(3)
	usedVerb := map[string]bool{}
	for i := 0; i < nc; i++ {
		switch c := x.r.Intn(8); {
		case c == 0 && depth < 2:
			n.Children = append(n.Children, RestChild{Sub: x.restNodeAt(depth+1, usedPaths, segsPath(prefix, n.Segs))})
		case c == 1 && x.k.Level >= 7:
			a := x.anno()
			n.Children = append(n.Children, RestChild{Anno: &a})
		default:
			v := x.fresh([]string{"GET", "PUT", "POST", "DELETE", "PATCH"}, usedVerb)
			if ep := v + " " + segsPath(prefix, n.Segs); usedPaths[ep] { // one declaration per REST endpoint
				continue
			} else {
				usedPaths[ep] = true
			}
			md := &Method{Verb: v, Params: x.params(), Attribs: x.entries(1, 4), Body: x.stmts(x.k.StmtDepth-1, 1)}
			if x.r.Chance(1, 3) {
				nq := 1 + x.r.Intn(3)
				uq := map[string]bool{}
				for j := 0; j < nq; j++ {
					q := QueryVar{Name: x.fresh([]string{"q", "limit", "offset", "sort", "f"}, uq), Opt: x.r.Chance(1, 3)}
					q.Ty = TypeExpr{Kind: XNative, Native: x.r.Intn(len(Natives))}
					if t := x.pick(append([]string{"-"}, x.cur.types...)); x.r.Chance(1, 4) && plainName(t) { // {T}: a Name token
						q.Ty = TypeExpr{Kind: XLocal, Local: t}
					}
					md.Query = append(md.Query, q)
				}
			}
			if x.k.Level >= 7 {
				md.Annos = x.annos(1, 5)
				if x.r.Chance(1, 6) {
					nd := 1 + x.r.Intn(2)
					for j := 0; j < nd; j++ {
						md.Doc = append(md.Doc, x.pick(docLines))
					}
				}
			}
			n.Children = append(n.Children, RestChild{Method: md})
		}
	}
	hasMethod := false
	for _, c := range n.Children {
		if c.Method != nil || c.Sub != nil {
			hasMethod = true
		}
	}
	if !hasMethod {
		for _, v := range []string{"GET", "PUT", "POST", "DELETE", "PATCH", ""} {
			if v == "" { // every verb of this path is taken: make the path fresh
				n.Segs = append(n.Segs, PathSeg{Static: fmt.Sprintf("u%d", len(usedPaths))})
				v = "GET"
			}
			if ep := v + " " + segsPath(prefix, n.Segs); !usedPaths[ep] {
				usedPaths[ep] = true
				n.Children = append(n.Children, RestChild{Method: &Method{Verb: v, Body: x.stmts(1, 1)}})
				break
			}
		}
	}
	return n
}

// Generate builds one abstract specification.
func Generate(r *common.Rng, k Knobs) *Spec {
	x := &g{r: r, k: k, budget: 40 + r.Intn(40)}
	// ---- pass 1: application names and the names each will declare (so references can be resolved)
	na := 1 + r.Intn(k.MaxApps)
	usedApp := map[string]bool{}
	for i := 0; i < na; i++ {
		var parts []string
		switch c := r.Intn(8); {
		case c < 2:
			parts = []string{x.pick(nsParts), x.pick(plainApps)}
			if r.Chance(1, 4) {
				parts = append([]string{x.pick(nsParts)}, parts...)
			}
		case c == 2 && k.Level >= 7:
			parts = []string{x.pick(specialApps)}
		default:
			parts = []string{x.pick(plainApps)}
		}
		key := fmt.Sprint(parts)
		if usedApp[key] || usedApp[parts[len(parts)-1]] {
			continue
		}
		usedApp[key] = true
		usedApp[parts[len(parts)-1]] = true
		a := &appInfo{parts: parts}
		if k.Level >= 2 {
			ut := map[string]bool{}
			nt := r.Intn(5)
			for j := 0; j < nt; j++ {
				a.types = append(a.types, x.typeName(ut))
			}
		}
		if k.Level >= 4 {
			ue := map[string]bool{}
			ne := r.Intn(4)
			for j := 0; j < ne; j++ {
				a.eps = append(a.eps, x.fresh(epNames, ue))
			}
		}
		if k.Level >= 6 {
			ue := map[string]bool{}
			ne := r.Intn(2)
			for j := 0; j < ne; j++ {
				a.evs = append(a.evs, x.fresh(evNames, ue))
			}
		}
		x.apps = append(x.apps, a)
	}
	// ---- pass 2: members
	f := File{Name: "root.sysl"}
	type pending struct {
		a *appInfo
		b Block
	}
	var blocks []pending
	for _, a := range x.apps {
		x.cur = a
		var members []Member
		// types
		for _, tn := range a.types {
			kind := r.Intn(10)
			if k.Level < 3 && kind >= 6 {
				kind = r.Intn(6)
			}
			switch {
			case kind < 4:
				members = append(members, x.tableMember(tn, false))
			case kind < 6:
				members = append(members, x.tableMember(tn, true))
			case kind < 8:
				m := Member{Kind: MEnum, Name: tn, Attribs: x.entries(1, 4), Annos: x.annos(1, 5)}
				ui := map[string]bool{}
				n := 1 + r.Intn(4)
				for j := 0; j < n; j++ {
					m.Enum = append(m.Enum, EnumItem{Name: x.fresh([]string{"RED", "green", "Blue_1", "x", "ACTIVE", "off", "int", "Bool"}, ui), Val: x.num()})
				}
				if plainName(tn) {
					members = append(members, m)
				} else {
					members = append(members, x.tableMember(tn, false))
				}
			case kind < 9:
				m := Member{Kind: MAlias, Name: tn, Attribs: x.entries(1, 4), Annos: x.annos(1, 5), AliasColl: x.coll(), AliasTy: x.tyexpr(true)}
				if m.AliasColl != CNone { // `types` alone takes no size specification in an alias
					m.AliasSize = x.size(m.AliasTy)
				}
				members = append(members, m)
			default:
				m := Member{Kind: MUnion, Name: tn, Attribs: x.entries(1, 4), Annos: x.annos(1, 5)}
				n := 1 + r.Intn(3)
				seen := map[string]bool{}
				for j := 0; j < n; j++ {
					u := UnionMember{Coll: x.coll(), Ty: x.tyexpr(true)}
					if u.Coll != CNone {
						u.Size = x.size(u.Ty)
					}
					key := fmt.Sprint(u.Coll, u.Ty)
					if seen[key] {
						continue
					}
					seen[key] = true
					m.Union = append(m.Union, u)
				}
				members = append(members, m)
			}
		}
		// endpoints
		for _, en := range a.eps {
			m := Member{Kind: MEndpoint, Name: en, Params: x.params(), Attribs: x.entries(1, 3)}
			if r.Chance(1, 4) {
				l := x.pick(attrVals[:5])
				m.Long = &l
			}
			if !r.Chance(1, 6) {
				m.Body = x.stmts(k.StmtDepth, 1)
				m.Annos = x.annos(1, 5)
			}
			members = append(members, m)
		}
		if k.Level >= 5 && r.Chance(1, 2) {
			nr := 1 + r.Intn(2)
			usedPaths := map[string]bool{}
			for j := 0; j < nr; j++ {
				members = append(members, Member{Kind: MRest, Rest: x.restNode(0, usedPaths)})
			}
		}
		if k.Level >= 6 {
			for _, ev := range a.evs {
				m := Member{Kind: MEvent, Name: ev, Params: x.params(), Attribs: x.entries(1, 4)}
				if r.Chance(2, 3) {
					m.Body = x.stmts(k.StmtDepth-1, 1)
				}
				members = append(members, m)
			}
			// subscriptions to events of other applications
			for _, o := range x.apps {
				if o != a && len(o.evs) > 0 && r.Chance(1, 3) {
					m := Member{Kind: MSubscribe, App: append([]string(nil), o.parts...), Name: x.pick(o.evs), Attribs: x.entries(1, 4)}
					if r.Chance(2, 3) {
						m.Body = x.stmts(k.StmtDepth-1, 1)
					}
					members = append(members, m)
				}
			}
			if r.Chance(1, 4) {
				o := x.apps[r.Intn(len(x.apps))]
				if o != a {
					members = append(members, Member{Kind: MMixin, App: append([]string(nil), o.parts...)})
				}
			}
		}
		if k.Level >= 7 {
			for _, an := range x.annos(1, 3) {
				an := an
				members = append(members, Member{Kind: MAnno, Anno: &an})
			}
		}
		// shuffle members (declaration order is free)
		for i := len(members) - 1; i > 0; i-- {
			j := r.Intn(i + 1)
			members[i], members[j] = members[j], members[i]
		}
		if len(members) == 0 {
			members = append(members, Member{Kind: MEndpoint, Name: "Noop"})
		}
		// split into one or two blocks of the same application
		b := Block{App: a.parts, Attribs: x.entries(1, 2)}
		if r.Chance(1, 3) {
			l := x.pick(attrVals[:5])
			b.Long = &l
		}
		if len(members) >= 2 && r.Chance(1, 3) {
			cut := 1 + r.Intn(len(members)-1)
			b.Members = members[:cut]
			b2 := Block{App: a.parts, Attribs: x.entries(1, 3), Members: members[cut:]}
			blocks = append(blocks, pending{a, b}, pending{a, b2})
		} else {
			b.Members = members
			blocks = append(blocks, pending{a, b})
		}
	}
	// interleave blocks of different applications, keeping the relative order of one application's blocks
	for i := 0; i < len(blocks); i++ {
		j := r.Intn(len(blocks))
		if i != j && blocks[i].a != blocks[j].a {
			ok := true
			lo, hi := i, j
			if lo > hi {
				lo, hi = hi, lo
			}
			for t := lo; t <= hi; t++ {
				if t != i && t != j && (blocks[t].a == blocks[i].a || blocks[t].a == blocks[j].a) {
					ok = false
				}
			}
			if ok {
				blocks[i], blocks[j] = blocks[j], blocks[i]
			}
		}
	}
	for _, p := range blocks {
		f.Blocks = append(f.Blocks, p.b)
	}
	if k.Level >= 8 {
		x.addCollectors(f.Blocks)
	}
	return &Spec{Files: []File{f}}
}

func plainName(s string) bool {
	for i := 0; i < len(s); i++ {
		c := s[i]
		if !(c == '_' || (c >= 'a' && c <= 'z') || (c >= 'A' && c <= 'Z') || (c >= '0' && c <= '9')) {
			return false
		}
	}
	return true
}
