package gen

import (
	"fmt"

	"verifharness/common"
	"verifharness/front/proj"
)

// ---------------------------------------------------------------- declaration order
//
// The listener keeps "current" state between callbacks (field map of the type being built, field-name stack,
// current type path, REST prefix / parameter / attribute stacks, endpoint name). Whether a handler leaves some of
// it behind is invisible unless a LATER declaration of another kind picks it up. GenerateOrder writes, inside one
// application, member kinds directly after one another: specification number `a` is  a b0 a b1 a b2 ...  over all
// kinds b, so that the 16 specifications contain every ordered pair (a,b) and (b,a); GenerateOrderTriples strings
// random triples together.

const (
	OType = iota
	OTable
	OEnum
	OAlias
	OUnion
	OEp
	OEpParams
	ORestInt
	ORestType
	ORestTypeField
	ORestAppType
	OEvent
	OMixin
	OAnno
	OCollector
	OSubscribe
	NOrderKinds
)

var OrderKindNames = []string{"type", "table", "enum", "alias", "union", "ep", "ep(params)", "rest{int}", "rest{Type}", "rest{Type.field}",
	"rest{App.Type}", "event", "mixin", "anno", "collector", "subscribe"}

var orderMain = []string{"Main"}
var orderOther = []string{"Other"}

func (x *g) orderMember(kind, n int) Member {
	nat := func(s string) TypeExpr {
		for i, v := range Natives {
			if v == s {
				return TypeExpr{Kind: XNative, Native: i}
			}
		}
		panic(s)
	}
	base := TypeExpr{Kind: XLocal, Local: "Base"}
	fields := func(table bool) []TableItem {
		f1 := Field{Name: "k", Ty: nat("int"), Attribs: x.entries(1, 2)}
		if table {
			f1.Attribs = append([]Entry{{Tag: "pk"}}, f1.Attribs...)
		}
		f2 := Field{Name: "v", Coll: x.coll(), Ty: []TypeExpr{nat("string"), base, {Kind: XRef, RefApp: orderOther, RefPath: []string{"Thing"}}}[x.r.Intn(3)], Opt: x.r.Bool()}
		its := []TableItem{{Field: &f1}, {Field: &f2}}
		if x.r.Chance(1, 3) {
			a := x.anno()
			its = append(its, TableItem{Anno: &a})
		}
		return its
	}
	rest := func(t TypeExpr) Member {
		md := &Method{Verb: x.pick([]string{"GET", "POST", "PUT", "DELETE", "PATCH"}), Attribs: x.entries(1, 3), Body: []Stmt{{Kind: KRet, Text: "ok"}}}
		if x.r.Chance(1, 3) {
			md.Query = []QueryVar{{Name: "q", Ty: nat("string"), Opt: x.r.Bool()}}
		}
		if x.r.Chance(1, 3) {
			md.Params = []Field{{Name: "body", Ty: base}}
		}
		return Member{Kind: MRest, Rest: &RestNode{Segs: []PathSeg{{Static: fmt.Sprintf("p%d", n)}, {Var: "id", VarTy: t}}, Attribs: x.entries(1, 3),
			Children: []RestChild{{Method: md}}}}
	}
	body := func() []Stmt {
		return []Stmt{{Kind: KCall, Target: orderOther, Ep: "Do"}, {Kind: KAction, Text: fmt.Sprintf("step %d", n)}}
	}
	switch kind {
	case OType:
		return Member{Kind: MType, Name: fmt.Sprintf("T%d", n), Attribs: x.entries(1, 3), Items: fields(false)}
	case OTable:
		return Member{Kind: MTable, Name: fmt.Sprintf("Tb%d", n), Attribs: x.entries(1, 3), Items: fields(true)}
	case OEnum:
		return Member{Kind: MEnum, Name: fmt.Sprintf("E%d", n), Attribs: x.entries(1, 3), Enum: []EnumItem{{Name: "a", Val: 1}, {Name: "b", Val: int64(70000 + n)}}}
	case OAlias:
		m := Member{Kind: MAlias, Name: fmt.Sprintf("Al%d", n), Attribs: x.entries(1, 3), AliasColl: x.coll(), AliasTy: []TypeExpr{nat("int"), base}[x.r.Intn(2)]}
		return m
	case OUnion:
		return Member{Kind: MUnion, Name: fmt.Sprintf("U%d", n), Attribs: x.entries(1, 3), Union: []UnionMember{{Ty: base}, {Coll: CSeq, Ty: nat("int")}}}
	case OEp:
		m := Member{Kind: MEndpoint, Name: fmt.Sprintf("Ep%d", n), Attribs: x.entries(1, 3)}
		if x.r.Chance(2, 3) {
			m.Body = body()
		}
		return m
	case OEpParams:
		return Member{Kind: MEndpoint, Name: fmt.Sprintf("Epp%d", n), Attribs: x.entries(1, 3), Body: body(),
			Params: []Field{{Name: "x", Ty: nat("int"), Opt: x.r.Bool()}, {Name: "y", Coll: []int{CNone, CSet, CSeq}[x.r.Intn(3)], Ty: base}}}
	case ORestInt:
		return rest(nat("int"))
	case ORestType:
		return rest(base)
	case ORestTypeField:
		return rest(TypeExpr{Kind: XRef, RefApp: []string{"Base"}, RefPath: []string{"f"}})
	case ORestAppType:
		return rest(TypeExpr{Kind: XRef, RefApp: orderOther, RefPath: []string{"Thing"}})
	case OEvent:
		return Member{Kind: MEvent, Name: fmt.Sprintf("Ev%d", n), Attribs: x.entries(1, 3), Params: []Field{{Name: "p", Ty: base}}, Body: body()}
	case OMixin:
		return Member{Kind: MMixin, App: orderOther}
	case OAnno:
		a := x.anno()
		return Member{Kind: MAnno, Anno: &a}
	case OCollector:
		return Member{Kind: MCollector, Collector: []CEntry{{Kind: CCall, Target: orderOther, Ep: "Do", Attribs: []Entry{{Tag: fmt.Sprintf("c%d", n)}}},
			{Kind: CAction, Ep: "Ep1", Attribs: []Entry{{Name: "ca", Val: proj.Attr{Kind: "s", S: fmt.Sprint(n)}}}}}}
	case OSubscribe:
		return Member{Kind: MSubscribe, App: orderOther, Name: fmt.Sprintf("Evt%d", n), Attribs: x.entries(1, 3), Body: body()}
	}
	panic("order kind")
}

func orderSpec(x *g, kinds []int) *Spec {
	nat0 := TypeExpr{Kind: XNative, Native: 0}
	other := Block{App: orderOther, Attribs: []Entry{{Tag: "abstract"}}, Members: []Member{
		{Kind: MType, Name: "Thing", Items: []TableItem{{Field: &Field{Name: "id", Ty: nat0}}}},
		{Kind: MEndpoint, Name: "Do"}}}
	baseB := Block{App: orderMain, Members: []Member{{Kind: MType, Name: "Base", Items: []TableItem{{Field: &Field{Name: "f", Ty: nat0}}}}}}
	main := Block{App: orderMain}
	for i, k := range kinds {
		main.Members = append(main.Members, x.orderMember(k, i+1))
	}
	blocks := []Block{other, baseB, main}
	if x.r.Bool() {
		blocks = []Block{baseB, main, other}
	}
	return &Spec{Files: []File{{Name: "root.sysl", Blocks: blocks}}}
}

// GenerateOrder: specification `a` (0 <= a < NOrderKinds) is  a b0 a b1 ...  over all kinds b.
func GenerateOrder(r *common.Rng, a int) (*Spec, []int) {
	x := &g{r: r, k: DefaultKnobs()}
	x.apps = []*appInfo{{parts: orderMain}, {parts: orderOther}}
	x.cur = x.apps[0]
	var kinds []int
	off := r.Intn(NOrderKinds)
	for i := 0; i < NOrderKinds; i++ {
		kinds = append(kinds, a, (i+off)%NOrderKinds)
	}
	return orderSpec(x, kinds), kinds
}

// GenerateOrderTriples: n random triples of kinds, one after the other.
func GenerateOrderTriples(r *common.Rng, n int) (*Spec, []int) {
	x := &g{r: r, k: DefaultKnobs()}
	x.apps = []*appInfo{{parts: orderMain}, {parts: orderOther}}
	x.cur = x.apps[0]
	var kinds []int
	for i := 0; i < 3*n; i++ {
		kinds = append(kinds, r.Intn(NOrderKinds))
	}
	return orderSpec(x, kinds), kinds
}
