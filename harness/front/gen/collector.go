package gen

import (
	"fmt"
	"strings"

	"verifharness/common"
	"verifharness/front/proj"
)

// ---------------------------------------------------------------- `.. * <- *:` blocks
//
// Two producers: addCollectors puts a collector block into applications of a general specification (entries drawn
// from the calls and endpoints the application really has, plus some that match nothing); GenerateCollector builds
// specifications whose statement trees are planted with repeated calls in the shapes postProcess has to get right:
// the same call 2-4 times inside one nested block, the first match only in a deeper sub-block, matches in sibling
// blocks and in different one-of choices, several collector entries hitting one call.

var collKeys = []string{"ca", "cb", "cc"}

// centryAttribs: the mandatory [ ... ] of a collector entry. Names come from a small pool so that several
// entries (and the calls' own attributes) meet on the same name: scalar over scalar, array after array, mixed.
func (x *g) centryAttribs() []Entry {
	n := 1 + x.r.Intn(3)
	var out []Entry
	usedTag, usedKey := map[string]bool{}, map[string]bool{}
	for i := 0; i < n; i++ {
		switch x.r.Intn(5) {
		case 0, 1:
			out = append(out, Entry{Tag: x.fresh(tagNames, usedTag)})
		case 2:
			k := x.fresh(collKeys, usedKey)
			a := proj.Attr{Kind: "a"}
			for j := 1 + x.r.Intn(2); j > 0; j-- {
				a.Elts = append(a.Elts, proj.Attr{Kind: "s", S: x.pick(attrVals[:5])})
			}
			out = append(out, Entry{Name: k, Val: a})
		case 3:
			out = append(out, Entry{Name: x.fresh(collKeys, usedKey), Val: proj.Attr{Kind: "s", S: x.pick(attrVals)}})
		default:
			out = append(out, Entry{Name: x.attrName(), Val: x.attrVal(0)})
		}
	}
	return out
}

type callSite struct {
	target []string
	ep     string
}

func (c callSite) key() string { return strings.Join(c.target, "\x00") + "\x01" + c.ep }

func collectCalls(app []string, ss []Stmt, out *[]callSite) {
	for _, s := range ss {
		if s.Kind == KCall {
			t := s.Target
			if s.Self {
				t = app
			}
			*out = append(*out, callSite{append([]string(nil), t...), s.Ep})
		}
		collectCalls(app, s.Body, out)
		for _, c := range s.Cases {
			collectCalls(app, c.Body, out)
		}
	}
}

func restEndpoints(n *RestNode, prefix string, out *[][2]string) {
	path := segsPath(prefix, n.Segs)
	for _, c := range n.Children {
		switch {
		case c.Method != nil:
			*out = append(*out, [2]string{c.Method.Verb, path})
		case c.Sub != nil:
			restEndpoints(c.Sub, path, out)
		}
	}
}

func memberCalls(app []string, m Member, out *[]callSite) {
	collectCalls(app, m.Body, out)
	if m.Rest != nil {
		var walk func(n *RestNode)
		walk = func(n *RestNode) {
			for _, c := range n.Children {
				if c.Method != nil {
					collectCalls(app, c.Method.Body, out)
				}
				if c.Sub != nil {
					walk(c.Sub)
				}
			}
		}
		walk(m.Rest)
	}
}

// collectorFor builds the entries of a collector block for application `app` of the specification `blocks`.
func (x *g) collectorFor(app []string, blocks []Block) []CEntry {
	key := strings.Join(app, " :: ")
	var calls []callSite
	var eps []string
	var rests [][2]string
	for _, b := range blocks {
		if strings.Join(b.App, " :: ") == key {
			for _, m := range b.Members {
				memberCalls(app, m, &calls)
				switch m.Kind {
				case MEndpoint:
					eps = append(eps, m.Name)
				case MRest:
					restEndpoints(m.Rest, "", &rests)
				}
			}
		}
		// subscriptions of other applications to this one's events put a call into the event
		for _, m := range b.Members {
			if m.Kind == MSubscribe && strings.Join(m.App, " :: ") == key {
				calls = append(calls, callSite{append([]string(nil), b.App...), key + " -> " + m.Name})
			}
		}
	}
	var out []CEntry
	seen := map[string]int{}
	n := 1 + x.r.Intn(4)
	for i := 0; i < n; i++ {
		switch c := x.r.Intn(10); {
		case c < 6 && len(calls) > 0:
			cs := calls[x.r.Intn(len(calls))]
			if seen[cs.key()] >= 3 {
				continue
			}
			seen[cs.key()]++
			out = append(out, CEntry{Kind: CCall, Target: cs.target, Ep: cs.ep, Attribs: x.centryAttribs()})
		case c < 7:
			// matches nothing ("unused template")
			o := x.apps[x.r.Intn(len(x.apps))]
			out = append(out, CEntry{Kind: CCall, Target: append([]string(nil), o.parts...), Ep: "Nowhere", Attribs: x.centryAttribs()})
		case c < 9 && len(eps) > 0:
			out = append(out, CEntry{Kind: CAction, Ep: x.pick(eps), Attribs: x.centryAttribs()})
		case c < 9 && len(rests) > 0:
			r := rests[x.r.Intn(len(rests))]
			if strings.HasSuffix(r[1], "/") || strings.Contains(r[1], "//") { // an empty path part cannot be written in a collector line
				continue
			}
			out = append(out, CEntry{Kind: CHttp, Verb: r[0], Ep: r[1], Attribs: x.centryAttribs()})
		default:
			out = append(out, CEntry{Kind: CAction, Ep: "NoSuchEndpoint", Attribs: x.centryAttribs()})
		}
	}
	if len(out) == 0 {
		out = append(out, CEntry{Kind: CAction, Ep: "NoSuchEndpoint", Attribs: x.centryAttribs()})
	}
	return out
}

// addCollectors: with probability 1/3 per application, one collector block at a random place of one of its blocks.
func (x *g) addCollectors(blocks []Block) {
	for _, a := range x.apps {
		if !x.r.Chance(1, 3) {
			continue
		}
		var idx []int
		for i, b := range blocks {
			if strings.Join(b.App, " :: ") == strings.Join(a.parts, " :: ") {
				idx = append(idx, i)
			}
		}
		if len(idx) == 0 {
			continue
		}
		m := Member{Kind: MCollector, Collector: x.collectorFor(a.parts, blocks)}
		if x.r.Chance(1, 12) {
			m.Collector = nil // `.. * <- *: ...`
		}
		b := &blocks[idx[x.r.Intn(len(idx))]]
		pos := x.r.Intn(len(b.Members) + 1)
		ms := append([]Member{}, b.Members[:pos]...)
		ms = append(ms, m)
		b.Members = append(ms, b.Members[pos:]...)
	}
}

// plant inserts s at a random position of a random (possibly nested) statement list below ss.
func (x *g) plant(ss []Stmt, s Stmt, deep int) []Stmt {
	var holes []int
	for i, t := range ss {
		if len(t.Body) > 0 || len(t.Cases) > 0 {
			holes = append(holes, i)
		}
	}
	if len(holes) > 0 && (deep > 0 || x.r.Chance(2, 3)) {
		i := holes[x.r.Intn(len(holes))]
		if len(ss[i].Cases) > 0 {
			j := x.r.Intn(len(ss[i].Cases))
			ss[i].Cases[j].Body = x.plant(ss[i].Cases[j].Body, s, deep-1)
		} else {
			ss[i].Body = x.plant(ss[i].Body, s, deep-1)
		}
		return ss
	}
	pos := x.r.Intn(len(ss) + 1)
	// never between an if and its else
	for pos < len(ss) && ss[pos].Kind == KElse {
		pos++
	}
	out := append([]Stmt{}, ss[:pos]...)
	out = append(out, s)
	return append(out, ss[pos:]...)
}

// GenerateCollector builds one specification around collector blocks.
func GenerateCollector(r *common.Rng) *Spec {
	k := DefaultKnobs()
	x := &g{r: r, k: k, budget: 30 + r.Intn(30)}
	names := []string{"Front", "Svc", "Ledger", "Audit"}
	na := 2 + r.Intn(2)
	for i := 0; i < na; i++ {
		parts := []string{names[i]}
		if i == 1 && r.Chance(1, 3) {
			parts = []string{"Ns", "Svc"}
		}
		if i == 2 && r.Chance(1, 4) {
			parts = []string{"R&D"}
		}
		x.apps = append(x.apps, &appInfo{parts: parts, eps: []string{"Do", "Other"}})
	}
	caller := x.apps[0]
	x.cur = caller
	// the calls that will be repeated
	var planted []Stmt
	np := 1 + r.Intn(3)
	for i := 0; i < np; i++ {
		c := Stmt{Kind: KCall}
		switch r.Intn(5) {
		case 0:
			c.Self, c.Ep = true, x.pick([]string{"Run", "Aux"})
		case 1:
			c.Target, c.Ep = append([]string(nil), caller.parts...), x.pick([]string{"Run", "Aux"})
		case 2:
			o := x.apps[1+r.Intn(na-1)]
			c.Target, c.Ep = append([]string(nil), o.parts...), "GET /items/{id}"
		default:
			o := x.apps[1+r.Intn(na-1)]
			c.Target, c.Ep = append([]string(nil), o.parts...), x.pick([]string{"Do", "Other"})
		}
		planted = append(planted, c)
	}
	// endpoints of the caller: random statement trees, then the planted calls at random depths
	var eps []Member
	for _, en := range []string{"Run", "Aux", "Third"}[:2+r.Intn(2)] {
		m := Member{Kind: MEndpoint, Name: en, Body: x.stmts(3, 2)}
		eps = append(eps, m)
	}
	// shapes the task names, built explicitly in endpoint 0
	c0 := planted[0]
	own := func(c Stmt) Stmt { // a copy of the call with attributes (and sometimes arguments) of its own
		d := c
		if r.Chance(1, 3) {
			d.Attribs = x.centryAttribs()
		}
		if r.Chance(1, 4) {
			d.HasArgs, d.Args = true, []string{x.pick(argTexts)}
		}
		return d
	}
	rep := 2 + r.Intn(3)
	var same []Stmt
	for i := 0; i < rep; i++ {
		same = append(same, own(c0))
		if r.Chance(1, 2) {
			same = append(same, Stmt{Kind: KAction, Text: x.actionText()})
		}
	}
	shape := []Stmt{
		// the same call 2-4 times inside one nested block
		{Kind: []int{KFor, KForEach, KWhile, KLoop, KGroup}[r.Intn(5)], Text: "x in y", Body: []Stmt{{Kind: KIf, Text: "a", Body: same}}},
		// first match only in a deeper sub-block; siblings
		{Kind: KIf, Text: "b", Body: []Stmt{{Kind: KAction, Text: "no call here"}, {Kind: KUntil, Text: "done", Body: []Stmt{{Kind: KGroup, Text: "inner", Body: []Stmt{own(c0)}}}}}},
		{Kind: KElse, Body: []Stmt{own(c0), {Kind: KRet, Text: "ok"}}},
		// different one-of choices
		{Kind: KOneOf, Cases: []Case{{Label: "first", Body: []Stmt{own(c0)}}, {Label: "second", Body: []Stmt{{Kind: KAction, Text: "nothing"}}},
			{Label: "third", Body: []Stmt{{Kind: KAlt, Text: "z", Body: []Stmt{own(c0), own(planted[len(planted)-1])}}}}}},
	}
	// a random subset of the explicit shapes, in order
	for _, s := range shape {
		if r.Chance(3, 4) || s.Kind == KElse {
			if s.Kind == KElse && (len(eps[0].Body) == 0 || eps[0].Body[len(eps[0].Body)-1].Kind != KIf || eps[0].Body[len(eps[0].Body)-1].Text != "b") {
				continue
			}
			eps[0].Body = append(eps[0].Body, s)
		}
	}
	for _, c := range planted {
		for n := 1 + r.Intn(4); n > 0; n-- {
			e := &eps[r.Intn(len(eps))]
			e.Body = x.plant(e.Body, own(c), r.Intn(3))
		}
	}
	// the collector of the caller
	var entries []CEntry
	for _, c := range planted {
		t := c.Target
		if c.Self {
			t = caller.parts
		}
		for n := 1 + r.Intn(3); n > 0; n-- { // several entries hitting one call
			entries = append(entries, CEntry{Kind: CCall, Target: append([]string(nil), t...), Ep: c.Ep, Attribs: x.centryAttribs()})
		}
	}
	if r.Chance(1, 2) {
		entries = append(entries, CEntry{Kind: CCall, Target: append([]string(nil), x.apps[1].parts...), Ep: "Nowhere", Attribs: x.centryAttribs()})
	}
	for n := r.Intn(3); n > 0; n-- {
		entries = append(entries, CEntry{Kind: CAction, Ep: x.pick([]string{"Run", "Aux", "Missing"}), Attribs: x.centryAttribs()})
	}
	for i := len(entries) - 1; i > 0; i-- { // entries of one call keep their relative order only by chance: order matters
		j := r.Intn(i + 1)
		entries[i], entries[j] = entries[j], entries[i]
	}
	members := append([]Member{}, eps...)
	coll := Member{Kind: MCollector, Collector: entries}
	pos := r.Intn(len(members) + 1)
	members = append(members[:pos], append([]Member{coll}, members[pos:]...)...)
	blocks := []Block{{App: caller.parts, Members: members}}
	if len(members) >= 2 && r.Chance(1, 3) {
		cut := 1 + r.Intn(len(members)-1)
		blocks = []Block{{App: caller.parts, Members: members[:cut]}, {App: caller.parts, Attribs: x.entries(1, 2), Members: members[cut:]}}
	}
	// the called applications; one of them publishes an event the caller subscribes to, with a collector entry
	// `Caller <- Pub -> Evt [..]` on the publisher's side
	for i, o := range x.apps[1:] {
		b := Block{App: o.parts, Members: []Member{{Kind: MEndpoint, Name: "Do"}, {Kind: MEndpoint, Name: "Other", Body: []Stmt{{Kind: KRet, Text: "ok"}}}}}
		if i == 0 {
			b.Members = append(b.Members, Member{Kind: MRest, Rest: &RestNode{Segs: []PathSeg{{Static: "items"}, {Var: "id", VarTy: TypeExpr{Kind: XNative, Native: 0}}},
				Children: []RestChild{{Method: &Method{Verb: "GET", Body: []Stmt{{Kind: KRet, Text: "ok"}}}}}}})
			if r.Chance(1, 2) {
				b.Members = append(b.Members, Member{Kind: MCollector, Collector: []CEntry{{Kind: CHttp, Verb: "GET", Ep: "/items/{id}", Attribs: x.centryAttribs()}}})
			}
		}
		if i == 0 && r.Chance(1, 2) {
			b.Members = append(b.Members, Member{Kind: MEvent, Name: "Evt", Body: []Stmt{{Kind: KAction, Text: "publish"}}})
			sub := Member{Kind: MSubscribe, App: append([]string(nil), o.parts...), Name: "Evt", Body: []Stmt{own(c0)}}
			blocks[len(blocks)-1].Members = append(blocks[len(blocks)-1].Members, sub)
			ce := CEntry{Kind: CCall, Target: append([]string(nil), caller.parts...), Ep: strings.Join(o.parts, " :: ") + " -> Evt", Attribs: x.centryAttribs()}
			found := false
			for j := range b.Members {
				if b.Members[j].Kind == MCollector {
					b.Members[j].Collector = append(b.Members[j].Collector, ce)
					found = true
				}
			}
			if !found {
				b.Members = append(b.Members, Member{Kind: MCollector, Collector: []CEntry{ce}})
			}
		}
		if r.Bool() {
			blocks = append(blocks, b)
		} else {
			blocks = append([]Block{b}, blocks...)
		}
	}
	_ = fmt.Sprint
	return &Spec{Files: []File{{Name: "root.sysl", Blocks: blocks}}}
}
