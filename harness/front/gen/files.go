package gen

import (
	"fmt"

	"verifharness/common"
)

// ---------------------------------------------------------------- multi-file specifications
//
// SplitFiles cuts the blocks of a specification into 2-4 files: root.sysl first, every other file reached through
// `import` statements. The parser compiles the files in the pre-order of the import graph (flattenSpecs: a file,
// then its imports in textual order, each file once), all into ONE module - so an application continued in an
// imported file is the same as a second block of it. The import graph is drawn so that its pre-order is the order
// of Files (chain, star, mixed), with redundant edges thrown in: a file imported again by a later importer, an
// import back to the root, a file importing itself.
func SplitFiles(s *Spec, r *common.Rng) *Spec {
	blocks := s.Blocks()
	if len(blocks) < 2 {
		return s
	}
	n := 2 + r.Intn(3)
	if n > len(blocks) {
		n = len(blocks)
	}
	// n-1 cut points
	cuts := map[int]bool{}
	for len(cuts) < n-1 {
		cuts[1+r.Intn(len(blocks)-1)] = true
	}
	var files []File
	cur := File{Name: "root.sysl"}
	for i, b := range blocks {
		if cuts[i] {
			files = append(files, cur)
			cur = File{Name: fmt.Sprintf("part%d.sysl", len(files))}
		}
		cur.Blocks = append(cur.Blocks, b)
	}
	files = append(files, cur)
	imp := func(i int) string { return fmt.Sprintf("part%d", i) }
	// parent[i]: the file that brings file i in (pre-order = index order iff every file's children are consecutive
	// subtrees; a chain below the previous file or a further child of an ancestor on the current path)
	path := []int{0}
	for i := 1; i < len(files); i++ {
		// pop some ancestors: the new file becomes a child of path[top]
		for len(path) > 1 && r.Chance(1, 3) {
			path = path[:len(path)-1]
		}
		p := path[len(path)-1]
		files[p].Imports = append(files[p].Imports, imp(i))
		path = append(path, i)
	}
	// redundant edges that do not change the pre-order: to files that are already visited when the edge is followed
	for i := range files {
		if r.Chance(1, 3) {
			j := r.Intn(i + 1) // an earlier file or the file itself
			name := "root"
			if j > 0 {
				name = imp(j)
			}
			files[i].Imports = append(files[i].Imports, name)
		}
	}
	return &Spec{Files: files}
}
