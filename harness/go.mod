module verifharness

go 1.21

require github.com/anz-bank/sysl v0.0.0

replace github.com/anz-bank/sysl => /repo
