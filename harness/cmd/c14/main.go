// C14 correspondence + oracle: random call graphs (calls nested in every statement kind), project
// endpoints listing any subset of the apps, exclude / pass-through sets including cyclic pass-through
// chains; the real MakeBuilderfromStmt and GenerateIntegrations (plain, clustered, EPA) are run, judged by
// a model-independent oracle, and printed as Gallina cases for the in-Coq comparison with the model.
//
// A run that could recurse for ever on an unrepaired tree (pass-through apps able to reach themselves)
// is made in a child process, so a stack overflow becomes an oracle failure instead of killing the harness.
package main

import (
	"bufio"
	"bytes"
	"encoding/json"
	"fmt"
	"io"
	"os"
	"os/exec"
	"regexp"
	"runtime/debug"
	"sort"
	"strings"
	"time"

	"github.com/anz-bank/sysl/pkg/cmdutils"
	"github.com/anz-bank/sysl/pkg/integrationdiagram"
	"github.com/anz-bank/sysl/pkg/sysl"
	"github.com/anz-bank/sysl/pkg/syslutil"
	"github.com/sirupsen/logrus"

	"verifharness/common"
)

// ---------------------------------------------------------------- abstract case

const (
	kCall = iota
	kAction
	kRet
	kCond
	kLoop
	kLoopN
	kForeach
	kGroup
	kAlt
)

type Stmt struct {
	K    int      `json:"k"`
	A    int      `json:"a,omitempty"` // target app id (== len(Apps): the undefined app)
	E    int      `json:"e,omitempty"` // target endpoint id (0 = the collector name)
	Body []Stmt   `json:"body,omitempty"`
	Alts [][]Stmt `json:"alts,omitempty"`
}
type Ep struct {
	ID     int    `json:"id"` // 0 = ".. * <- *"
	Hidden bool   `json:"hidden,omitempty"`
	Body   []Stmt `json:"body,omitempty"`
}
type App struct {
	Name  string `json:"name"`
	Human bool   `json:"human,omitempty"`
	Eps   []Ep   `json:"eps"` // ascending id
}
type Case struct {
	Apps     []App  `json:"apps"`     // index = id, names ascending
	Dangling string `json:"dangling"` // name of id len(Apps): never defined
	Listed   []int  `json:"listed"`
	ExclCLI  []int  `json:"excl_cli"`
	ExclAttr []int  `json:"excl_attr"`
	Pass     []int  `json:"pass"`
	Indirect string `json:"indirect_arrow_color"` // "", "none", "blue"
	Shape    string `json:"shape"`
}

const collector = ".. * <- *"
const project = "Project"

func en(i int) string {
	if i == 0 {
		return collector
	}
	return fmt.Sprintf("E%02d", i)
}
func (c *Case) an(i int) string {
	if i < len(c.Apps) {
		return c.Apps[i].Name
	}
	return c.Dangling
}
func (c *Case) appID(name string) int {
	for i := range c.Apps {
		if c.Apps[i].Name == name {
			return i
		}
	}
	if name == c.Dangling {
		return len(c.Apps)
	}
	return -1
}
func epID(name string) int {
	if name == collector {
		return 0
	}
	var e int
	if _, err := fmt.Sscanf(name, "E%02d", &e); err != nil {
		return -1
	}
	return e
}
func (c *Case) excl() map[int]bool {
	m := map[int]bool{}
	for _, x := range c.ExclCLI {
		m[x] = true
	}
	for _, x := range c.ExclAttr {
		m[x] = true
	}
	return m
}
func (c *Case) ep(a, e int) *Ep {
	if a >= len(c.Apps) {
		return nil
	}
	for i := range c.Apps[a].Eps {
		if c.Apps[a].Eps[i].ID == e {
			return &c.Apps[a].Eps[i]
		}
	}
	return nil
}

type call struct{ a, e int }

func callsOf(ss []Stmt) []call {
	var out []call
	for _, s := range ss {
		switch s.K {
		case kCall:
			out = append(out, call{s.A, s.E})
		case kAlt:
			for _, c := range s.Alts {
				out = append(out, callsOf(c)...)
			}
		default:
			out = append(out, callsOf(s.Body)...)
		}
	}
	return out
}

// ---------------------------------------------------------------- to protobuf

func sattr(v string) *sysl.Attribute { return &sysl.Attribute{Attribute: &sysl.Attribute_S{S: v}} }
func aattr(vs []string) *sysl.Attribute {
	var el []*sysl.Attribute
	for _, v := range vs {
		el = append(el, sattr(v))
	}
	return &sysl.Attribute{Attribute: &sysl.Attribute_A{A: &sysl.Attribute_Array{Elt: el}}}
}
func appName(full string) *sysl.AppName {
	return &sysl.AppName{Part: syslutil.SplitAppNameParts(full)}
}

func (c *Case) toProto(ss []Stmt) []*sysl.Statement {
	out := []*sysl.Statement{}
	for _, s := range ss {
		switch s.K {
		case kCall:
			out = append(out, &sysl.Statement{Stmt: &sysl.Statement_Call{Call: &sysl.Call{Target: appName(c.an(s.A)), Endpoint: en(s.E)}}})
		case kAction:
			out = append(out, &sysl.Statement{Stmt: &sysl.Statement_Action{Action: &sysl.Action{Action: "x"}}})
		case kRet:
			out = append(out, &sysl.Statement{Stmt: &sysl.Statement_Ret{Ret: &sysl.Return{Payload: "ok"}}})
		case kCond:
			out = append(out, &sysl.Statement{Stmt: &sysl.Statement_Cond{Cond: &sysl.Cond{Test: "t", Stmt: c.toProto(s.Body)}}})
		case kLoop:
			out = append(out, &sysl.Statement{Stmt: &sysl.Statement_Loop{Loop: &sysl.Loop{Stmt: c.toProto(s.Body)}}})
		case kLoopN:
			out = append(out, &sysl.Statement{Stmt: &sysl.Statement_LoopN{LoopN: &sysl.LoopN{Count: 2, Stmt: c.toProto(s.Body)}}})
		case kForeach:
			out = append(out, &sysl.Statement{Stmt: &sysl.Statement_Foreach{Foreach: &sysl.Foreach{Collection: "c", Stmt: c.toProto(s.Body)}}})
		case kGroup:
			out = append(out, &sysl.Statement{Stmt: &sysl.Statement_Group{Group: &sysl.Group{Title: "g", Stmt: c.toProto(s.Body)}}})
		case kAlt:
			alt := &sysl.Alt{}
			for _, ch := range s.Alts {
				alt.Choice = append(alt.Choice, &sysl.Alt_Choice{Cond: "c", Stmt: c.toProto(ch)})
			}
			out = append(out, &sysl.Statement{Stmt: &sysl.Statement_Alt{Alt: alt}})
		}
	}
	return out
}

func (c *Case) names(ids []int) []string {
	out := []string{}
	for _, i := range ids {
		out = append(out, c.an(i))
	}
	return out
}

// module with the project app; returns also the project endpoint
func (c *Case) module() (*sysl.Module, *sysl.Endpoint) {
	m := &sysl.Module{Apps: map[string]*sysl.Application{}}
	for _, a := range c.Apps {
		pa := &sysl.Application{Name: appName(a.Name), Endpoints: map[string]*sysl.Endpoint{}}
		if a.Human {
			pa.Attrs = map[string]*sysl.Attribute{"patterns": aattr([]string{"human"})}
		}
		for _, e := range a.Eps {
			pe := &sysl.Endpoint{Name: en(e.ID), Stmt: c.toProto(e.Body)}
			if e.Hidden {
				pe.Attrs = map[string]*sysl.Attribute{"patterns": aattr([]string{"hidden"})}
			}
			pa.Endpoints[en(e.ID)] = pe
		}
		m.Apps[a.Name] = pa
	}
	pe := &sysl.Endpoint{Name: "EP", Attrs: map[string]*sysl.Attribute{}}
	for _, n := range c.names(c.Listed) {
		pe.Stmt = append(pe.Stmt, &sysl.Statement{Stmt: &sysl.Statement_Action{Action: &sysl.Action{Action: n}}})
	}
	if len(c.ExclAttr) > 0 {
		pe.Attrs["exclude"] = aattr(c.names(c.ExclAttr))
	}
	if len(c.Pass) > 0 {
		pe.Attrs["passthrough"] = aattr(c.names(c.Pass))
	}
	pa := &sysl.Application{Name: appName(project), Endpoints: map[string]*sysl.Endpoint{"EP": pe}, Attrs: map[string]*sysl.Attribute{}}
	if c.Indirect != "" {
		pa.Attrs["indirect_arrow_color"] = sattr(c.Indirect)
	}
	m.Apps[project] = pa
	return m, pe
}

// ---------------------------------------------------------------- observation of the real code

type Obs struct {
	Panic    bool              `json:"panic"`
	PanicMsg string            `json:"panic_msg,omitempty"`
	Deps     [][4]int          `json:"deps"`
	Final    []int             `json:"final"`
	Views    map[string]string `json:"views"`          // plain / clustered / epa -> PlantUML ("PANIC: ..." if it panicked)
	Died     string            `json:"died,omitempty"` // child process only: how it ended
}

func observe(c *Case) *Obs {
	o := &Obs{Views: map[string]string{}}
	m, pe := c.module()
	func() {
		defer func() {
			if r := recover(); r != nil {
				o.Panic, o.PanicMsg = true, fmt.Sprint(r)
			}
		}()
		ex := syslutil.MakeStrSet(c.names(c.ExclCLI)...)
		if len(c.ExclCLI) == 0 {
			ex = syslutil.MakeStrSet(project) // what GenerateIntegrations does with an empty --exclude
		}
		ex = ex.Union(syslutil.MakeStrSet(c.names(c.ExclAttr)...))
		b := integrationdiagram.MakeBuilderfromStmt(m, pe.GetStmt(), ex, syslutil.MakeStrSet(c.names(c.Pass)...))
		for _, d := range b.DepsOut {
			o.Deps = append(o.Deps, [4]int{c.appID(d.Self.Name), epID(d.Self.Endpoint), c.appID(d.Target.Name), epID(d.Target.Endpoint)})
		}
		for _, f := range b.FinalApps {
			o.Final = append(o.Final, c.appID(f))
		}
	}()
	if o.Panic {
		return o
	}
	logger := logrus.New()
	logger.SetOutput(new(bytes.Buffer))
	for _, v := range []string{"plain", "clustered", "epa"} {
		func() {
			defer func() {
				if r := recover(); r != nil {
					o.Views[v] = "PANIC: " + fmt.Sprint(r)
				}
			}()
			m2, _ := c.module()
			p := &cmdutils.CmdContextParamIntgen{Title: "", Output: "%(epname).png", Project: project,
				Exclude: c.names(c.ExclCLI), Clustered: v == "clustered", EPA: v == "epa"}
			r, err := integrationdiagram.GenerateIntegrations(p, m2, logger)
			if err != nil {
				o.Views[v] = "PANIC: error " + err.Error()
				return
			}
			for _, txt := range r {
				o.Views[v] = txt
			}
		}()
	}
	return o
}

func childMain() {
	debug.SetMaxStack(16 << 20) // a runaway recursion ends quickly
	dec := json.NewDecoder(os.Stdin)
	enc := json.NewEncoder(os.Stdout)
	for {
		var c Case
		if err := dec.Decode(&c); err != nil {
			if err == io.EOF {
				return
			}
			fmt.Fprintln(os.Stderr, err)
			os.Exit(3)
		}
		enc.Encode(observe(&c))
	}
}

// one long-lived child serves the risky cases; when it dies the case in hand is the culprit
type childProc struct {
	cmd   *exec.Cmd
	in    io.WriteCloser
	out   *bufio.Reader
	errb  *bytes.Buffer
	ended chan error
}

var child *childProc

func startChild() (*childProc, error) {
	p := &childProc{cmd: exec.Command(os.Args[0], "-child"), errb: new(bytes.Buffer), ended: make(chan error, 1)}
	var err error
	if p.in, err = p.cmd.StdinPipe(); err != nil {
		return nil, err
	}
	so, err := p.cmd.StdoutPipe()
	if err != nil {
		return nil, err
	}
	p.out = bufio.NewReaderSize(so, 1<<20)
	p.cmd.Stderr = p.errb
	if err := p.cmd.Start(); err != nil {
		return nil, err
	}
	return p, nil
}

func stopChild() {
	if child != nil {
		child.in.Close()
		child.cmd.Process.Kill()
		child.cmd.Wait()
		child = nil
	}
}

func observeChild(c *Case) *Obs {
	if child == nil {
		p, err := startChild()
		if err != nil {
			return &Obs{Died: "cannot start child: " + err.Error()}
		}
		child = p
	}
	in, _ := json.Marshal(c)
	type res struct {
		line []byte
		err  error
	}
	ch := make(chan res, 1)
	p := child
	go func() {
		if _, err := p.in.Write(append(in, '\n')); err != nil {
			ch <- res{nil, err}
			return
		}
		line, err := p.out.ReadBytes('\n')
		ch <- res{line, err}
	}()
	var r res
	select {
	case r = <-ch:
	case <-time.After(30 * time.Second):
		stopChild()
		return &Obs{Died: "no result after 30 s"}
	}
	if r.err != nil {
		p.cmd.Wait()
		msg := "child ended: " + r.err.Error()
		if strings.Contains(p.errb.String(), "stack overflow") || strings.Contains(p.errb.String(), "stack exceeds") {
			msg = "stack overflow"
		}
		child = nil
		return &Obs{Died: msg}
	}
	var o Obs
	if err := json.Unmarshal(r.line, &o); err != nil {
		stopChild()
		return &Obs{Died: "unreadable child output: " + err.Error()}
	}
	return &o
}

// can a pass-through app reach itself through calls among pass-through apps (ignoring every other test)?
func (c *Case) passCyclic() bool {
	isP := map[int]bool{}
	for _, p := range c.Pass {
		isP[p] = true
	}
	adj := map[int][]int{}
	for i, a := range c.Apps {
		if !isP[i] {
			continue
		}
		for _, e := range a.Eps {
			for _, cl := range callsOf(e.Body) {
				if isP[cl.a] && cl.a < len(c.Apps) {
					adj[i] = append(adj[i], cl.a)
				}
			}
		}
	}
	color := map[int]int{}
	var dfs func(int) bool
	dfs = func(u int) bool {
		color[u] = 1
		for _, v := range adj[u] {
			if color[v] == 1 || (color[v] == 0 && dfs(v)) {
				return true
			}
		}
		color[u] = 2
		return false
	}
	for p := range isP {
		if color[p] == 0 && dfs(p) {
			return true
		}
	}
	return false
}

// walkCost: number of call statements the seed pass visits when a pass-through endpoint is not re-entered while
// it is being expanded (every simple path through the pass-through endpoints is walked; that is what the
// repaired code does, and what the code as written does on acyclic inputs). Counting stops above limit.
func (c *Case) walkCost(limit int) int {
	n, _, _ := c.walkStats(limit)
	return n
}

// walkStats: also how often the guard cuts a re-entry and how many pass-through endpoints are expanded more than once
func (c *Case) walkStats(limit int) (visited, cuts, repeats int) {
	ex := c.excl()
	isP := map[int]bool{}
	for _, p := range c.Pass {
		isP[p] = true
	}
	n := 0
	onStack := map[call]bool{}
	expanded := map[call]int{}
	var visit func(body []Stmt)
	visit = func(body []Stmt) {
		for _, cl := range callsOf(body) {
			if n > limit {
				return
			}
			n++
			if ex[cl.a] || cl.a >= len(c.Apps) || c.Apps[cl.a].Human || !isP[cl.a] {
				continue
			}
			if onStack[cl] {
				cuts++
				continue
			}
			p := c.ep(cl.a, cl.e)
			if p == nil {
				continue
			}
			expanded[cl]++
			onStack[cl] = true
			visit(p.Body)
			delete(onStack, cl)
		}
	}
	for _, l := range c.Listed {
		if l < len(c.Apps) && !c.Apps[l].Human && !ex[l] {
			for _, e := range c.Apps[l].Eps {
				if e.ID != 0 {
					visit(e.Body)
				}
			}
		}
	}
	for _, k := range expanded {
		if k > 1 {
			repeats++
		}
	}
	return n, cuts, repeats
}

// ---------------------------------------------------------------- the oracle (set semantics, no model)

type dep [4]int

type spec struct {
	seeds    map[int]bool
	deps     map[dep]bool
	final    map[int]bool
	dangling bool // a processed call names an app that is not defined (drawn like any other since a405748)
}

func (c *Case) specify() *spec {
	ex := c.excl()
	sp := &spec{seeds: map[int]bool{}, deps: map[dep]bool{}, final: map[int]bool{}}
	isP := map[int]bool{}
	for _, p := range c.Pass {
		isP[p] = true
	}
	for _, l := range c.Listed {
		if l < len(c.Apps) && !c.Apps[l].Human && !ex[l] {
			sp.seeds[l] = true
			sp.final[l] = true
		}
	}
	hidden := func(a, e int) bool { p := c.ep(a, e); return p != nil && p.Hidden }
	// pass 1: calls of listed apps, and of the pass-through endpoints they reach
	type nd struct{ a, e int }
	expanded := map[nd]bool{}
	var work []nd
	push := func(n nd) {
		if !expanded[n] {
			expanded[n] = true
			work = append(work, n)
		}
	}
	for s := range sp.seeds {
		for _, e := range c.Apps[s].Eps {
			if e.ID != 0 {
				push(nd{s, e.ID})
			}
		}
	}
	// the seeds' own endpoints are expanded as seeds; a pass-through walk of the same endpoint is the same set of calls
	for len(work) > 0 {
		n := work[len(work)-1]
		work = work[:len(work)-1]
		p := c.ep(n.a, n.e)
		if p == nil {
			continue
		}
		for _, cl := range callsOf(p.Body) {
			if ex[cl.a] {
				continue
			}
			if cl.a >= len(c.Apps) {
				sp.dangling = true
			} else if c.Apps[cl.a].Human {
				continue
			}
			if !hidden(cl.a, cl.e) {
				sp.deps[dep{n.a, n.e, cl.a, cl.e}] = true
			}
			sp.final[cl.a] = true
			if isP[cl.a] {
				push(nd{cl.a, cl.e})
			}
		}
	}
	// pass 2: callers of seeds
	for i, a := range c.Apps {
		if ex[i] {
			continue
		}
		for _, e := range a.Eps {
			if e.ID == 0 {
				continue
			}
			for _, cl := range callsOf(e.Body) {
				if !sp.seeds[cl.a] {
					continue
				}
				if !hidden(cl.a, cl.e) {
					sp.deps[dep{i, e.ID, cl.a, cl.e}] = true
				}
				sp.final[i] = true
			}
		}
	}
	// pass 3: calls among the final apps
	for i := range sp.final {
		if i >= len(c.Apps) {
			continue
		}
		for _, e := range c.Apps[i].Eps {
			if e.ID == 0 {
				continue
			}
			for _, cl := range callsOf(e.Body) {
				if !sp.final[cl.a] || (cl.a < len(c.Apps) && c.Apps[cl.a].Human) {
					continue
				}
				if !hidden(cl.a, cl.e) {
					sp.deps[dep{i, e.ID, cl.a, cl.e}] = true
				}
			}
		}
	}
	return sp
}

func (c *Case) hasCall(d dep) bool {
	p := c.ep(d[0], d[1])
	if p == nil {
		return false
	}
	for _, cl := range callsOf(p.Body) {
		if cl.a == d[2] && cl.e == d[3] {
			return true
		}
	}
	return false
}
func (c *Case) appCalls(a, b int) bool {
	if a >= len(c.Apps) {
		return false
	}
	for _, e := range c.Apps[a].Eps {
		for _, cl := range callsOf(e.Body) {
			if cl.a == b {
				return true
			}
		}
	}
	return false
}
func (c *Case) dstr(d dep) string {
	return fmt.Sprintf("%s.%s -> %s.%s", c.an(d[0]), en(d[1]), c.an(d[2]), en(d[3]))
}

type arrow struct {
	a, b     int
	indirect bool
}

// short label of an app in the clustered view (the renderer labels a namespaced app by its last part)
func short(name string) string {
	p := syslutil.SplitAppNameParts(name)
	return p[len(p)-1]
}

var reComp = regexp.MustCompile(`^\[(.*)\] as (_\d+)( <<highlight>>)?$`)
var reArrow = regexp.MustCompile(`^(_\d+) --> (_\d+)( <<indirect>>)?$`)
var reTop = regexp.MustCompile(`^state "(.*)" as X(_\d+)( <<highlight>>)? \{$`)
var reState = regexp.MustCompile(`^  state "(.*)" as (_\d+)( <<highlight>>)?$`)
var reEArrow = regexp.MustCompile(`^(_\d+) -\[#(\w+)\]-?> (_\d+)( : .*)?$`)

// parse a component diagram: arrows as app ids; ok=false if a line is not understood
func (c *Case) parseInts(txt string, clustered bool) ([]arrow, string) {
	label2app := map[string][]int{}
	for i, a := range c.Apps {
		l := a.Name
		if clustered && len(syslutil.SplitAppNameParts(a.Name)) > 1 {
			l = short(a.Name)
		}
		label2app[l] = append(label2app[l], i)
	}
	if c.Dangling != "" { // an app that is called but not defined is drawn under its name
		label2app[c.Dangling] = append(label2app[c.Dangling], len(c.Apps))
	}
	alias := map[string]int{}
	var out []arrow
	body := false
	for _, ln := range strings.Split(txt, "\n") {
		if ln == "}" && !body {
			body = true // end of skinparam
			continue
		}
		if !body || ln == "}" || ln == "@enduml" || strings.HasPrefix(ln, "package ") {
			continue
		}
		if m := reComp.FindStringSubmatch(ln); m != nil {
			ids := label2app[m[1]]
			if len(ids) != 1 {
				return nil, fmt.Sprintf("component label %q names %d apps", m[1], len(ids))
			}
			alias[m[2]] = ids[0]
			continue
		}
		if m := reArrow.FindStringSubmatch(ln); m != nil {
			a, oka := alias[m[1]]
			b, okb := alias[m[2]]
			if !oka || !okb {
				return nil, "arrow between undeclared components: " + ln
			}
			out = append(out, arrow{a, b, m[3] != ""})
			continue
		}
		return nil, "line not understood: " + ln
	}
	return out, ""
}

type enode struct {
	app   int
	label string
}
type earrow struct {
	from, to enode
	color    string
}

func (c *Case) parseEPA(txt string) ([]earrow, string) {
	alias := map[string]enode{}
	cur := -1
	var out []earrow
	body := false
	for _, ln := range strings.Split(txt, "\n") {
		if ln == "}" && !body {
			body = true
			continue
		}
		if !body || ln == "@enduml" {
			continue
		}
		if ln == "}" {
			cur = -1
			continue
		}
		if m := reTop.FindStringSubmatch(ln); m != nil {
			cur = c.appID(m[1])
			if cur < 0 {
				return nil, "state for unknown app: " + ln
			}
			continue
		}
		if m := reState.FindStringSubmatch(ln); m != nil {
			if cur < 0 {
				return nil, "endpoint state outside an app: " + ln
			}
			alias[m[2]] = enode{cur, m[1]}
			continue
		}
		if m := reEArrow.FindStringSubmatch(ln); m != nil {
			f, okf := alias[m[1]]
			t, okt := alias[m[3]]
			if !okf || !okt {
				return nil, "arrow between undeclared states: " + ln
			}
			out = append(out, earrow{f, t, m[2]})
			continue
		}
		return nil, "line not understood: " + ln
	}
	return out, ""
}

type replay struct {
	Case Case   `json:"case"`
	View string `json:"view,omitempty"`
}

// judge: the property on one observation. Returns the arrows of the plain and clustered views (nil if not usable).
func judge(ctx *common.Ctx, c *Case, o *Obs) map[string][]arrow {
	rp := replay{Case: *c}
	views := map[string][]arrow{}
	if o.Died != "" {
		key := "terminates:child-died"
		if o.Died == "stack overflow" || strings.HasPrefix(o.Died, "no result") {
			key = "terminates:passthrough-cycle"
		}
		ctx.Fail(key, fmt.Sprintf("integration-diagram generation does not terminate (%s) with pass-through apps %v calling each other in a cycle", o.Died, c.names(c.Pass)), rp)
		return nil
	}
	sp := c.specify()
	if sp.dangling {
		ctx.Hist("calls-an-undefined-app")
	}
	if o.Panic {
		ctx.Fail("panic:builder", "MakeBuilderfromStmt panicked: "+o.PanicMsg, rp)
		return nil
	}
	ex := c.excl()
	isListed := map[int]bool{}
	for _, l := range c.Listed {
		isListed[l] = true
	}
	got := map[dep]bool{}
	for _, d := range o.Deps {
		dd := dep(d)
		if got[dd] {
			ctx.Hist("beyond-property:dependency-listed-twice")
		}
		got[dd] = true
		// soundness, read off the statement tree
		if !c.hasCall(dd) {
			ctx.Fail("sound:no-call", "dependency without a call statement: "+c.dstr(dd), rp)
		}
		for _, end := range []int{0, 2} {
			if !ex[dd[end]] {
				continue
			}
			side := []string{"from", "", "to"}[end]
			if isListed[dd[end]] {
				// the project lists the app AND excludes it
				ctx.Fail("sound:excluded-listed-app", fmt.Sprintf("dependency drawn %s %s, which the project lists but which is on the exclude list: %s", side, c.an(dd[end]), c.dstr(dd)), rp)
			} else if end == 0 {
				ctx.Fail("sound:excluded-source", "dependency drawn from an excluded app: "+c.dstr(dd), rp)
			} else {
				ctx.Fail("sound:excluded-target", "dependency drawn to an excluded app: "+c.dstr(dd), rp)
			}
		}
	}
	// completeness for listed apps, read off the statement tree
	for s := range sp.seeds {
		for _, e := range c.Apps[s].Eps {
			if e.ID == 0 {
				continue
			}
			for _, cl := range callsOf(e.Body) {
				// an app that is called but not defined is neither human nor hidden
				if ex[cl.a] || (cl.a < len(c.Apps) && c.Apps[cl.a].Human) {
					continue
				}
				if p := c.ep(cl.a, cl.e); p != nil && p.Hidden {
					continue
				}
				if d := (dep{s, e.ID, cl.a, cl.e}); !got[d] {
					ctx.Fail("complete:listed-call-missing", "call of a listed app is not in the dependency list: "+c.dstr(d), rp)
				}
			}
		}
	}
	{
		// the whole list against the set-level specification of the three passes
		// (not demanded by the property, so recorded only: the Coq model is the judge of the exact list)
		for d := range sp.deps {
			if !got[d] {
				ctx.Hist("beyond-property:three-pass-spec:missing-dep")
			}
		}
		for d := range got {
			if !sp.deps[d] {
				ctx.Hist("beyond-property:three-pass-spec:extra-dep")
			}
		}
		gf := map[int]bool{}
		for _, f := range o.Final {
			gf[f] = true
		}
		for f := range sp.final {
			if !gf[f] {
				ctx.Hist("beyond-property:three-pass-spec:final-missing")
			}
		}
		for f := range gf {
			if !sp.final[f] {
				ctx.Hist("beyond-property:three-pass-spec:final-extra")
			}
		}
	}
	// ---- the rendered diagrams
	drawIndirect := c.Indirect != "none"
	type pair struct{ a, b int }
	for _, v := range []string{"plain", "clustered"} {
		txt := o.Views[v]
		rpv := replay{*c, v}
		if strings.HasPrefix(txt, "PANIC: ") {
			ctx.Fail("view:"+v+":panic", v+" view panicked: "+txt, rpv)
			continue
		}
		arrows, bad := c.parseInts(txt, v == "clustered")
		if bad != "" {
			ctx.Fail("view:"+v+":unparsed", v+" view: "+bad, rpv)
			continue
		}
		views[v] = arrows
		seen := map[pair]bool{}
		for _, ar := range arrows {
			p := pair{ar.a, ar.b}
			if seen[p] {
				ctx.Fail("view:"+v+":duplicate-arrow", fmt.Sprintf("%s view draws %s --> %s twice", v, c.an(ar.a), c.an(ar.b)), rpv)
			}
			seen[p] = true
			if ar.a == ar.b || !c.appCalls(ar.a, ar.b) {
				ctx.Fail("view:"+v+":arrow-without-call", fmt.Sprintf("%s view draws %s --> %s but no statement of the first calls the second", v, c.an(ar.a), c.an(ar.b)), rpv)
			}
			if (ex[ar.a] && isListed[ar.a]) || (ex[ar.b] && isListed[ar.b]) {
				ctx.Fail("view:"+v+":excluded-listed-app", fmt.Sprintf("%s view draws %s --> %s touching an app that the project lists but that is on the exclude list", v, c.an(ar.a), c.an(ar.b)), rpv)
			} else if ex[ar.a] || ex[ar.b] {
				ctx.Fail("view:"+v+":excluded-app", fmt.Sprintf("%s view draws %s --> %s touching an excluded app", v, c.an(ar.a), c.an(ar.b)), rpv)
			}
			backed := false
			for d := range got {
				if d[0] == ar.a && d[2] == ar.b {
					backed = true
				}
			}
			if !backed {
				ctx.Fail("view:"+v+":arrow-without-dep", fmt.Sprintf("%s view draws %s --> %s without a dependency", v, c.an(ar.a), c.an(ar.b)), rpv)
			}
			if ar.indirect != !(sp.seeds[ar.a] || sp.seeds[ar.b]) {
				ctx.Hist("beyond-property:indirect-mark-differs")
			}
		}
		for d := range got {
			if d[0] == d[2] {
				continue
			}
			direct := sp.seeds[d[0]] || sp.seeds[d[2]]
			if (direct || drawIndirect) && !seen[pair{d[0], d[2]}] {
				key := "view:" + v + ":dep-not-drawn"
				if sp.seeds[d[0]] {
					key = "view:" + v + ":listed-call-not-drawn"
				}
				ctx.Fail(key, fmt.Sprintf("%s view has no arrow for %s", v, c.dstr(d)), rpv)
			}
		}
	}
	// EPA
	if txt := o.Views["epa"]; strings.HasPrefix(txt, "PANIC: ") {
		ctx.Fail("view:epa:panic", "EPA view panicked: "+txt, replay{*c, "epa"})
	} else {
		rpv := replay{*c, "epa"}
		ea, bad := c.parseEPA(txt)
		if bad != "" {
			ctx.Fail("view:epa:unparsed", "EPA view: "+bad, rpv)
		} else {
			want := map[earrow]bool{}
			for _, d := range o.Deps {
				a, ea_, b, eb := d[0], en(d[1]), d[2], en(d[3])
				if a != b {
					want[earrow{enode{a, ea_}, enode{a, eb + " client"}, ""}] = true
					want[earrow{enode{a, eb + " client"}, enode{b, eb}, ""}] = true
				} else {
					want[earrow{enode{a, ea_}, enode{b, eb}, ""}] = true
				}
			}
			gotE := map[earrow]bool{}
			for _, x := range ea {
				x.color = ""
				gotE[x] = true
				if !want[x] {
					ctx.Fail("view:epa:arrow-without-dep", fmt.Sprintf("EPA view draws %s:%s -> %s:%s without a dependency", c.an(x.from.app), x.from.label, c.an(x.to.app), x.to.label), rpv)
				}
				if (ex[x.from.app] && isListed[x.from.app]) || (ex[x.to.app] && isListed[x.to.app]) {
					ctx.Fail("view:epa:excluded-listed-app", fmt.Sprintf("EPA view draws an arrow touching an app that the project lists but that is on the exclude list: %s -> %s", c.an(x.from.app), c.an(x.to.app)), rpv)
				} else if ex[x.from.app] || ex[x.to.app] {
					ctx.Fail("view:epa:excluded-app", fmt.Sprintf("EPA view draws an arrow touching an excluded app: %s -> %s", c.an(x.from.app), c.an(x.to.app)), rpv)
				}
				if x.from.app != x.to.app && !c.appCalls(x.from.app, x.to.app) {
					ctx.Fail("view:epa:arrow-without-call", fmt.Sprintf("EPA view draws %s -> %s but no statement of the first calls the second", c.an(x.from.app), c.an(x.to.app)), rpv)
				}
			}
			for x := range want {
				if !gotE[x] {
					ctx.Fail("view:epa:dep-not-drawn", fmt.Sprintf("EPA view lacks %s:%s -> %s:%s", c.an(x.from.app), x.from.label, c.an(x.to.app), x.to.label), rpv)
				}
			}
		}
	}
	return views
}

// ---------------------------------------------------------------- generator

type gen struct {
	r      *common.Rng
	napps  int // defined apps
	ntgt   int // call targets: napps (+1 with an undefined app)
	maxEp  int
	missEp bool
}

func (g *gen) stmts(depth int) []Stmt {
	n := g.r.Intn(4)
	var out []Stmt
	for i := 0; i < n; i++ {
		k := g.r.Intn(10)
		switch {
		case k < 5:
			e := 1 + g.r.Intn(g.maxEp)
			if g.missEp && g.r.Chance(1, 8) {
				e = g.maxEp + 1 // endpoint that no app defines
			}
			if g.missEp && g.r.Chance(1, 12) {
				e = 0 // the collector's name
			}
			out = append(out, Stmt{K: kCall, A: g.r.Intn(g.ntgt), E: e})
		case k < 6:
			out = append(out, Stmt{K: kAction + g.r.Intn(2)})
		case k < 8 && depth > 0:
			out = append(out, Stmt{K: kCond + g.r.Intn(5), Body: g.stmts(depth - 1)})
		case depth > 0:
			nc := 1 + g.r.Intn(3)
			s := Stmt{K: kAlt}
			for j := 0; j < nc; j++ {
				s.Alts = append(s.Alts, g.stmts(depth-1))
			}
			out = append(out, s)
		default:
			out = append(out, Stmt{K: kAction})
		}
	}
	return out
}

func pick(r *common.Rng, n int, p, q int) []int {
	var out []int
	for i := 0; i < n; i++ {
		if r.Chance(p, q) {
			out = append(out, i)
		}
	}
	return out
}
func has(xs []int, v int) bool {
	for _, x := range xs {
		if x == v {
			return true
		}
	}
	return false
}
func add(xs []int, v int) []int {
	if has(xs, v) {
		return xs
	}
	return append(xs, v)
}
func del(xs []int, v int) []int {
	var out []int
	for _, x := range xs {
		if x != v {
			out = append(out, x)
		}
	}
	return out
}

func genCase(r *common.Rng, big bool) *Case {
	c := &Case{}
	napps := 2 + r.Intn(7) // 2..8
	if big {
		napps = 6 + r.Intn(7)
	}
	// names: plain, or namespaced in two or three groups (short names stay distinct)
	ns := r.Chance(1, 3)
	names := make([]string, napps)
	for i := range names {
		names[i] = fmt.Sprintf("A%02d", i)
		if ns && r.Chance(3, 4) {
			names[i] = fmt.Sprintf("G%d :: A%02d", r.Intn(3), i)
		}
	}
	sort.Strings(names)
	g := &gen{r: r, napps: napps, ntgt: napps, maxEp: 1 + r.Intn(3), missEp: r.Chance(1, 4)}
	if r.Chance(1, 7) {
		g.ntgt = napps + 1
		c.Dangling = "Zundefined"
	}
	for i := 0; i < napps; i++ {
		a := App{Name: names[i], Human: r.Chance(1, 9)}
		if r.Chance(1, 8) {
			a.Eps = append(a.Eps, Ep{ID: 0, Body: g.stmts(1)})
		}
		ne := g.maxEp
		if g.missEp {
			ne = 1 + r.Intn(g.maxEp)
		}
		for j := 1; j <= ne; j++ {
			a.Eps = append(a.Eps, Ep{ID: j, Hidden: r.Chance(1, 7), Body: g.stmts(2)})
		}
		c.Apps = append(c.Apps, a)
	}
	c.Listed = pick(r, napps, 1, 2)
	if len(c.Listed) == 0 {
		c.Listed = []int{r.Intn(napps)}
	}
	c.Pass = pick(r, napps, 1, 3)
	exc := pick(r, napps, 1, 6)
	c.Shape = "random"
	firstEp := func(a int) *Ep {
		for i := range c.Apps[a].Eps {
			if c.Apps[a].Eps[i].ID != 0 {
				return &c.Apps[a].Eps[i]
			}
		}
		return nil
	}
	wrap := func(s Stmt) Stmt { // bury a statement under one or two blocks
		switch r.Intn(4) {
		case 0:
			return s
		case 1:
			return Stmt{K: kCond + r.Intn(5), Body: []Stmt{{K: kAction}, s}}
		case 2:
			return Stmt{K: kAlt, Alts: [][]Stmt{{{K: kRet}}, {s}}}
		}
		return Stmt{K: kLoop, Body: []Stmt{{K: kAlt, Alts: [][]Stmt{{s}, {}}}}}
	}
	switch r.Intn(8) {
	case 0, 1: // a caller of a seed that is on the exclude list (Appendix B)
		if napps >= 2 {
			s := c.Listed[r.Intn(len(c.Listed))]
			xcl := (s + 1 + r.Intn(napps-1)) % napps
			c.Listed = del(c.Listed, xcl)
			c.Apps[s].Human = false
			exc = del(add(exc, xcl), s)
			e := firstEp(xcl)
			e.Body = append(e.Body, wrap(Stmt{K: kCall, A: s, E: firstEp(s).ID}))
			c.Shape = "excluded-caller-of-seed"
		}
	case 2, 3: // pass-through cycle of length 1..4 hanging off a seed
		k := 1 + r.Intn(4)
		if k > napps-1 {
			k = napps - 1
		}
		if k >= 1 {
			s := c.Listed[r.Intn(len(c.Listed))]
			c.Apps[s].Human = false
			exc = del(exc, s)
			var cyc []int
			for i := 0; len(cyc) < k && i < napps; i++ {
				x := (s + 1 + i) % napps
				if x != s {
					cyc = append(cyc, x)
				}
			}
			for i, x := range cyc {
				c.Apps[x].Human = false
				exc = del(exc, x)
				c.Pass = add(c.Pass, x)
				nx := cyc[(i+1)%len(cyc)]
				e := firstEp(x)
				e.Body = append(e.Body, wrap(Stmt{K: kCall, A: nx, E: firstEp(nx).ID}))
			}
			e := firstEp(s)
			e.Body = append(e.Body, wrap(Stmt{K: kCall, A: cyc[0], E: firstEp(cyc[0]).ID}))
			c.Shape = fmt.Sprintf("passthrough-cycle-%d", len(cyc))
		}
	case 4: // pass-through chain, acyclic: every pass-through app calls only later apps
		c.Shape = "passthrough-chain"
		for _, p := range c.Pass {
			var fix func(ss []Stmt) []Stmt
			fix = func(ss []Stmt) []Stmt {
				for k := range ss {
					if ss[k].K == kCall && ss[k].A <= p {
						if p+1 < napps {
							ss[k].A = p + 1 + r.Intn(napps-p-1)
						} else {
							ss[k] = Stmt{K: kAction}
						}
					}
					ss[k].Body = fix(ss[k].Body)
					for q := range ss[k].Alts {
						ss[k].Alts[q] = fix(ss[k].Alts[q])
					}
				}
				return ss
			}
			for i := range c.Apps[p].Eps {
				c.Apps[p].Eps[i].Body = fix(c.Apps[p].Eps[i].Body)
			}
		}
	case 5: // listed apps that are excluded, human, undefined, or listed twice
		c.Shape = "odd-listing"
		x := r.Intn(napps)
		c.Listed = add(c.Listed, x)
		exc = add(exc, x)
		c.Listed = append(c.Listed, c.Listed[r.Intn(len(c.Listed))])
		if c.Dangling == "" {
			c.Dangling = "Zundefined" // listed but never a call target
		}
		c.Listed = append(c.Listed, napps)
	}
	for _, x := range exc {
		if r.Bool() {
			c.ExclCLI = append(c.ExclCLI, x)
		} else {
			c.ExclAttr = append(c.ExclAttr, x)
		}
	}
	c.Indirect = []string{"", "", "none", "blue"}[r.Intn(4)]
	// keep the walk small: drop pass-through apps until the seed pass visits at most 3000 call statements
	for len(c.Pass) > 0 && c.walkCost(3000) > 3000 {
		c.Pass = c.Pass[:len(c.Pass)-1]
		if !strings.HasSuffix(c.Shape, "+trimmed") {
			c.Shape += "+trimmed"
		}
	}
	return c
}

// the probed defect, as a literal case: A lists, B <-> C are pass-through and call each other
func cycleCase() *Case {
	ep := func(a int) []Ep { return []Ep{{ID: 1, Body: []Stmt{{K: kCall, A: a, E: 1}}}} }
	return &Case{Apps: []App{{Name: "A00", Eps: ep(1)}, {Name: "A01", Eps: ep(2)}, {Name: "A02", Eps: ep(1)}},
		Listed: []int{0}, Pass: []int{1, 2}, Shape: "passthrough-cycle-2"}
}

// bounded-exhaustive small scope (thorough tier): three apps with one endpoint each; the endpoint of app i calls
// any subset of the three endpoints (8^3 call graphs: every self-loop, 2-cycle and 3-cycle shape); A00 is listed;
// any subset of {A01, A02} is pass-through; A02 is excluded or not.
func exhaustive3(one func(*Case)) int {
	n := 0
	for g := 0; g < 512; g++ {
		for pm := 0; pm < 4; pm++ {
			for xm := 0; xm < 2; xm++ {
				c := &Case{Listed: []int{0}, Shape: "exhaustive-3"}
				for i := 0; i < 3; i++ {
					var body []Stmt
					for j := 0; j < 3; j++ {
						if g>>(3*i+j)&1 == 1 {
							body = append(body, Stmt{K: kCall, A: j, E: 1})
						}
					}
					c.Apps = append(c.Apps, App{Name: fmt.Sprintf("A%02d", i), Eps: []Ep{{ID: 1, Body: body}}})
				}
				for j := 0; j < 2; j++ {
					if pm>>j&1 == 1 {
						c.Pass = append(c.Pass, j+1)
					}
				}
				if xm == 1 {
					c.ExclAttr = []int{2}
				}
				one(c)
				n++
			}
		}
	}
	return n
}

// the second repaired defect, as a literal case: A00 is listed and on the exclude list; it calls A01, and A02 calls it
func exclListedCase() *Case {
	ep := func(a int) []Ep { return []Ep{{ID: 1, Body: []Stmt{{K: kCall, A: a, E: 1}}}} }
	return &Case{Apps: []App{{Name: "A00", Eps: ep(1)}, {Name: "A01", Eps: []Ep{{ID: 1}}}, {Name: "A02", Eps: ep(0)}},
		Listed: []int{0, 1}, ExclAttr: []int{0}, Shape: "listed-and-excluded"}
}

// ---------------------------------------------------------------- Gallina

func gb(b bool) string {
	if b {
		return "T"
	}
	return "F"
}
func gstmts(ss []Stmt) string {
	var p []string
	for _, s := range ss {
		switch s.K {
		case kCall:
			p = append(p, fmt.Sprintf("C %d %d", s.A, s.E))
		case kAction, kRet:
			p = append(p, "O")
		case kAlt:
			var cs []string
			for _, c := range s.Alts {
				cs = append(cs, gstmts(c))
			}
			p = append(p, "A ["+strings.Join(cs, ";")+"]")
		default:
			p = append(p, "B "+gstmts(s.Body))
		}
	}
	return "[" + strings.Join(p, ";") + "]"
}
func gids(xs []int) string {
	s := make([]string, len(xs))
	for i, x := range xs {
		s[i] = fmt.Sprint(x)
	}
	return "[" + strings.Join(s, ";") + "]"
}
func (c *Case) gallina(o *Obs, views map[string][]arrow) string {
	var mg []string
	for i, a := range c.Apps {
		var eg []string
		for _, e := range a.Eps {
			eg = append(eg, fmt.Sprintf("(%d, E %s %s %s)", e.ID, gb(e.Hidden), gb(e.ID == 0), gstmts(e.Body)))
		}
		mg = append(mg, fmt.Sprintf("(%d, P %s [%s])", i, gb(a.Human), strings.Join(eg, ";")))
	}
	var ex []int
	for x := range c.excl() {
		ex = append(ex, x)
	}
	sort.Ints(ex)
	obs := "None"
	if !o.Panic {
		var ds []string
		for _, d := range o.Deps {
			ds = append(ds, fmt.Sprintf("(%d,%d,%d,%d)", d[0], d[1], d[2], d[3]))
		}
		obs = fmt.Sprintf("(Some ([%s], %s))", strings.Join(ds, ";"), gids(o.Final))
	}
	var vs []string
	for _, v := range []string{"plain", "clustered"} {
		ar, ok := views[v]
		if !ok {
			continue
		}
		var as []string
		for _, a := range ar {
			as = append(as, fmt.Sprintf("(%d,%d,%s)", a.a, a.b, gb(a.indirect)))
		}
		vs = append(vs, fmt.Sprintf("(%s, [%s])", gb(c.Indirect != "none"), strings.Join(as, ";")))
	}
	return fmt.Sprintf("([%s], (%s, %s, %s), %s, [%s])", strings.Join(mg, ";"), gids(c.Listed), gids(ex), gids(c.Pass),
		obs, strings.Join(vs, ";"))
}

// ---------------------------------------------------------------- main

func main() {
	if len(os.Args) > 1 && os.Args[1] == "-child" {
		childMain()
		return
	}
	ctx := common.Setup("C14")
	defer ctx.Finish()
	ctx.Res.Rule = "each case = random model (2-8 apps, 1-3 endpoints each plus sometimes the collector endpoint, calls nested up to 3 deep in if/loop/for/group/alt blocks, hidden endpoints, human apps, sometimes an undefined target app or endpoint, plain or namespaced names) x a project endpoint listing a random subset (sometimes with excluded / human / undefined / repeated entries) x exclude sets (CLI and attribute) x pass-through sets; an eighth of the cases each force: an excluded caller of a listed app (x2), a pass-through cycle of length 1-4 reachable from a listed app (x2), an acyclic pass-through chain, odd listings; the thorough tier adds the bounded-exhaustive scope of all call graphs over 3 apps x 1 endpoint x pass-through subsets x one exclude (4096 cases); a case whose seed pass would visit more than 3000 call statements loses pass-through apps until it does not; every case is rendered as plain, clustered and EPA diagram; distinct = distinct case term; non-trivial = the real builder returns at least one dependency"
	if ctx.Replay != "" {
		var rp replay
		if err := common.LoadReplay(ctx.Replay, &rp); err != nil {
			fmt.Fprintln(os.Stderr, err)
			os.Exit(3)
		}
		o := observeChild(&rp.Case)
		stopChild()
		judge(ctx, &rp.Case, o)
		ctx.Count("replay", true)
		fmt.Printf("replay: shape=%s listed=%v exclude=%v passthrough=%v died=%q panic=%v deps=%d failures=%d\n", rp.Case.Shape,
			rp.Case.names(rp.Case.Listed), append(rp.Case.names(rp.Case.ExclCLI), rp.Case.names(rp.Case.ExclAttr)...), rp.Case.names(rp.Case.Pass), o.Died, o.Panic, len(o.Deps), len(ctx.Res.Failures))
		for _, f := range ctx.Res.Failures {
			fmt.Println("  " + f.Key + ": " + f.What)
		}
		return
	}
	header := `From Coq Require Import List NArith Bool. Import ListNotations.
Require Import Verif.Ints.IntsModel Verif.Ints.Run Verif.Base.Harness.
Local Open Scope N_scope.
Notation C := Call. Notation O := Other. Notation B := Block. Notation A := Alt.
Definition E h c b := {| hidden := h; coll := c; body := b |}. Definition P h e := {| human := h; eps := e |}.
Definition T := true. Definition F := false.`
	footer := `Definition M := Eval vm_compute in mismatches c14_ok cases. Print M.`
	cs := ctx.NewCases("C14", header, "c14_case", footer, 150)

	n := 900
	if ctx.Thorough() {
		n = 14000
	}
	if ctx.Search {
		n *= 3
	}
	one := func(c *Case) {
		cyc := c.passCyclic()
		var o *Obs
		if cyc {
			o = observeChild(c)
			ctx.Hist("run:child-process")
		} else {
			o = observe(c)
			ctx.Hist("run:in-process")
		}
		views := judge(ctx, c, o)
		ctx.Hist("shape:" + c.Shape)
		if cyc {
			ctx.Hist("passthrough:apps-can-reach-themselves")
		}
		if _, cuts, repeats := c.walkStats(1 << 20); cuts > 0 || repeats > 0 {
			if cuts > 0 {
				ctx.Hist("passthrough:walk-re-enters-an-endpoint-being-expanded")
			}
			if repeats > 0 {
				ctx.Hist("passthrough:endpoint-expanded-more-than-once")
			}
		}
		if o.Died != "" {
			ctx.Count(fmt.Sprint(ctx.Res.Evaluations), false)
			return
		}
		term := c.gallina(o, views)
		ctx.Count(term, len(o.Deps) > 0)
		if o.Panic {
			ctx.Hist("outcome:panic")
		} else {
			ctx.Hist("outcome:ok")
			ctx.HistN("deps", len(o.Deps))
			for v := range views {
				ctx.Hist("view-compared:" + v)
			}
			if !strings.HasPrefix(o.Views["epa"], "PANIC") {
				ctx.Hist("view-judged:epa")
			}
		}
		cs.Add(term, replay{Case: *c})
		if len(o.Deps) > 2 {
			ctx.Sample(map[string]interface{}{"shape": c.Shape, "apps": len(c.Apps), "listed": c.names(c.Listed), "exclude": append(c.names(c.ExclCLI), c.names(c.ExclAttr)...),
				"passthrough": c.names(c.Pass), "deps": len(o.Deps), "final_apps": len(o.Final), "plain_arrows": len(views["plain"])})
		}
	}
	one(cycleCase()) // the confirmed defects first
	one(exclListedCase())
	for i := 0; i < n; i++ {
		one(genCase(ctx.Rng, ctx.Search && i%3 == 0))
	}
	if ctx.Thorough() {
		k := exhaustive3(one)
		ctx.Res.Extra["exhaustive_subscope"] = fmt.Sprintf("%d cases: all call graphs over 3 apps x 1 endpoint (each endpoint calls any subset of the 3), A00 listed, every pass-through subset of {A01,A02}, A02 excluded or not", k)
	}
	cs.Close()
	stopChild()
}
