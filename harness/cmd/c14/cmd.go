// C14, stream C14X: the COMMAND. The real `sysl ints` binary (VERIF_SYSL_BIN) is run end to end on a generated module
// (handed over as a compiled protobuf on stdin, so every generated feature reaches it: undefined targets, namespaces,
// mixins, pubsub, restrict_by) with the flags a user gives: -o (a template from a list that uses every feature of
// cmdutils.FormatParser: variables, attributes, conditionals, comparisons, a regular expression, %% - and four malformed
// ones), -j (the project; absent or naming no application in a few cases), --filter (also two that do not compile),
// -e (absent = the default "exclude the project", or given), --clustered, --epa, --plantuml (a server the harness
// runs itself, or a closed port). The project application is an ordinary application of the model that other
// applications call and that views may list, so the default exclude list is observable. What comes back: the exit
// status, stderr, and every file the command wrote, decoded to the diagram text whatever the mode (.puml/.uml/.plantuml
// text, .link / .html URL, .png / .svg request received by the harness's server).
//
// Oracle (no model): no Go panic and an answer within 60 s when the options are well-formed; exit status 0 iff every
// output name of an endpoint that passes --filter can be written (known extension, existing directory, server up
// for pictures); with status 0 exactly the output names of the passing endpoints exist as files; every file that is
// the output name of ONE passing endpoint is judged by the single-view oracles (soundness / completeness of that
// endpoint's view under the effective excludes). The template expansion is the harness's own (one Go closure per
// template), so is the regexp match.
// Coq: Ints/CmdRun.v c14x_ok runs CmdModel.gen_integrations on the STRINGS (template, names, long names, attribute
// values; regexps through the table of what Go's regexp answered) and compares panic kind / status / files and every
// diagram line by line.
package main

import (
	"bytes"
	"compress/zlib"
	"fmt"
	"io"
	"net"
	"net/http"
	"net/http/httptest"
	"os"
	"os/exec"
	"path/filepath"
	"regexp"
	"sort"
	"strings"
	"sync"
	"time"

	"google.golang.org/protobuf/proto"

	"verifharness/common"
)

type XCase struct {
	Base      Case     `json:"base"` // apps (the last one is the project application), indirect colour; ExclCLI = the EFFECTIVE command-level excludes
	Views     []GView  `json:"views"`
	Long      []string `json:"long"`       // long name of each project endpoint ("" = none)
	Output    string   `json:"output"`     // -o
	Filter    string   `json:"filter"`     // --filter ("" = flag absent)
	ProjFlag  string   `json:"proj"`       // -j ("" = flag absent)
	ExclGiven []int    `json:"excl_given"` // -e, app ids (empty = flag absent)
	Clustered bool     `json:"clustered,omitempty"`
	Epa       bool     `json:"epa,omitempty"`
	ServerUp  bool     `json:"server_up"`
	Appfmt    string   `json:"appfmt,omitempty"`     // attributes of the project application: format strings the views read
	Epfmt     string   `json:"epfmt,omitempty"`
	TitleAttr string   `json:"title_attr,omitempty"`
	Title     string   `json:"title,omitempty"`      // -t
	Source    string   `json:"source,omitempty"` // literal cases only: the same model as Sysl source text, given to the command as a file instead of the compiled model on stdin
}

func (x *XCase) projID() int { return len(x.Base.Apps) - 1 }
func (x *XCase) gen() *GenCase {
	return &GenCase{Base: x.Base, Views: x.Views, Output: x.Output, Filter: x.Filter, CliClustered: x.Clustered, CliEpa: x.Epa}
}

// ---- the harness's own reading of the templates
type xtmpl struct {
	s   string
	f   func(proj, ep, long string, at map[string]string) string // nil: malformed, FormatParser panics
	rxs []string                                                  // regular expressions inside, with the attribute they test
	bad string                                                    // panic message expected
}

func orElse(a, b string) string {
	if a != "" {
		return a
	}
	return b
}

var xtmpls = []xtmpl{
	{s: "%(epname).puml", f: func(p, e, l string, a map[string]string) string { return e + ".puml" }},
	{s: "%(epname).png", f: func(p, e, l string, a map[string]string) string { return e + ".png" }},
	{s: "%(appname)-%(epname).uml", f: func(p, e, l string, a map[string]string) string { return p + "-" + e + ".uml" }},
	{s: "all.puml", f: func(p, e, l string, a map[string]string) string { return "all.puml" }},
	{s: "%(@out)", f: func(p, e, l string, a map[string]string) string { return a["out"] }},
	{s: "%(@out)", f: func(p, e, l string, a map[string]string) string { return a["out"] }},
	{s: "%(@view?%(@view)|plain)-%(epname).plantuml", f: func(p, e, l string, a map[string]string) string { return orElse(a["view"], "plain") + "-" + e + ".plantuml" }},
	{s: "%(@view=='epa'?e|c)_%(epname).puml", f: func(p, e, l string, a map[string]string) string {
		if a["view"] == "epa" {
			return "e_" + e + ".puml"
		}
		return "c_" + e + ".puml"
	}},
	{s: "%(@view!='system'?n|s)%(epname).svg", f: func(p, e, l string, a map[string]string) string {
		if a["view"] != "system" {
			return "n" + e + ".svg"
		}
		return "s" + e + ".svg"
	}},
	{s: "%(eplongname?%(eplongname)|%(epname)).link", f: func(p, e, l string, a map[string]string) string { return orElse(l, e) + ".link" }},
	{s: "dir.d/%(epname).html", f: func(p, e, l string, a map[string]string) string { return "dir.d/" + e + ".html" }},
	{s: "100%%-%(epname).puml", f: func(p, e, l string, a map[string]string) string { return "100%-" + e + ".puml" }},
	{s: "%(@view~/^c/?cl|other)_%(epname).puml", rxs: []string{"^c"}, f: func(p, e, l string, a map[string]string) string {
		if strings.HasPrefix(a["view"], "c") {
			return "cl_" + e + ".puml"
		}
		return "other_" + e + ".puml"
	}},
	{s: "%(epname)%(@restrict_by?.%(@restrict_by)).puml", f: func(p, e, l string, a map[string]string) string {
		if a["restrict_by"] != "" {
			return e + "." + a["restrict_by"] + ".puml"
		}
		return e + ".puml"
	}},
	{s: "%(epname", bad: "unclosed expansion"},
	{s: "%(", bad: "missing variable reference"},
	{s: "%(epname=='x).puml", bad: "missing conditional value"},
	{s: "%(@view~/(/?a|b).puml", rxs: []string{"("}, bad: "regexp: Compile"},
}

var xfilters = []string{"", "", "", "", "V1", "V[12]", "^[xy]", "puml$", "V[^1]", "nothing-matches-this", `^dir\.d/`, "(", "[a"}
var xouts = []string{"x.puml", "x.puml", "y.uml", "z.plantuml", "w.link", "q.html", "p.png", "bad.txt", "noext", "dir.d/x.puml", "missing.d/x.puml", "a.b/c", ""}

func xTemplate(s string) *xtmpl {
	for i := range xtmpls {
		if xtmpls[i].s == s {
			return &xtmpls[i]
		}
	}
	return nil
}

// ---- the strings FmtOutput sees for endpoint i
func (x *XCase) epAttrs(i int) map[string]string {
	v := x.Views[i]
	at := map[string]string{}
	if len(v.ExclAttr) > 0 {
		at["exclude"] = "" // an array: GetS() is ""
	}
	if len(v.Pass) > 0 {
		at["passthrough"] = ""
	}
	if v.Kind != "" {
		at["view"] = v.Kind
	}
	if v.Restrict {
		at["restrict_by"] = "rb"
	}
	if v.OutAttr != "" {
		at["out"] = v.OutAttr
	}
	return at
}
func (x *XCase) outName(i int) (string, bool) {
	t := xTemplate(x.Output)
	if t == nil || t.f == nil {
		return "", false
	}
	return t.f(x.ProjFlag, viewName(i), x.Long[i], x.epAttrs(i)), true
}
func compiles(p string) bool { _, err := regexp.Compile(p); return err == nil }
func (x *XCase) wellFormed() bool {
	t := xTemplate(x.Output)
	return t != nil && t.f != nil && compiles(x.Filter)
}
func (x *XCase) hasProject() bool { return x.ProjFlag == project }

// the format strings the views will use (what the command tries up front since 8952ebf), by the harness's own list of
// the malformed ones it generates
var xBadFormats = []string{"%(", "%(appname", "%(a=='", "%(a~/(/)"}

func badFormat(f string) bool {
	for _, b := range xBadFormats {
		if f == b {
			return true
		}
	}
	return false
}
func (x *XCase) formatsOK() bool {
	title := x.Title
	if x.hasProject() && x.TitleAttr != "" {
		title = x.TitleAttr
	}
	if x.hasProject() && (badFormat(x.Appfmt) || badFormat(x.Epfmt)) {
		return false
	}
	return !badFormat(title)
}
func (x *XCase) passes(i int) bool {
	n, _ := x.outName(i)
	return x.Filter == "" || regexp.MustCompile(x.Filter).MatchString(n)
}

// can OutputPlantuml write this name, by what the command's error message and the file system say
func (x *XCase) writable(name string) bool {
	base := name
	if k := strings.LastIndex(name, "/"); k >= 0 {
		base = name[k+1:]
		if name[:k] != "dir.d" {
			return false
		}
	}
	k := strings.LastIndex(base, ".")
	if k < 0 {
		return false
	}
	switch base[k+1:] {
	case "png", "svg":
		return x.ServerUp
	case "uml", "puml", "plantuml", "html", "link":
		return true
	}
	return false
}

// ---- generation
func remapStmts(ss []Stmt, from, to int) {
	for i := range ss {
		if ss[i].K == kCall && ss[i].A == from {
			ss[i].A = to
		}
		remapStmts(ss[i].Body, from, to)
		for _, a := range ss[i].Alts {
			remapStmts(a, from, to)
		}
	}
}
func remapIDs(xs []int, from, to int) {
	for i := range xs {
		if xs[i] == from {
			xs[i] = to
		}
	}
}

func genXCase(r *common.Rng) *XCase {
	gc := genGenCase(r)
	b := &gc.Base
	n := len(b.Apps)
	// the project application becomes app n; the undefined app (if any) moves to n+1
	for i := range b.Apps {
		for j := range b.Apps[i].Eps {
			remapStmts(b.Apps[i].Eps[j].Body, n, n+1)
		}
		remapIDs(b.Apps[i].Mixins, n, n+1)
	}
	remapIDs(b.ExclCLI, n, n+1)
	for i := range gc.Views {
		remapIDs(gc.Views[i].Listed, n, n+1)
		remapIDs(gc.Views[i].ExclAttr, n, n+1)
		remapIDs(gc.Views[i].Pass, n, n+1)
	}
	b.Apps = append(b.Apps, App{Name: project})
	// somebody calls the project
	for k := 1 + r.Intn(2); k > 0; k-- {
		a := r.Intn(n)
		if len(b.Apps[a].Eps) == 0 {
			continue
		}
		e := &b.Apps[a].Eps[r.Intn(len(b.Apps[a].Eps))]
		call := Stmt{K: kCall, A: n, E: 1 + r.Intn(2)}
		if r.Bool() {
			call = Stmt{K: kCond, Body: []Stmt{call}}
		}
		e.Body = append(e.Body, call)
	}
	x := &XCase{Views: gc.Views, Clustered: gc.CliClustered, Epa: gc.CliEpa, ProjFlag: project, ServerUp: r.Chance(5, 6)}
	for i := range x.Views {
		v := &x.Views[i]
		v.OutAttr = xouts[r.Intn(len(xouts))]
		if r.Chance(1, 6) {
			v.Listed = add(v.Listed, n) // the project lists itself
		}
		if r.Chance(1, 10) {
			v.ExclAttr = add(v.ExclAttr, n)
		}
		long := ""
		if r.Chance(1, 3) {
			long = fmt.Sprintf("Long name of %s", viewName(i))
		}
		x.Long = append(x.Long, long)
	}
	nGood := 0
	for _, t := range xtmpls {
		if t.f != nil {
			nGood++
		}
	}
	x.Output = xtmpls[r.Intn(nGood)].s // the well-formed ones come first in the table
	switch {
	case r.Chance(1, 12):
		x.Output = xtmpls[nGood+r.Intn(len(xtmpls)-nGood)].s
	case r.Chance(1, 4):
		x.Output = "%(@out)"
	case r.Chance(1, 3):
		x.Output = xtmpls[r.Intn(3)].s // the everyday templates more often
	}
	x.Filter = ""
	if r.Bool() {
		x.Filter = xfilters[4+r.Intn(len(xfilters)-6)]
	}
	if r.Chance(1, 15) {
		x.Filter = xfilters[len(xfilters)-2+r.Intn(2)] // does not compile
	}
	switch r.Intn(6) {
	case 0, 1, 2: // no -e: the default
	case 3:
		x.ExclGiven = append([]int{}, b.ExclCLI...)
	case 4:
		x.ExclGiven = add(append([]int{}, b.ExclCLI...), n)
	default:
		x.ExclGiven = []int{r.Intn(n)}
	}
	// format strings: mostly absent, some well-formed (labels of apps stay the names), 1/10 of the cases one malformed
	x.Appfmt = []string{"", "", "", "%(appname)"}[r.Intn(4)]
	x.Epfmt = []string{"", "", "%(@nosuchattr)", "%(@nosuchattr?x)"}[r.Intn(4)] // well-formed and empty: a non-empty label is glued to the alias on arrows inside one app
	x.TitleAttr = []string{"", "", "", "Project view %(epname)"}[r.Intn(4)]
	x.Title = []string{"", "", "Title %(eplongname?%(eplongname)|%(epname))"}[r.Intn(3)]
	if r.Chance(1, 10) {
		bad := xBadFormats[r.Intn(len(xBadFormats))]
		switch r.Intn(4) {
		case 0:
			x.Appfmt = bad
		case 1:
			x.Epfmt = bad
		case 2:
			x.TitleAttr = bad
		default:
			x.Title = bad
		}
	}
	switch r.Intn(16) {
	case 0:
		x.ProjFlag = "Nope"
	case 1:
		x.ProjFlag = ""
	}
	b.Shape = "command"
	x.Base = *b
	x.Base.ExclCLI = x.effExclude()
	// a listing / exclude change can make a pass-through set cyclic or expensive again
	for i := range x.Views {
		ci := x.gen().viewCase(i)
		if ci.passCyclic() {
			x.Views[i].Pass = nil
		}
		for len(x.Views[i].Pass) > 0 && x.gen().viewCase(i).walkCost(3000) > 3000 {
			x.Views[i].Pass = x.Views[i].Pass[:len(x.Views[i].Pass)-1]
		}
	}
	return x
}

// what the command does with -e / -j, restated: without -e the project (if one is named) is excluded
func (x *XCase) effExclude() []int {
	if len(x.ExclGiven) > 0 {
		return append([]int{}, x.ExclGiven...)
	}
	if x.ProjFlag == project {
		return []int{x.projID()}
	}
	return nil
}

// ---- the run
type xServer struct {
	up   *httptest.Server
	down string
}

func startXServer() *xServer {
	s := &xServer{}
	s.up = httptest.NewServer(http.HandlerFunc(func(w http.ResponseWriter, r *http.Request) {
		io.WriteString(w, "PICTURE "+r.URL.Path)
	}))
	l, err := net.Listen("tcp", "127.0.0.1:0")
	if err == nil {
		s.down = "http://" + l.Addr().String() + "/plantuml"
		l.Close()
	} else {
		s.down = "http://127.0.0.1:1/plantuml"
	}
	return s
}

type xResult struct {
	status  int
	stderr  string
	timeout bool
	files   map[string]string
}

func (x *XCase) args(srv *xServer) []string {
	a := []string{"ints", "-o", x.Output}
	if x.ProjFlag != "" {
		a = append(a, "-j", x.ProjFlag)
	}
	if x.Filter != "" {
		a = append(a, "--filter", x.Filter)
	}
	for _, e := range x.ExclGiven {
		a = append(a, "-e", x.Base.an(e))
	}
	if x.Title != "" {
		a = append(a, "-t", x.Title)
	}
	if x.Clustered {
		a = append(a, "--clustered")
	}
	if x.Epa {
		a = append(a, "--epa")
	}
	if x.ServerUp {
		a = append(a, "--plantuml", srv.up.URL+"/plantuml")
	} else {
		a = append(a, "--plantuml", srv.down)
	}
	return a
}

func (x *XCase) module() []byte {
	m := x.gen().module()
	for i := range x.Views {
		m.Apps[project].Endpoints[viewName(i)].LongName = x.Long[i]
	}
	for k, v := range map[string]string{"appfmt": x.Appfmt, "epfmt": x.Epfmt, "title": x.TitleAttr} {
		if v != "" {
			m.Apps[project].Attrs[k] = sattr(v)
		}
	}
	b, err := proto.Marshal(m)
	if err != nil {
		panic(err)
	}
	return b
}

func runX(bin, root string, k int, x *XCase, srv *xServer) *xResult {
	dir := filepath.Join(root, fmt.Sprintf("r%d", k))
	os.MkdirAll(filepath.Join(dir, "dir.d"), 0o755)
	args := x.args(srv)
	if x.Source != "" {
		os.WriteFile(filepath.Join(dir, "m.sysl"), []byte(x.Source), 0o644)
		args = append(args, "m.sysl")
	}
	cmd := exec.Command(bin, args...)
	cmd.Dir = dir
	if x.Source == "" {
		cmd.Stdin = bytes.NewReader(x.module())
	}
	cmd.Env = append(os.Environ(), "SYSL_PLANTUML=", "HOME="+dir)
	var eb bytes.Buffer
	cmd.Stderr = &eb
	cmd.Stdout = &eb
	res := &xResult{files: map[string]string{}}
	if err := cmd.Start(); err != nil {
		res.status, res.stderr = -1, err.Error()
		return res
	}
	done := make(chan error, 1)
	go func() { done <- cmd.Wait() }()
	select {
	case err := <-done:
		if ee, ok := err.(*exec.ExitError); ok {
			res.status = ee.ExitCode()
		} else if err != nil {
			res.status = -1
		}
	case <-time.After(60 * time.Second):
		cmd.Process.Kill()
		<-done
		res.timeout = true
	}
	res.stderr = eb.String()
	filepath.Walk(dir, func(p string, info os.FileInfo, err error) error {
		if err == nil && !info.IsDir() {
			rel, _ := filepath.Rel(dir, p)
			if rel == "m.sysl" {
				return nil
			}
			b, _ := os.ReadFile(p)
			res.files[filepath.ToSlash(rel)] = string(b)
		}
		return nil
	})
	os.RemoveAll(dir)
	return res
}

// ---- decoding what was written back to the diagram text
const plantAlphabet = "0123456789ABCDEFGHIJKLMNOPQRSTUVWXYZabcdefghijklmnopqrstuvwxyz-_"

func plantDecode(s string) (string, bool) {
	var raw []byte
	for i := 0; i+3 < len(s); i += 4 {
		var c [4]int
		for j := 0; j < 4; j++ {
			c[j] = strings.IndexByte(plantAlphabet, s[i+j])
			if c[j] < 0 {
				return "", false
			}
		}
		raw = append(raw, byte(c[0]<<2|c[1]>>4), byte((c[1]&0xF)<<4|c[2]>>2), byte((c[2]&0x3)<<6|c[3]))
	}
	zr, err := zlib.NewReader(bytes.NewReader(raw))
	if err != nil {
		return "", false
	}
	out, err := io.ReadAll(zr)
	if err != nil && len(out) == 0 {
		return "", false
	}
	return string(out), true
}

func diagramOf(name, content string) (string, bool) {
	if !strings.HasSuffix(content, "\n") {
		return "", false
	}
	content = strings.TrimSuffix(content, "\n")
	ext := name[strings.LastIndex(name, ".")+1:]
	tail := func(s, sep string) (string, bool) {
		k := strings.LastIndex(s, sep)
		if k < 0 {
			return "", false
		}
		return s[k+len(sep):], true
	}
	switch ext {
	case "puml", "uml", "plantuml":
		return content, true
	case "link":
		if e, ok := tail(content, "/plantuml/svg/"); ok {
			return plantDecode(e)
		}
	case "html":
		if !strings.HasPrefix(content, `<img src="`) || !strings.HasSuffix(content, `" alt="plantuml">`) {
			return "", false
		}
		if e, ok := tail(strings.TrimSuffix(content, `" alt="plantuml">`), "/plantuml/svg/"); ok {
			return plantDecode(e)
		}
	case "png", "svg":
		if !strings.HasPrefix(content, "PICTURE /plantuml/"+ext+"/~1") {
			return "", false
		}
		return plantDecode(strings.TrimPrefix(content, "PICTURE /plantuml/"+ext+"/~1"))
	}
	return "", false
}

// ---- Gallina
func gstr(s string) string { return "\"" + strings.ReplaceAll(s, "\"", "\"\"") + "\"" }
func gattrs(at map[string]string) string {
	var ks []string
	for k := range at {
		ks = append(ks, k)
	}
	sort.Strings(ks)
	var p []string
	for _, k := range ks {
		p = append(p, fmt.Sprintf("(%s,%s)", gstr(k), gstr(at[k])))
	}
	return "[" + strings.Join(p, ";") + "]"
}

func xPanicKind(x *XCase, stderr string) (int, string) {
	switch {
	case strings.Contains(stderr, "panic: missing variable reference"):
		return 0, "format"
	case strings.Contains(stderr, "panic: missing conditional value"):
		return 1, "format"
	case strings.Contains(stderr, "panic: unclosed expansion"):
		return 2, "format"
	case strings.Contains(stderr, "panic: regexp: Compile(") && strings.Contains(stderr, "FormatParser"): // who called MustCompile: the stack says
		return 3, "format"
	case strings.Contains(stderr, "panic: regexp: Compile("):
		return 4, "filter"
	}
	return -1, ""
}

func oneX(ctx *common.Ctx, cs *common.Cases, x *XCase, res *xResult) {
	rp := replay{Stream: "C14X", Cmd: x}
	gc := x.gen()
	desc := fmt.Sprintf("sysl %s (project with %d endpoints)", strings.Join(x.args(&xServer{up: &httptest.Server{URL: "http://server"}, down: "http://closed-port/plantuml"}), " "), len(x.Views))
	ctx.Hist("command:output=" + x.Output)
	if res.timeout {
		ctx.Fail("cmd:timeout", desc+" gave no answer within 60 s", rp)
		ctx.Count(fmt.Sprint(ctx.Res.Evaluations), false)
		return
	}
	panicked := strings.Contains(res.stderr, "panic:") || strings.Contains(res.stderr, "goroutine ") || strings.Contains(res.stderr, "fatal error:")
	nEps := 0
	if x.hasProject() {
		nEps = len(x.Views)
	}
	obs := ""
	if panicked {
		kind, _ := xPanicKind(x, res.stderr)
		if x.wellFormed() || kind < 0 || !x.formatsOK() {
			ctx.Fail("cmd:panic", desc+" died with a Go panic: "+strings.ReplaceAll(res.stderr[:min(len(res.stderr), 300)], "\n", " "), rp)
		} else {
			ctx.Hist("beyond-property:panic-on-malformed-option")
		}
		if kind < 0 {
			ctx.Count(fmt.Sprint(ctx.Res.Evaluations), false)
			return
		}
		obs = fmt.Sprintf("(XP %d)", kind)
		ctx.Hist("command:outcome=panic")
	} else {
		// ---- who owns which name
		owners := map[string][]int{}
		allGood := true
		if !x.formatsOK() {
			// a malformed format string of the project application / of -t: the command's error, nothing generated
			ctx.Hist("command:malformed-project-format")
			if res.status == 0 {
				ctx.Fail("cmd:malformed-format-accepted", desc+" exits with status 0 although a format string the views use (appfmt / epfmt / title) cannot be parsed", rp)
			}
			for name := range res.files {
				ctx.Fail("cmd:unexpected-file", fmt.Sprintf("%s wrote %q although it reports a malformed format string", desc, name), rp)
			}
		} else if x.wellFormed() {
			for i := 0; i < nEps; i++ {
				if x.passes(i) {
					n, _ := x.outName(i)
					owners[n] = append(owners[n], i)
					if !x.writable(n) {
						allGood = false
					}
				} else {
					ctx.Hist("command:endpoint-filtered-out")
				}
			}
			if res.status == 0 && !allGood {
				ctx.Fail("cmd:failure-silent", desc+" exits with status 0 although a view cannot be written under its output name", rp)
			}
			if res.status != 0 && allGood {
				ctx.Fail("cmd:spurious-error", fmt.Sprintf("%s exits with status %d although every view can be written: %s", desc, res.status, strings.ReplaceAll(res.stderr[:min(len(res.stderr), 200)], "\n", " ")), rp)
			}
			for name, is := range owners {
				if _, ok := res.files[name]; !ok && res.status == 0 && x.writable(name) {
					ctx.Fail("cmd:missing-file", fmt.Sprintf("%s: no file %q although endpoint %s passes the filter and has that output name", desc, name, viewName(is[0])), rp)
				}
				if len(is) > 1 {
					ctx.Hist("command:endpoints-sharing-an-output-name")
				}
			}
			for name := range res.files {
				if len(owners[name]) == 0 {
					ctx.Fail("cmd:unexpected-file", fmt.Sprintf("%s wrote %q, which is the output name of no endpoint that passes the filter", desc, name), rp)
				} else if !x.writable(name) {
					ctx.Fail("cmd:unexpected-file", fmt.Sprintf("%s wrote %q, a name it should have refused", desc, name), rp)
				}
			}
			if !allGood {
				ctx.Hist("command:a-view-cannot-be-written")
				for name := range owners {
					if _, ok := res.files[name]; !ok && x.writable(name) {
						ctx.Hist("beyond-property:good-view-not-written-after-another-failed")
						break
					}
				}
			}
		} else if res.status == 0 && nEps > 0 {
			ctx.Hist("beyond-property:malformed-option-accepted")
		}
		// ---- the files
		lt := gc.Base.labelTable()
		var names []string
		for n := range res.files {
			names = append(names, n)
		}
		sort.Strings(names)
		var fs []string
		for _, n := range names {
			entry := "None"
			txt, ok := diagramOf(n, res.files[n])
			if !ok {
				ctx.Fail("cmd:file-not-a-diagram", fmt.Sprintf("%s: the content of %q is not the diagram in the form its extension asks for", desc, n), rp)
			} else {
				ctx.Hist("command:file-mode=" + n[strings.LastIndex(n, ".")+1:])
				if strings.Contains(txt, "skinparam state {") {
					if ev, bad := gc.Base.parseEPAEvents(txt); bad == "" {
						entry = "(Some [" + strings.Join(ev, ";") + "])"
					} else {
						ctx.Fail("view:epa:unparsed", fmt.Sprintf("file %q: %s", n, bad), rp)
					}
				} else if d, bad := parseCompDiagram(txt, lt); bad == "" {
					entry = "(Some [" + strings.Join(d.events, ";") + "])"
				} else {
					ctx.Fail("view:component:unparsed", fmt.Sprintf("file %q: %s", n, bad), rp)
				}
				if is := owners[n]; len(is) == 1 {
					i := is[0]
					ci := gc.viewCase(i)
					run := gc.run(i)
					bo := observeWith(ci, false)
					before := len(ctx.Res.Failures)
					judge(ctx, ci, bo)
					if !bo.Panic {
						if run.epa() {
							judgeEPA(ctx, ci, bo.Deps, txt, "epa")
						} else if d, bad := parseCompDiagram(txt, lt); bad == "" {
							judgeComp(ctx, ci, bo, run, d)
						}
					}
					for k := before; k < len(ctx.Res.Failures); k++ {
						ctx.Res.Failures[k].What = fmt.Sprintf("%s, file %q = endpoint %s (%s): %s", desc, n, viewName(i), run.name(), ctx.Res.Failures[k].What)
						ctx.Res.Failures[k].Replay = rp
					}
					ctx.Hist("command:judged:" + run.name())
				}
			}
			fs = append(fs, fmt.Sprintf("(%s, %s)", gstr(n), entry))
		}
		obs = fmt.Sprintf("(XR %s [%s])", gb(res.status == 0), strings.Join(fs, ";"))
		ctx.Hist(fmt.Sprintf("command:outcome=status-%d", min(res.status, 1)))
		ctx.HistN("command:files", len(res.files))
	}
	// ---- Gallina: module, side table, cli, endpoints as strings + views, regexp table, environment, observation
	c := &gc.Base
	var mg []string
	for i, a := range c.Apps {
		var eg []string
		for _, e := range a.Eps {
			eg = append(eg, fmt.Sprintf("(%d, E %s %s %s)", e.ID, gb(e.Hidden), gb(e.ID == 0), gstmts(e.Body)))
		}
		mg = append(mg, fmt.Sprintf("(%d, P %s [%s])", i, gb(a.Human), strings.Join(eg, ";")))
	}
	lt := c.labelTable()
	given := append([]int{}, x.ExclGiven...)
	sort.Ints(given)
	projID := 999
	if x.hasProject() {
		projID = x.projID()
	}
	cli := fmt.Sprintf("(CL %s %s %d %s %s %s %s)", gstr(x.Output), gstr(x.ProjFlag), projID, gstr(x.Filter), gids(given), gb(x.Clustered), gb(x.Epa))
	var eps []string
	kind := map[string]string{"": "VPlain", "clustered": "VClustered", "epa": "VEpa", "system": "VSystem"}
	outVals := map[string]bool{}
	attrVals := map[string]bool{"": true}
	for i := 0; i < nEps; i++ {
		v := x.Views[i]
		ex := append([]int{}, v.ExclAttr...)
		sort.Ints(ex)
		at := x.epAttrs(i)
		eps = append(eps, fmt.Sprintf("PE %s %s %s %s %s %s %s %s %s", gstr(viewName(i)), gstr(x.Long[i]), gattrs(at), gids(v.Listed), gids(ex), gids(v.Pass),
			kind[v.Kind], gb(c.Indirect != "none"), gb(v.Restrict)))
		if n, ok := x.outName(i); ok {
			outVals[n] = true
		}
		for _, val := range at {
			attrVals[val] = true
		}
	}
	// what Go's regexp says: the filter on every output name, the patterns of the template on every attribute value
	var rxt []string
	rxEntry := func(p string, vals map[string]bool) {
		re, err := regexp.Compile(p)
		if err != nil {
			rxt = append(rxt, fmt.Sprintf("(%s, None)", gstr(p)))
			return
		}
		var vs []string
		for _, val := range sortedKeys(vals) {
			vs = append(vs, fmt.Sprintf("(%s,%s)", gstr(val), gb(re.MatchString(val))))
		}
		rxt = append(rxt, fmt.Sprintf("(%s, Some [%s])", gstr(p), strings.Join(vs, ";")))
	}
	if x.Filter != "" {
		rxEntry(x.Filter, outVals)
	}
	seenRx := map[string]bool{x.Filter: x.Filter != ""}
	if t := xTemplate(x.Output); t != nil {
		for _, p := range t.rxs {
			if !seenRx[p] {
				seenRx[p] = true
				rxEntry(p, attrVals)
			}
		}
	}
	for _, f := range []string{x.Appfmt, x.Epfmt, x.TitleAttr, x.Title} {
		if f == "%(a~/(/)" && !seenRx["("] { // the one format with a regular expression inside
			seenRx["("] = true
			rxEntry("(", attrVals)
		}
	}
	var unw []string
	for n := range outVals {
		if k := strings.LastIndex(n, "/"); k >= 0 && n[:k] != "dir.d" {
			unw = append(unw, gstr(n))
		}
	}
	sort.Strings(unw)
	env := fmt.Sprintf("(EN %s [%s])", gb(x.ServerUp), strings.Join(unw, ";"))
	pf := fmt.Sprintf("(PF %s %s %s %s)", gstr(x.Appfmt), gstr(x.Epfmt), gstr(x.TitleAttr), gstr(x.Title))
	if !x.hasProject() { // no such application: the nil-safe getters read no attribute
		pf = fmt.Sprintf("(PF \"\" \"\" \"\" %s)", gstr(x.Title))
	}
	term := fmt.Sprintf("([%s], %s, %s, %s, [%s], [%s], %s, %s)", strings.Join(mg, ";"), c.gvinfo(lt), cli, pf, strings.Join(eps, ";"), strings.Join(rxt, ";"), env, obs)
	ctx.Count(term, len(res.files) > 0)
	if cs != nil {
		cs.Add(term, rp)
	}
}

func sortedKeys(m map[string]bool) []string {
	var ks []string
	for k := range m {
		ks = append(ks, k)
	}
	sort.Strings(ks)
	return ks
}

// literal cases: the everyday command line; the project calls and is called; a view that cannot be written next to one
// that can; malformed options; a project name that names nothing
func literalXCases() []*XCase {
	apps := func() []App {
		return []App{
			{Name: "A", Eps: []Ep{{ID: 1, Body: []Stmt{{K: kCall, A: 1, E: 1}, {K: kCall, A: 2, E: 1}}}}},
			{Name: "B", Eps: []Ep{{ID: 1, Body: []Stmt{{K: kCond, Body: []Stmt{{K: kCall, A: 2, E: 2}}}}}}},
			{Name: project},
		}
	}
	mk := func(output, filter string, given []int, outs ...string) *XCase {
		x := &XCase{Base: Case{Apps: apps(), Shape: "command"}, Output: output, Filter: filter, ProjFlag: project, ExclGiven: given, ServerUp: true,
			Views: []GView{{Listed: []int{0}, OutAttr: outs[0]}, {Listed: []int{0, 1}, Kind: "epa", OutAttr: outs[1]}}, Long: []string{"", "Long name"}}
		x.Base.ExclCLI = x.effExclude()
		return x
	}
	l := []*XCase{
		mk("%(epname).puml", "", nil, "x.puml", "y.puml"),
		mk("%(epname).png", "", nil, "x.puml", "y.puml"),
		mk("%(epname).puml", "", []int{1}, "x.puml", "y.puml"), // -e B: the project is no longer excluded and A's call to it is drawn
		mk("%(@out)", "", nil, "x.puml", "bad.txt"),             // one view cannot be written
		mk("%(@out)", "", nil, "missing.d/x.puml", "y.uml"),
		mk("%(@out)", "puml$", nil, "x.puml", "bad.txt"), // ... unless the filter drops it
		mk("%(epname", "", nil, "x.puml", "y.puml"),
		mk("%(epname).puml", "(", nil, "x.puml", "y.puml"),
		mk("all.puml", "", nil, "x.puml", "y.puml"),
	}
	nope := mk("%(epname).puml", "(", nil, "x.puml", "y.puml") // no endpoint: the filter is never compiled
	nope.ProjFlag = "Nope"
	nope.Base.ExclCLI = nope.effExclude()
	down := mk("%(epname).svg", "", nil, "x.puml", "y.puml")
	down.Output = "%(@view!='system'?n|s)%(epname).svg"
	down.ServerUp = false
	l = append(l, nope, down)
	// every literal case a second time from Sysl SOURCE: parser -> command instead of the compiled model on stdin
	var out []*XCase
	for _, x := range l {
		out = append(out, x)
		y := *x
		y.Source = fmt.Sprintf(literalSource, x.Views[0].OutAttr, x.Views[1].OutAttr)
		out = append(out, &y)
	}
	// format strings of the project application (tried up front since 8952ebf)
	bad1 := mk("%(epname).puml", "", nil, "x.puml", "y.puml")
	bad1.Appfmt = "%("
	bad2 := mk("%(epname", "(", nil, "x.puml", "y.puml") // everything malformed: the format error comes first
	bad2.Epfmt = "%(a~/(/)"
	bad3 := mk("%(epname).puml", "", nil, "x.puml", "y.puml") // no such project, a malformed -t: still an error
	bad3.ProjFlag = "Nope"
	bad3.Base.ExclCLI = bad3.effExclude()
	bad3.Title = "%(appname"
	bad4 := mk("%(epname).puml", "", nil, "x.puml", "y.puml") // a malformed -t that the title attribute overrides
	bad4.Title = "%(appname"
	bad4.TitleAttr = "Project view %(epname)"
	good := mk("%(epname).puml", "", nil, "x.puml", "y.puml")
	good.TitleAttr, good.Epfmt, good.Appfmt = "Project view %(epname)", "%(@nosuchattr)", "%(appname)"
	return append(out, bad1, bad2, bad3, bad4, good)
}

const literalSource = `A:
    E01:
        B <- E01
        Project <- E01

B:
    E01:
        if x:
            Project <- E02

Project:
    V1 [out="%s"]:
        A
    V2 "Long name" [view="epa", out="%s"]:
        A
        B
`

func runCommandStream(ctx *common.Ctx) {
	bin := os.Getenv("VERIF_SYSL_BIN")
	if bin == "" {
		ctx.Res.Notes = append(ctx.Res.Notes, "VERIF_SYSL_BIN not set: the command stream (C14X) was skipped")
		return
	}
	header := `From Coq Require Import String List NArith Bool. Import ListNotations.
Require Import Verif.Seq.Fmt Verif.Ints.IntsModel Verif.Ints.VModel Verif.Ints.VRun Verif.Ints.CmdModel Verif.Ints.CmdRun Verif.Base.Harness.
Local Open Scope string_scope. Local Open Scope N_scope.
Notation C := Call. Notation O := Other. Notation B := Block. Notation A := Alt.
Definition E h c b := {| hidden := h; coll := c; body := b |}. Definition P h e := {| human := h; eps := e |}.
Definition T := true. Definition F := false.
Definition NM f p s i := {| n_full := f; n_pre := p; n_short := s; n_first := i |}.
Definition VI n m a e p := {| names := n; mixins := m; app_r := a; ep_r := e; pubsub := p |}.
Definition CL o j i f x c e := {| c_output := o; c_project := j; c_proj_id := i; c_filter := f; c_exclude := x; c_clustered := c; c_epa := e |}.
Definition PE n l a li ex pt v d r := {| pe_name := n; pe_long := l; pe_attrs := a; pe_listed := li; pe_ex := ex; pe_pt := pt; pe_view := v; pe_di := d; pe_rb := r |}.
Definition EN s u := {| server_up := s; unwritable := u |}.
Definition PF a e t c := {| pf_appfmt := a; pf_epfmt := e; pf_title_attr := t; pf_title_cli := c |}.`
	footer := `Definition M := Eval vm_compute in mismatches c14x_ok cases. Print M.`
	cs := ctx.NewCases("C14X", header, "c14x_case", footer, 40)
	n := 150
	if ctx.Thorough() {
		n = 1500
	}
	if ctx.Search {
		n *= 3
	}
	xs := literalXCases()
	for i := 0; i < n; i++ {
		xs = append(xs, genXCase(ctx.Rng))
	}
	results := runAllX(bin, xs)
	for i, x := range xs {
		oneX(ctx, cs, x, results[i])
		if x.Source != "" && i > 0 { // the twin of the case before it
			a, b := results[i-1], results[i]
			// after a failing view the set of files depends on the map order: only the status is comparable then
			same := (a.status == 0) == (b.status == 0) && (a.status != 0 || len(a.files) == len(b.files))
			for n, t := range a.files {
				if u, ok := b.files[n]; (ok || a.status == 0) && u != t {
					same = false
				}
			}
			if !same {
				ctx.Fail("cmd:source-and-compiled-model-differ", fmt.Sprintf("sysl %s: from the Sysl source status %d and %d files, from the same model compiled status %d and %d files (or different contents)",
					strings.Join(x.args(&xServer{up: &httptest.Server{URL: "http://server"}, down: "http://closed-port/plantuml"}), " "), b.status, len(b.files), a.status, len(a.files)), replay{Stream: "C14X", Cmd: x})
			}
			ctx.Hist("command:from-sysl-source")
		}
	}
	cs.Close()
}

func runAllX(bin string, xs []*XCase) []*xResult {
	root, err := os.MkdirTemp("", "c14x")
	if err != nil {
		panic(err)
	}
	defer os.RemoveAll(root)
	srv := startXServer()
	defer srv.up.Close()
	results := make([]*xResult, len(xs))
	var wg sync.WaitGroup
	next := make(chan int)
	for w := 0; w < 8; w++ {
		wg.Add(1)
		go func() {
			defer wg.Done()
			for i := range next {
				results[i] = runX(bin, root, i, xs[i], srv)
			}
		}()
	}
	for i := range xs {
		next <- i
	}
	close(next)
	wg.Wait()
	return results
}
