// C14, stream C14V: every kind of diagram that GenerateView can produce (plain, clustered, system, system inside
// package boxes, EPA through the attribute or the command-line flag) on models with the input features the other
// streams do not generate: app names of different namespace depth whose last parts collide ("A03", "G0 :: A03",
// "G0 :: H0 :: A03"), Mixin2, is_pubsub endpoints, restrict_by, calls nested up to 7 blocks deep mixed with one-of.
// The PlantUML is parsed LINE BY LINE into the events of Ints/VRun.v (package boxes, component / state
// declarations with their alias numbers, arrows by alias) and compared in Coq with Ints/VModel.v; the oracle
// below judges the arrows against the statement trees without the model.
package main

import (
	"bytes"
	"fmt"
	"regexp"
	"sort"
	"strconv"
	"strings"

	"github.com/anz-bank/sysl/pkg/cmdutils"
	"github.com/anz-bank/sysl/pkg/integrationdiagram"
	"github.com/anz-bank/sysl/pkg/syslutil"
	"github.com/sirupsen/logrus"

	"verifharness/common"
)

// vStyle switches genCase to the names / nesting depth of the views stream (the other streams are unchanged)
var vStyle bool

// deepNames: 1-3 name parts; a quarter of the apps reuse the last part of an earlier app under another prefix
func deepNames(r *common.Rng, n int) []string {
	prefixes := []string{"", "", "G0", "G1", "G0 :: H0", "G0 :: H1", "G1 :: H0"}
	seen := map[string]bool{}
	var lasts []string
	out := make([]string, 0, n)
	for i := 0; i < n; i++ {
		for try := 0; ; try++ {
			last := fmt.Sprintf("A%02d", i)
			if try < 4 && len(lasts) > 0 && r.Chance(1, 4) {
				last = lasts[r.Intn(len(lasts))]
			}
			name := last
			if p := prefixes[r.Intn(len(prefixes))]; p != "" {
				name = p + " :: " + last
			}
			if !seen[name] {
				seen[name] = true
				lasts = append(lasts, last)
				out = append(out, name)
				break
			}
		}
	}
	return out
}

// decorate: what only the views read
func decorate(r *common.Rng, c *Case) {
	n := len(c.Apps)
	ntgt := n
	if c.Dangling != "" {
		ntgt = n + 1
	}
	if r.Chance(1, 3) {
		c.RestrictBy = "rb"
	}
	for i := range c.Apps {
		a := &c.Apps[i]
		if r.Chance(1, 4) {
			for k := 1 + r.Intn(2); k > 0; k-- {
				if mx := r.Intn(ntgt); mx != i {
					a.Mixins = append(a.Mixins, mx)
				}
			}
		}
		a.Restrict = r.Chance(2, 3)
		for j := range a.Eps {
			a.Eps[j].Pubsub = r.Chance(1, 6)
			a.Eps[j].Restrict = r.Chance(1, 2)
		}
	}
}

// ---------------------------------------------------------------- names and labels

type nameInfo struct {
	full, pre, short, first string
	parts                   int
}

func (c *Case) nameInfo(i int) nameInfo {
	full := c.an(i)
	p := syslutil.SplitAppNameParts(full)
	ni := nameInfo{full: full, short: p[len(p)-1], first: p[0], parts: len(p)}
	if len(p) > 1 {
		ni.pre = syslutil.JoinAppNameParts(p[:len(p)-1]...)
	}
	return ni
}

// nIDs: app ids that have a name (the undefined app included when the case names one)
func (c *Case) nIDs() int {
	if c.Dangling != "" {
		return len(c.Apps) + 1
	}
	return len(c.Apps)
}

// labelTable: every string a component / package can be labelled with, id = rank in sort.Strings order
func (c *Case) labelTable() map[string]int {
	set := map[string]bool{}
	for i := 0; i < c.nIDs(); i++ {
		ni := c.nameInfo(i)
		set[ni.full], set[ni.short], set[ni.first] = true, true, true
		if ni.parts > 1 {
			set[ni.pre] = true
		}
	}
	var all []string
	for s := range set {
		all = append(all, s)
	}
	sort.Strings(all)
	ids := map[string]int{}
	for i, s := range all {
		ids[s] = i
	}
	return ids
}

func (c *Case) gvinfo(lt map[string]int) string {
	var ns, mx, ar, er, ps []string
	for i := 0; i < c.nIDs(); i++ {
		ni := c.nameInfo(i)
		pre := "None"
		if ni.parts > 1 {
			pre = fmt.Sprintf("(Some %d)", lt[ni.pre])
		}
		ns = append(ns, fmt.Sprintf("(%d, NM %d %s %d %d)", i, lt[ni.full], pre, lt[ni.short], lt[ni.first]))
	}
	for i, a := range c.Apps {
		if len(a.Mixins) > 0 {
			mx = append(mx, fmt.Sprintf("(%d, %s)", i, gids(a.Mixins)))
		}
		if a.Restrict && c.RestrictBy != "" {
			ar = append(ar, fmt.Sprint(i))
		}
		for _, e := range a.Eps {
			if e.Restrict && c.RestrictBy != "" {
				er = append(er, fmt.Sprintf("(%d,%d)", i, e.ID))
			}
			if e.Pubsub {
				ps = append(ps, fmt.Sprintf("(%d,%d)", i, e.ID))
			}
		}
	}
	return fmt.Sprintf("(VI [%s] [%s] [%s] [%s] [%s])", strings.Join(ns, ";"), strings.Join(mx, ";"), strings.Join(ar, ";"), strings.Join(er, ";"), strings.Join(ps, ";"))
}

// ---------------------------------------------------------------- running one view

type vRun struct {
	CliClustered bool   `json:"cli_clustered,omitempty"`
	CliEpa       bool   `json:"cli_epa,omitempty"`
	AttrView     string `json:"attr_view,omitempty"`
}

func (v vRun) epa() bool       { return v.CliEpa || v.AttrView == "epa" }
func (v vRun) clustered() bool { return v.CliClustered || v.AttrView == "clustered" }
func (v vRun) system() bool    { return v.AttrView == "system" }
func (v vRun) name() string {
	switch {
	case v.epa():
		return "epa"
	case v.system() && v.clustered():
		return "system-clustered"
	case v.system():
		return "system"
	case v.clustered():
		return "clustered"
	}
	return "plain"
}
func (v vRun) String() string {
	return fmt.Sprintf("%s(view=%q --clustered=%v --epa=%v)", v.name(), v.AttrView, v.CliClustered, v.CliEpa)
}

func renderView(c *Case, run vRun) (txt string) {
	defer func() {
		if r := recover(); r != nil {
			txt = "PANIC: " + fmt.Sprint(r)
		}
	}()
	c2 := *c
	c2.AttrView = run.AttrView
	m, _ := c2.module()
	logger := logrus.New()
	logger.SetOutput(new(bytes.Buffer))
	p := &cmdutils.CmdContextParamIntgen{Title: "", Output: "%(epname).png", Project: project,
		Exclude: c.names(c.ExclCLI), Clustered: run.CliClustered, EPA: run.CliEpa}
	r, err := integrationdiagram.GenerateIntegrations(p, m, logger)
	if err != nil {
		return "PANIC: error " + err.Error()
	}
	if len(r) != 1 {
		return fmt.Sprintf("PANIC: %d diagrams for one project endpoint", len(r))
	}
	for _, t := range r {
		txt = t
	}
	return txt
}

// ---------------------------------------------------------------- PlantUML -> events

type comp struct {
	label string
	hl    bool
	pkg   string
	inPkg bool
}
type cArrow struct {
	i, j     int
	indirect bool
	mixin    bool
}
type compDiagram struct {
	events []string // Gallina terms of type oev
	comps  []comp
	arrows []cArrow
	pkgs   map[string]bool
}

var rePkg = regexp.MustCompile(`^package "(.*)" \{$`)
var reMixin = regexp.MustCompile(`^(_\d+) <\|\.\. (_\d+)$`)

func aliasNo(s string) int { n, _ := strconv.Atoi(strings.TrimPrefix(strings.TrimPrefix(s, "X"), "_")); return n }

// body lines of a diagram: what follows the skinparam block, up to @enduml
func bodyLines(txt string) ([]string, string) {
	lines := strings.Split(txt, "\n")
	for i, ln := range lines {
		if ln == "}" {
			rest := lines[i+1:]
			if len(rest) == 0 || rest[len(rest)-1] != "@enduml" {
				return nil, "diagram does not end with @enduml"
			}
			return rest[:len(rest)-1], ""
		}
	}
	return nil, "no skinparam block"
}

func parseCompDiagram(txt string, lt map[string]int) (*compDiagram, string) {
	lines, bad := bodyLines(txt)
	if bad != "" {
		return nil, bad
	}
	d := &compDiagram{pkgs: map[string]bool{}}
	pkg, inPkg := "", false
	for _, ln := range lines {
		if m := rePkg.FindStringSubmatch(ln); m != nil {
			id, ok := lt[m[1]]
			if !ok || inPkg {
				return nil, "package not understood: " + ln
			}
			pkg, inPkg = m[1], true
			d.pkgs[pkg] = true
			d.events = append(d.events, fmt.Sprintf("OPkg %d", id))
			continue
		}
		if ln == "}" {
			if !inPkg {
				return nil, "} outside a package"
			}
			pkg, inPkg = "", false
			d.events = append(d.events, "OEnd")
			continue
		}
		if m := reComp.FindStringSubmatch(ln); m != nil {
			id, ok := lt[m[1]]
			if !ok {
				return nil, fmt.Sprintf("component label %q is no name, name part or prefix of an app", m[1])
			}
			if aliasNo(m[2]) != len(d.comps) {
				return nil, "component aliases are not numbered consecutively: " + ln
			}
			d.comps = append(d.comps, comp{m[1], m[3] != "", pkg, inPkg})
			d.events = append(d.events, fmt.Sprintf("OComp %d %s", id, gb(m[3] != "")))
			continue
		}
		if m := reArrow.FindStringSubmatch(ln); m != nil {
			i, j := aliasNo(m[1]), aliasNo(m[2])
			if i >= len(d.comps) || j >= len(d.comps) {
				return nil, "arrow between undeclared components: " + ln
			}
			d.arrows = append(d.arrows, cArrow{i, j, m[3] != "", false})
			d.events = append(d.events, fmt.Sprintf("OArrow %d %d %s", i, j, gb(m[3] != "")))
			continue
		}
		if m := reMixin.FindStringSubmatch(ln); m != nil {
			i, j := aliasNo(m[1]), aliasNo(m[2])
			if i >= len(d.comps) || j >= len(d.comps) {
				return nil, "mixin arrow between undeclared components: " + ln
			}
			d.arrows = append(d.arrows, cArrow{i, j, false, true})
			d.events = append(d.events, fmt.Sprintf("OMixin %d %d", i, j))
			continue
		}
		return nil, "line not understood: " + ln
	}
	if inPkg {
		return nil, "package not closed"
	}
	return d, ""
}

var reEArrow2 = regexp.MustCompile(`^(_\d+) -\[#(\w+)\](-?)> (_\d+)( : .*)?$`)

// parseEPAEvents: the EPA diagram as events (states carry the app of the box they are declared in)
func (c *Case) parseEPAEvents(txt string) ([]string, string) {
	lines, bad := bodyLines(txt)
	if bad != "" {
		return nil, bad
	}
	var ev []string
	cur, tops, states := -1, 0, 0
	for _, ln := range lines {
		if m := reTop.FindStringSubmatch(ln); m != nil {
			a := c.appID(m[1])
			if a < 0 || cur >= 0 || aliasNo(m[2]) != tops {
				return nil, "app box not understood: " + ln
			}
			cur = a
			tops++
			ev = append(ev, fmt.Sprintf("OTop %d %s", a, gb(m[3] != "")))
			continue
		}
		if ln == "}" {
			if cur < 0 {
				return nil, "} outside an app box"
			}
			cur = -1
			ev = append(ev, "OEnd")
			continue
		}
		if m := reState.FindStringSubmatch(ln); m != nil {
			if cur < 0 {
				return nil, "endpoint state declared outside an app box: " + ln
			}
			if aliasNo(m[2]) != states {
				return nil, "state aliases are not numbered consecutively: " + ln
			}
			states++
			lbl, client := m[1], 0
			if strings.HasSuffix(lbl, " client") {
				lbl, client = strings.TrimSuffix(lbl, " client"), 1
			}
			e := epID(lbl)
			if e < 0 {
				return nil, "state label is no endpoint name: " + ln
			}
			ev = append(ev, fmt.Sprintf("OState %d %d %s", cur, 2*e+client, gb(m[3] != "")))
			continue
		}
		if m := reEArrow2.FindStringSubmatch(ln); m != nil {
			i, j := aliasNo(m[1]), aliasNo(m[4])
			if i >= states || j >= states || cur >= 0 {
				return nil, "arrow not understood: " + ln
			}
			col := -1
			switch {
			case m[3] == "-":
				col = 0
			case m[2] == "blue":
				col = 1
			case m[2] == "black":
				col = 2
			}
			if col < 0 {
				return nil, "arrow colour not understood: " + ln
			}
			ev = append(ev, fmt.Sprintf("OEArrow %d %d %d", i, j, col))
			continue
		}
		return nil, "line not understood: " + ln
	}
	return ev, ""
}

// ---------------------------------------------------------------- the oracle for component diagrams

// cand: the apps a declared component can stand for, read off its label and the box it is declared in
func (c *Case) cand(d *compDiagram, i int, run vRun) []int {
	cp := d.comps[i]
	var out []int
	for a := 0; a < c.nIDs(); a++ {
		ni := c.nameInfo(a)
		ok := false
		switch {
		case cp.inPkg:
			ok = ni.parts > 1 && ni.pre == cp.pkg && ni.short == cp.label
		case run.system():
			ok = ni.first == cp.label
		case run.clustered():
			ok = (ni.parts == 1 && ni.full == cp.label) || (ni.parts > 1 && ni.short == cp.label)
		default:
			ok = ni.full == cp.label
		}
		if ok {
			out = append(out, a)
		}
	}
	return out
}

func judgeComp(ctx *common.Ctx, c *Case, o *Obs, run vRun, d *compDiagram) {
	v := run.name()
	rpv := mkReplayV(c, run)
	ex := c.excl()
	sp := c.specify()
	cands := make([][]int, len(d.comps))
	for i := range d.comps {
		cands[i] = c.cand(d, i, run)
	}
	in := func(xs []int, x int) bool { return has(xs, x) }
	lbl := func(i int) string {
		if d.comps[i].inPkg {
			return d.comps[i].pkg + " / " + d.comps[i].label
		}
		return d.comps[i].label
	}
	// soundness: every call arrow is backed by a call statement between two different, non-excluded apps that
	// its two components can stand for
	for _, ar := range d.arrows {
		if ar.mixin {
			okm := false
			for _, a := range cands[ar.j] {
				if a < len(c.Apps) {
					for _, mx := range c.Apps[a].Mixins {
						if in(cands[ar.i], mx) {
							okm = true
						}
					}
				}
			}
			if !okm {
				ctx.Hist("beyond-property:mixin-arrow-without-mixin")
			}
			continue
		}
		backed, backedExcl := false, false
		for _, a := range cands[ar.i] {
			for _, b := range cands[ar.j] {
				if a != b && c.appCalls(a, b) {
					if ex[a] || ex[b] {
						backedExcl = true
					} else {
						backed = true
					}
				}
			}
		}
		if !backed && backedExcl {
			ctx.Fail("view:"+v+":excluded-app", fmt.Sprintf("%s view draws %s --> %s, and the only calls between apps these boxes can stand for involve an excluded app", v, lbl(ar.i), lbl(ar.j)), rpv)
		} else if !backed {
			ctx.Fail("view:"+v+":arrow-without-call", fmt.Sprintf("%s view draws %s --> %s but no app that the first box can stand for calls an app that the second can stand for", v, lbl(ar.i), lbl(ar.j)), rpv)
		}
	}
	// completeness: every call of a listed app to another app that is not excluded / human / hidden is an arrow
	for s := range sp.seeds {
		for _, e := range c.Apps[s].Eps {
			if e.ID == 0 {
				continue
			}
			for _, cl := range callsOf(e.Body) {
				if cl.a == s || ex[cl.a] || (cl.a < len(c.Apps) && c.Apps[cl.a].Human) {
					continue
				}
				if p := c.ep(cl.a, cl.e); p != nil && p.Hidden {
					continue
				}
				drawn := false
				for _, ar := range d.arrows {
					if !ar.mixin && in(cands[ar.i], s) && in(cands[ar.j], cl.a) {
						drawn = true
					}
				}
				if !drawn {
					ctx.Fail("view:"+v+":listed-call-not-drawn", fmt.Sprintf("%s view has no arrow for the call %s", v, c.dstr(dep{s, e.ID, cl.a, cl.e})), rpv)
				}
			}
		}
	}
	// one box per app (component diagrams of apps only): two apps at the ends of drawn dependencies must not
	// share one component. Slot = (package box, label) under which an app is shown.
	if !run.system() {
		type slot struct {
			pkg   string
			inPkg bool
			label string
		}
		slotOf := func(a int) slot {
			ni := c.nameInfo(a)
			switch {
			case run.clustered() && ni.parts > 1 && d.pkgs[ni.pre]:
				return slot{ni.pre, true, ni.short}
			case run.clustered() && ni.parts > 1:
				return slot{"", false, ni.short}
			}
			return slot{"", false, ni.full}
		}
		shown := map[int]bool{}
		drawIndirect := c.Indirect != "none"
		for _, dd := range o.Deps {
			if dd[0] != dd[2] && (sp.seeds[dd[0]] || sp.seeds[dd[2]] || drawIndirect) {
				shown[dd[0]], shown[dd[2]] = true, true
			}
		}
		need := map[slot][]int{}
		for a := range shown {
			need[slotOf(a)] = append(need[slotOf(a)], a)
		}
		have := map[slot]int{}
		for _, cp := range d.comps {
			have[slot{cp.pkg, cp.inPkg, cp.label}]++
		}
		for sl, apps := range need {
			if have[sl] < len(apps) {
				sort.Ints(apps)
				ctx.Fail("view:"+v+":apps-merged-into-one-component", fmt.Sprintf("%s view shows the %d apps %v, which all take part in drawn dependencies, as %d component(s) labelled %q: arrows of one cannot be told from arrows of the other", v, len(apps), c.names(apps), have[sl], sl.label), rpv)
			}
		}
	}
}

// ---------------------------------------------------------------- the stream

func mkReplayV(c *Case, run vRun) replay {
	return replay{Case: *c, View: run.name(), Stream: "C14V", Run: &run}
}

func genCaseV(r *common.Rng) *Case {
	vStyle = true
	c := genCase(r, false)
	vStyle = false
	if c.passCyclic() { // pass-through cycles are the business of the other streams (child process)
		c.Pass = nil
	}
	for len(c.Pass) > 0 && c.walkCost(3000) > 3000 {
		c.Pass = c.Pass[:len(c.Pass)-1]
	}
	decorate(r, c)
	c.Shape = "views:" + c.Shape
	return c
}

func runsFor(r *common.Rng) []vRun {
	runs := []vRun{{}, {AttrView: "system"}}
	if r.Bool() {
		runs = append(runs, vRun{AttrView: "clustered"})
	} else {
		runs = append(runs, vRun{CliClustered: true})
	}
	switch r.Intn(3) {
	case 0:
		runs = append(runs, vRun{AttrView: "epa"})
	case 1:
		runs = append(runs, vRun{CliEpa: true, AttrView: "system"}) // the flag wins over the attribute
	default:
		runs = append(runs, vRun{CliEpa: true, CliClustered: true})
	}
	runs = append(runs, vRun{CliClustered: true, AttrView: "system"})
	return runs
}

func gvparams(c *Case, run vRun) string {
	kind := map[string]string{"": "VPlain", "clustered": "VClustered", "epa": "VEpa", "system": "VSystem"}[run.AttrView]
	return fmt.Sprintf("VP %s %s %s %s %s", gb(run.CliClustered), gb(run.CliEpa), kind, gb(c.Indirect != "none"), gb(c.RestrictBy != ""))
}

// oneV: builder once (judged by the list-level oracle of the other streams), then every run of runs
func oneV(ctx *common.Ctx, cs *common.Cases, c *Case, runs []vRun) {
	o := observeWith(c, false)
	judge(ctx, c, o)
	if o.Panic || o.Died != "" {
		ctx.Count(fmt.Sprint(ctx.Res.Evaluations), false)
		return
	}
	lt := c.labelTable()
	var vs []string
	drawn := 0
	for _, run := range runs {
		txt := renderView(c, run)
		v := run.name()
		ctx.Hist("views:run:" + v)
		if strings.HasPrefix(txt, "PANIC: ") {
			ctx.Fail("view:"+v+":panic", run.String()+" panicked: "+txt, mkReplayV(c, run))
			continue
		}
		obs := "None"
		if run.epa() {
			judgeEPA(ctx, c, o.Deps, txt, "epa")
			ev, bad := c.parseEPAEvents(txt)
			if bad != "" {
				ctx.Fail("view:epa:unparsed", run.String()+": "+bad, mkReplayV(c, run))
			} else {
				obs = "(Some [" + strings.Join(ev, ";") + "])"
				drawn += len(ev)
			}
		} else {
			d, bad := parseCompDiagram(txt, lt)
			if bad != "" {
				ctx.Fail("view:"+v+":unparsed", run.String()+": "+bad, mkReplayV(c, run))
			} else {
				judgeComp(ctx, c, o, run, d)
				obs = "(Some [" + strings.Join(d.events, ";") + "])"
				drawn += len(d.arrows)
				for _, ar := range d.arrows {
					if ar.mixin {
						ctx.Hist("views:mixin-arrows")
					}
				}
				if len(d.pkgs) > 0 {
					ctx.Hist("views:with-package-boxes:" + v)
				}
			}
		}
		vs = append(vs, fmt.Sprintf("(%s, %s)", gvparams(c, run), obs))
	}
	// input features, for the histogram
	shortSeen := map[string]int{}
	for i := range c.Apps {
		shortSeen[c.nameInfo(i).short]++
	}
	for _, k := range shortSeen {
		if k > 1 {
			ctx.Hist("views:apps-sharing-a-last-name-part")
			break
		}
	}
	if c.RestrictBy != "" {
		ctx.Hist("views:restrict_by")
	}
	for _, d := range o.Deps {
		if p := c.ep(d[0], d[1]); p != nil && p.Pubsub {
			ctx.Hist("views:dependency-from-a-pubsub-endpoint")
			break
		}
	}
	var mg []string
	for i, a := range c.Apps {
		var eg []string
		for _, e := range a.Eps {
			eg = append(eg, fmt.Sprintf("(%d, E %s %s %s)", e.ID, gb(e.Hidden), gb(e.ID == 0), gstmts(e.Body)))
		}
		mg = append(mg, fmt.Sprintf("(%d, P %s [%s])", i, gb(a.Human), strings.Join(eg, ";")))
	}
	var exs []int
	for x := range c.excl() {
		exs = append(exs, x)
	}
	sort.Ints(exs)
	term := fmt.Sprintf("([%s], %s, (%s, %s, %s), [%s])", strings.Join(mg, ";"), c.gvinfo(lt), gids(c.Listed), gids(exs), gids(c.Pass), strings.Join(vs, ";"))
	ctx.Count(term, drawn > 0)
	if cs != nil {
		cs.Add(term, replay{Case: *c, Stream: "C14V"})
	}
}

// the defect repaired by fixes/C14-3, as a literal case: A calls "G :: B" and "B"; before the repair the clustered
// view had ONE box labelled B and two arrows to it
func mergedCase() *Case {
	return &Case{Apps: []App{
		{Name: "A", Eps: []Ep{{ID: 1, Body: []Stmt{{K: kCall, A: 2, E: 1}, {K: kCall, A: 1, E: 1}}}}},
		{Name: "B", Eps: []Ep{{ID: 1}}},
		{Name: "G :: B", Eps: []Ep{{ID: 1}}}},
		Listed: []int{0, 1}, Shape: "views:two-apps-one-last-name"}
}

func runViewsStream(ctx *common.Ctx) {
	header := `From Coq Require Import List NArith Bool. Import ListNotations.
Require Import Verif.Ints.IntsModel Verif.Ints.VModel Verif.Ints.VRun Verif.Base.Harness.
Local Open Scope N_scope.
Notation C := Call. Notation O := Other. Notation B := Block. Notation A := Alt.
Definition E h c b := {| hidden := h; coll := c; body := b |}. Definition P h e := {| human := h; eps := e |}.
Definition T := true. Definition F := false.
Definition NM f p s i := {| n_full := f; n_pre := p; n_short := s; n_first := i |}.
Definition VI n m a e p := {| names := n; mixins := m; app_r := a; ep_r := e; pubsub := p |}.
Definition VP c e v d r := {| cli_clustered := c; cli_epa := e; attr_view := v; p_di := d; p_rb := r |}.`
	footer := `Definition M := Eval vm_compute in mismatches c14v_ok cases. Print M.`
	cs := ctx.NewCases("C14V", header, "c14v_case", footer, 60)
	n := 360
	if ctx.Thorough() {
		n = 4000
	}
	if ctx.Search {
		n *= 3
	}
	oneV(ctx, cs, mergedCase(), []vRun{{}, {AttrView: "clustered"}, {CliClustered: true, AttrView: "system"}, {AttrView: "epa"}})
	for i := 0; i < n; i++ {
		c := genCaseV(ctx.Rng)
		oneV(ctx, cs, c, runsFor(ctx.Rng))
		ctx.Hist("shape:" + c.Shape)
	}
	cs.Close()
}
