// C14: pass-through cycles with SEVERAL calls in each direction (the forced cycle shapes of genCase have one call per
// direction): each endpoint on the cycle holds two or three calls to the next one - in the two branches of an
// if / else, a retry after the first call, calls at different nesting depths - often also back to the previous one,
// longer cycles get chords. After the first cut re-entry the marker of the expansion in progress must still be
// there for the second call; these are the inputs on which a wrong set / remove order of IntsBuilder.walking
// recurses for ever. Run through one(): child process, list-level and arrow-level oracle, compared in Coq (c14_ok).
package main

import (
	"fmt"

	"verifharness/common"
)

// two or three calls to (a, e), in one of four arrangements
func multiCall(r *common.Rng, a, e int) []Stmt {
	cl := Stmt{K: kCall, A: a, E: e}
	switch r.Intn(4) {
	case 0: // if / else
		return []Stmt{{K: kAlt, Alts: [][]Stmt{{cl}, {cl}}}}
	case 1: // retry
		return []Stmt{cl, {K: kCond, Body: []Stmt{{K: kAction}, cl}}}
	case 2: // different depths
		return []Stmt{{K: kLoop, Body: []Stmt{{K: kGroup, Body: []Stmt{cl}}}}, cl}
	}
	return []Stmt{cl, cl, {K: kAlt, Alts: [][]Stmt{{cl}, {{K: kRet}}}}}
}

// the witness of WalkDiscProps.unmark_on_cut_diverges: two pass-through endpoints, two calls to each other
func multiCallWitness() *Case {
	return &Case{Apps: []App{
		{Name: "A00", Eps: []Ep{{ID: 1, Body: []Stmt{{K: kCall, A: 1, E: 1}}}}},
		{Name: "A01", Eps: []Ep{{ID: 1, Body: []Stmt{{K: kCall, A: 2, E: 1}, {K: kCond, Body: []Stmt{{K: kCall, A: 2, E: 1}}}}}}},
		{Name: "A02", Eps: []Ep{{ID: 1, Body: []Stmt{{K: kAlt, Alts: [][]Stmt{{{K: kCall, A: 1, E: 1}}, {{K: kCall, A: 1, E: 1}}}}}}}}},
		Listed: []int{0}, Pass: []int{1, 2}, Shape: "passthrough-multi-call-cycle-2"}
}

func genMultiCallCycle(r *common.Rng) *Case {
	for try := 0; ; try++ {
		c := &Case{}
		napps := 3 + r.Intn(4) // 3..6
		g := &gen{r: r, napps: napps, ntgt: napps, maxEp: 1 + r.Intn(2)}
		for i := 0; i < napps; i++ {
			a := App{Name: fmt.Sprintf("A%02d", i)}
			for j := 1; j <= g.maxEp; j++ {
				a.Eps = append(a.Eps, Ep{ID: j, Body: g.stmts(1)}) // a little noise: other calls, other cycles
			}
			c.Apps = append(c.Apps, a)
		}
		seed := r.Intn(napps)
		k := 2 + r.Intn(2)
		if r.Chance(1, 3) {
			k = 4 + r.Intn(2)
		}
		if k > napps-1 {
			k = napps - 1
		}
		type nd struct{ a, e int }
		var cyc []nd
		for i := 0; len(cyc) < k; i++ {
			cyc = append(cyc, nd{(seed + 1 + i) % napps, 1 + r.Intn(g.maxEp)})
		}
		ep := func(n nd) *Ep { return c.ep(n.a, n.e) }
		both := r.Bool()
		for i, n := range cyc {
			nx := cyc[(i+1)%len(cyc)]
			ep(n).Body = append(ep(n).Body, multiCall(r, nx.a, nx.e)...)
			if both && len(cyc) > 2 { // and back to the previous one (for a 2-cycle next = previous)
				pv := cyc[(i+len(cyc)-1)%len(cyc)]
				ep(n).Body = append(ep(n).Body, multiCall(r, pv.a, pv.e)...)
			}
			c.Pass = add(c.Pass, n.a)
		}
		chords := 0
		if len(cyc) >= 4 {
			for q := 1 + r.Intn(3); q > 0; q-- {
				i, j := r.Intn(len(cyc)), r.Intn(len(cyc))
				if i != j {
					cl := []Stmt{{K: kCall, A: cyc[j].a, E: cyc[j].e}}
					if r.Bool() {
						cl = multiCall(r, cyc[j].a, cyc[j].e)
					}
					ep(cyc[i]).Body = append(ep(cyc[i]).Body, cl...)
					chords++
				}
			}
		}
		se := c.ep(seed, 1)
		se.Body = append(se.Body, Stmt{K: kCond, Body: []Stmt{{K: kCall, A: cyc[0].a, E: cyc[0].e}}})
		if r.Bool() {
			other := cyc[r.Intn(len(cyc))]
			se.Body = append(se.Body, Stmt{K: kCall, A: other.a, E: other.e})
		}
		c.Listed = []int{seed}
		for i := 0; i < napps; i++ { // an excluded / second listed app among the others
			if i != seed && !has(c.Pass, i) {
				switch r.Intn(4) {
				case 0:
					c.ExclAttr = append(c.ExclAttr, i)
				case 1:
					c.Listed = append(c.Listed, i)
				}
			}
		}
		c.Indirect = []string{"", "", "none", "blue"}[r.Intn(4)]
		c.Shape = fmt.Sprintf("passthrough-multi-call-cycle-%d", len(cyc))
		if chords > 0 {
			c.Shape += "+chords"
		}
		if both && len(cyc) > 2 {
			c.Shape += "+both-directions"
		}
		if c.walkCost(3000) <= 3000 || try > 20 {
			if try > 20 {
				return multiCallWitness()
			}
			return c
		}
	}
}
