// C14, stream C14G: what GenerateIntegrations (called by cmd_ints.go Execute) does around the single view: one
// diagram per endpoint of the project in endpoint-name order, keyed by the expanded --output template, --filter on
// that name, --clustered / --epa for all of them, each endpoint with its own listing / exclude / passthrough /
// view / restrict_by. ONE real call per case; the keys of the result are judged against the harness's own
// expansion of the template and its own regexp match, every diagram that is alone under its name is judged by
// the single-view oracles against its own endpoint, and the whole map is compared in Coq with
// VModel.generate_integrations (a later endpoint with the same output name overwrites an earlier one).
package main

import (
	"bytes"
	"fmt"
	"regexp"
	"sort"
	"strings"

	"github.com/anz-bank/sysl/pkg/cmdutils"
	"github.com/anz-bank/sysl/pkg/integrationdiagram"
	"github.com/anz-bank/sysl/pkg/sysl"
	"github.com/sirupsen/logrus"

	"verifharness/common"
)

type GView struct {
	Listed   []int  `json:"listed"`
	ExclAttr []int  `json:"excl_attr,omitempty"`
	Pass     []int  `json:"pass,omitempty"`
	Kind     string `json:"kind,omitempty"`     // view attribute: "", clustered, epa, system
	Restrict bool   `json:"restrict,omitempty"` // restrict_by = "rb" on this endpoint
	OutAttr  string `json:"out,omitempty"`      // attribute `out`, for the template %(@out)
}

type GenCase struct {
	Base         Case    `json:"base"` // apps (Base.RestrictBy = "rb": who carries the attribute), command-level excludes, indirect colour
	Views        []GView `json:"views"`
	Output       string  `json:"output"`
	Filter       string  `json:"filter,omitempty"`
	CliClustered bool    `json:"cli_clustered,omitempty"`
	CliEpa       bool    `json:"cli_epa,omitempty"`
}

func (gc *GenCase) module() *sysl.Module {
	m, _ := gc.Base.module()
	eps := map[string]*sysl.Endpoint{}
	for i, v := range gc.Views {
		pe := gc.Base.projectEndpoint(viewName(i), ViewSpec{Listed: v.Listed, ExclAttr: v.ExclAttr, Pass: v.Pass, Kind: v.Kind})
		if v.Restrict {
			pe.Attrs["restrict_by"] = sattr("rb")
		}
		if v.OutAttr != "" {
			pe.Attrs["out"] = sattr(v.OutAttr)
		}
		eps[viewName(i)] = pe
	}
	m.Apps[project].Endpoints = eps
	return m
}

// the single-view case endpoint i must be indistinguishable from
func (gc *GenCase) viewCase(i int) *Case {
	c := gc.Base
	v := gc.Views[i]
	c.Listed, c.ExclAttr, c.Pass, c.AttrView = v.Listed, v.ExclAttr, v.Pass, v.Kind
	if !v.Restrict {
		c.RestrictBy = ""
	}
	c.Shape = "plumbing-view"
	return &c
}

// outName: the harness's own reading of the output template (the variables the generator uses)
func (gc *GenCase) outName(i int) string {
	return strings.NewReplacer("%(epname)", viewName(i), "%(appname)", project, "%(@out)", gc.Views[i].OutAttr).Replace(gc.Output)
}
func (gc *GenCase) matches(i int) bool {
	return gc.Filter == "" || regexp.MustCompile(gc.Filter).MatchString(gc.outName(i))
}
func (gc *GenCase) run(i int) vRun {
	return vRun{CliClustered: gc.CliClustered, CliEpa: gc.CliEpa, AttrView: gc.Views[i].Kind}
}

func genGenCase(r *common.Rng) *GenCase {
	base := genCaseV(r)
	napps := len(base.Apps)
	gc := &GenCase{}
	nv := 2 + r.Intn(3)
	kinds := []string{"", "clustered", "epa", "system"}
	outs := []string{"x", "x", "y", "z"}
	for len(gc.Views) < nv {
		v := GView{Listed: pick(r, napps, 1, 2), Pass: pick(r, napps, 1, 4), ExclAttr: pick(r, napps, 1, 5),
			Kind: kinds[r.Intn(4)], Restrict: r.Chance(1, 3), OutAttr: outs[r.Intn(4)]}
		if len(v.Listed) == 0 {
			v.Listed = []int{r.Intn(napps)}
		}
		gc.Views = append(gc.Views, v)
	}
	gc.Views[0].Listed, gc.Views[0].Pass, gc.Views[0].ExclAttr = base.Listed, base.Pass, base.ExclAttr
	base.Listed, base.Pass, base.ExclAttr = nil, nil, nil
	base.RestrictBy = "rb"
	base.Shape = "plumbing"
	gc.Base = *base
	gc.Output = []string{"%(epname).png", "%(epname).png", "%(appname)-%(epname).puml", "all.png", "%(@out).svg"}[r.Intn(5)]
	gc.Filter = []string{"", "", "", "", "V1", "V[12]", "^[xy]", "nothing-matches-this", "png$", "V[^1]"}[r.Intn(10)]
	gc.CliClustered = r.Chance(1, 4)
	gc.CliEpa = r.Chance(1, 6)
	for i := range gc.Views {
		ci := gc.viewCase(i)
		if ci.passCyclic() {
			gc.Views[i].Pass = nil
		}
		for len(gc.Views[i].Pass) > 0 && gc.viewCase(i).walkCost(3000) > 3000 {
			gc.Views[i].Pass = gc.Views[i].Pass[:len(gc.Views[i].Pass)-1]
		}
	}
	return gc
}

func oneG(ctx *common.Ctx, cs *common.Cases, gc *GenCase) {
	rp := replay{Stream: "C14G", Gen: gc}
	var result map[string]string
	var panicked string
	func() {
		defer func() {
			if r := recover(); r != nil {
				panicked = fmt.Sprint(r)
			}
		}()
		logger := logrus.New()
		logger.SetOutput(new(bytes.Buffer))
		p := &cmdutils.CmdContextParamIntgen{Title: "", Output: gc.Output, Project: project, Filter: gc.Filter,
			Exclude: gc.Base.names(gc.Base.ExclCLI), Clustered: gc.CliClustered, EPA: gc.CliEpa}
		r, err := integrationdiagram.GenerateIntegrations(p, gc.module(), logger)
		if err != nil {
			panicked = "error " + err.Error()
		}
		result = r
	}()
	if panicked != "" {
		ctx.Fail("plumbing:panic", fmt.Sprintf("GenerateIntegrations on a project with %d endpoints (--output %q --filter %q) panicked: %s", len(gc.Views), gc.Output, gc.Filter, panicked), rp)
		ctx.Count(fmt.Sprint(ctx.Res.Evaluations), false)
		return
	}
	// ---- which names must be there
	owners := map[string][]int{}
	for i := range gc.Views {
		if gc.matches(i) {
			owners[gc.outName(i)] = append(owners[gc.outName(i)], i)
		} else {
			ctx.Hist("plumbing:endpoint-filtered-out")
		}
	}
	for name, is := range owners {
		if _, ok := result[name]; !ok {
			ctx.Fail("plumbing:missing-diagram", fmt.Sprintf("no diagram named %q although endpoint %s passes --filter %q with --output %q", name, viewName(is[0]), gc.Filter, gc.Output), rp)
		}
		if len(is) > 1 {
			ctx.Hist("plumbing:endpoints-sharing-an-output-name")
		}
	}
	for name := range result {
		if len(owners[name]) == 0 {
			ctx.Fail("plumbing:unexpected-diagram", fmt.Sprintf("a diagram named %q was generated, which is the output name of no endpoint that passes --filter %q (--output %q)", name, gc.Filter, gc.Output), rp)
		}
	}
	// ---- output-name labels: rank in sort.Strings order of every name an endpoint can get
	var allOut []string
	seenOut := map[string]bool{}
	for i := range gc.Views {
		if n := gc.outName(i); !seenOut[n] {
			seenOut[n] = true
			allOut = append(allOut, n)
		}
	}
	for n := range result {
		if !seenOut[n] {
			seenOut[n] = true
			allOut = append(allOut, n)
		}
	}
	sort.Strings(allOut)
	outID := map[string]int{}
	for i, n := range allOut {
		outID[n] = i
	}
	// ---- the diagrams
	lt := gc.Base.labelTable()
	var names []string
	for n := range result {
		names = append(names, n)
	}
	sort.Strings(names)
	var obs []string
	for _, n := range names {
		txt := result[n]
		is := owners[n]
		entry := "None"
		// how to read it: the text says which kind of diagram it is
		if len(is) > 0 {
			if strings.Contains(txt, "skinparam state {") {
				if ev, bad := gc.Base.parseEPAEvents(txt); bad == "" {
					entry = "(Some [" + strings.Join(ev, ";") + "])"
				} else {
					ctx.Fail("view:epa:unparsed", fmt.Sprintf("diagram %q: %s", n, bad), rp)
				}
			} else if d, bad := parseCompDiagram(txt, lt); bad == "" {
				entry = "(Some [" + strings.Join(d.events, ";") + "])"
			} else {
				ctx.Fail("view:component:unparsed", fmt.Sprintf("diagram %q: %s", n, bad), rp)
			}
		}
		obs = append(obs, fmt.Sprintf("(%d, %s)", outID[n], entry))
		// alone under its name: held against its own endpoint by the single-view oracles
		if len(is) == 1 {
			i := is[0]
			ci := gc.viewCase(i)
			run := gc.run(i)
			bo := observeWith(ci, false)
			before := len(ctx.Res.Failures)
			judge(ctx, ci, bo)
			if !bo.Panic {
				if run.epa() {
					judgeEPA(ctx, ci, bo.Deps, txt, "epa")
				} else if d, bad := parseCompDiagram(txt, lt); bad == "" {
					judgeComp(ctx, ci, bo, run, d)
				}
			}
			for k := before; k < len(ctx.Res.Failures); k++ {
				ctx.Res.Failures[k].What = fmt.Sprintf("endpoint %s of %d (%s), diagram %q: %s", viewName(i), len(gc.Views), run.name(), n, ctx.Res.Failures[k].What)
				ctx.Res.Failures[k].Replay = rp
			}
			ctx.Hist("plumbing:judged:" + run.name())
		}
	}
	// ---- Gallina
	c := &gc.Base
	var mg []string
	for i, a := range c.Apps {
		var eg []string
		for _, e := range a.Eps {
			eg = append(eg, fmt.Sprintf("(%d, E %s %s %s)", e.ID, gb(e.Hidden), gb(e.ID == 0), gstmts(e.Body)))
		}
		mg = append(mg, fmt.Sprintf("(%d, P %s [%s])", i, gb(a.Human), strings.Join(eg, ";")))
	}
	cli := append([]int{}, c.ExclCLI...)
	sort.Ints(cli)
	var vs []string
	for i, v := range gc.Views {
		ci := gc.viewCase(i)
		ex := append([]int{}, v.ExclAttr...)
		sort.Ints(ex)
		vs = append(vs, fmt.Sprintf("PV %d %s %s %s %s (%s)", outID[gc.outName(i)], gb(gc.matches(i)), gids(v.Listed), gids(ex), gids(v.Pass), gvparams(ci, gc.run(i))))
	}
	// the side table: restrict attributes are those of the base case (Base.RestrictBy = "rb"); p_rb is per endpoint
	term := fmt.Sprintf("([%s], %s, %s, [%s], [%s])", strings.Join(mg, ";"), c.gvinfo(lt), gids(cli), strings.Join(vs, ";"), strings.Join(obs, ";"))
	ctx.Count(term, len(result) > 0)
	ctx.Hist(fmt.Sprintf("plumbing:diagrams=%d", len(result)))
	ctx.Hist("plumbing:output=" + gc.Output)
	if cs != nil {
		cs.Add(term, rp)
	}
}

func runPlumbingStream(ctx *common.Ctx) {
	header := `From Coq Require Import List NArith Bool. Import ListNotations.
Require Import Verif.Ints.IntsModel Verif.Ints.VModel Verif.Ints.VRun Verif.Base.Harness.
Local Open Scope N_scope.
Notation C := Call. Notation O := Other. Notation B := Block. Notation A := Alt.
Definition E h c b := {| hidden := h; coll := c; body := b |}. Definition P h e := {| human := h; eps := e |}.
Definition T := true. Definition F := false.
Definition NM f p s i := {| n_full := f; n_pre := p; n_short := s; n_first := i |}.
Definition VI n m a e p := {| names := n; mixins := m; app_r := a; ep_r := e; pubsub := p |}.
Definition VP c e v d r := {| cli_clustered := c; cli_epa := e; attr_view := v; p_di := d; p_rb := r |}.
Definition PV o f l x p v := {| pv_out := o; pv_match := f; pv_listed := l; pv_ex := x; pv_pt := p; pv_par := v |}.`
	footer := `Definition M := Eval vm_compute in mismatches c14g_ok cases. Print M.`
	cs := ctx.NewCases("C14G", header, "c14g_case", footer, 50)
	n := 150
	if ctx.Thorough() {
		n = 2000
	}
	if ctx.Search {
		n *= 3
	}
	for i := 0; i < n; i++ {
		oneG(ctx, cs, genGenCase(ctx.Rng))
	}
	cs.Close()
}
