// C06 fault injection: the REAL parse.Parser.Parse is driven through chosen completion orders of its
// concurrent file reads by a gate reader (as C05) that also injects faults into chosen files:
//
//	read      ReadHashBranch fails when the read is released
//	imports   the file's import lines do not parse (pre-parse in collectSpecs)
//	body      a syntax error below the imports
//	trunc     the content is cut off in the middle of a declaration
//	detect    a foreign (.yaml) import whose format cannot be detected
//	convert   a foreign (.yaml) import that looks like OpenAPI 2 and fails conversion
//
// Every case runs in a worker subprocess, so a crash or a hang of the code under test is an observation.
//
//   - Go oracle (model independent): a fault on a file that was read => Parse returns (nil, error), the
//     error text names a faulty file that was read, status 1 or 2; never a crash, a hang, or a return
//     while a read is still in flight; no fault hit => a module.
//   - Gallina cases: (graph, faults, limit, release order with blocked sets, outcome as an error chain
//     or the processed order) replayed through Imports/Faults.v.
package main

import (
	"context"
	"encoding/json"
	"fmt"
	"io"
	"os"
	"regexp"
	"runtime"
	"runtime/debug"
	"sort"
	"strings"
	"sync"
	"time"
	"unicode/utf8"

	"github.com/anz-bank/golden-retriever/retriever"
	"github.com/anz-bank/sysl/pkg/parse"
	"github.com/anz-bank/sysl/pkg/syslutil"
	"github.com/sirupsen/logrus"
	"github.com/spf13/afero"

	"verifharness/common"
)

// ---------------------------------------------------------------- inputs

type Imp struct {
	To   int `json:"to"`
	Kind int `json:"kind"`
}
type Spec struct {
	Dirs    [][]string     `json:"dirs"`
	Imps    [][]Imp        `json:"imps"`
	Foreign []bool         `json:"foreign"` // file i is a .yaml (OpenAPI) file: a leaf, imported `as Fi.App`
	Faults  map[int]string `json:"faults"`  // file -> read | imports | body | trunc | detect | convert | cut@N | (foreign.go)
	Max     int            `json:"max"`
	Kind    []string       `json:"kind,omitempty"` // file i is a foreign file of this kind (foreign.go fkinds): a leaf
}

func (s *Spec) n() int { return len(s.Imps) }
func (s *Spec) foreign(i int) bool {
	return (i < len(s.Foreign) && s.Foreign[i]) || s.fk(i) != ""
}
func (s *Spec) noAs(i int) bool { return s.fk(i) != "" && s.Faults[i] == "noapp" } // imported without `as`
func baseName(i int) string {
	if i == 0 {
		return "root"
	}
	return fmt.Sprintf("f%d", i)
}
func (s *Spec) ext(i int) string {
	if k := s.fk(i); k != "" {
		return fkinds[k].ext
	}
	if s.foreign(i) {
		return ".yaml"
	}
	return ".sysl"
}
func (s *Spec) path(i int) string {
	return strings.Join(append(append([]string{}, s.Dirs[i]...), baseName(i)+s.ext(i)), "/")
}

func (s *Spec) spell(from, to, kind int) string {
	fd, tdir := s.Dirs[from], s.Dirs[to]
	rooted := "/" + strings.Join(append(append([]string{}, tdir...), baseName(to)), "/")
	k := 0
	for k < len(fd) && k < len(tdir) && fd[k] == tdir[k] {
		k++
	}
	var rel []string
	for i := k; i < len(fd); i++ {
		rel = append(rel, "..")
	}
	rel = append(rel, tdir[k:]...)
	rel = append(rel, baseName(to))
	relS := strings.Join(rel, "/")
	if s.foreign(to) {
		as := " as F" + fmt.Sprint(to) + ".App"
		if s.noAs(to) {
			as = ""
		}
		if kind%2 == 0 {
			return relS + s.ext(to) + as
		}
		return rooted + s.ext(to) + as
	}
	switch kind {
	case 0:
		return relS
	case 1:
		return relS + ".sysl"
	case 2:
		return rooted
	case 3:
		return rooted + ".sysl"
	default:
		return "./" + relS
	}
}

// OpenAPI 2: the Go importer (the OpenAPI 3 path goes through arr.ai and takes seconds per file)
const goodYaml = "swagger: \"2.0\"\ninfo:\n  title: T\n  version: \"1\"\npaths: {}\n"

// commonHeader: every file re-opens the application Common; the root gives it an attribute that is the empty string
// and one that is an array (what the unmergeable compiled modules of foreign.go collide with)
func commonHeader(i int) string {
	if i == 0 {
		return "Common [e=\"\", a=[\"a\"]]"
	}
	return "Common"
}

// sBody: the declarations of Sysl file i
func sBody(i int) string {
	return fmt.Sprintf("%s:\n    ...\nA%d:\n    E%d:\n        ...\n    !type T%d:\n        x <: int\nL%d [~last, k=\"v\"]:  \n    ...\n", commonHeader(i), i, i, i, i)
}

// healthy: the content of file i without any fault; bodyStart = offset of the first byte after the import lines
func (s *Spec) healthy(i int) (text string, bodyStart int) {
	var sb strings.Builder
	for _, im := range s.Imps[i] {
		fmt.Fprintf(&sb, "import %s\n", s.spell(i, im.To, im.Kind))
	}
	bodyStart = sb.Len()
	sb.WriteString(sBody(i))
	return sb.String(), bodyStart
}

// cutAt: "cut@N" -> N
func cutAt(fault string) (int, bool) {
	if !strings.HasPrefix(fault, "cut@") {
		return 0, false
	}
	n := 0
	fmt.Sscanf(fault[4:], "%d", &n)
	return n, true
}

// cutClass classifies a truncation of `full` to its first n bytes STRUCTURALLY (never by asking the parser):
//
//	header : the cut lies inside an application header line, after the first character of the name and
//	         before the line's newline - an incomplete declaration, MUST be reported as an error
//	valid  : the cut is at a line boundary, the next line starts a new application and the line before is not
//	         an application header - the kept text is a complete file and MUST compile
//	other  : anything else (inside a body line, in the import lines ...): no demand either way
func cutClass(full string, bodyStart, n int) string {
	isHeader := func(ls int) bool { // the line starting at ls is an application header
		return ls < len(full) && full[ls] != ' ' && full[ls] != '\t' && full[ls] != '#' && full[ls] != '\n' && full[ls] != '\r' &&
			!strings.HasPrefix(full[ls:], "import")
	}
	if n >= len(full) {
		return "valid"
	}
	if n <= bodyStart {
		return "other"
	}
	if full[n-1] == '\n' {
		prev := strings.LastIndexByte(full[:n-1], '\n') + 1
		if isHeader(n) && !isHeader(prev) {
			return "valid"
		}
		return "other"
	}
	ls := strings.LastIndexByte(full[:n], '\n') + 1
	if isHeader(ls) {
		return "header"
	}
	return "other"
}

// kind: the effective fault kind of file i ("" = healthy): cuts are header | valid-cut | other-cut
func (s *Spec) kind(i int) string {
	f := s.Faults[i]
	if k := s.fk(i); k != "" {
		if _, has := s.Faults[i]; !has && fkinds[k].family != "other" {
			return ""
		}
		class, _ := foreignClass(k, i, f, false)
		return class
	}
	if n, ok := cutAt(f); ok {
		full, bs := s.healthy(i)
		switch cutClass(full, bs, n) {
		case "header":
			return "cut-header"
		case "valid":
			return ""
		default:
			return "cut-other"
		}
	}
	return f
}

func (s *Spec) content(i int) string {
	fault := s.Faults[i]
	if k := s.fk(i); k != "" {
		return foreignContent(k, i, fault)
	}
	if n, ok := cutAt(fault); ok && !s.foreign(i) {
		full, _ := s.healthy(i)
		if n < len(full) {
			return full[:n]
		}
		return full
	}
	if s.foreign(i) {
		switch fault {
		case "detect":
			return "name: nothing\nkind: unknown\n"
		case "convert":
			return "swagger: \"2.0\"\ninfo:\n  title: [T\npaths: {{{\n"
		}
		return goodYaml
	}
	var sb strings.Builder
	for _, im := range s.Imps[i] {
		fmt.Fprintf(&sb, "import %s\n", s.spell(i, im.To, im.Kind))
	}
	if fault == "imports" {
		sb.WriteString("import oops this is no path ~~\n")
	}
	body := sBody(i)
	switch fault {
	case "body":
		body = fmt.Sprintf("%s:\n    ...\nA%d:\n    E%d [\n        ...\n", commonHeader(i), i, i)
	case "trunc":
		body = body[:len(body)-12] // cut off right before the colon of the last application's header
	}
	sb.WriteString(body)
	return sb.String()
}

func (s *Spec) graph() [][]int {
	g := make([][]int, s.n())
	for i, l := range s.Imps {
		for _, im := range l {
			g[i] = append(g[i], im.To)
		}
	}
	return g
}

// ---------------------------------------------------------------- gate reader with faults

type gate struct {
	afero.Fs
	byPath  map[string]int
	content []string
	readErr map[int]bool
	mu      sync.Mutex
	waiting map[int]chan struct{}
	order   []int
	reads   []int
	unknown []string
}

func (g *gate) Read(ctx context.Context, p string) ([]byte, error) {
	b, _, _, e := g.ReadHashBranch(ctx, p)
	return b, e
}
func (g *gate) ReadHash(ctx context.Context, p string) ([]byte, retriever.Hash, error) {
	b, h, _, e := g.ReadHashBranch(ctx, p)
	return b, h, e
}
func (g *gate) ReadHashBranch(ctx context.Context, p string) ([]byte, retriever.Hash, string, error) {
	g.mu.Lock()
	i, ok := g.byPath[p]
	if !ok {
		g.unknown = append(g.unknown, p)
		g.mu.Unlock()
		return nil, retriever.ZeroHash, "", fmt.Errorf("no file %s", p)
	}
	if _, dup := g.waiting[i]; dup {
		g.reads = append(g.reads, i)
		g.mu.Unlock()
		return []byte(g.content[i]), retriever.ZeroHash, "", nil
	}
	ch := make(chan struct{})
	g.waiting[i] = ch
	g.order = append(g.order, i)
	g.mu.Unlock()
	<-ch
	g.mu.Lock()
	g.reads = append(g.reads, i)
	bad := g.readErr[i]
	g.mu.Unlock()
	if bad {
		return nil, retriever.ZeroHash, "", fmt.Errorf("injected read failure (connection reset)")
	}
	return []byte(g.content[i]), retriever.ZeroHash, "", nil
}

var stackBuf = make([]byte, 4<<20)

// settled: every goroutine of the collection is parked, either in the gate or in errgroup's Wait
func settled() bool {
	n := runtime.Stack(stackBuf, true)
	for _, gr := range strings.Split(string(stackBuf[:n]), "\n\n") {
		if !strings.Contains(gr, "pkg/parse.") && !strings.Contains(gr, "errgroup") {
			continue
		}
		nl := strings.IndexByte(gr, '\n')
		if nl < 0 {
			return false
		}
		hdr := gr[:nl]
		a, b := strings.IndexByte(hdr, '['), strings.IndexByte(hdr, ']')
		if a < 0 || b < a {
			return false
		}
		st := hdr[a+1 : b]
		if c := strings.IndexByte(st, ','); c >= 0 {
			st = st[:c]
		}
		switch st {
		case "chan receive", "chan send", "select", "chan receive (nil chan)", "chan send (nil chan)", "select (no cases)":
			// in the gate, or parked on some channel of the code under test (a semaphore ...): at rest either
			// way; if nothing can ever wake it the run ends as a hang
		case "semacquire", "sync.WaitGroup.Wait":
			if !strings.Contains(gr, "WaitGroup).Wait") {
				return false
			}
		default:
			return false
		}
	}
	return true
}

// ---------------------------------------------------------------- one run

type Step struct {
	Released int   `json:"released"`
	Blocked  []int `json:"blocked"`
}
type Obs struct {
	B0      []int    `json:"b0"`
	Trace   []Step   `json:"trace"`
	Final   []int    `json:"final"` // processed-file order (printed after flattening, before parseSpecs)
	HasSum  bool     `json:"has_sum"`
	Reads   []int    `json:"reads"`
	Nil     bool     `json:"module_nil"`
	Err     string   `json:"err"`
	Code    int      `json:"code"` // what cmd/sysl would exit with
	Hang    bool     `json:"hang"`
	Early   bool     `json:"early"`
	Unknown []string `json:"unknown"`
	Widths  []int    `json:"widths"`
	Crash   string   `json:"crash"`
	Skipped bool     `json:"skipped"`
}

type Chooser struct {
	Kind string `json:"kind"` // oldest | newest | random | list | prefix
	Seed uint64 `json:"seed,omitempty"`
	List []int  `json:"list,omitempty"`
}

func (ch Chooser) fn() func(blocked []int, step int) int {
	switch ch.Kind {
	case "newest":
		return func(b []int, _ int) int { return b[len(b)-1] }
	case "random":
		rng := common.NewRng(ch.Seed)
		return func(b []int, _ int) int { return b[rng.Intn(len(b))] }
	case "list":
		return func(blocked []int, step int) int {
			if step < len(ch.List) {
				for _, b := range blocked {
					if b == ch.List[step] {
						return b
					}
				}
			}
			return blocked[0]
		}
	case "prefer": // the oldest blocked read of a listed file, else the oldest
		return func(b []int, _ int) int {
			for _, x := range b {
				for _, y := range ch.List {
					if x == y {
						return x
					}
				}
			}
			return b[0]
		}
	case "avoid": // the oldest blocked read of a file NOT listed, else the oldest
		return func(b []int, _ int) int {
			for _, x := range b {
				listed := false
				for _, y := range ch.List {
					if x == y {
						listed = true
					}
				}
				if !listed {
					return x
				}
			}
			return b[0]
		}
	case "prefix":
		return func(b []int, step int) int {
			sorted := append([]int{}, b...)
			sort.Ints(sorted)
			if step < len(ch.List) {
				return sorted[ch.List[step]%len(sorted)]
			}
			return sorted[0]
		}
	}
	return func(b []int, _ int) int { return b[0] }
}

type Job struct {
	Spec Spec    `json:"spec"`
	Ch   Chooser `json:"ch"`
	Dl   int     `json:"deadline_s,omitempty"`
}

var lockDeadline = 10 * time.Second

func sortedKeys(m map[int]chan struct{}) []int {
	var k []int
	for x := range m {
		k = append(k, x)
	}
	sort.Ints(k)
	return k
}

func lockstep(s *Spec, choose func([]int, int) int) Obs {
	rd := &gate{Fs: afero.NewMemMapFs(), byPath: map[string]int{}, waiting: map[int]chan struct{}{}, readErr: map[int]bool{}}
	for i := 0; i < s.n(); i++ {
		rd.byPath[s.path(i)] = i
		rd.content = append(rd.content, s.content(i))
		if s.Faults[i] == "read" {
			rd.readErr[i] = true
		}
	}
	done := make(chan struct{})
	var o Obs
	var perr error
	var files []string
	var gotSum bool
	var isNil bool
	go func() {
		p := parse.NewParser()
		p.Set(parse.Settings{MaxImportDepth: s.Max, OperationSummary: true})
		pr, pw, _ := os.Pipe()
		old := os.Stdout
		os.Stdout = pw
		m, err := p.Parse(s.path(0), rd)
		os.Stdout = old
		pw.Close()
		raw, _ := io.ReadAll(pr)
		pr.Close()
		var sum struct {
			FilesProcessed []string `json:"filesProcessed"`
		}
		if at := strings.Index(string(raw), "{"); at >= 0 && json.NewDecoder(strings.NewReader(string(raw[at:]))).Decode(&sum) == nil {
			gotSum = true
			files = sum.FilesProcessed
		}
		perr, isNil = err, m == nil
		close(done)
	}()
	deadline := time.Now().Add(lockDeadline)
	wait := func() bool {
		pause := 40 * time.Microsecond
		runtime.Gosched()
		for {
			select {
			case <-done:
				return false
			default:
			}
			if settled() {
				rd.mu.Lock()
				nw := len(rd.waiting)
				rd.mu.Unlock()
				if nw > 0 {
					return true
				}
			}
			time.Sleep(pause)
			if pause < 2*time.Millisecond {
				pause = pause * 3 / 2
			} else if time.Now().After(deadline) {
				o.Hang = true
				return false
			}
		}
	}
	if wait() {
		rd.mu.Lock()
		o.B0 = sortedKeys(rd.waiting)
		rd.mu.Unlock()
		for step := 0; ; step++ {
			rd.mu.Lock()
			var arr []int
			for _, i := range rd.order {
				if _, ok := rd.waiting[i]; ok {
					arr = append(arr, i)
				}
			}
			o.Widths = append(o.Widths, len(arr))
			pick := choose(arr, step)
			ch := rd.waiting[pick]
			delete(rd.waiting, pick)
			rd.mu.Unlock()
			close(ch)
			more := wait()
			rd.mu.Lock()
			o.Trace = append(o.Trace, Step{pick, sortedKeys(rd.waiting)})
			rd.mu.Unlock()
			if !more {
				break
			}
		}
	}
	if o.Hang {
		return o
	}
	<-done
	rd.mu.Lock()
	if len(rd.waiting) > 0 {
		o.Early = true
		for i, ch := range rd.waiting {
			close(ch)
			delete(rd.waiting, i)
		}
	}
	o.Reads = append([]int{}, rd.reads...)
	o.Unknown = append([]string{}, rd.unknown...)
	rd.mu.Unlock()
	o.HasSum = gotSum
	for _, f := range files {
		if i, ok := rd.byPath[f]; ok {
			o.Final = append(o.Final, i)
		} else {
			o.Final = append(o.Final, -1)
		}
	}
	o.Nil = isNil
	if perr != nil {
		o.Err = perr.Error()
		o.Code = 1
		if ex, ok := perr.(syslutil.Exit); ok {
			o.Code = ex.Code
		}
	}
	return o
}

func serve(line []byte) interface{} {
	var j Job
	if err := json.Unmarshal(line, &j); err != nil {
		return Obs{Err: "bad job: " + err.Error()}
	}
	if j.Dl > 0 {
		lockDeadline = time.Duration(j.Dl) * time.Second
	}
	return lockstep(&j.Spec, j.Ch.fn())
}

var worker *common.Worker
var nBad int

const maxBad = 4

func runJob(j Job) Obs {
	if nBad >= maxBad {
		return Obs{Skipped: true}
	}
	o := callWorker(j, 40*time.Second)
	if o.Hang {
		// a hang is judged by a deadline: run the case once more in a fresh process with three times the
		// time, and report it only if it does not return then either
		worker.Close()
		j.Dl = 30
		o2 := callWorker(j, 100*time.Second)
		if !o2.Hang {
			hangsNotReproduced++
			o = o2
		} else {
			worker.Close()
		}
	}
	if o.Hang || o.Crash != "" {
		nBad++
	}
	return o
}

var hangsNotReproduced int

func callWorker(j Job, limit time.Duration) Obs {
	var o Obs
	died, timedOut, stderr := worker.Call(j, &o, limit)
	if died {
		return Obs{Crash: common.PanicSite(stderr)}
	}
	if timedOut {
		return Obs{Hang: true}
	}
	return o
}

// ---------------------------------------------------------------- the error chain

type chain struct {
	wraps []int  // files named by the `error reading "X":` prefixes, outermost first
	base  string // read | syntax | detect | convert | ?
	file  int    // the file the innermost message names (-1: none / unknown)
}

var (
	reReading = regexp.MustCompile(`^error reading "([^"]+)": \n`)
	reSyntax  = regexp.MustCompile(`^(\S+) has syntax errors`)
	reDetect  = regexp.MustCompile(`^error detecting input file format for (\S+)`)
	reConvert = regexp.MustCompile(`^(\S+) (has unknown format|cannot be imported)`)
	reAmbig   = regexp.MustCompile(`^input file format for (\S+) could be one of`)
	reJSON    = regexp.MustCompile(`^error converting spec to yaml for: (\S+)`)
	rePb      = regexp.MustCompile(`^error parsing (\S+): `)
	reMerge   = regexp.MustCompile(`^error merging (\S+): `)
)

func parseChain(s *Spec, text string) chain {
	byPath := map[string]int{}
	for i := 0; i < s.n(); i++ {
		byPath[s.path(i)] = i
	}
	id := func(name string) int {
		if i, ok := byPath[name]; ok {
			return i
		}
		return -1
	}
	c := chain{file: -1, base: "?"}
	rest := text
	for {
		m := reReading.FindStringSubmatch(rest)
		if m == nil {
			break
		}
		c.wraps = append(c.wraps, id(m[1]))
		rest = rest[len(m[0]):]
	}
	switch {
	case strings.HasPrefix(rest, "injected read failure"):
		c.base = "read"
		if len(c.wraps) > 0 {
			c.file = c.wraps[len(c.wraps)-1]
			c.wraps = c.wraps[:len(c.wraps)-1]
		}
	case reSyntax.MatchString(rest):
		c.base, c.file = "syntax", id(reSyntax.FindStringSubmatch(rest)[1])
	case reDetect.MatchString(rest):
		c.base, c.file = "detect", id(reDetect.FindStringSubmatch(rest)[1])
	case reConvert.MatchString(rest):
		c.base, c.file = "convert", id(reConvert.FindStringSubmatch(rest)[1])
	case reAmbig.MatchString(rest):
		c.base, c.file = "ambiguous", id(reAmbig.FindStringSubmatch(rest)[1])
	case reJSON.MatchString(rest):
		c.base, c.file = "json", id(reJSON.FindStringSubmatch(rest)[1])
	case rePb.MatchString(rest):
		c.base, c.file = "pbdecode", id(rePb.FindStringSubmatch(rest)[1])
	case reMerge.MatchString(rest):
		c.base, c.file = "merge", id(reMerge.FindStringSubmatch(rest)[1])
	}
	return c
}

func (c chain) gallina() string {
	var inner string
	switch c.base {
	case "read":
		inner = fmt.Sprintf("(EReadFail %d)", c.file)
	case "syntax":
		inner = fmt.Sprintf("(ESyntax %d)", c.file)
	case "detect":
		inner = fmt.Sprintf("(EDetect %d)", c.file)
	case "convert":
		inner = fmt.Sprintf("(EConvert %d)", c.file)
	case "ambiguous":
		inner = fmt.Sprintf("(EAmbiguous %d)", c.file)
	case "json":
		inner = fmt.Sprintf("(EJson %d)", c.file)
	case "pbdecode":
		inner = fmt.Sprintf("(EPbDecode %d)", c.file)
	case "merge":
		inner = fmt.Sprintf("(EMerge %d)", c.file)
	default:
		return ""
	}
	if c.file < 0 {
		return ""
	}
	for i := len(c.wraps) - 1; i >= 0; i-- {
		if c.wraps[i] < 0 {
			return ""
		}
		inner = fmt.Sprintf("(EWrap %d %s)", c.wraps[i], inner)
	}
	return inner
}

// ---------------------------------------------------------------- oracle

type Replay struct {
	Spec     Spec              `json:"spec"`
	Releases []int             `json:"releases"`
	Files    map[string]string `json:"files"`
}

func mkReplay(s *Spec, rel []int) Replay {
	r := Replay{Spec: *s, Releases: rel, Files: map[string]string{}}
	for i := 0; i < s.n(); i++ {
		c := s.content(i)
		if s.Faults[i] == "read" {
			c = "<read fails>"
		} else if !utf8.ValidString(c) {
			c = fmt.Sprintf("(bytes) %q", c)
		}
		r.Files[s.path(i)] = c
	}
	return r
}

func releasesOf(o Obs) []int {
	var r []int
	for _, st := range o.Trace {
		r = append(r, st.Released)
	}
	return r
}

func judge(c *common.Ctx, s *Spec, o Obs, rp Replay) {
	var fl []string
	for _, i := range sortedFaults(s) {
		fl = append(fl, fmt.Sprintf("%s:%s", s.path(i), s.Faults[i]+map[bool]string{true: "(" + s.kind(i) + ")"}[s.fk(i) != ""]))
	}
	where := fmt.Sprintf("root %s, faults %v, releases %v", s.path(0), fl, rp.Releases)
	switch {
	case o.Skipped:
		return
	case o.Crash != "":
		c.Fail("crash:"+o.Crash, "the process died while Parse was running ("+where+"): "+o.Crash, rp)
		return
	case o.Hang:
		c.Fail("hang", "Parse did not return within the deadline ("+where+")", rp)
		return
	case o.Early:
		c.Fail("early-return", "Parse returned while a file read was still in flight ("+where+")", rp)
		return
	case len(o.Unknown) > 0:
		c.Fail("wrong-path", fmt.Sprintf("the reader was asked for %q (%s)", o.Unknown, where), rp)
		return
	}
	// the faulty files that were actually read
	read := map[int]bool{}
	for _, f := range o.Reads {
		read[f] = true
	}
	// hit: must fail; soft: a compiled module that cannot be merged (maybe:*): may fail, and then cleanly
	var hit, soft []int
	for _, i := range sortedFaults(s) {
		if !read[i] {
			continue
		}
		switch k := s.kind(i); {
		case k == "":
			// a cut at a declaration boundary: a complete, shorter file
		case k == "cut-other":
			c.Hist("unclassified-cut-not-judged")
			return
		case isSoft(k):
			soft = append(soft, i)
		default:
			hit = append(hit, i)
		}
	}
	errLine := strings.ReplaceAll(strings.TrimSpace(o.Err), "\n", " ")
	if len(hit) == 0 {
		if o.Err == "" && !o.Nil {
			return
		}
		if len(soft) == 0 {
			c.Fail("spurious-error", fmt.Sprintf("no faulty file was read, yet Parse failed: %s (%s)", errLine, where), rp)
			return
		}
		c.Hist("unmergeable-module-rejected")
		hit, soft = soft, nil // a permitted failure: it must name one of these files, without a module
	}
	kinds := map[string]bool{}
	for _, i := range hit {
		kinds[s.kind(i)] = true
	}
	var ks []string
	for k := range kinds {
		ks = append(ks, k)
	}
	sort.Strings(ks)
	if o.Err == "" {
		c.Fail("fault-swallowed:"+strings.Join(ks, "+"), fmt.Sprintf("faulty files were read but Parse returned no error (module nil: %v) (%s)", o.Nil, where), rp)
		return
	}
	if !o.Nil {
		c.Fail("module-with-error", fmt.Sprintf("Parse returned an error AND a module: %s (%s)", errLine, where), rp)
		return
	}
	named := false
	for _, i := range append(append([]int{}, hit...), soft...) {
		if strings.Contains(o.Err, s.path(i)) {
			named = true
		}
	}
	if !named {
		c.Fail("error-names-no-faulty-file:"+strings.Join(ks, "+"), fmt.Sprintf("the error %q names none of the faulty files that were read (%s)", errLine, where), rp)
		return
	}
	if o.Code != 1 && o.Code != 2 {
		c.Fail("exit-status", fmt.Sprintf("exit status %d for %q (%s)", o.Code, errLine, where), rp)
	}
}

// the files that carry a fault; a file whose extension no format lists is faulty whatever it holds
func sortedFaults(s *Spec) []int {
	var k []int
	for i := range s.Faults {
		k = append(k, i)
	}
	for i := 0; i < len(s.Kind); i++ {
		if _, has := s.Faults[i]; !has && s.Kind[i] != "" && fkinds[s.Kind[i]].family == "other" {
			k = append(k, i)
		}
	}
	sort.Ints(k)
	return k
}

// ---------------------------------------------------------------- Gallina

func gInts(l []int) string {
	it := make([]string, len(l))
	for i, x := range l {
		it[i] = fmt.Sprint(x)
	}
	return "[" + strings.Join(it, ";") + "]"
}

var faultCtor = map[string]string{"cut-header": "BodySyntax", "read": "ReadErr", "imports": "ImportSyntax", "body": "BodySyntax", "trunc": "BodySyntax",
	"detect": "ForeignDetect", "convert": "ForeignConvert"}

func gCase(s *Spec, o Obs) string {
	g := s.graph()
	it := make([]string, len(g))
	for i, l := range g {
		it[i] = fmt.Sprintf("(%d,%s)", i, gInts(l))
	}
	var fl []string
	ctor := "FLock"
	if len(s.Kind) > 0 {
		// the fault of each file is computed by the dispatch model from its description
		ctor = "FLockD"
		for i := 0; i < s.n(); i++ {
			d, ok := s.gDesc(i)
			if !ok {
				return ""
			}
			fl = append(fl, fmt.Sprintf("(%d,%s)", i, d))
		}
	} else {
		for _, i := range sortedFaults(s) {
			switch k := s.kind(i); k {
			case "":
			case "cut-other":
				return ""
			default:
				fl = append(fl, fmt.Sprintf("(%d,%s)", i, faultCtor[k]))
			}
		}
	}
	tr := make([]string, len(o.Trace))
	for i, st := range o.Trace {
		tr[i] = fmt.Sprintf("(%d,%s)", st.Released, gInts(st.Blocked))
	}
	var obs string
	if o.Err == "" {
		obs = "OModel " + gInts(o.Final)
	} else {
		ch := parseChain(s, o.Err).gallina()
		if ch == "" {
			return ""
		}
		obs = fmt.Sprintf("OError %s %d", ch, o.Code)
	}
	return fmt.Sprintf(ctor+" [%s] [%s] %d%%nat 0 %s [%s] (%s)", strings.Join(it, ";"), strings.Join(fl, ";"), s.Max, gInts(o.B0), strings.Join(tr, ";"), obs)
}

// ---------------------------------------------------------------- generators

func genGraph(r *common.Rng, maxN int) *Spec {
	n := 1 + r.Intn(maxN)
	s := &Spec{Dirs: make([][]string, n), Imps: make([][]Imp, n), Foreign: make([]bool, n), Faults: map[int]string{}}
	pool := [][]string{{}, {}, {"d"}, {"d", "e"}, {"k"}}
	flat := r.Chance(1, 2)
	for i := range s.Dirs {
		if flat || i == 0 {
			s.Dirs[i] = []string{}
		} else {
			s.Dirs[i] = pool[r.Intn(len(pool))]
		}
	}
	back := r.Intn(3)
	for i := 0; i < n; i++ {
		k := r.Intn(4)
		for j := 0; j < k; j++ {
			var to int
			switch {
			case r.Intn(10) < back:
				to = r.Intn(i + 1)
			case i+1 < n:
				to = i + 1 + r.Intn(n-i-1)
			default:
				to = r.Intn(n)
			}
			s.Imps[i] = append(s.Imps[i], Imp{to, r.Intn(5)})
		}
	}
	// foreign leaves (Appendix B: a foreign-format import that fails conversion, with healthy siblings)
	nf := r.Intn(3)
	for j := 0; j < nf; j++ {
		id := s.n()
		s.Dirs = append(s.Dirs, pool[r.Intn(len(pool))])
		if flat {
			s.Dirs[id] = []string{}
		}
		s.Imps = append(s.Imps, nil)
		s.Foreign = append(s.Foreign, true)
		np := 1 + r.Intn(2)
		for k := 0; k < np; k++ {
			p := r.Intn(n)
			s.Imps[p] = append(s.Imps[p], Imp{id, r.Intn(2)})
		}
	}
	if r.Chance(1, 6) {
		s.Max = 1 + r.Intn(n+1)
	}
	return s
}

// genWide: the root imports 6-12 files, 4-8 of them fail (read error, some unparsable import lines), in random
// positions; healthy ones have children of their own that are still to be read after the failures
func genWide(r *common.Rng) *Spec {
	k := 6 + r.Intn(7)
	s := &Spec{Dirs: [][]string{{}}, Imps: [][]Imp{nil}, Foreign: []bool{false}, Faults: map[int]string{}}
	add := func(parent int) int {
		id := s.n()
		s.Dirs = append(s.Dirs, []string{})
		s.Imps = append(s.Imps, nil)
		s.Foreign = append(s.Foreign, false)
		s.Imps[parent] = append(s.Imps[parent], Imp{id, r.Intn(5)})
		return id
	}
	var kids []int
	for j := 0; j < k; j++ {
		kids = append(kids, add(0))
	}
	nf := 4 + r.Intn(5)
	if nf > k-1 {
		nf = k - 1
	}
	perm := append([]int{}, kids...)
	for i := len(perm) - 1; i > 0; i-- {
		j := r.Intn(i + 1)
		perm[i], perm[j] = perm[j], perm[i]
	}
	for _, f := range perm[:nf] {
		if r.Chance(1, 5) {
			s.Faults[f] = "imports"
		} else {
			s.Faults[f] = "read"
		}
	}
	for _, h := range perm[nf:] { // deeper files under the healthy ones
		d := add(h)
		if r.Chance(1, 2) {
			add(d)
		}
		if r.Chance(1, 3) {
			e := add(h)
			if r.Chance(1, 3) {
				s.Faults[e] = "read"
			}
		}
	}
	return s
}

func (s *Spec) faultyIDs() []int {
	var l []int
	for _, i := range sortedFaults(s) {
		l = append(l, i)
	}
	return l
}

func (s *Spec) kindsFor(i int) []string {
	if k := s.fk(i); k != "" {
		return foreignFaults(k)
	}
	if s.foreign(i) {
		return []string{"detect", "convert", "read"}
	}
	return []string{"read", "imports", "body", "trunc"}
}

func addFaults(r *common.Rng, s *Spec, k int) {
	for j := 0; j < k; j++ {
		i := r.Intn(s.n())
		if s.foreign(i) || !r.Chance(1, 3) {
			// prefer files the closure reaches: anything, the oracle works from what was actually read
		}
		ks := s.kindsFor(i)
		s.Faults[i] = ks[r.Intn(len(ks))]
		if !s.foreign(i) && r.Chance(1, 3) { // a truncation at a sampled offset of the body
			full, bs := s.healthy(i)
			s.Faults[i] = fmt.Sprintf("cut@%d", bs+1+r.Intn(len(full)-bs-1))
		}
	}
}

// ---------------------------------------------------------------- main

type runner struct {
	c  *common.Ctx
	cs *common.Cases
}

func (r *runner) one(s *Spec, ch Chooser, label string) Obs {
	o := runJob(Job{Spec: *s, Ch: ch})
	r.record(s, label, o)
	return o
}

// record: judge one observed run, count it and print its case
func (r *runner) record(s *Spec, label string, o Obs) {
	if o.Skipped {
		r.c.Hist("skipped-after-crashes")
		return
	}
	rel := releasesOf(o)
	rp := mkReplay(s, rel)
	judge(r.c, s, o, rp)
	read := map[int]bool{}
	for _, f := range o.Reads {
		read[f] = true
	}
	hit := 0
	for _, i := range sortedFaults(s) {
		if k := s.kind(i); read[i] && k != "" && k != "cut-other" {
			hit++
			r.c.Hist("hit:" + k)
		} else if read[i] {
			r.c.Hist("read-with-cut:" + map[string]string{"": "valid-prefix", "cut-other": "unclassified"}[k])
		}
	}
	b, _ := json.Marshal(s)
	r.c.Count(string(b)+"|"+gInts(rel), hit > 0 && len(o.Trace) > 1)
	r.c.Hist("schedule:" + label)
	r.c.Hist(fmt.Sprintf("faults-hit:%d", hit))
	if o.Err != "" {
		r.c.Hist("outcome:error:" + parseChain(s, o.Err).base + fmt.Sprintf(":status%d", o.Code))
	} else {
		r.c.Hist("outcome:module")
	}
	if o.Crash == "" && !o.Hang && !o.Early {
		if t := gCase(s, o); t != "" {
			r.cs.Add(t, rp)
		} else {
			r.c.Hist("not-sent-to-coq:unrecognised-error-text-or-unclassified-content")
		}
	}
}

func clone(s *Spec) *Spec {
	b, _ := json.Marshal(s)
	var t Spec
	_ = json.Unmarshal(b, &t)
	if t.Faults == nil {
		t.Faults = map[int]string{}
	}
	return &t
}

func main() {
	logrus.SetOutput(io.Discard)
	if common.IsWorker() {
		debug.SetMaxStack(64 << 20)
		common.ServeWorker(serve)
		return
	}
	worker = common.NewWorker()
	defer worker.Close()
	c := common.Setup("C06")
	defer c.Finish()
	defer func() {
		c.Res.Extra["hangs_not_reproduced_on_retry"] = hangsNotReproduced
		if hangsNotReproduced > 0 {
			c.Res.Notes = append(c.Res.Notes, fmt.Sprintf("%d run(s) exceeded the 10 s deadline once and completed normally when repeated with 30 s (machine load); they are judged on the repeated run", hangsNotReproduced))
		}
	}()
	c.Res.Rule = "each case = (import graph incl. foreign leaves of every kind an import accepts: .yaml/.yml/.json OpenAPI 2 and 3, .proto, .pb, .pb.json, .textpb, extensions no format lists; faults injected into chosen files: read error / unparsable import lines / syntax error / truncation at a byte offset / empty / content of another kind / two format signatures / undecodable payload / not JSON / import without `as`, --max-import-depth, one completion order of the reads driven through the real parse.Parser.Parse by the gate reader, in a worker subprocess); also importer.GuessFileType and pbutil.FromPBByteContents called directly on random names and contents, and the real binary (sysl pb / validate / import) on closures written to disk; distinct = distinct (input, release order); non-trivial = a faulty file was read and at least two reads were released (direct calls: a format, an ambiguity or a decoder was selected; binary: the closure is faulty)"
	header := `From Coq Require Import List NArith Bool. Import ListNotations.
From Coq Require Import String.
Require Import Verif.Base.Harness Verif.Imports.Rules Verif.Imports.Collect Verif.Imports.Faults Verif.Imports.ForeignTypes Verif.Imports.Foreign Verif.Imports.RunFaults Verif.Gen.ImportRules Verif.Gen.FaultArms.
Local Open Scope string_scope.
Local Open Scope N_scope.`
	footer := `Definition M := Eval vm_compute in mismatches (c06_ok current_rules current_tables) cases. Print M.`
	r := &runner{c: c, cs: c.NewCases("C06", header, "c06_case", footer, 300)}
	defer r.cs.Close()

	if c.Replay != "" {
		var rp Replay
		if err := common.LoadReplay(c.Replay, &rp); err != nil {
			fmt.Fprintln(os.Stderr, err)
			os.Exit(3)
		}
		s := &rp.Spec
		if s.Faults == nil {
			s.Faults = map[int]string{}
		}
		o := r.one(s, Chooser{Kind: "list", List: rp.Releases}, "replay")
		fmt.Printf("replay: files=%d faults=%v releases=%v\n  reads=%v module_nil=%v status=%d\n  error=%q\n  failures=%d\n", s.n(), s.Faults, rp.Releases, o.Reads, o.Nil, o.Code, o.Err, len(c.Res.Failures))
		for _, f := range c.Res.Failures {
			fmt.Println("  " + f.Key + ": " + f.What)
		}
		return
	}

	// R3. deepen round 3 (foreign.go, streams.go). The slow kinds run on their own subprocesses from the start.
	slow := r.slowTasks()
	slowDone := make(chan struct{})
	go func() {
		defer close(slowDone)
		var wg sync.WaitGroup
		for _, t := range slow {
			t := t
			wg.Add(1)
			go func() {
				defer wg.Done()
				w := common.NewWorker()
				defer w.Close()
				t.run(w)
			}()
			if c.Thorough() {
				wg.Wait() // thorough: one at a time (24 more closures), quick: the six closures side by side
			}
		}
		wg.Wait()
	}()
	cliDone := r.cli()
	var ts []*task
	all := func(s *Spec, limit int) { ts = append(ts, &task{s: s, label: "enumerated", all: limit}) }
	one := func(s *Spec, ch Chooser, label string) { ts = append(ts, &task{s: s, label: label, ch: ch}) }

	// 0. corpus: the three probed shapes of the design round + a failing foreign import with healthy siblings
	diamond := &Spec{Dirs: [][]string{{}, {}, {}, {}, {}}, Foreign: []bool{false, false, false, false, true},
		Imps: [][]Imp{{{1, 0}, {2, 0}, {4, 0}}, {{3, 0}}, {{3, 1}}, {}, nil}, Faults: map[int]string{}}
	for _, f := range []struct {
		i int
		k string
	}{{3, "read"}, {3, "imports"}, {3, "body"}, {3, "trunc"}, {4, "detect"}, {4, "convert"}, {0, "read"}, {0, "imports"}, {0, "body"}, {1, "read"}} {
		t := clone(diamond)
		t.Faults[f.i] = f.k
		all(t, 60)
	}
	all(diamond, 60)

	// 0b. truncation at EVERY byte offset of the body of a non-root file and of the last two declarations of the root
	for _, f := range []int{3, 0} {
		full, bs := diamond.healthy(f)
		from := bs + 1
		if f == 0 {
			from = strings.Index(full, "    !type")
		}
		for n := from; n < len(full); n++ {
			t := clone(diamond)
			t.Faults[f] = fmt.Sprintf("cut@%d", n)
			one(t, Chooser{Kind: "oldest"}, "cut-enumeration")
		}
	}
	// 0c. wide fan-outs with many failing reads and work left afterwards: failures first, failures last, random
	nWide := 10
	if c.Thorough() {
		nWide = 120
	}
	for i := 0; i < nWide; i++ {
		w := genWide(c.Rng)
		one(w, Chooser{Kind: "prefer", List: w.faultyIDs()}, "failures-first")
		one(w, Chooser{Kind: "avoid", List: w.faultyIDs()}, "failures-last")
		one(w, Chooser{Kind: "random", Seed: c.Rng.Uint64()}, "random")
		one(w, Chooser{Kind: "newest"}, "newest-first")
	}

	nRand, nSched, maxN, matrixN := 90, 2, 6, 5
	if c.Thorough() {
		nRand, nSched, maxN, matrixN = 1000, 4, 8, 40
	}
	if c.Search {
		nRand, nSched, matrixN = nRand*3, nSched+2, matrixN*2
	}
	// 1. fault matrix: every single file x every fault kind x every delivery position (= every schedule)
	for m := 0; m < matrixN; m++ {
		base := genGraph(c.Rng, 4)
		for i := 0; i < base.n(); i++ {
			for _, k := range base.kindsFor(i) {
				t := clone(base)
				t.Faults[i] = k
				all(t, 40)
			}
		}
	}
	c.Res.Extra["fault_matrix_graphs"] = matrixN
	// 2. random graphs, 0-3 faults, a few schedules each
	for i := 0; i < nRand; i++ {
		s := genGraph(c.Rng, maxN)
		addFaults(c.Rng, s, c.Rng.Intn(4))
		if s.n() <= 4 && c.Rng.Chance(1, 3) {
			all(s, 80)
		} else {
			t := &task{s: s, label: "oldest-first", ch: Chooser{Kind: "oldest"}}
			for k := 0; k < nSched; k++ {
				t.some = append(t.some, c.Rng.Uint64())
			}
			ts = append(ts, t)
		}
		if i < 3 {
			c.Sample(map[string]interface{}{"faults": s.Faults, "files": mkReplay(s, nil).Files})
		}
	}
	// 3. foreign kinds x fault classes x positions; truncation of foreign files at every byte; several faulty files
	ts = append(ts, r.foreignMatrix()...)
	ts = append(ts, r.foreignCuts()...)
	ts = append(ts, r.multiFault()...)
	t0 := time.Now()
	r.runTasks(ts, 8)
	t1 := time.Now()
	// 4. the dispatch functions called directly; 5. the real binary; then the slow closures
	r.dispatchCases()
	t2 := time.Now()
	cliDone()
	t3 := time.Now()
	<-slowDone
	r.recordTasks(slow)
	c.Res.Extra["seconds"] = map[string]float64{"closures_on_8_workers": t1.Sub(t0).Seconds(), "direct_dispatch": t2.Sub(t1).Seconds(), "binary": t3.Sub(t2).Seconds(), "waiting_for_slow_kinds": time.Since(t3).Seconds()}
}
