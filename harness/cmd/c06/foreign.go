// Foreign formats in the closure (deepen round 3): every input kind an `import` statement accepts
// (pkg/parse/parse.go parseSpecs + pkg/importer/formats.go GuessFileType + pkg/pbutil/input.go) with faults of every
// class. A file of the Spec has a kind (Spec.Kind[i]); its healthy content, the faulty contents and the STRUCTURAL
// classification of a faulty content (must fail / must compile / not judged) live here. Nothing in this file asks the
// code under test whether a content is good.
package main

import (
	"encoding/json"
	"fmt"
	"regexp"
	"strings"

	"github.com/anz-bank/sysl/pkg/sysl"
	"github.com/ghodss/yaml"
	"google.golang.org/protobuf/encoding/protojson"
	"google.golang.org/protobuf/encoding/prototext"
	"google.golang.org/protobuf/encoding/protowire"
	"google.golang.org/protobuf/proto"

	"verifharness/common"
)

type fkind struct {
	ext    string
	family string // oas2 | oas3 | proto | pb | pbjson | textpb | other
	json   bool
	slow   bool // the healthy file goes through an arr.ai importer (seconds per file)
}

var fkinds = map[string]fkind{
	"yaml":   {".yaml", "oas2", false, false},
	"yml":    {".yml", "oas2", false, false},
	"json":   {".json", "oas2", true, false},
	"yaml3":  {".yaml", "oas3", false, true},
	"yml3":   {".yml", "oas3", false, true},
	"json3":  {".json", "oas3", true, true},
	"proto":  {".proto", "proto", false, true},
	"pb":     {".pb", "pb", false, false},
	"pbjson": {".pb.json", "pbjson", false, false},
	"textpb": {".textpb", "textpb", false, false},
	"xsd":    {".xsd", "other", false, false},
	"txt":    {".txt", "other", false, false},
	"bak":    {".yaml.bak", "other", false, false},
	"avsc":   {".avsc", "other", false, false},
}

var fastKinds = []string{"yaml", "yml", "json", "pb", "pbjson", "textpb", "xsd", "txt", "bak", "avsc"}

func (s *Spec) fk(i int) string {
	if i < len(s.Kind) {
		return s.Kind[i]
	}
	return ""
}

// ---------------------------------------------------------------- healthy contents

func pbModule(i int) *sysl.Module {
	app := func(n string) *sysl.Application {
		return &sysl.Application{Name: &sysl.AppName{Part: []string{n}},
			Types: map[string]*sysl.Type{"T": {Type: &sysl.Type_Primitive_{Primitive: sysl.Type_INT}}}}
	}
	a, b := fmt.Sprintf("Pb%d", i), fmt.Sprintf("Pc%d", i)
	return &sysl.Module{Apps: map[string]*sysl.Application{a: app(a), b: app(b)}}
}

func healthyForeign(kind string, i int) string {
	k := fkinds[kind]
	switch k.family {
	case "oas2":
		if k.json {
			return "{\"swagger\": \"2.0\", \"info\": {\"title\": \"T\", \"version\": \"1\"}, \"paths\": {}}\n"
		}
		return goodYaml
	case "oas3":
		if k.json {
			return "{\"openapi\": \"3.0.0\", \"info\": {\"title\": \"T\", \"version\": \"1\"}, \"paths\": {}}\n"
		}
		return "openapi: \"3.0.0\"\ninfo:\n  title: T\n  version: \"1\"\npaths: {}\n"
	case "proto":
		return fmt.Sprintf("syntax = \"proto3\";\npackage foo%d;\nmessage M {\n  string a = 1;\n}\n", i)
	case "pb":
		b, _ := proto.MarshalOptions{Deterministic: true}.Marshal(pbModule(i))
		return string(b)
	case "pbjson":
		// written by hand: protojson's output spacing is deliberately unstable
		return fmt.Sprintf("{\"apps\": {\"Pb%d\": {\"name\": {\"part\": [\"Pb%d\"]}, \"types\": {\"T\": {\"primitive\": \"INT\"}}}}}\n", i, i)
	case "textpb":
		return fmt.Sprintf("apps: {\n  key: \"Pb%d\"\n  value: {\n    name: {part: \"Pb%d\"}\n  }\n}\napps: {\n  key: \"Pc%d\"\n  value: {}\n}\n", i, i, i)
	}
	return "<xs:schema xmlns:xs=\"http://www.w3.org/2001/XMLSchema\"/>\n"
}

// ---------------------------------------------------------------- faults

// the fault classes a file of this kind can be given (besides cut@N)
func foreignFaults(kind string) []string {
	switch fkinds[kind].family {
	case "oas2", "oas3":
		l := []string{"read", "empty", "wrong", "twosig", "undecodable", "noapp"}
		if fkinds[kind].family == "oas2" {
			// noitems: a definition of type array without items (Swagger 2.0 requires items): no demand, crash watched
			// invalid: a path with a line break, converted into Sysl text that does not parse: no demand, model compared
			l = append(l, "noitems", "invalid")
		}
		if fkinds[kind].json {
			l = append(l, "badjson", "schema")
		}
		return l
	case "proto":
		return []string{"read", "empty", "undecodable"}
	case "pb":
		return []string{"read", "empty", "wrong", "undecodable", "mergepanic", "mergeerr"}
	case "pbjson":
		return []string{"read", "empty", "wrong", "undecodable", "unknownfield", "mergepanic", "mergeerr"}
	case "textpb":
		return []string{"read", "empty", "wrong", "undecodable", "mergepanic", "mergeerr"}
	}
	return []string{"read", "empty", "wrong"}
}

// unmergeable: a well-formed compiled module that gives the application Common of the root file (`Common [e="",
// a=["a"]]:`, main.go healthy) an attribute of ANOTHER Go type than the text: mergepanic = e is an array (the text has
// the empty string: mergo assigns by reflection and panics), mergeerr = a is a string (the text has an array: mergo
// returns "src and dst must be of same type"). Whether such a closure should compile is not ours to say (maybe:*): if
// it fails it must fail cleanly, naming the file.
func unmergeable(family, fault string) string {
	arr := fault == "mergepanic"
	switch family {
	case "pb":
		at := map[string]*sysl.Attribute{"a": {Attribute: &sysl.Attribute_S{S: "v"}}}
		if arr {
			at = map[string]*sysl.Attribute{"e": {Attribute: &sysl.Attribute_A{A: &sysl.Attribute_Array{
				Elt: []*sysl.Attribute{{Attribute: &sysl.Attribute_S{S: "v"}}}}}}}
		}
		m := &sysl.Module{Apps: map[string]*sysl.Application{"Common": {Name: &sysl.AppName{Part: []string{"Common"}}, Attrs: at}}}
		b, _ := proto.MarshalOptions{Deterministic: true}.Marshal(m)
		return string(b)
	case "pbjson":
		if arr {
			return "{\"apps\": {\"Common\": {\"name\": {\"part\": [\"Common\"]}, \"attrs\": {\"e\": {\"a\": {\"elt\": [{\"s\": \"v\"}]}}}}}}\n"
		}
		return "{\"apps\": {\"Common\": {\"name\": {\"part\": [\"Common\"]}, \"attrs\": {\"a\": {\"s\": \"v\"}}}}}\n"
	}
	if arr {
		return "apps: {\n  key: \"Common\"\n  value: {\n    name: {part: \"Common\"}\n    attrs: {\n      key: \"e\"\n      value: {a: {elt: {s: \"v\"}}}\n    }\n  }\n}\n"
	}
	return "apps: {\n  key: \"Common\"\n  value: {\n    name: {part: \"Common\"}\n    attrs: {\n      key: \"a\"\n      value: {s: \"v\"}\n    }\n  }\n}\n"
}

func isSoft(class string) bool { return strings.HasPrefix(class, "maybe:") }

func foreignContent(kind string, i int, fault string) string {
	k := fkinds[kind]
	h := healthyForeign(kind, i)
	if fault == "mergepanic" || fault == "mergeerr" {
		return unmergeable(k.family, fault)
	}
	if n, ok := cutAt(fault); ok {
		if n < len(h) {
			return h[:n]
		}
		return h
	}
	switch fault {
	case "empty":
		return ""
	case "wrong": // healthy content of another kind
		switch k.family {
		case "oas2", "oas3":
			if k.json {
				return "{\"name\": \"nothing\", \"kind\": \"unknown\"}\n"
			}
			return "A:\n    ...\n"
		case "pb":
			return healthyForeign("pbjson", i)
		case "pbjson":
			return healthyForeign("textpb", i)
		case "textpb":
			return healthyForeign("pbjson", i)
		}
		return goodYaml
	case "twosig":
		if k.json {
			return "{\"swagger\": \"2.0\", \"openapi\": \"3.0.0\", \"info\": {\"title\": \"T\", \"version\": \"1\"}, \"paths\": {}}\n"
		}
		if k.family == "oas3" {
			return "openapi: \"3.0.0\"\n'swagger' : \"2.0\"\ninfo:\n  title: T\n  version: \"1\"\npaths: {}\n"
		}
		return "swagger: \"2.0\"\n\"openapi\"\t: \"3.0.0\"\ninfo:\n  title: T\n  version: \"1\"\npaths: {}\n"
	case "undecodable":
		switch k.family {
		case "oas2":
			if k.json {
				return "{\"swagger\": \"2.0\", \"info\": [1, 2], \"paths\": 7}\n"
			}
			return "swagger: \"2.0\"\ninfo:\n  title: [T\npaths: {{{\n"
		case "oas3":
			if k.json {
				return "{\"openapi\": \"3.0.0\", \"info\": [1, 2], \"paths\": 7}\n"
			}
			return "openapi: \"3.0.0\"\ninfo:\n  title: [T\npaths: {{{\n"
		case "proto":
			return "syntax = \"proto3\";\nmessage M {\n  this is { not proto\n"
		case "pb":
			return h[:3] + "\xff\xff\xff\xff\xff\xff\xff\xff\xff\xff\xff" + h[3:]
		case "pbjson":
			return strings.Replace(h, "\"INT\"", "\"NO_SUCH_PRIMITIVE\" \"x\"", 1)
		case "textpb":
			return strings.Replace(h, "part: ", "part: {{ ", 1)
		}
	case "noitems":
		if k.json {
			return "{\"swagger\": \"2.0\", \"info\": {\"title\": \"T\", \"version\": \"1\"}, \"paths\": {}, \"definitions\": {\"A\": {\"type\": \"array\"}}}\n"
		}
		return goodYaml + "definitions:\n  A:\n    type: array\n"
	case "invalid":
		if k.json {
			return "{\"swagger\": \"2.0\", \"info\": {\"title\": \"T\", \"version\": \"1\"}, \"paths\": {\"/a b/{x y}\\n\": {\"get\": {\"responses\": {\"200\": {\"description\": \"ok\"}}}}}}\n"
		}
		return "swagger: \"2.0\"\ninfo: {title: T, version: \"1\"}\npaths:\n  \"/a b/{x y}\\n\":\n    get:\n      responses:\n        200: {description: ok}\n"
	case "badjson":
		return h[:len(h)-3] + ",\n"
	case "schema":
		return strings.Replace(h, "{", "{\"$schema\": \"http://json-schema.org/draft-07/schema#\", ", 1)
	case "unknownfield":
		return "{\"nothing\": 1}\n"
	}
	return h
}

var (
	reOpenapi = regexp.MustCompile(`["']?openapi["']?\s*:`)
	reSwagger = regexp.MustCompile(`["']?swagger["']?\s*:`)
)

// wireOK: the bytes are a sequence of well-formed protobuf fields at the top level
func wireOK(b []byte) bool {
	for len(b) > 0 {
		_, _, n := protowire.ConsumeField(b)
		if n < 0 {
			return false
		}
		b = b[n:]
	}
	return true
}

// wireBoundary: n is the end of a top-level field of b
func wireBoundary(b []byte, n int) bool {
	at := 0
	for at < n {
		_, _, k := protowire.ConsumeField(b[at:])
		if k < 0 {
			return false
		}
		at += k
	}
	return at == n
}

// textDepth: nesting depth of { } at the end of s (text format; no braces inside the strings we generate);
// inString: the cut lies inside a quoted string
func textDepth(s string) (depth int, inString bool) {
	for i := 0; i < len(s); i++ {
		switch s[i] {
		case '"':
			inString = !inString
		case '{':
			if !inString {
				depth++
			}
		case '}':
			if !inString {
				depth--
			}
		}
	}
	return
}

// foreignClass classifies the content a (kind, fault) pair produces, STRUCTURALLY:
//
//	""          a complete, valid file of its kind: the closure must compile
//	"cut-other" no demand either way (crash / hang still watched, not sent to Coq)
//	maybe:*     a compiled module that cannot be merged into what the root file declares: no demand on success, but a
//	            failure must be clean (an error naming the file, no module, never a crash); the model says: fails
//	else        a label: the compile must fail naming the file
//
// pay: what the model is told about the payload ("ok" | "undecodable")
func foreignClass(kind string, i int, fault string, noApp bool) (class, pay string) {
	k := fkinds[kind]
	if fault == "read" {
		return "read", "ok"
	}
	if fault == "mergepanic" {
		return "maybe:unmergeable-empty", "invalid"
	}
	if fault == "mergeerr" {
		return "maybe:unmergeable-kind", "invalid"
	}
	c := foreignContent(kind, i, fault)
	h := healthyForeign(kind, i)
	_, isCut := cutAt(fault)
	switch k.family {
	case "other":
		return "noformat", "ok" // no parser format lists the extension, whatever the content
	case "oas2", "oas3":
		if k.json && !json.Valid([]byte(c)) {
			if strings.TrimSpace(c) == "" {
				return "nosig", "ok"
			}
			return "badjson", "ok"
		}
		o, w := reOpenapi.MatchString(c), reSwagger.MatchString(c)
		switch {
		case o && w:
			return "twosig", "ok"
		case !o && !w:
			return "nosig", "ok"
		}
		if fault == "schema" {
			return "cut-other", "ok" // a swagger file with a $schema key: no demand (the model says: fails in importer.Factory)
		}
		if fault == "invalid" {
			return "cut-other", "invalid" // no demand (the model says: the converted text has syntax errors)
		}
		if noApp || fault == "noapp" {
			return "noapp", "ok"
		}
		if fault == "undecodable" {
			return "undecodable", "undecodable"
		}
		if c == h {
			return "", "ok"
		}
		return "cut-other", "?" // a truncation that keeps the signature: YAML prefixes are mostly YAML
	case "proto":
		if c == h {
			return "", "ok"
		}
		if fault == "undecodable" {
			return "undecodable", "undecodable"
		}
		if d, _ := textDepth(c); isCut && d > 0 {
			return "cut-open-brace", "undecodable"
		}
		return "cut-other", "?"
	case "pb":
		b := []byte(c)
		if !wireOK(b) {
			return "pb-malformed", "undecodable"
		}
		if isCut || fault == "empty" {
			n := len(b)
			if wireBoundary([]byte(h), n) {
				return "", "ok" // a prefix of whole top-level fields (the empty message included) is a message
			}
		}
		if c == h {
			return "", "ok"
		}
		return "cut-other", "?"
	case "pbjson":
		if !json.Valid([]byte(c)) {
			return "pbjson-not-json", "undecodable"
		}
		if c == h || strings.TrimSpace(c) == strings.TrimSpace(h) {
			return "", "ok"
		}
		if fault == "unknownfield" || fault == "undecodable" {
			return "pbjson-not-a-module", "undecodable"
		}
		return "cut-other", "?"
	case "textpb":
		if c == h || c == "" {
			return "", "ok"
		}
		d, inStr := textDepth(c)
		if d > 0 || inStr {
			return "textpb-open", "undecodable"
		}
		if strings.HasPrefix(strings.TrimSpace(c), "{") {
			return "textpb-not-text", "undecodable"
		}
		if isCut && d == 0 && strings.HasSuffix(c, "}\n") {
			return "", "ok"
		}
		return "cut-other", "?"
	}
	return "cut-other", "?"
}

// ---------------------------------------------------------------- Gallina

func gStr(s string) string {
	for i := 0; i < len(s); i++ {
		if (s[i] < 0x20 && s[i] != '\n') || s[i] > 0x7e {
			return "(B " + strings.TrimSuffix(common.GBytes(s), "%N") + ")"
		}
	}
	return common.GString(s)
}

func jsonToYaml(c string) (string, bool) {
	y, err := yaml.JSONToYAML([]byte(c))
	if err != nil {
		return "", false
	}
	return string(y), true
}

// gDesc: the description of file i for the dispatch model; ok=false: the payload class is not known structurally
func (s *Spec) gDesc(i int) (string, bool) {
	kind, fault := s.fk(i), s.Faults[i]
	path := s.path(i)
	b := func(x bool) string { return common.GBool(x) }
	if kind == "" {
		// a Sysl file (or a legacy .yaml leaf): the old fault labels
		k := s.kind(i)
		if k == "cut-other" {
			return "", false
		}
		if s.foreign(i) {
			pay := "PayOk"
			if k == "convert" {
				pay = "PayUndecodable"
			}
			return fmt.Sprintf("D %s %s None true %s true %s", gStr(path), gStr(s.content(i)), b(k != "read"), pay), true
		}
		pay := "PayOk"
		if k == "body" || k == "trunc" || k == "cut-header" {
			pay = "PayInvalid"
		}
		return fmt.Sprintf("D %s \"\" None false %s %s %s", gStr(path), b(k != "read"), b(k != "imports"), pay), true
	}
	class, pay := foreignClass(kind, i, fault, false)
	if class == "cut-other" && fault != "schema" && fault != "invalid" {
		return "", false
	}
	content, yml := "", "None"
	if fk := fkinds[kind]; fk.family == "oas2" || fk.family == "oas3" {
		content = foreignContent(kind, i, fault)
		if len(content) > 400 {
			return "", false
		}
		if fk.json {
			if y, ok := jsonToYaml(content); ok {
				yml = "(Some " + gStr(y) + ")"
			}
		}
	}
	p := "PayOk"
	if pay == "undecodable" {
		p = "PayUndecodable"
	} else if pay == "invalid" {
		p = "PayInvalid"
	}
	app := fault != "noapp"
	return fmt.Sprintf("D %s %s %s %s %s true %s", gStr(path), gStr(content), yml, b(app), b(fault != "read"), p), true
}

var _ = protojson.Marshal
var _ = prototext.Marshal
