// Streams of the deepen round 3: foreign kinds x fault classes x positions, truncation at every byte of the compiled-
// model and OpenAPI kinds, the slow (arr.ai) kinds with concurrent conversions, several faulty files at once, the
// dispatch functions called directly, and the exit status of the real binary.
package main

import (
	"bytes"
	"errors"
	"fmt"
	"os"
	"os/exec"
	"path/filepath"
	"regexp"
	"sort"
	"strings"
	"sync"
	"time"

	"github.com/anz-bank/sysl/pkg/importer"
	"github.com/anz-bank/sysl/pkg/pbutil"

	"verifharness/common"
)

// ---------------------------------------------------------------- a pool of worker subprocesses

type task struct {
	s      *Spec
	ch     Chooser
	label  string
	all    int      // > 0: enumerate the completion orders (odometer), at most this many
	dl     int      // deadline in seconds for one Parse (0 = default)
	some   []uint64 // after the first run, if more than one read was released: newest-first and one random order per seed
	out    []Obs
	labels []string
}

var badMu sync.Mutex

func runOn(w *common.Worker, j Job, limit time.Duration) Obs {
	badMu.Lock()
	skip := nBad >= maxBad
	badMu.Unlock()
	if skip {
		return Obs{Skipped: true}
	}
	call := func(lim time.Duration) Obs {
		var o Obs
		died, timedOut, stderr := w.Call(j, &o, lim)
		if died {
			return Obs{Crash: common.PanicSite(stderr)}
		}
		if timedOut {
			return Obs{Hang: true}
		}
		return o
	}
	o := call(limit)
	if o.Hang && j.Dl < 30 {
		w.Close()
		j.Dl = 30
		o2 := call(100 * time.Second)
		if !o2.Hang {
			badMu.Lock()
			hangsNotReproduced++
			badMu.Unlock()
			o = o2
		} else {
			w.Close()
		}
	}
	if o.Hang || o.Crash != "" {
		badMu.Lock()
		nBad++
		badMu.Unlock()
	}
	return o
}

func (t *task) run(w *common.Worker) {
	limit := 40 * time.Second
	if t.dl > 0 {
		limit = time.Duration(t.dl+30) * time.Second
	}
	if t.all == 0 {
		o := runOn(w, Job{Spec: *t.s, Ch: t.ch, Dl: t.dl}, limit)
		t.out, t.labels = []Obs{o}, []string{t.label}
		if t.some != nil && len(o.Trace) > 1 {
			t.out = append(t.out, runOn(w, Job{Spec: *t.s, Ch: Chooser{Kind: "newest"}, Dl: t.dl}, limit))
			t.labels = append(t.labels, "newest-first")
			for _, seed := range t.some {
				t.out = append(t.out, runOn(w, Job{Spec: *t.s, Ch: Chooser{Kind: "random", Seed: seed}, Dl: t.dl}, limit))
				t.labels = append(t.labels, "random")
			}
		}
		return
	}
	var prefix []int
	for {
		o := runOn(w, Job{Spec: *t.s, Ch: Chooser{Kind: "prefix", List: append([]int{}, prefix...)}, Dl: t.dl}, limit)
		t.out = append(t.out, o)
		widths := o.Widths
		for len(prefix) < len(widths) {
			prefix = append(prefix, 0)
		}
		i := len(widths) - 1
		for i >= 0 {
			if prefix[i]+1 < widths[i] {
				prefix[i]++
				prefix = prefix[:i+1]
				break
			}
			i--
		}
		if i < 0 || len(t.out) >= t.all {
			break
		}
	}
}

// runTasks executes the tasks on n worker subprocesses and records the results in task order
func (r *runner) runTasks(tasks []*task, n int) {
	ch := make(chan *task)
	var wg sync.WaitGroup
	for k := 0; k < n; k++ {
		wg.Add(1)
		go func() {
			defer wg.Done()
			w := common.NewWorker()
			defer w.Close()
			for t := range ch {
				t.run(w)
			}
		}()
	}
	for _, t := range tasks {
		ch <- t
	}
	close(ch)
	wg.Wait()
	r.recordTasks(tasks)
}

func (r *runner) recordTasks(tasks []*task) {
	for _, t := range tasks {
		for k, o := range t.out {
			l := t.label
			if k < len(t.labels) {
				l = t.labels[k]
			}
			r.record(t.s, l, o)
		}
	}
}

// ---------------------------------------------------------------- closures around one foreign file

// position 0: root imports [sysl 1, X 2, healthy .yaml 3]; 1: root -> 1 -> X, root -> 3; 2: root -> 1, 3 (sysl), both -> X
func around(kind string, pos int) *Spec {
	s := &Spec{Dirs: [][]string{{}, {"d"}, {"api"}, {}}, Foreign: []bool{false, false, false, false},
		Kind: []string{"", "", kind, "yaml"}, Faults: map[int]string{}}
	switch pos {
	case 0:
		s.Imps = [][]Imp{{{1, 0}, {2, 0}, {3, 1}}, nil, nil, nil}
	case 1:
		s.Imps = [][]Imp{{{1, 1}, {3, 0}}, {{2, 1}}, nil, nil}
	default:
		s.Kind[3] = ""
		s.Imps = [][]Imp{{{1, 2}, {3, 3}}, {{2, 0}}, nil, {{2, 1}}}
	}
	return s
}

func (r *runner) foreignMatrix() []*task {
	kinds := fastKinds
	if !r.c.Thorough() {
		kinds = []string{"yaml", "yml", "json", "pb", "pbjson", "textpb", "xsd", "bak"}
	}
	var ts []*task
	for _, k := range kinds {
		for _, f := range append([]string{""}, foreignFaults(k)...) {
			for pos := 0; pos < 3; pos++ {
				s := around(k, pos)
				if f != "" {
					s.Faults[2] = f
				}
				switch {
				case pos == 0 && r.c.Thorough():
					ts = append(ts, &task{s: s, label: "foreign-matrix", all: 24})
				case pos == 0:
					ts = append(ts, &task{s: s, label: "foreign-matrix", ch: Chooser{Kind: "prefer", List: []int{2}}},
						&task{s: s, label: "foreign-matrix", ch: Chooser{Kind: "avoid", List: []int{2}}},
						&task{s: s, label: "foreign-matrix", ch: Chooser{Kind: "newest"}})
				case r.c.Thorough():
					ts = append(ts, &task{s: s, label: "foreign-matrix", all: 12})
				default:
					ts = append(ts, &task{s: s, label: "foreign-matrix", ch: Chooser{Kind: "oldest"}})
				}
			}
		}
	}
	return ts
}

// truncation at every byte offset of the healthy content
func (r *runner) foreignCuts() []*task {
	var ts []*task
	for _, k := range []string{"pb", "pbjson", "textpb", "yaml", "json"} {
		h := healthyForeign(k, 2)
		step := 1
		if k == "json" && !r.c.Thorough() {
			step = 3 // every strict prefix of the JSON object is the same class
		}
		for n := 0; n < len(h); n += step {
			s := around(k, n%2)
			s.Faults[2] = fmt.Sprintf("cut@%d", n)
			ts = append(ts, &task{s: s, label: "foreign-cut-enumeration", ch: Chooser{Kind: "oldest"}})
		}
	}
	return ts
}

// the kinds whose importer runs an arr.ai bundle (seconds per file): several per closure, converted concurrently
func (r *runner) slowTasks() []*task {
	mk := func(kinds []string, faults []string) *task {
		n := len(kinds) + 1
		s := &Spec{Dirs: make([][]string, n), Imps: make([][]Imp, n), Foreign: make([]bool, n), Kind: make([]string, n), Faults: map[int]string{}}
		for i := range s.Dirs {
			s.Dirs[i] = []string{}
		}
		for j, k := range kinds {
			s.Kind[j+1] = k
			s.Imps[0] = append(s.Imps[0], Imp{j + 1, j % 2})
			if faults[j] != "" {
				s.Faults[j+1] = faults[j]
			}
		}
		return &task{s: s, label: "slow-kinds", ch: Chooser{Kind: "oldest"}, dl: 240}
	}
	ts := []*task{
		mk([]string{"yaml3", "proto", "json3"}, []string{"", "", ""}),
		mk([]string{"yaml3", "proto", "json"}, []string{"undecodable", "", ""}),
		mk([]string{"proto", "yml3", "pb"}, []string{"undecodable", "", ""}),
		mk([]string{"proto", "json3", "yaml3"}, []string{"cut@40", "undecodable", "twosig"}),
		mk([]string{"json3", "yaml3"}, []string{"noapp", ""}),
		mk([]string{"yaml3", "pbjson", "proto"}, []string{"cut@9", "undecodable", ""}),
	}
	if r.c.Thorough() {
		slow := []string{"yaml3", "yml3", "json3", "proto"}
		for i := 0; i < 24; i++ {
			var ks, fs []string
			for j := 0; j < 2+r.c.Rng.Intn(2); j++ {
				k := slow[r.c.Rng.Intn(len(slow))]
				if r.c.Rng.Chance(1, 4) {
					k = fastKinds[r.c.Rng.Intn(len(fastKinds))]
				}
				f := ""
				if r.c.Rng.Chance(1, 2) {
					l := foreignFaults(k)
					f = l[r.c.Rng.Intn(len(l))]
					if r.c.Rng.Chance(1, 4) {
						f = fmt.Sprintf("cut@%d", r.c.Rng.Intn(len(healthyForeign(k, j+1))))
					}
				}
				ks, fs = append(ks, k), append(fs, f)
			}
			ts = append(ts, mk(ks, fs))
		}
	}
	return ts
}

// random graphs whose foreign leaves are of random kinds, 1-4 faults; a faulty Sysl file gets a faulty child
func genForeignGraph(r *common.Rng, maxN int) *Spec {
	s := genGraph(r, maxN)
	n := s.n()
	s.Kind = make([]string, n)
	var leaves, sysls []int
	for i := 0; i < n; i++ {
		if s.Foreign[i] {
			s.Kind[i] = fastKinds[r.Intn(len(fastKinds))]
			s.Foreign[i] = false
			leaves = append(leaves, i)
		} else {
			sysls = append(sysls, i)
		}
	}
	// more leaves
	for j := r.Intn(3); j > 0; j-- {
		id := s.n()
		s.Dirs = append(s.Dirs, []string{})
		s.Imps = append(s.Imps, nil)
		s.Foreign = append(s.Foreign, false)
		s.Kind = append(s.Kind, fastKinds[r.Intn(len(fastKinds))])
		p := sysls[r.Intn(len(sysls))]
		s.Imps[p] = append(s.Imps[p], Imp{id, r.Intn(2)})
		leaves = append(leaves, id)
	}
	nf := 1 + r.Intn(4)
	for j := 0; j < nf; j++ {
		if len(leaves) > 0 && r.Chance(2, 3) {
			x := leaves[r.Intn(len(leaves))]
			l := foreignFaults(s.Kind[x])
			s.Faults[x] = l[r.Intn(len(l))]
			if r.Chance(1, 4) {
				s.Faults[x] = fmt.Sprintf("cut@%d", r.Intn(len(healthyForeign(s.Kind[x], x))))
			}
			// the files that import x fail too, sometimes
			for p := range s.Imps {
				for _, im := range s.Imps[p] {
					if im.To == x && r.Chance(1, 3) {
						s.Faults[p] = []string{"body", "trunc", "imports", "read"}[r.Intn(4)]
					}
				}
			}
		} else {
			p := sysls[r.Intn(len(sysls))]
			s.Faults[p] = []string{"read", "imports", "body", "trunc"}[r.Intn(4)]
		}
	}
	return s
}

func (r *runner) multiFault() []*task {
	n, sched := 50, 1
	if r.c.Thorough() {
		n, sched = 500, 3
	}
	if r.c.Search {
		n *= 3
	}
	var ts []*task
	for i := 0; i < n; i++ {
		s := genForeignGraph(r.c.Rng, 5)
		ts = append(ts, &task{s: s, label: "multi-fault", ch: Chooser{Kind: "oldest"}},
			&task{s: s, label: "multi-fault", ch: Chooser{Kind: "newest"}},
			&task{s: s, label: "multi-fault", ch: Chooser{Kind: "prefer", List: s.faultyIDs()}})
		for k := 0; k < sched; k++ {
			ts = append(ts, &task{s: s, label: "multi-fault", ch: Chooser{Kind: "random", Seed: r.c.Rng.Uint64()}})
		}
	}
	return ts
}

// ---------------------------------------------------------------- the dispatch functions, called directly

var parserFormats = []importer.Format{importer.OpenAPI3, importer.OpenAPI2, importer.SYSL, importer.Protobuf}

var reOneOf = regexp.MustCompile(`could be one of \{([^}]*)\}`)

func guessObs(path, content string, list []importer.Format) (string, *importer.Format) {
	f, err := importer.GuessFileType(path, false, []byte(content), list)
	switch {
	case err == nil:
		return "GoOk " + common.GString(f.Name), &f
	case strings.HasPrefix(err.Error(), "error detecting input file format"):
		return "GoDetect", nil
	case strings.HasPrefix(err.Error(), "error converting spec to yaml"):
		return "GoJson", nil
	}
	if m := reOneOf.FindStringSubmatch(err.Error()); m != nil {
		var it []string
		for _, n := range strings.Split(m[1], ", ") {
			it = append(it, common.GString(n))
		}
		return "GoAmbiguous [" + strings.Join(it, ";") + "]", nil
	}
	return "", nil
}

func (r *runner) dispatchCases() {
	rng := r.c.Rng
	n := 400
	if r.c.Thorough() {
		n = 4000
	}
	if r.c.Search {
		n *= 3
	}
	exts := []string{".yaml", ".yml", ".json", ".sysl", ".proto", ".pb", ".textpb", ".pb.json", ".xsd", ".xml", ".sql", ".up.sql", ".avsc", ".g", ".txt", "", ".YAML", ".Json", ".yaml.bak", ".up.proto"}
	dirs := []string{"", "", "a/", "a.b/", "../x.yaml/", "/abs/d.json/"}
	frags := []string{"swagger:", "openapi:", "\"swagger\" :", "'openapi'\t:", "openapi\n:", "openapi :", "swaggerx:", "xopenapi:", "$schema", "swagger", "openapi", ":", "\n", "  ", "info:\n  title: T\n", "x", "\"", "'", "\"openapi'\f\r:", "openapi\"x:", " \"2.0\"\n", "$schem"}
	jkeys := []string{"swagger", "openapi", "$schema", "info", "a:b", "x"}
	for i := 0; i < n; i++ {
		path := dirs[rng.Intn(len(dirs))] + []string{"f", "spec", "a.b", ".hidden"}[rng.Intn(4)] + exts[rng.Intn(len(exts))]
		var content string
		if strings.HasSuffix(strings.ToLower(path), "json") && rng.Chance(3, 4) {
			var kv []string
			for j := rng.Intn(4); j > 0; j-- {
				kv = append(kv, fmt.Sprintf("%q: %q", jkeys[rng.Intn(len(jkeys))], []string{"2.0", "3.0.0", "swagger: x", "v"}[rng.Intn(4)]))
			}
			content = "{" + strings.Join(kv, ", ") + "}"
			if rng.Chance(1, 6) {
				content = content[:rng.Intn(len(content)+1)]
			}
		} else {
			for j := rng.Intn(6); j > 0; j-- {
				content += frags[rng.Intn(len(frags))]
			}
		}
		parser := rng.Chance(2, 3)
		list, lname := importer.Formats, "false"
		if parser {
			list, lname = parserFormats, "true"
		}
		obs, f := guessObs(path, content, list)
		r.c.Count("guess|"+lname+"|"+path+"|"+content, obs != "GoDetect" || content != "")
		r.c.Hist("dispatch:guess:" + strings.SplitN(obs, " ", 2)[0])
		rp := map[string]interface{}{"direct": "importer.GuessFileType", "path": path, "content": content, "parser_formats": parser}
		// oracle: a detected format lists the extension; two signatures in a file of an ambiguous extension is never a format
		ext := filepath.Ext(path)
		if f != nil {
			has := false
			for _, e := range f.FileExt {
				has = has || e == ext
			}
			if !has {
				r.c.Fail("guess:format-without-extension", fmt.Sprintf("GuessFileType(%q) = %s which does not list %q", path, f.Name, ext), rp)
			}
			if (ext == ".yaml" || ext == ".yml") && reOpenapi.MatchString(content) && reSwagger.MatchString(content) {
				r.c.Fail("guess:two-signatures-accepted", fmt.Sprintf("GuessFileType(%q, %q) = %s although both signatures match", path, content, f.Name), rp)
			}
		}
		if obs == "" {
			r.c.Hist("not-sent-to-coq:unrecognised-guess-error")
			continue
		}
		yml := "None"
		if ext == ".json" {
			if y, ok := jsonToYaml(content); ok {
				yml = "(Some " + gStr(y) + ")"
			}
		}
		r.cs.Add(fmt.Sprintf("FGuess %s %s %s %s (%s)", lname, gStr(path), gStr(content), yml, obs), rp)
	}
	// which decoder a name selects: probe with contents only one decoder accepts
	m := n / 5
	sufs := []string{".pb", ".pb.json", ".textpb", ".json", ".pbx", ".pb.jsonx", ".textpb.bak", "", ".PB", ".sysl", "pb", ".pb.json.pb", "textpb"}
	for i := 0; i < m; i++ {
		path := dirs[rng.Intn(len(dirs))] + []string{"m", "a.pb", "x.textpb.d/y"}[rng.Intn(3)] + sufs[rng.Intn(len(sufs))]
		ok := func(c string) (bool, bool) {
			_, err := pbutil.FromPBByteContents(path, []byte(c))
			return err == nil, errors.Is(err, pbutil.ErrUnknownExtension)
		}
		e, unk := ok("")
		j, _ := ok("{}")
		t, _ := ok("apps: {key: \"A\" value: {}}")
		obs := ""
		switch {
		case unk:
			obs = "None"
		case e && !j && !t:
			obs = "(Some DecBinary)"
		case !e && j && !t:
			obs = "(Some DecJson)"
		case e && !j && t:
			obs = "(Some DecText)"
		}
		rp := map[string]interface{}{"direct": "pbutil.FromPBByteContents", "path": path}
		r.c.Count("pb|"+path, obs != "None")
		r.c.Hist("dispatch:pb:" + obs)
		if obs == "" {
			r.c.Fail("pb-dispatch:unrecognised-decoder", fmt.Sprintf("FromPBByteContents(%q): empty ok=%v, {} ok=%v, text ok=%v fits no decoder", path, e, j, t), rp)
			continue
		}
		r.cs.Add(fmt.Sprintf("FPb %s %s", gStr(path), obs), rp)
	}
}

// ---------------------------------------------------------------- the real binary

type cliCase struct {
	kind, fault string
}

type cliRun struct {
	args []string
	code int
	out  string
	made bool // the output file exists afterwards
}

// cli starts the runs of the real binary (8 closures at a time) and returns the function that waits for them and
// judges them, in a fixed order
func (r *runner) cli() func() {
	bin := os.Getenv("VERIF_SYSL_BIN")
	if bin == "" {
		r.c.Res.Notes = append(r.c.Res.Notes, "VERIF_SYSL_BIN not set: the exit status of the real binary was not observed")
		return func() {}
	}
	base := filepath.Join(r.c.Out, "cli")
	os.RemoveAll(base)
	var cs []cliCase
	for _, k := range []string{"", "yaml", "json", "pb", "pbjson", "textpb", "xsd"} {
		if k == "" {
			cs = append(cs, cliCase{"", ""}, cliCase{"", "missing"}, cliCase{"", "body"}, cliCase{"", "trunc"}, cliCase{"", "imports"}, cliCase{"", "dir"})
			continue
		}
		cs = append(cs, cliCase{k, ""}, cliCase{k, "missing"})
		for _, f := range foreignFaults(k) {
			if f != "read" {
				cs = append(cs, cliCase{k, f})
			}
		}
	}
	run := func(dir string, args ...string) (int, string) {
		cmd := exec.Command(bin, args...)
		cmd.Dir = dir
		var eb bytes.Buffer
		cmd.Stderr = &eb
		cmd.Stdout = &eb
		done := make(chan error, 1)
		if err := cmd.Start(); err != nil {
			return -1, err.Error()
		}
		go func() { done <- cmd.Wait() }()
		select {
		case <-done:
		case <-time.After(120 * time.Second):
			cmd.Process.Kill()
			return -2, "timeout"
		}
		return cmd.ProcessState.ExitCode(), eb.String()
	}
	type closure struct {
		cc     cliCase
		s      *Spec
		target int
		runs   []*cliRun
	}
	var cls []*closure
	for _, cc := range cs {
		s := around("yaml", 1)
		if cc.kind != "" {
			s = around(cc.kind, 1)
		}
		target := 2
		if cc.kind == "" {
			target = 1 // the Sysl file in the middle
		}
		switch cc.fault {
		case "", "missing", "dir":
		default:
			s.Faults[target] = cc.fault
		}
		cl := &closure{cc: cc, s: s, target: target, runs: []*cliRun{
			// --root .: without it the binary takes the enclosing git repository (if any) as the root of rooted imports
			{args: []string{"pb", "--root", ".", "--mode", "textpb", "-o", "out.textpb", "root.sysl"}},
			{args: []string{"validate", "--root", ".", "root.sysl"}}}}
		// sysl import on the foreign file itself (a format the import command detects by itself)
		if fk, ok := fkinds[cc.kind]; ok && fk.family == "oas2" && cc.fault != "noapp" && cc.fault != "schema" {
			cl.runs = append(cl.runs, &cliRun{args: []string{"import", "--input", filepath.FromSlash(s.path(2)), "--app-name", "Foo", "--output", "out.sysl"}})
		}
		cls = append(cls, cl)
	}
	var wg sync.WaitGroup
	sem := make(chan struct{}, 8)
	for n, cl := range cls {
		n, cl := n, cl
		wg.Add(1)
		go func() {
			defer wg.Done()
			sem <- struct{}{}
			defer func() { <-sem }()
			dir := filepath.Join(base, fmt.Sprint(n))
			for i := 0; i < cl.s.n(); i++ {
				p := filepath.Join(dir, filepath.FromSlash(cl.s.path(i)))
				os.MkdirAll(filepath.Dir(p), 0o755)
				switch {
				case i == cl.target && cl.cc.fault == "missing":
				case i == cl.target && cl.cc.fault == "dir":
					os.MkdirAll(p, 0o755)
				default:
					os.WriteFile(p, []byte(cl.s.content(i)), 0o644)
				}
			}
			for _, ru := range cl.runs {
				outFile := filepath.Join(dir, map[string]string{"pb": "out.textpb", "import": "out.sysl", "validate": "none"}[ru.args[0]])
				os.Remove(outFile)
				ru.code, ru.out = run(dir, ru.args...)
				_, err := os.Stat(outFile)
				ru.made = err == nil
			}
		}()
	}
	return func() {
		wg.Wait()
		os.RemoveAll(base)
		for _, cl := range cls {
			cc, s, target := cl.cc, cl.s, cl.target
			class := s.kind(target)
			if cc.fault == "missing" || cc.fault == "dir" {
				class = "read"
			}
			faulty := class != "" && class != "cut-other"
			rp := map[string]interface{}{"cli": true, "kind": cc.kind, "fault": cc.fault, "files": mkReplay(s, nil).Files, "unreadable": map[string]string{"missing": s.path(target) + " does not exist", "dir": s.path(target) + " is a directory"}[cc.fault]}
			label := fmt.Sprintf("%s/%s", map[string]string{"": "sysl"}[cc.kind]+cc.kind, map[string]string{"": "healthy"}[cc.fault]+cc.fault)
			for _, ru := range cl.runs {
				sub, code, out := ru.args[0], ru.code, ru.out
				r.c.Count("cli|"+sub+"|"+label, faulty)
				r.c.Hist(fmt.Sprintf("cli:%s:status%d", sub, code))
				switch {
				case code < 0 || code > 2 || strings.Contains(out, "panic: ") || strings.Contains(out, "goroutine "):
					r.c.Fail("cli:crash-or-hang:"+sub, fmt.Sprintf("sysl %s on %s ended with status %d: %s", sub, label, code, tail(out)), rp)
				case class == "" && code != 0:
					r.c.Fail("cli:spurious-failure:"+sub, fmt.Sprintf("sysl %s fails (status %d) on the healthy closure %s: %s", sub, code, label, tail(out)), rp)
				case isSoft(class) && code == 0:
					// a compiled module that cannot be merged as it stands: accepting it is not judged
				case faulty && code == 0:
					r.c.Fail("cli:status-zero:"+sub+":"+class, fmt.Sprintf("sysl %s exits 0 although %s is faulty (%s)", sub, s.path(target), label), rp)
				case faulty && sub != "import" && !strings.Contains(out, s.path(target)):
					r.c.Fail("cli:error-names-no-faulty-file:"+sub, fmt.Sprintf("sysl %s on %s: the message does not name %s: %s", sub, label, s.path(target), tail(out)), rp)
				case faulty && ru.made:
					r.c.Fail("cli:output-written-on-failure:"+sub, fmt.Sprintf("sysl %s failed on %s but left its output file", sub, label), rp)
				}
			}
		}
		r.c.Res.Extra["cli_closures"] = len(cs)
	}
}

func tail(s string) string {
	s = strings.TrimSpace(s)
	if len(s) > 300 {
		s = s[len(s)-300:]
	}
	return strings.ReplaceAll(s, "\n", " ")
}

var _ = sort.Ints
