// C13, label pipeline: generated format strings and attribute maps through the real cmdutils.FormatParser entry
// points (Parse / LabelEndpoint / LabelApp / FmtSeq / FmtOutput), and the pure helpers around it; the oracle demands
// "a label, never a panic" and that the attribute maps handed in are not written; the texts go to Coq (Seq/Fmt.v).
package main

import (
	"encoding/json"
	"fmt"
	"regexp"
	"sort"
	"strings"
	"time"

	"github.com/anz-bank/sysl/pkg/cmdutils"
	"github.com/anz-bank/sysl/pkg/sequencediagram"
	"github.com/anz-bank/sysl/pkg/sysl"

	"verifharness/common"
)

// ---------------------------------------------------------------- Gallina strings

// gStr: a Coq term of type string; printable ASCII as a literal, anything else byte by byte
func gStr(s string) string {
	plain := true
	for i := 0; i < len(s); i++ {
		if s[i] == 0 || s[i] == '\r' { // every other byte may stand in a Coq string literal as it is
			plain = false
			break
		}
	}
	if plain {
		return "\"" + strings.ReplaceAll(s, "\"", "\"\"") + "\""
	}
	it := make([]string, len(s))
	for i := 0; i < len(s); i++ {
		it[i] = fmt.Sprint(s[i])
	}
	return "(bs [" + strings.Join(it, ";") + "]%N)"
}

func gAttrs(m map[string]string) string {
	ks := make([]string, 0, len(m))
	for k := range m {
		ks = append(ks, k)
	}
	sort.Strings(ks)
	var it []string
	for _, k := range ks {
		it = append(it, "("+gStr(k)+","+gStr(m[k])+")")
	}
	return common.GList(it)
}

func gStrs(l []string) string {
	var it []string
	for _, s := range l {
		it = append(it, gStr(s))
	}
	return common.GList(it)
}

// jsonFact: does the encoding/json this binary is built with write the backspace byte as \b (newer toolchains) or as
// \u0008 - what EscapeWordBoundary's replacement relies on
func jsonFact() string {
	b, _ := json.Marshal("\b")
	return "Definition json_short_b : bool := " + common.GBool(string(b) == `"\b"`) + "."
}

// ---------------------------------------------------------------- the case

type fmtCase struct {
	Entry  string            `json:"entry"` // parse | endpoint | app | seq | output | construct
	Self   string            `json:"self"`
	Latter string            `json:"latter,omitempty"` // construct: the fallback format
	Vals   map[string]string `json:"vals,omitempty"`   // parse: the value map; otherwise the named parameters
	Attrs  map[string]string `json:"attrs,omitempty"`  // the attribute map (string valued)
	NonStr []string          `json:"nonstr,omitempty"` // attributes that are arrays (GetS() = "")
}

type fmtRep struct {
	Out      string `json:"out"`
	Panicked bool   `json:"panicked"`
	PanicMsg string `json:"panic_msg"`
	Mutated  bool   `json:"mutated"` // the attribute map handed in differs after the call
	Dirty    bool   `json:"dirty"`   // the parser is not in its cleared state after a call that returned
}

func protoAttrs(fc *fmtCase) map[string]*sysl.Attribute {
	m := map[string]*sysl.Attribute{}
	for k, v := range fc.Attrs {
		m[k] = &sysl.Attribute{Attribute: &sysl.Attribute_S{S: v}}
	}
	for _, k := range fc.NonStr {
		m[k] = patAttr([]string{"x", "y"})
	}
	return m
}

func attrsUnchanged(fc *fmtCase, m map[string]*sysl.Attribute) bool {
	if len(m) != len(fc.Attrs)+len(fc.NonStr) {
		return false
	}
	for k, v := range fc.Attrs {
		a, ok := m[k]
		if !ok || a.GetS() != v {
			return false
		}
	}
	for _, k := range fc.NonStr {
		a, ok := m[k]
		if !ok || a.GetA() == nil || len(a.GetA().Elt) != 2 {
			return false
		}
	}
	return true
}

func runFmtHere(fc *fmtCase) (rep fmtRep) {
	defer func() {
		if x := recover(); x != nil {
			rep.Panicked = true
			rep.PanicMsg = fmt.Sprint(x)
		}
	}()
	pa := protoAttrs(fc)
	var fp *cmdutils.FormatParser
	if fc.Entry == "construct" {
		fp = sequencediagram.ConstructFormatParser(fc.Self, fc.Latter)
	} else {
		fp = cmdutils.MakeFormatParser(fc.Self)
	}
	v := func(k string) string { return fc.Vals[k] }
	switch fc.Entry {
	case "parse":
		vals := map[string]string{}
		for k, x := range fc.Vals {
			vals[k] = x
		}
		rep.Out = fp.Parse(vals)
		if len(vals) != len(fc.Vals) {
			rep.Mutated = true
		}
		for k, x := range fc.Vals {
			if vals[k] != x {
				rep.Mutated = true
			}
		}
	case "endpoint":
		rep.Out = fp.LabelEndpoint(&cmdutils.EndpointLabelerParam{EndpointName: v("epname"), Human: v("human"), HumanSender: v("human_sender"),
			NeedsInt: v("needs_int"), Args: v("args"), Patterns: v("patterns"), Controls: v("controls"), Attrs: pa})
	case "app", "construct":
		rep.Out = fp.LabelApp(v("appname"), v("controls"), pa)
	case "seq":
		rep.Out = fp.FmtSeq(v("epname"), v("eplongname"), pa)
	case "output":
		rep.Out = fp.FmtOutput(v("appname"), v("epname"), v("eplongname"), pa)
	}
	if !attrsUnchanged(fc, pa) {
		rep.Mutated = true
	}
	if fp.CurPos != 0 || fp.Result != "" || fp.Oper != "" || len(fp.Stk) != 0 {
		rep.Dirty = true
	}
	// a second call on the same parser gives the same text
	if fc.Entry == "app" || fc.Entry == "construct" {
		if again := fp.LabelApp(v("appname"), v("controls"), pa); again != rep.Out {
			rep.Dirty = true
		}
	}
	return rep
}

func runFmt(fc *fmtCase) (rep fmtRep, crashed bool, msg string) {
	died, timedOut, stderr := worker.Call(workReq{Fmt: fc}, &rep, 10*time.Second)
	switch {
	case timedOut:
		return rep, true, "no answer within 10 s"
	case died:
		m := "the process died"
		if strings.Contains(stderr, "stack overflow") || strings.Contains(stderr, "stack exceeds") {
			m = "stack overflow"
		}
		return rep, true, m
	}
	return rep, false, ""
}

// ---------------------------------------------------------------- what the regular expressions of a format say

var reSearchSite = regexp.MustCompile(`^~/([^/]+)/`)

// rxTable: for every place of the format string where ItemReSearch could match, the pattern, whether it compiles and
// what it says about every value of the map (and ""): regexp itself is outside the model
func rxTable(self string, vals []string) string {
	seen := map[string]bool{}
	var it []string
	for i := 0; i+1 < len(self); i++ {
		if self[i] != '~' || self[i+1] != '/' {
			continue
		}
		m := reSearchSite.FindStringSubmatch(self[i:])
		if m == nil || seen[m[1]] {
			continue
		}
		seen[m[1]] = true
		re, err := regexp.Compile(m[1])
		if err != nil {
			it = append(it, "("+gStr(m[1])+", None)")
			continue
		}
		var vt []string
		vs := map[string]bool{"": true}
		for _, v := range vals {
			vs[v] = true
		}
		var vl []string
		for v := range vs {
			vl = append(vl, v)
		}
		sort.Strings(vl)
		for _, v := range vl {
			vt = append(vt, "("+gStr(v)+","+common.GBool(re.MatchString(v))+")")
		}
		it = append(it, "("+gStr(m[1])+", Some "+common.GList(vt)+")")
	}
	return common.GList(it)
}

func panicKind(msg string) string {
	switch {
	case strings.Contains(msg, "missing variable reference"):
		return "MissingVariable"
	case strings.Contains(msg, "missing conditional value"):
		return "MissingCondValue"
	case strings.Contains(msg, "unclosed expansion"):
		return "UnclosedExpansion"
	case strings.Contains(msg, "regexp:"):
		return "BadRegexp"
	}
	return ""
}

func fmtPanicKey(msg string) string {
	switch panicKind(msg) {
	case "MissingVariable":
		return "panic:format:missing-variable"
	case "MissingCondValue":
		return "panic:format:missing-conditional-value"
	case "UnclosedExpansion":
		return "panic:format:unclosed-expansion"
	case "BadRegexp":
		return "panic:format:bad-regexp"
	}
	return "panic:format:other"
}

// ---------------------------------------------------------------- generators

var fmtVars = []string{"epname", "appname", "eplongname", "human", "human_sender", "args", "patterns", "needs_int", "controls",
	"@status", "@team", "@x", "@iso_ctrl_11_txt", "nosuch", "@patterns", "x_1", "@"}
var fmtLits = []string{"a", " ", "<color red>", "</color>", "//", "**", "%%", "\n", "|", ")", "(", "%", "é", "x y", "'", "/", "~", "=", "?", "!",
	"\b", "\x01", "%\n", "%)", "%|", "%%%", ".png", " -> ", "«", "%a", "=="}
var fmtCondVals = []string{"aa", "human", "needs_int", "x y", "", "E00", "a-b"}
var fmtPats = []string{"ab", "\btba|tbd\b", "^E", "(", "[", "a+", "x*?", ".", "\\bE\\b", "human", "a|", ")", "\n"}
var attrVals = []string{"", "aa", "human", "x y", "E00", "tba", "multi\nline", "100%", "%(epname)", "a|b)", "\x01", "ab", "needs_int", "été", " "}

func genFmtStr(r *common.Rng, depth int) string {
	var b strings.Builder
	n := 1 + r.Intn(4)
	for i := 0; i < n; i++ {
		if r.Chance(2, 5) {
			b.WriteString(fmtLits[r.Intn(len(fmtLits))])
			continue
		}
		b.WriteString("%(")
		b.WriteString(fmtVars[r.Intn(len(fmtVars))])
		if r.Chance(1, 4) {
			b.WriteString([]string{"==", "!=", "==", "!=", "==", "!=", "==", "!=", "=", "!"}[r.Intn(10)])
			if !r.Chance(1, 20) {
				b.WriteString("'" + fmtCondVals[r.Intn(len(fmtCondVals))] + "'")
			}
		}
		if r.Chance(1, 5) {
			b.WriteString("~/" + fmtPats[r.Intn(len(fmtPats))])
			if !r.Chance(1, 10) {
				b.WriteString("/")
			}
		}
		if r.Chance(1, 2) {
			b.WriteString([]string{"?", "?", "="}[r.Intn(3)])
			if depth > 0 {
				b.WriteString(genFmtStr(r, depth-1))
			} else {
				b.WriteString(fmtLits[r.Intn(len(fmtLits))])
			}
		}
		if r.Chance(1, 3) {
			b.WriteString("|")
			if depth > 0 {
				b.WriteString(genFmtStr(r, depth-1))
			} else {
				b.WriteString(fmtLits[r.Intn(len(fmtLits))])
			}
		}
		if !r.Chance(1, 40) {
			b.WriteString(")")
		}
	}
	return b.String()
}

// mutate: one plausible typing slip (a byte lost, doubled, or the string cut short) - kept valid UTF-8
func mutateFmt(r *common.Rng, s string) string {
	rs := []rune(s)
	if len(rs) == 0 {
		return s
	}
	i := r.Intn(len(rs))
	switch r.Intn(4) {
	case 0:
		return string(rs[:i]) + string(rs[i+1:])
	case 1:
		return string(rs[:i]) + string(rs[i]) + string(rs[i:])
	case 2:
		return string(rs[:i])
	default:
		sp := []rune("%()|?='~/\n")
		return string(rs[:i]) + string(sp[r.Intn(len(sp))]) + string(rs[i:])
	}
}

func genAttrMap(r *common.Rng) map[string]string {
	m := map[string]string{}
	n := r.Intn(4)
	keys := []string{"status", "team", "x", "iso_ctrl_11_txt", "iso_ctrl_2_txt", "iso_ctrl__txt", "iso_ctrl_a\nb_txt", "epname", "link", "y"}
	for i := 0; i < n; i++ {
		m[keys[r.Intn(len(keys))]] = attrVals[r.Intn(len(attrVals))]
	}
	return m
}

// formats taken from the repository's tests and demo files
var fmtCorpus = []string{
	"%(epname)", "%(appname)", "%(epname).png", "%(seqtitle)",
	"%(@aa?//«%(@aa)»//**%(pa=='ABC'? %(pa~/\btba|tbd\b/?<color red>%(pa)</color>|<color green>%(pa)</color>)| <color red>pat?</color>)**|%(ni?<color red>(missing INT%)</color>))%(epname)%(args?(%(args)%))",
	"%(@status?//«%(@status)»//**%(patterns? %(patterns~/\btba|tbd\b/?<color red>%(patterns)</color>|<color green>%(patterns)</color>)| <color red>pat?</color>)**\n|%(needs_int?<color red>(missing INT%)</color>\n))%(epname)%(args?\n(%(args)%))",
	"1ba%%%%(DT?%(@c2?//%(@c4?--%(cc?dd|edd)--|bc)//\n|cc)|bb)**%(appname)**",
	"1ba%%%%(DT?%(@c2?//%(@c4?--%(cc?dd|edd)--|bc)//\n|cc)|bb)**%(appname**",
	"1ba%%%%(DT?%(@c2?//%(@c4?--%(cc?dd|edd)--|bc)//\n|cc)|bb)**%()**",
	"1ba%%%%(DT?%(@c2==?//%(@c4?--%(cc?dd|edd)--|bc)//\n|cc)|bb)**%(appname)**",
	"1ba%%%%(DT?%(@x=='aa'?//%(@c4?--%(cc?dd|edd)--|bc)//\n|cc)|bb)**%(appname)**",
	"1ba%%%%(DT?%(@x!='aa'?//%(@c4?--%(cc?dd|edd)--|bc)//\n|cc)|bb)**%(appname)**",
	"1ba%%%%(DT?%(@x~/ab/?//%(@c4?--%(cc?dd|edd)--|bc)//\n|cc)|bb)**%(appname)**",
	"%(@status?<color red>%(appname)</color>|%(appname))", "%(@status? <color green>%(epname)</color>|%(epname))",
	"<%(epname)%(needs_int? needsInt)>", "", "%", "%%", "%(", "%(a", "%(a?", "%(a?b", "%(a|", "%(a~/(/)", "%(a=='x'~/a/?y|n)", "a%\nb", "%%%", "%\n%(epname)",
}

func fmtStream(c *common.Ctx, n int) {
	header := `From Coq Require Import String Ascii List NArith Bool. Import ListNotations.
Require Import Verif.Seq.Fmt Verif.Seq.RunFmt Verif.Base.Harness.
Local Open Scope string_scope.
` + jsonFact()
	footer := `Definition M := Eval vm_compute in mismatches (fmt_ok json_short_b) cases. Print M.`
	cs := c.NewCases("C13fmt", header, "fmt_case", footer, 700)
	one := func(fc *fmtCase) {
		rep, crashed, msg := runFmt(fc)
		rp := replayT{Kind: "fmt", Fmt: fc}
		id := fmt.Sprintf("fmt|%s|%q|%q|%v|%v|%v", fc.Entry, fc.Self, fc.Latter, fc.Vals, fc.Attrs, fc.NonStr)
		c.Count(id, strings.Contains(fc.Self, "%("))
		c.Hist("stream:fmt:" + fc.Entry)
		self := fc.Self
		if fc.Entry == "construct" {
			self = sequencediagram.EscapeWordBoundary(fc.Self)
			if fc.Self == "" {
				self = sequencediagram.EscapeWordBoundary(fc.Latter)
			}
		}
		var obs string
		switch {
		case crashed:
			c.Fail("nontermination:format", fmt.Sprintf("formatting %q does not terminate (%s)", fc.Self, msg), rp)
			obs = "FCrash"
		case rep.Panicked:
			c.Hist("fmt-outcome:panic")
			// a malformed format makes Parse panic: that is the parser's documented contract (its unit tests pin it); what the
			// property forbids is that the panic reaches the caller of DoConstructSequenceDiagrams (judged in the option streams)
			k := panicKind(rep.PanicMsg)
			c.Hist("fmt-panic:" + k)
			if k == "" {
				c.Fail("panic:format:other", fmt.Sprintf("the format string %q makes FormatParser panic in a way the parser does not announce: %s", fc.Self, rep.PanicMsg), rp)
				obs = "FCrash"
			} else {
				obs = "FPanicked " + k
			}
		default:
			c.Hist("fmt-outcome:label")
			obs = "FLabel " + gStr(rep.Out)
			if rep.Mutated {
				c.Fail("attributes-written", fmt.Sprintf("formatting %q changed the attribute map it was given", fc.Self), rp)
			}
			if rep.Dirty {
				c.Fail("parser-state-kept", fmt.Sprintf("after formatting %q the parser is not back in its cleared state (or a second call answers differently)", fc.Self), rp)
			}
		}
		// the values the format can see
		var vals []string
		for _, v := range fc.Vals {
			vals = append(vals, v)
		}
		for _, v := range fc.Attrs {
			vals = append(vals, v)
		}
		call := ""
		v := func(k string) string { return gStr(fc.Vals[k]) }
		at := map[string]string{}
		for k, x := range fc.Attrs {
			at[k] = x
		}
		for _, k := range fc.NonStr {
			at[k] = ""
		}
		switch fc.Entry {
		case "parse":
			call = "CParse " + gAttrs(fc.Vals)
		case "endpoint":
			call = fmt.Sprintf("CEndpoint (EPP %s %s %s %s %s %s %s %s)", v("epname"), v("human"), v("human_sender"), v("needs_int"), v("args"), v("patterns"), v("controls"), gAttrs(at))
		case "app":
			call = fmt.Sprintf("CApp %s %s %s", v("appname"), v("controls"), gAttrs(at))
		case "construct":
			call = fmt.Sprintf("CConstruct %s %s %s %s", gStr(fc.Latter), v("appname"), v("controls"), gAttrs(at))
		case "seq":
			call = fmt.Sprintf("CSeq %s %s %s", v("epname"), v("eplongname"), gAttrs(at))
		case "output":
			call = fmt.Sprintf("COutput %s %s %s %s", v("appname"), v("epname"), v("eplongname"), gAttrs(at))
		}
		cs.Add(fmt.Sprintf("(%s, %s, %s, %s)", gStr(fc.Self), call, rxTable(self, vals), obs), rp)
		if !rep.Panicked && strings.Count(fc.Self, "%(") >= 2 {
			c.Sample(map[string]interface{}{"format": fc.Self, "values": fc.Vals, "attributes": fc.Attrs, "label": rep.Out})
		}
	}
	params := func(r *common.Rng, names ...string) map[string]string {
		m := map[string]string{}
		for _, k := range names {
			if r.Chance(2, 3) {
				m[k] = attrVals[r.Intn(len(attrVals))]
			}
		}
		return m
	}
	for _, f := range fmtCorpus {
		one(&fmtCase{Entry: "parse", Self: f, Vals: map[string]string{"epname": "E00", "appname": "A00", "@x": "ab", "patterns": "tba", "pa": "ABC", "args": "x y"}})
		one(&fmtCase{Entry: "parse", Self: f, Vals: map[string]string{}})
		one(&fmtCase{Entry: "construct", Self: f, Latter: "%(appname)", Vals: map[string]string{"appname": "A00"}, Attrs: map[string]string{"x": "tba", "status": "s"}})
	}
	for i := 0; i < n; i++ {
		r := c.Rng
		self := genFmtStr(r, 2)
		if r.Chance(1, 8) {
			self = mutateFmt(r, self)
		}
		if r.Chance(1, 10) {
			self = fmtCorpus[r.Intn(len(fmtCorpus))]
			if r.Bool() {
				self = mutateFmt(r, self)
			}
		}
		fc := &fmtCase{Self: self}
		switch r.Intn(6) {
		case 0:
			fc.Entry = "parse"
			fc.Vals = map[string]string{}
			for j := r.Intn(5); j > 0; j-- {
				fc.Vals[fmtVars[r.Intn(len(fmtVars))]] = attrVals[r.Intn(len(attrVals))]
			}
		case 1:
			fc.Entry = "endpoint"
			fc.Vals = params(r, "epname", "human", "human_sender", "needs_int", "args", "patterns", "controls")
		case 2:
			fc.Entry = "app"
			fc.Vals = params(r, "appname", "controls")
		case 3:
			fc.Entry = "seq"
			fc.Vals = params(r, "epname", "eplongname")
		case 4:
			fc.Entry = "output"
			fc.Vals = params(r, "appname", "epname", "eplongname")
		default:
			fc.Entry = "construct"
			fc.Vals = params(r, "appname", "controls")
			fc.Latter = genFmtStr(r, 1)
			if r.Chance(1, 3) {
				fc.Self = ""
			}
		}
		if fc.Entry != "parse" {
			fc.Attrs = genAttrMap(r)
			if r.Chance(1, 5) {
				fc.NonStr = []string{"patterns"}
			}
		}
		one(fc)
	}
	cs.Close()
}

// ---------------------------------------------------------------- the pure helpers

type utilCase struct {
	Fn string            `json:"fn"`
	S  string            `json:"s,omitempty"`
	A  map[string]string `json:"a,omitempty"`
	B  map[string]string `json:"b,omitempty"`
}

func strAttrs(m map[string]string) map[string]*sysl.Attribute {
	out := map[string]*sysl.Attribute{}
	for k, v := range m {
		out[k] = &sysl.Attribute{Attribute: &sysl.Attribute_S{S: v}}
	}
	return out
}

func utilStream(c *common.Ctx, n int) {
	header := `From Coq Require Import String Ascii List NArith Bool. Import ListNotations.
Require Import Verif.Seq.Fmt Verif.Seq.RunFmt Verif.Base.Harness.
Local Open Scope string_scope.
` + jsonFact()
	footer := `Definition M := Eval vm_compute in mismatches (util_ok json_short_b) cases. Print M.`
	cs := c.NewCases("C13util", header, "util_case", footer, 700)
	names := []string{"E00", "A -> B", "x -> y -> z", " -> q", "a->b", "a\n -> b", "GET /x/{id}", "", " ->", "A00 -> E", "é -> è"}
	pct := []string{"", "%", "%%", "%%%", "a%b", "100%%", "\x01", "%\x01%", "a%%%%b", "%(x)"}
	for i := 0; i < n; i++ {
		r := c.Rng
		var uc utilCase
		var term string
		switch i % 5 {
		case 0:
			s := names[r.Intn(len(names))]
			if r.Chance(1, 3) {
				s += names[r.Intn(len(names))]
			}
			uc = utilCase{Fn: "normalize", S: s}
			term = fmt.Sprintf("UNormalize %s %s", gStr(s), gStr(cmdutils.NormalizeEndpointName(s)))
		case 1:
			s := pct[r.Intn(len(pct))] + fmtLits[r.Intn(len(fmtLits))] + pct[r.Intn(len(pct))]
			uc = utilCase{Fn: "remove-percent", S: s}
			term = fmt.Sprintf("URemovePct %s %s", gStr(s), gStr(cmdutils.RemovePercentSymbol(s)))
		case 2:
			a := genAttrMap(r)
			uc = utilCase{Fn: "iso-ctrl", A: a}
			term = fmt.Sprintf("UIso %s %s", gAttrs(a), gStr(cmdutils.GetSortedISOCtrlStr(strAttrs(a))))
		case 3:
			a, b := genAttrMap(r), genAttrMap(r)
			pa, pb := strAttrs(a), strAttrs(b)
			res := cmdutils.MergeAttributes(pa, pb)
			got := map[string]string{}
			for k, v := range res {
				got[k] = v.GetS()
			}
			if len(pa) != len(a) || len(pb) != len(b) {
				c.Fail("attributes-written", "MergeAttributes changed one of the maps it was given", replayT{Kind: "util", Util: &utilCase{Fn: "merge", A: a, B: b}})
			}
			// the result is a map of its own: writing to it leaves both inputs alone
			res["__probe"] = nil
			if _, ok := pa["__probe"]; ok {
				c.Fail("attributes-written", "the map returned by MergeAttributes is the application's own attribute map", replayT{Kind: "util", Util: &utilCase{Fn: "merge", A: a, B: b}})
			}
			if _, ok := pb["__probe"]; ok {
				c.Fail("attributes-written", "the map returned by MergeAttributes is the endpoint's own attribute map", replayT{Kind: "util", Util: &utilCase{Fn: "merge", A: a, B: b}})
			}
			uc = utilCase{Fn: "merge", A: a, B: b}
			term = fmt.Sprintf("UMerge %s %s %s", gAttrs(a), gAttrs(b), gAttrs(got))
		default:
			s := fmtLits[r.Intn(len(fmtLits))] + fmtPats[r.Intn(len(fmtPats))] + "<&>\"\\"
			uc = utilCase{Fn: "escape-word-boundary", S: s}
			term = fmt.Sprintf("UEscape %s %s", gStr(s), gStr(sequencediagram.EscapeWordBoundary(s)))
		}
		c.Count("util|"+term, true)
		c.Hist("stream:util:" + uc.Fn)
		u := uc
		cs.Add(term, replayT{Kind: "util", Util: &u})
	}
	cs.Close()
}
