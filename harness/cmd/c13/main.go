// C13 correspondence + oracle: random call graphs through the real sequencediagram.GenerateSequenceDiag; a
// line-oriented PlantUML-sequence reader turns the text back into events; a model-independent oracle judges the
// property clauses on the text itself (declared once, activations balanced, sender active, blocks closed, call
// arrows = reference depth-first walk of the abstract module); the events go to Coq for comparison with the model.
package main

import (
	"encoding/json"
	"errors"
	"fmt"
	"os"
	"regexp"
	"runtime/debug"
	"sort"
	"strconv"
	"strings"
	"time"

	"github.com/anz-bank/sysl/pkg/cmdutils"
	"github.com/anz-bank/sysl/pkg/sequencediagram"
	"github.com/anz-bank/sysl/pkg/sysl"
	"github.com/sirupsen/logrus"

	"verifharness/common"
)

// ---------------------------------------------------------------- abstract input (also the replay format)

const (
	kCall = iota
	kAction
	kDots
	kRet
	kBlock
	kAlt
	kNil // a statement whose `Stmt` oneof is not set (a module read from .pb / .textpb / JSON can hold one)
)

type stmt struct {
	K    int      `json:"k"`
	A    int      `json:"a,omitempty"`    // call target app
	E    int      `json:"e,omitempty"`    // call target endpoint
	Pay  int      `json:"pay,omitempty"`  // return: index into payloads
	BK   int      `json:"bk,omitempty"`   // block: 0 Cond 1 Loop 2 LoopN 3 Foreach 4 Group
	Body []stmt   `json:"body,omitempty"` // block
	Alts [][]stmt `json:"alts,omitempty"` // alt
	// texts (option streams only): attributes and patterns of a call statement
	Attrs map[string]string `json:"attrs,omitempty"`
	XPats []string          `json:"xpats,omitempty"`
}
type endpointT struct {
	Hidden bool   `json:"hidden,omitempty"`
	Body   []stmt `json:"body"`
	// texts (option streams only)
	Suffix string            `json:"suffix,omitempty"` // the endpoint is named E<nn><suffix>
	Long   string            `json:"long,omitempty"`
	Attrs  map[string]string `json:"attrs,omitempty"`
	XPats  []string          `json:"xpats,omitempty"` // further patterns
	BBAttr []bbElt           `json:"bbattr,omitempty"`
	Params [][2]string       `json:"params,omitempty"` // (application, type) references
}
type appT struct {
	Pats  []string    `json:"pats,omitempty"`
	Group string      `json:"group,omitempty"` // value of the attribute "team" ("" = attribute absent)
	Eps   []endpointT `json:"eps"`
	// texts (option streams only)
	Suffix string            `json:"suffix,omitempty"` // the application is named A<nn><suffix>
	Attrs  map[string]string `json:"attrs,omitempty"`
	BBAttr []bbElt           `json:"bbattr,omitempty"`
}

// one element of a `blackboxes` attribute
type bbElt struct {
	NotArray bool     `json:"not_array,omitempty"`
	Strs     []string `json:"strs,omitempty"`
}
type bbT struct {
	A    int  `json:"a"`
	E    int  `json:"e"`
	Cut  bool `json:"cut"`  // ValueType BBCommandLine (true) or UpTo (false)
	CLen int  `json:"clen"` // comment length 0, 1, 2(+)
}
type caseT struct {
	Apps    []appT   `json:"apps"`
	BBs     []bbT    `json:"bbs,omitempty"`
	Starts  [][2]int `json:"starts"`
	GroupBy bool     `json:"groupby,omitempty"`
}

func an(i int) string     { return fmt.Sprintf("A%02d", i) }
func en(i int) string     { return fmt.Sprintf("E%02d", i) }
func key(a, e int) string { return an(a) + " <- " + en(e) }

// payload spellings; which of them FormatReturnParam renders as empty is asked of FormatReturnParam itself
var payloads = []string{"", "ok <: string", "ok <: A00.T", "int", "A00.T", "ok <: string, err <: A00.T", "set of A00.T", "one of {A00.T, A01.T}", "ok <: int, n <: string", "sequence of string"}

var payKind []string // Gallina: Re | Rp | Rs

func classifyPayloads() {
	m := &sysl.Module{Apps: map[string]*sysl.Application{}}
	for _, p := range payloads {
		switch {
		case p == "":
			payKind = append(payKind, "Re")
		case len(strings.Join(cmdutils.FormatReturnParam(m, p), " | ")) == 0:
			payKind = append(payKind, "Rp")
		default:
			payKind = append(payKind, "Rs")
		}
	}
}

var knownPats = map[string]string{"human": "PHuman", "ui": "PUi", "cron": "PCron", "db": "PDb", "external": "PExternal", "file": "PFile", "topic": "PTopic"}

func patG(p string) string {
	if g, ok := knownPats[p]; ok {
		return g
	}
	return "POther"
}

// ---------------------------------------------------------------- abstract input -> *sysl.Module

func patAttr(ps []string) *sysl.Attribute {
	var elt []*sysl.Attribute
	for _, p := range ps {
		elt = append(elt, &sysl.Attribute{Attribute: &sysl.Attribute_S{S: p}})
	}
	return &sysl.Attribute{Attribute: &sysl.Attribute_A{A: &sysl.Attribute_Array{Elt: elt}}}
}

func toProto(ss []stmt) []*sysl.Statement {
	out := []*sysl.Statement{}
	for _, s := range ss {
		switch s.K {
		case kCall:
			out = append(out, &sysl.Statement{Stmt: &sysl.Statement_Call{Call: &sysl.Call{Target: &sysl.AppName{Part: []string{an(s.A)}}, Endpoint: en(s.E)}}})
		case kAction:
			out = append(out, &sysl.Statement{Stmt: &sysl.Statement_Action{Action: &sysl.Action{Action: "act"}}})
		case kDots:
			out = append(out, &sysl.Statement{Stmt: &sysl.Statement_Action{Action: &sysl.Action{Action: "..."}}})
		case kRet:
			out = append(out, &sysl.Statement{Stmt: &sysl.Statement_Ret{Ret: &sysl.Return{Payload: payloads[s.Pay]}}})
		case kBlock:
			b := toProto(s.Body)
			switch s.BK {
			case 0:
				out = append(out, &sysl.Statement{Stmt: &sysl.Statement_Cond{Cond: &sysl.Cond{Test: "t", Stmt: b}}})
			case 1:
				out = append(out, &sysl.Statement{Stmt: &sysl.Statement_Loop{Loop: &sysl.Loop{Mode: sysl.Loop_WHILE, Criterion: "c", Stmt: b}}})
			case 2:
				out = append(out, &sysl.Statement{Stmt: &sysl.Statement_LoopN{LoopN: &sysl.LoopN{Count: 2, Stmt: b}}})
			case 3:
				out = append(out, &sysl.Statement{Stmt: &sysl.Statement_Foreach{Foreach: &sysl.Foreach{Collection: "xs", Stmt: b}}})
			default:
				out = append(out, &sysl.Statement{Stmt: &sysl.Statement_Group{Group: &sysl.Group{Title: "g", Stmt: b}}})
			}
		case kAlt:
			alt := &sysl.Alt{}
			for _, c := range s.Alts {
				alt.Choice = append(alt.Choice, &sysl.Alt_Choice{Cond: "c", Stmt: toProto(c)})
			}
			out = append(out, &sysl.Statement{Stmt: &sysl.Statement_Alt{Alt: alt}})
		case kNil:
			out = append(out, &sysl.Statement{})
		}
	}
	return out
}

func buildModule(tc *caseT) *sysl.Module {
	m := &sysl.Module{Apps: map[string]*sysl.Application{}}
	for i, a := range tc.Apps {
		pa := &sysl.Application{Name: &sysl.AppName{Part: []string{an(i)}}, Endpoints: map[string]*sysl.Endpoint{}, Attrs: map[string]*sysl.Attribute{},
			Types: map[string]*sysl.Type{"T": {Type: &sysl.Type_Tuple_{Tuple: &sysl.Type_Tuple{}}}}}
		if len(a.Pats) > 0 {
			pa.Attrs["patterns"] = patAttr(a.Pats)
		}
		if a.Group != "" {
			pa.Attrs["team"] = &sysl.Attribute{Attribute: &sysl.Attribute_S{S: a.Group}}
		}
		for j, e := range a.Eps {
			pe := &sysl.Endpoint{Name: en(j), Stmt: toProto(e.Body), Attrs: map[string]*sysl.Attribute{}}
			if e.Hidden {
				pe.Attrs["patterns"] = patAttr([]string{"hidden"})
			}
			pa.Endpoints[en(j)] = pe
		}
		m.Apps[an(i)] = pa
	}
	return m
}

// ---------------------------------------------------------------- running the real generator

type watchdog struct {
	n, limit int
}

type runaway struct{}

func (w *watchdog) LabelEndpoint(p *cmdutils.EndpointLabelerParam) string {
	w.n++
	if w.n > w.limit {
		panic(runaway{})
	}
	return p.EndpointName
}
func (w *watchdog) LabelApp(appName, controls string, attrs map[string]*sysl.Attribute) string {
	return appName
}

type realOut struct {
	text     string
	err      error
	panicked bool
	panicMsg string
	runaway  bool
	crashed  bool // the worker process died or did not answer: unbounded recursion
	crashMsg string
}

// the real generator runs in a worker subprocess (the harness binary itself): a generator that no longer stops at
// calls in progress overflows the stack or eats the memory, which cannot be recovered from in-process
type workReq struct {
	Case  *caseT   `json:"case,omitempty"`
	Limit int      `json:"limit,omitempty"`
	Fmt   *fmtCase `json:"fmt,omitempty"`
	Opt   *optReq  `json:"opt,omitempty"`
}

// replayT: the replay format; the original streams write a bare caseT (Kind empty)
type replayT struct {
	Kind string    `json:"kind,omitempty"` // "" (a caseT) | fmt | util
	Fmt  *fmtCase  `json:"fmt,omitempty"`
	Util *utilCase `json:"util,omitempty"`
	Opt  *optCase  `json:"opt,omitempty"`
	Cli  *cliCase  `json:"cli,omitempty"`
	caseT
}
type workRep struct {
	Text     string `json:"text"`
	Err      string `json:"err"`
	HasErr   bool   `json:"has_err"`
	Panicked bool   `json:"panicked"`
	PanicMsg string `json:"panic_msg"`
	Runaway  bool   `json:"runaway"`
}

var worker *common.Worker

func serveOne(line []byte) interface{} {
	var q workReq
	if err := json.Unmarshal(line, &q); err == nil && q.Fmt != nil {
		return runFmtHere(q.Fmt)
	}
	if q.Opt != nil && q.Opt.Case != nil {
		return runOptHere(q.Opt)
	}
	if err := json.Unmarshal(line, &q); err != nil || q.Case == nil {
		return workRep{Panicked: true, PanicMsg: "bad request"}
	}
	r := runRealHere(q.Case, q.Limit)
	rep := workRep{Text: r.text, Panicked: r.panicked, PanicMsg: r.panicMsg, Runaway: r.runaway}
	if r.err != nil {
		rep.HasErr, rep.Err = true, r.err.Error()
	}
	return rep
}

func runReal(tc *caseT, limit int) (r realOut) {
	var rep workRep
	died, timedOut, stderr := worker.Call(workReq{Case: tc, Limit: limit}, &rep, 20*time.Second)
	switch {
	case timedOut:
		return realOut{crashed: true, crashMsg: "no answer within 20 s"}
	case died:
		msg := "the process died"
		if strings.Contains(stderr, "stack overflow") || strings.Contains(stderr, "stack exceeds") {
			msg = "stack overflow"
		} else if i := strings.Index(stderr, "\n"); i > 0 {
			msg += ": " + stderr[:i]
		}
		return realOut{crashed: true, crashMsg: msg}
	}
	r = realOut{text: rep.Text, panicked: rep.Panicked, panicMsg: rep.PanicMsg, runaway: rep.Runaway}
	if rep.HasErr {
		r.err = errors.New(rep.Err)
	}
	return r
}

func runRealHere(tc *caseT, limit int) (r realOut) {
	m := buildModule(tc)
	var eps []string
	for _, s := range tc.Starts {
		eps = append(eps, key(s[0], s[1]))
	}
	bbs := map[string]*cmdutils.Upto{}
	for _, b := range tc.BBs {
		vt := cmdutils.UptoType(cmdutils.BBCommandLine)
		if !b.Cut {
			vt = cmdutils.UpTo
		}
		bbs[key(b.A, b.E)] = &cmdutils.Upto{ValueType: vt, Comment: strings.Repeat("x", b.CLen)}
	}
	group := ""
	if tc.GroupBy {
		group = "team"
	}
	wd := &watchdog{limit: limit}
	defer func() {
		if x := recover(); x != nil {
			r.panicked = true
			if _, ok := x.(runaway); ok {
				r.runaway = true
			}
			r.panicMsg = fmt.Sprint(x)
		}
	}()
	r.text, r.err = sequencediagram.GenerateSequenceDiag(m, &sequencediagram.SequenceDiagParam{
		AppLabeler: wd, EndpointLabeler: wd, Endpoints: eps, Blackboxes: bbs, Group: group}, logger)
	return r
}

var logger = func() *logrus.Logger {
	l := logrus.New()
	l.SetLevel(logrus.PanicLevel)
	l.SetOutput(devnull{})
	return l
}()

type devnull struct{}

func (devnull) Write(p []byte) (int, error) { return len(p), nil }

// ---------------------------------------------------------------- PlantUML-sequence reader

type ev struct {
	kind string // section arrow return self activate deactivate open alt else end noteover noteside
	s, t string // aliases ("[" = outside world)
	lbl  string // arrow: endpoint label; open: keyword; section: text; note: text
}
type declT struct{ agent, label, alias string }
type diagram struct {
	decls    []declT
	evs      []ev
	boxes    [][]string // aliases per box
	boxNames []string
	badLine  string
	boxOpen  bool
	title    string
	titles   int
}

var (
	reHead     = regexp.MustCompile(`^(\w+) "(.*)" as (_\d+)$`)
	reCall     = regexp.MustCompile(`^(\[|_\d+)->(_\d+) : (.*)$`)
	reSelf     = regexp.MustCompile(`^(_\d+) -> (_\d+) : (.*)$`)
	reRet      = regexp.MustCompile(`^(\[|_\d+)<--(_\d+) :(.*)$`)
	reAct      = regexp.MustCompile(`^(activate|deactivate) (_\d+)$`)
	reSection  = regexp.MustCompile(`^== (.*) ==$`)
	reOver     = regexp.MustCompile(`^note over (_\d+): (.*)$`)
	reSide     = regexp.MustCompile(`^note (left|right): ?(.*)$`)
	reSideText = regexp.MustCompile(`^note (left|right): (.*)$`)
	reBox      = regexp.MustCompile(`^box "(.*)" #\w+$`)
	rePart     = regexp.MustCompile(`^participant (_\d+)$`)
)

func readDiagram(text string) *diagram {
	d := &diagram{}
	if text == "" {
		return d
	}
	lines := strings.Split(text, "\n")
	phase := 0 // 0 before @startuml, 1 head, 2 body, 3 after @enduml
	for _, raw := range lines {
		l := strings.TrimSpace(raw)
		switch phase {
		case 0:
			if l == "@startuml" {
				phase = 1
			} else if l != "" && !strings.HasPrefix(l, "'") {
				d.badLine = raw
			}
			continue
		case 1:
			if m := reHead.FindStringSubmatch(l); m != nil {
				d.decls = append(d.decls, declT{m[1], m[2], m[3]})
				continue
			}
			if strings.HasPrefix(l, "skinparam ") {
				phase = 2
				continue
			}
			d.badLine = raw
			continue
		case 3:
			if l != "" {
				d.badLine = raw
			}
			continue
		}
		// body; lr keeps the trailing blanks of a text (labels, notes, titles may end in blanks)
		lr := strings.TrimLeft(raw, " \t")
		var m []string
		switch {
		case l == "@enduml":
			phase = 3
		case l == "":
		case reSection.MatchString(l):
			m = reSection.FindStringSubmatch(l)
			d.evs = append(d.evs, ev{kind: "section", lbl: m[1]})
		case reCall.MatchString(lr):
			m = reCall.FindStringSubmatch(lr)
			d.evs = append(d.evs, ev{kind: "arrow", s: m[1], t: m[2], lbl: m[3]})
		case reSelf.MatchString(lr):
			m = reSelf.FindStringSubmatch(lr)
			if m[1] != m[2] {
				d.badLine = raw
			}
			d.evs = append(d.evs, ev{kind: "self", s: m[1], t: m[2]})
		case reRet.MatchString(lr):
			m = reRet.FindStringSubmatch(lr)
			d.evs = append(d.evs, ev{kind: "return", s: m[1], t: m[2]})
		case reAct.MatchString(l):
			m = reAct.FindStringSubmatch(l)
			d.evs = append(d.evs, ev{kind: m[1], t: m[2]})
		case reOver.MatchString(lr):
			m = reOver.FindStringSubmatch(lr)
			d.evs = append(d.evs, ev{kind: "noteover", t: m[1], lbl: m[2]})
		case reSide.MatchString(lr):
			txt := ""
			if mt := reSideText.FindStringSubmatch(lr); mt != nil {
				txt = mt[2]
			}
			d.evs = append(d.evs, ev{kind: "noteside", lbl: txt})
		case strings.HasPrefix(l, "title ") && len(d.evs) == 0:
			d.title = strings.TrimPrefix(lr, "title ")
			d.titles++
		case l == "end box":
			if !d.boxOpen {
				d.badLine = raw
			}
			d.boxOpen = false
		case reBox.MatchString(l):
			if d.boxOpen {
				d.badLine = raw
			}
			d.boxOpen = true
			d.boxes = append(d.boxes, nil)
			d.boxNames = append(d.boxNames, reBox.FindStringSubmatch(l)[1])
		case rePart.MatchString(l):
			m = rePart.FindStringSubmatch(l)
			if !d.boxOpen || len(d.boxes) == 0 {
				d.badLine = raw
			} else {
				d.boxes[len(d.boxes)-1] = append(d.boxes[len(d.boxes)-1], m[1])
			}
		case l == "end":
			d.evs = append(d.evs, ev{kind: "end"})
		default:
			w := strings.Fields(l)[0]
			switch w {
			case "opt", "loop", "group":
				d.evs = append(d.evs, ev{kind: "open", lbl: w})
			case "alt":
				d.evs = append(d.evs, ev{kind: "alt"})
			case "else":
				d.evs = append(d.evs, ev{kind: "else"})
			default:
				d.badLine = raw
			}
		}
	}
	if phase != 3 {
		d.badLine = "(no @enduml)"
	}
	return d
}

// ---------------------------------------------------------------- model-independent oracle

type arrowT struct{ from, a, e int } // from = -1: outside world

func hasPat(a *appT, p string) bool {
	for _, x := range a.Pats {
		if x == p {
			return true
		}
	}
	return false
}

func callsOf(ss []stmt, out *[][2]int) {
	for _, s := range ss {
		switch s.K {
		case kCall:
			*out = append(*out, [2]int{s.A, s.E})
		case kBlock:
			callsOf(s.Body, out)
		case kAlt:
			for _, c := range s.Alts {
				callsOf(c, out)
			}
		}
	}
}

type danglingErr struct{}

// refNilReached: the last reference walk passed a statement without type: the run may also end in an error
var refNilReached bool

// hasNil: does the statement list hold (at any depth) a statement without type
func hasNil(ss []stmt) bool {
	for _, s := range ss {
		if s.K == kNil || hasNil(s.Body) {
			return true
		}
		for _, c := range s.Alts {
			if hasNil(c) {
				return true
			}
		}
	}
	return false
}

// refVisits counts the endpoint visits of the last reference walk (drawn or not): the real generator labels at most
// one call per visit, which bounds the watchdog
var refVisits int

// refVisited (when set): how often the reference walk reaches an endpoint that has statements, per canonical key
var refVisited map[string]int

// refWalk: the specification of the call arrows: depth-first over call statements in source order; an endpoint in
// progress or cut by a blackbox is shown but not expanded. cut = effective blackbox keys. limit bounds the result.
func refWalk(tc *caseT, cut map[string]bool, inprog map[string]bool, from, a, e int, out *[]arrowT, limit int) {
	if a >= len(tc.Apps) || e >= len(tc.Apps[a].Eps) {
		panic(danglingErr{})
	}
	ap := &tc.Apps[a]
	ep := &ap.Eps[e]
	refVisits++
	human, cron := hasPat(ap, "human"), hasPat(ap, "cron")
	if !((human && from < 0) || cron) && !ep.Hidden {
		*out = append(*out, arrowT{from, a, e})
		if len(*out) > limit {
			panic(runaway{})
		}
	}
	k := key(a, e)
	if len(ep.Body) > 0 && refVisited != nil {
		refVisited[k]++
	}
	if len(ep.Body) == 0 || cut[k] || inprog[k] {
		return
	}
	inprog[k] = true
	// the statements of an expanded endpoint in source order: a call is followed; a statement without a type draws nothing:
	// the property lets the generator skip it or end the run in an error (refNilReached), it must not crash
	var walk func(ss []stmt)
	walk = func(ss []stmt) {
		for _, s := range ss {
			switch s.K {
			case kCall:
				refWalk(tc, cut, inprog, a, s.A, s.E, out, limit)
			case kBlock:
				walk(s.Body)
			case kAlt:
				for _, c := range s.Alts {
					walk(c)
				}
			case kNil:
				refNilReached = true
			}
		}
	}
	walk(ep.Body)
	delete(inprog, k)
}

// refDiagram: per start entry the expected arrows; ok=false when the run must end in an error (missing start or
// dangling target); big=true when the walk exceeds limit arrows
func refDiagram(tc *caseT, limit int) (arrows []arrowT, wantErr bool, big bool) {
	refVisits = 0
	refNilReached = false
	defer func() {
		if x := recover(); x != nil {
			switch x.(type) {
			case danglingErr:
				wantErr = true
			case runaway:
				big = true
			default:
				panic(x)
			}
		}
	}()
	// effective blackboxes, mutated from entry to entry exactly as the option is specified: every other start entry
	// is an "upto" marker ("see below"), which does not cut
	cut := map[string]bool{}
	for _, b := range tc.BBs {
		if b.CLen > 0 {
			cut[key(b.A, b.E)] = b.Cut
		}
	}
	for _, s := range tc.Starts {
		if s[0] >= len(tc.Apps) || s[1] >= len(tc.Apps[s[0]].Eps) {
			return nil, true, false
		}
		for _, o := range tc.Starts {
			if o != s {
				cut[key(o[0], o[1])] = false
			}
		}
		refWalk(tc, cut, map[string]bool{}, -1, s[0], s[1], &arrows, limit)
	}
	return arrows, false, false
}

type judged struct {
	obs     string // Gallina observation
	nArrows int
	outcome string // ok | err | panic
}

func aliasNum(s string) int { n, _ := strconv.Atoi(strings.TrimPrefix(s, "_")); return n }

var agentG = map[string]string{"actor": "Actor", "boundary": "Boundary", "control": "Control", "database": "Database", "collections": "Collections", "queue": "Queue"}

// namer: how participants, endpoints, sections and boxes of a diagram text are mapped back to the numbers of the case
type namer struct {
	app func(label string) int       // participant label -> application
	ep  func(label string) int       // arrow label -> endpoint
	sec func(text string) (int, int) // section header -> (application, endpoint)
}

var plainNames = &namer{
	app: func(l string) int {
		var ai int
		if n, _ := fmt.Sscanf(l, "A%02d", &ai); n != 1 {
			ai = 999999
		}
		return ai
	},
	ep: func(l string) int {
		var ei int
		if n, _ := fmt.Sscanf(l, "E%02d", &ei); n != 1 {
			ei = 999999
		}
		return ei
	},
	sec: func(t string) (int, int) {
		var a, ei int
		if n, _ := fmt.Sscanf(t, "A%02d <- E%02d", &a, &ei); n != 2 {
			a, ei = 999999, 999999
		}
		return a, ei
	},
}

// judge runs the real generator on tc, judges every clause of the property on the text and renders the observation
func judge(c *common.Ctx, tc *caseT) judged {
	want, wantErr, big := refDiagram(tc, 5000)
	if big {
		return judged{outcome: "big"}
	}
	nilReached := refNilReached
	// the real generator labels one call per visited call statement: more than the reference walk visits (plus slack)
	// means it expands what is already in progress; stopping there keeps the recursion shallow enough for the stack
	limit := refVisits + 64
	r := runReal(tc, limit)
	switch {
	case r.crashed:
		c.Fail("nontermination", fmt.Sprintf("generation does not terminate (%s) for a module whose reference walk visits %d endpoints", r.crashMsg, refVisits), tc)
		return judged{obs: "ObsPanic", outcome: "panic"}
	case r.runaway:
		c.Fail("nontermination", fmt.Sprintf("more than %d calls visited for a module whose reference walk visits %d endpoints (%d arrows): generation does not stop at calls in progress", limit, refVisits, len(want)), tc)
		return judged{obs: "ObsPanic", outcome: "panic"}
	case r.panicked:
		k := "panic:other"
		if strings.Contains(r.panicMsg, "not found") {
			k = "panic:missing-target"
		}
		if strings.Contains(r.panicMsg, "Unrecognised statement") {
			k = "panic:statement-without-type"
		}
		c.Fail(k, "GenerateSequenceDiag panics instead of returning a diagram or an error: "+r.panicMsg, tc)
		return judged{obs: "ObsPanic", outcome: "panic"}
	case r.err != nil:
		if !wantErr && !nilReached {
			c.Fail("spurious-error", "GenerateSequenceDiag returns an error although every start and call target exists and every visited statement has a type: "+r.err.Error(), tc)
		}
		return judged{obs: "ObsErr", outcome: "err"}
	}
	d, alias2app, got := judgeText(c, tc.Apps, r.text, want, wantErr, "arrows-differ", tc, plainNames)
	dg, eg, bg := obsOf(c, d, alias2app, tc, plainNames)
	return judged{obs: "(ObsOk " + common.GList(dg) + " " + common.GList(eg) + " " + common.GList(bg) + ")", nArrows: len(got), outcome: "ok"}
}

// judgeText: every clause of the property on one diagram text. want = the arrows of the reference walk; rp = the replay
// input reported with a failure; arrowsKey = the key a difference in the arrows is reported under
func judgeText(c *common.Ctx, apps []appT, text string, want []arrowT, wantErr bool, arrowsKey string, rp interface{}, nm *namer) (*diagram, map[string]int, []arrowT) {
	tc := rp
	d := readDiagram(text)
	if d.badLine != "" {
		c.Fail("unreadable-line", fmt.Sprintf("line not understood by the PlantUML-sequence reader: %q", d.badLine), tc)
	}
	// --- declared once
	alias2app := map[string]int{}
	seenLabel := map[string]bool{}
	for _, dc := range d.decls {
		if _, dup := alias2app[dc.alias]; dup || seenLabel[dc.label] {
			c.Fail("declared-twice", fmt.Sprintf("participant %s %q declared more than once", dc.alias, dc.label), tc)
		}
		seenLabel[dc.label] = true
		alias2app[dc.alias] = nm.app(dc.label)
	}
	used := func(al string) {
		if al == "[" || al == "" {
			return
		}
		if _, ok := alias2app[al]; !ok {
			c.Fail("undeclared-participant", fmt.Sprintf("participant %s is used but not declared", al), tc)
			alias2app[al] = 999999
		}
	}
	// --- activations, sender active, blocks
	active := map[string]int{}
	var stack []string
	var got []arrowT
	for _, e := range d.evs {
		used(e.s)
		used(e.t)
		switch e.kind {
		case "activate":
			active[e.t]++
		case "deactivate":
			active[e.t]--
			if active[e.t] < 0 {
				c.Fail("unbalanced-activation", fmt.Sprintf("deactivate %s without a matching activate", e.t), tc)
				active[e.t] = 0
			}
		case "arrow":
			ei := nm.ep(e.lbl)
			from := -1
			if e.s != "[" {
				from = alias2app[e.s]
				suppressed := from < len(apps) && (hasPat(&apps[from], "human") || hasPat(&apps[from], "cron"))
				if active[e.s] <= 0 && !suppressed {
					c.Fail("sender-inactive", fmt.Sprintf("%s (%s) sends the call %s to %s while it is not active", e.s, an(from), e.lbl, e.t), tc)
				}
			}
			got = append(got, arrowT{from, alias2app[e.t], ei})
		case "open", "alt":
			stack = append(stack, e.kind)
		case "else":
			if len(stack) == 0 || stack[len(stack)-1] != "alt" {
				c.Fail("block-not-closed", "else outside an alt block", tc)
			}
		case "end":
			if len(stack) == 0 {
				c.Fail("block-not-closed", "end without an open block", tc)
			} else {
				stack = stack[:len(stack)-1]
			}
		case "section":
			if len(stack) != 0 {
				c.Fail("block-not-closed", "a new section starts inside an open block", tc)
			}
			// several start entries: activations and deactivations pair up within every section
			var still []string
			for al, n := range active {
				if n != 0 {
					still = append(still, al)
				}
			}
			sort.Strings(still)
			if len(still) > 0 {
				c.Fail("unbalanced-activation:section", fmt.Sprintf("section %q starts while %s is still active (%d)", e.lbl, still[0], active[still[0]]), tc)
				for _, al := range still {
					active[al] = 0
				}
			}
		}
	}
	if len(stack) != 0 || d.boxOpen {
		c.Fail("block-not-closed", fmt.Sprintf("%d block(s) still open at the end of the diagram", len(stack)), tc)
	}
	for al, n := range active {
		if n != 0 {
			c.Fail("unbalanced-activation", fmt.Sprintf("%s is still active (%d) at the end of the diagram", al, n), tc)
		}
	}
	// --- group boxes mention declared participants, each at most once
	inBox := map[string]bool{}
	for _, b := range d.boxes {
		for _, al := range b {
			used(al)
			if inBox[al] {
				c.Fail("declared-twice", fmt.Sprintf("participant %s is in two boxes", al), tc)
			}
			inBox[al] = true
		}
	}
	// --- arrows = reference walk
	if wantErr {
		c.Fail("missing-error", "a start endpoint or a call target does not exist, yet a diagram was returned", tc)
	} else if arrowsKey != "" {
		same := len(got) == len(want)
		for i := 0; same && i < len(got); i++ {
			same = got[i] == want[i]
		}
		if !same {
			i := 0
			for i < len(got) && i < len(want) && got[i] == want[i] {
				i++
			}
			c.Fail(arrowsKey, fmt.Sprintf("the call arrows are not the calls reachable from the start in source order: %d arrows drawn, %d expected, first difference at arrow %d", len(got), len(want), i), tc)
		}
	}
	return d, alias2app, got
}

// obsOf: the observation for Coq: head declarations, body events, boxes
func obsOf(c *common.Ctx, d *diagram, alias2app map[string]int, tc interface{}, nm *namer) (dg, eg, bg []string) {
	for _, dc := range d.decls {
		ag, ok := agentG[dc.agent]
		if !ok {
			ag = "Actor"
			c.Fail("unreadable-line", "unknown participant kind "+dc.agent, tc)
		}
		dg = append(dg, fmt.Sprintf("(%d,%s)", alias2app[dc.alias], ag))
	}
	p := func(al string) string {
		if al == "[" {
			return "W"
		}
		return fmt.Sprintf("(P %d)", alias2app[al])
	}
	for _, e := range d.evs {
		switch e.kind {
		case "section":
			a, ei := nm.sec(e.lbl)
			eg = append(eg, fmt.Sprintf("Section %d %d", a, ei))
		case "arrow":
			eg = append(eg, fmt.Sprintf("Arrow %s %d %d", p(e.s), alias2app[e.t], nm.ep(e.lbl)))
		case "return":
			eg = append(eg, fmt.Sprintf("Return %s %d", p(e.s), alias2app[e.t]))
		case "self":
			eg = append(eg, fmt.Sprintf("Self %d", alias2app[e.s]))
		case "activate":
			eg = append(eg, fmt.Sprintf("Activate %d", alias2app[e.t]))
		case "deactivate":
			eg = append(eg, fmt.Sprintf("Deactivate %d", alias2app[e.t]))
		case "open":
			eg = append(eg, "Open "+map[string]string{"opt": "KOpt", "loop": "KLoop", "group": "KGroup"}[e.lbl])
		case "alt":
			eg = append(eg, "OpenAlt")
		case "else":
			eg = append(eg, "Else")
		case "end":
			eg = append(eg, "Close")
		case "noteover":
			eg = append(eg, fmt.Sprintf("NoteOver %d", alias2app[e.t]))
		case "noteside":
			eg = append(eg, "NoteSide")
		}
	}
	for i, b := range d.boxes {
		var gi int
		if n, _ := fmt.Sscanf(d.boxNames[i], "t%d", &gi); n != 1 {
			gi = 999999
		}
		var ms []string
		for _, al := range b {
			ms = append(ms, fmt.Sprint(alias2app[al]))
		}
		bg = append(bg, fmt.Sprintf("(%d,%s)", gi, common.GList(ms)))
	}
	return dg, eg, bg
}

// ---------------------------------------------------------------- Gallina printing of the input

func gStmts(ss []stmt) string {
	var p []string
	for _, s := range ss {
		switch s.K {
		case kCall:
			p = append(p, fmt.Sprintf("C %d %d", s.A, s.E))
		case kAction:
			p = append(p, "Ac")
		case kDots:
			p = append(p, "D")
		case kRet:
			p = append(p, payKind[s.Pay])
		case kBlock:
			p = append(p, "B "+[]string{"BCond", "BLoop", "BLoopN", "BForeach", "BGroup"}[s.BK]+" "+gStmts(s.Body))
		case kAlt:
			var cs []string
			for _, c := range s.Alts {
				cs = append(cs, gStmts(c))
			}
			p = append(p, "Al "+common.GList(cs))
		case kNil:
			p = append(p, "Ni")
		}
	}
	return common.GList(p)
}

func gCase(tc *caseT, obs string) string {
	var apps []string
	for i, a := range tc.Apps {
		var ps, es []string
		for _, p := range a.Pats {
			ps = append(ps, patG(p))
		}
		for j, e := range a.Eps {
			es = append(es, fmt.Sprintf("(%d, EP %s %s)", j, common.GBool(e.Hidden), gStmts(e.Body)))
		}
		apps = append(apps, fmt.Sprintf("(%d, AP %s %s)", i, common.GList(ps), common.GList(es)))
	}
	var bbs, sts []string
	for _, b := range tc.BBs {
		bbs = append(bbs, fmt.Sprintf("BB %d %d %s %s", b.A, b.E, common.GBool(b.Cut), []string{"C0", "C1", "CN"}[b.CLen]))
	}
	for _, s := range tc.Starts {
		sts = append(sts, fmt.Sprintf("(%d,%d)", s[0], s[1]))
	}
	var grp []string // application -> value of the group-by attribute ("t<n>" -> n); empty when the option is off
	if tc.GroupBy {
		for i, a := range tc.Apps {
			var gi int
			if n, _ := fmt.Sscanf(a.Group, "t%d", &gi); n == 1 {
				grp = append(grp, fmt.Sprintf("(%d,%d)", i, gi))
			}
		}
	}
	return fmt.Sprintf("(%s, %s, %s, %s, %s)", common.GList(apps), common.GList(bbs), common.GList(sts), common.GList(grp), obs)
}

// ---------------------------------------------------------------- generators

type genOpts struct {
	napps, neps, depth, width int
	dangling                  bool
	patterns                  bool
	hidden                    bool
	nils                      bool // statements without type
}

func genStmts(r *common.Rng, o *genOpts, depth int, appEps []int) []stmt {
	n := r.Intn(o.width + 1)
	var out []stmt
	for i := 0; i < n; i++ {
		k := r.Intn(14)
		switch {
		case o.nils && r.Chance(1, 10):
			out = append(out, stmt{K: kNil})
		case k < 6:
			a := r.Intn(len(appEps))
			e := r.Intn(appEps[a])
			if o.dangling && r.Chance(1, 8) {
				if r.Bool() {
					a = len(appEps) // no such app
				} else {
					e = appEps[a] // no such endpoint
				}
			}
			out = append(out, stmt{K: kCall, A: a, E: e})
		case k < 7:
			out = append(out, stmt{K: kAction})
		case k < 8:
			out = append(out, stmt{K: kDots})
		case k < 10:
			out = append(out, stmt{K: kRet, Pay: r.Intn(len(payloads))})
		case k < 12 && depth > 0:
			out = append(out, stmt{K: kBlock, BK: r.Intn(5), Body: genStmts(r, o, depth-1, appEps)})
		case depth > 0:
			nc := 1 + r.Intn(3)
			s := stmt{K: kAlt}
			for j := 0; j < nc; j++ {
				s.Alts = append(s.Alts, genStmts(r, o, depth-1, appEps))
			}
			out = append(out, s)
		default:
			out = append(out, stmt{K: kCall, A: r.Intn(len(appEps)), E: 0})
		}
	}
	return out
}

var patPool = []string{"human", "cron", "ui", "db", "external", "file", "topic", "batch"}

func genModule(r *common.Rng, o *genOpts) *caseT {
	tc := &caseT{}
	appEps := make([]int, o.napps)
	for i := range appEps {
		appEps[i] = 1 + r.Intn(o.neps)
	}
	for i := 0; i < o.napps; i++ {
		a := appT{}
		if o.patterns && r.Chance(1, 3) {
			np := 1 + r.Intn(2)
			for j := 0; j < np; j++ {
				a.Pats = append(a.Pats, patPool[r.Intn(len(patPool))])
			}
		}
		for j := 0; j < appEps[i]; j++ {
			e := endpointT{Body: genStmts(r, o, o.depth, appEps)}
			if e.Body == nil {
				e.Body = []stmt{}
			}
			if o.hidden && r.Chance(1, 10) {
				e.Hidden = true
			}
			a.Eps = append(a.Eps, e)
		}
		tc.Apps = append(tc.Apps, a)
	}
	// the shapes the surviving mutants need (DESIGN Appendix B)
	pick := func() (int, int) { a := r.Intn(o.napps); return a, r.Intn(appEps[a]) }
	if r.Chance(1, 2) {
		// the same callee called twice by one caller; the callee itself calls on
		ca, ce := pick()
		ta, te := pick()
		ua, ue := pick()
		b := &tc.Apps[ta].Eps[te].Body
		*b = append([]stmt{{K: kCall, A: ua, E: ue}}, *b...)
		cb := &tc.Apps[ca].Eps[ce].Body
		*cb = append(*cb, stmt{K: kCall, A: ta, E: te}, stmt{K: kAction}, stmt{K: kCall, A: ta, E: te})
	}
	if r.Chance(1, 2) {
		// alt as the last statement, calls ending its choices, possibly nested in a block; returns in nested blocks
		ca, ce := pick()
		alt := stmt{K: kAlt}
		nc := 2 + r.Intn(2)
		for j := 0; j < nc; j++ {
			ta, te := pick()
			ch := []stmt{{K: kCall, A: ta, E: te}}
			if r.Chance(1, 3) {
				ch = append([]stmt{{K: kBlock, BK: r.Intn(5), Body: []stmt{{K: kRet, Pay: r.Intn(len(payloads))}}}}, ch...)
			}
			alt.Alts = append(alt.Alts, ch)
		}
		last := alt
		if r.Chance(1, 3) {
			last = stmt{K: kBlock, BK: r.Intn(5), Body: []stmt{{K: kAction}, alt}}
		}
		cb := &tc.Apps[ca].Eps[ce].Body
		*cb = append(*cb, last)
	}
	if r.Chance(1, 3) {
		// re-entrancy through DIFFERENT endpoints of one application: X.Ei -> Y.Ej -> X.Ek -> Y.Ej (on the path: shown, not
		// expanded) and -> X.Ei (on the path); X.Ek itself is expanded although X is already being expanded - the mark is per
		// (application, endpoint), a counter that is released on the way back
		xa, xe := pick()
		ya, ye := pick()
		xk := (xe + 1) % appEps[xa]
		pre := func(a, e int, ss ...stmt) {
			b := &tc.Apps[a].Eps[e].Body
			*b = append(append([]stmt{}, ss...), *b...)
		}
		pre(xa, xk, stmt{K: kCall, A: ya, E: ye}, stmt{K: kCall, A: xa, E: xe})
		pre(ya, ye, stmt{K: kCall, A: xa, E: xk})
		pre(xa, xe, stmt{K: kCall, A: ya, E: ye}, stmt{K: kCall, A: ya, E: ye})
	}
	return tc
}

func genCase(r *common.Rng, hostile bool) *caseT {
	o := &genOpts{napps: 1 + r.Intn(4), neps: 1 + r.Intn(3), depth: 2, width: 3, patterns: r.Chance(1, 2), hidden: r.Chance(1, 3)}
	if hostile {
		o.dangling = r.Chance(1, 2)
		o.nils = r.Chance(1, 3)
		o.napps = 1 + r.Intn(6)
		o.depth = 1 + r.Intn(3)
		o.width = 1 + r.Intn(4)
		o.patterns = true
	}
	tc := genModule(r, o)
	pick := func() [2]int { a := r.Intn(len(tc.Apps)); return [2]int{a, r.Intn(len(tc.Apps[a].Eps))} }
	// starts
	ns := 1
	if r.Chance(1, 6) {
		ns = 2 + r.Intn(2)
	}
	for i := 0; i < ns; i++ {
		tc.Starts = append(tc.Starts, pick())
	}
	if hostile && r.Chance(1, 8) {
		switch r.Intn(3) {
		case 0:
			tc.Starts = append(tc.Starts, [2]int{len(tc.Apps), 0})
		case 1:
			tc.Starts = append(tc.Starts, [2]int{0, len(tc.Apps[0].Eps)})
		default:
			tc.Starts = nil
		}
	}
	// blackboxes
	if r.Chance(1, 4) {
		nb := 1 + r.Intn(2)
		seen := map[[2]int]bool{}
		for i := 0; i < nb; i++ {
			k := pick()
			if seen[k] {
				continue
			}
			seen[k] = true
			cl := 2
			if r.Chance(1, 4) {
				cl = r.Intn(3)
			}
			tc.BBs = append(tc.BBs, bbT{A: k[0], E: k[1], Cut: !r.Chance(1, 6), CLen: cl})
		}
	}
	if r.Chance(1, 5) {
		tc.GroupBy = true
		for i := range tc.Apps {
			if r.Chance(2, 3) {
				tc.Apps[i].Group = []string{"t2", "t1", "t3"}[r.Intn(3)]
			}
		}
	}
	return tc
}

// every module over 3 endpoints (A00.E00, A00.E01, A01.E00) whose bodies have at most 2 statements drawn from
// {call to each of the 3, return shown, return primitive}; start A00.E00
func exhaustive(f func(tc *caseT)) {
	alpha := []stmt{{K: kCall, A: 0, E: 0}, {K: kCall, A: 0, E: 1}, {K: kCall, A: 1, E: 0}, {K: kRet, Pay: 2}, {K: kRet, Pay: 1}}
	var bodies [][]stmt
	bodies = append(bodies, []stmt{})
	for _, x := range alpha {
		bodies = append(bodies, []stmt{x})
	}
	for _, x := range alpha {
		for _, y := range alpha {
			bodies = append(bodies, []stmt{x, y})
		}
	}
	for _, b0 := range bodies {
		for _, b1 := range bodies {
			for _, b2 := range bodies {
				f(&caseT{Apps: []appT{{Eps: []endpointT{{Body: b0}, {Body: b1}}}, {Eps: []endpointT{{Body: b2}}}}, Starts: [][2]int{{0, 0}}})
			}
		}
	}
}

func sizeOf(ss []stmt) (n, depth int) {
	for _, s := range ss {
		n++
		m, d := sizeOf(s.Body)
		n += m
		if d+1 > depth {
			depth = d + 1
		}
		for _, c := range s.Alts {
			m, d := sizeOf(c)
			n += m
			if d+1 > depth {
				depth = d + 1
			}
		}
	}
	return
}

func main() {
	if common.IsWorker() {
		debug.SetMaxStack(64 << 20)
		common.ServeWorker(serveOne)
		return
	}
	c := common.Setup("C13")
	defer c.Finish()
	worker = common.NewWorker()
	defer worker.Close()
	classifyPayloads()
	c.Res.Rule = "each case = (module of 1-6 apps x 1-3 endpoints whose statements are calls / actions / returns with 10 payload spellings / opt-loop-group blocks / alternatives nested up to 3 deep, patterns human-cron-ui-db-..., hidden endpoints; start entries; blackboxes; group-by option); mostly-valid stream + hostile stream (dangling call targets, missing starts, no starts) + the shapes `callee called twice`, `alt with calls ending its choices as last statement`, `return inside a nested block`, `re-entrancy through different endpoints of one application`; a `sections` stream (up to four endpoints as start entries in one diagram, one of them twice now and then); statements without type (protobuf oneof unset) in a third of the hostile modules; thorough adds every module over 3 endpoints x <=2 statements; distinct = distinct abstract case; non-trivial = the diagram has at least 3 call arrows, or the run ends in an error"
	if c.Replay != "" {
		var rp replayT
		if err := common.LoadReplay(c.Replay, &rp); err != nil {
			fmt.Fprintln(os.Stderr, err)
			os.Exit(3)
		}
		if rp.Kind != "" {
			replayNew(c, &rp)
			return
		}
		tc := rp.caseT
		j := judge(c, &tc)
		r := runReal(&tc, refVisits+64)
		c.Count("replay", true)
		fmt.Printf("replay: outcome=%s failures=%d\n%s\n", j.outcome, len(c.Res.Failures), r.text)
		for _, f := range c.Res.Failures {
			fmt.Println("  " + f.Key + ": " + f.What)
		}
		return
	}
	header := `From Coq Require Import List NArith Bool. Import ListNotations.
Require Import Verif.Seq.SeqModel Verif.Seq.Run Verif.Gen.SeqShape Verif.Base.Harness.
Local Open Scope N_scope.
Notation C := Call. Notation Ac := Action. Notation D := Dots. Notation B := Block. Notation Al := Alt. Notation W := World. Notation Ni := Nil.
Definition Re := Ret RetEmpty. Definition Rp := Ret RetPrim. Definition Rs := Ret RetShown.
Definition EP h b := {| ep_hidden := h; ep_body := b |}. Definition AP p e := {| app_pats := p; app_eps := e |}.
Definition BB a e c l := {| bb_key := (a,e); bb_cut := c; bb_clen := l |}.`
	footer := `Definition M := Eval vm_compute in mismatches (c13_ok variant_now) cases. Print M.`
	cs := c.NewCases("C13", header, "c13_case", footer, 400)

	one := func(tc *caseT, stream string, toCoq bool) {
		j := judge(c, tc)
		if j.outcome == "big" {
			c.Hist("skipped:reference-walk-too-big")
			return
		}
		id := gCase(tc, "")
		c.Count(id, j.nArrows >= 3 || j.outcome != "ok")
		c.Hist("stream:" + stream)
		c.Hist("outcome:" + j.outcome)
		switch {
		case j.nArrows >= 50:
			c.Hist("arrows:50+")
		case j.nArrows >= 10:
			c.Hist("arrows:10-49")
		case j.nArrows >= 3:
			c.Hist("arrows:3-9")
		default:
			c.Hist("arrows:0-2")
		}
		if len(tc.BBs) > 0 {
			c.Hist("with:blackboxes")
		}
		if len(tc.Starts) > 1 {
			c.Hist("with:several-starts")
		}
		for i := range tc.Apps {
			for k := range tc.Apps[i].Eps {
				if hasNil(tc.Apps[i].Eps[k].Body) {
					c.Hist("with:statement-without-type")
					if j.outcome == "ok" {
						c.Hist("with:statement-without-type:not-reached")
					}
					goto histDone
				}
			}
		}
	histDone:
		if tc.GroupBy {
			c.Hist("with:groupby")
		}
		if toCoq && j.nArrows <= 600 {
			cs.Add(gCase(tc, j.obs), tc)
			if j.nArrows >= 3 && j.nArrows <= 8 {
				c.Sample(map[string]interface{}{"case": tc, "observation": j.obs})
			}
		}
	}

	// regression corpus first: the two known defects and the mutant shapes
	for _, tc := range corpus() {
		one(tc, "corpus", true)
	}
	n := 1400
	if c.Thorough() {
		n = 12000
	}
	if c.Search {
		n *= 4
	}
	for i := 0; i < n; i++ {
		hostile := i%4 == 3
		tc := genCase(c.Rng, hostile)
		if hostile {
			one(tc, "hostile", true)
		} else {
			one(tc, "valid", true)
		}
		// several sections in one diagram: up to four endpoints of the module as start entries, in random order, now and
		// then one of them twice (-s repeated)
		if !hostile && i%7 == 1 {
			t3 := *tc
			t3.Starts = nil
			for a := range tc.Apps {
				for e := range tc.Apps[a].Eps {
					if len(t3.Starts) < 4 {
						t3.Starts = append(t3.Starts, [2]int{a, e})
					}
				}
			}
			if c.Rng.Chance(1, 3) {
				t3.Starts = append(t3.Starts, t3.Starts[c.Rng.Intn(len(t3.Starts))])
			}
			for j := len(t3.Starts) - 1; j > 0; j-- {
				k := c.Rng.Intn(j + 1)
				t3.Starts[j], t3.Starts[k] = t3.Starts[k], t3.Starts[j]
			}
			one(&t3, "sections", true)
		}
		// every endpoint as the start (up to 3 more)
		if !hostile && i%3 == 0 {
			k := 0
			for a := range tc.Apps {
				for e := range tc.Apps[a].Eps {
					if k < 3 && (len(tc.Starts) != 1 || tc.Starts[0] != [2]int{a, e}) {
						t2 := *tc
						t2.Starts = [][2]int{{a, e}}
						one(&t2, "valid", true)
						k++
					}
				}
			}
		}
	}
	if c.Thorough() || c.Search {
		k := 0
		exhaustive(func(tc *caseT) {
			k++
			one(tc, "exhaustive", !c.Search)
		})
		c.Res.Extra["exhaustive_small_scope_modules"] = k
	}
	cs.Close()
	// label pipeline (deepen round 3)
	nf, nu := 1500, 300
	if c.Thorough() {
		nf, nu = 20000, 3000
	}
	if c.Search {
		nf *= 3
	}
	fmtStream(c, nf)
	utilStream(c, nu)
	no := 450
	if c.Thorough() {
		no = 6000
	}
	if c.Search {
		no *= 3
	}
	optStream(c, no)
	cliStream(c)
	c.Res.Extra["worker_restarts"] = worker.Restarts
}

func replayNew(c *common.Ctx, rp *replayT) {
	switch rp.Kind {
	case "fmt":
		rep, crashed, msg := runFmt(rp.Fmt)
		c.Count("replay", true)
		fmt.Printf("replay fmt: format=%q crashed=%v %s panicked=%v %s\nlabel=%q mutated=%v dirty=%v\n", rp.Fmt.Self, crashed, msg, rep.Panicked, rep.PanicMsg, rep.Out, rep.Mutated, rep.Dirty)
		if rep.Panicked {
			c.Fail(fmtPanicKey(rep.PanicMsg), "FormatParser panics: "+rep.PanicMsg, rp)
		}
	case "cli":
		if rp.Cli.Stdin != nil {
			fmt.Printf("replay cli: sysl %s < module.pb, the compiled module being %s\n", strings.Join(rp.Cli.Args, " "), gCase(rp.Cli.Stdin, ""))
			return
		}
		fmt.Printf("replay cli: sysl %s m.sysl with Project%s / Project <- E00%s; source:\n%s\n", strings.Join(rp.Cli.Args, " "), rp.Cli.ProjAttr, rp.Cli.EpAttr, fmt.Sprintf(cliSource, rp.Cli.ProjAttr, rp.Cli.EpAttr))
	case "util":
		fmt.Printf("replay util: %+v\n", *rp.Util)
	case "opt":
		cs := c.NewCases("C13opt", optHeader(), "opt_case", "", 150)
		optOne(c, cs, rp.Opt, "replay")
		cs.Close()
		rep, _, _ := runOpt(rp.Opt, false)
		fmt.Printf("replay opt: options=%+v\nerr=%v %s panicked=%v %s warnings=%q\n", rp.Opt.Opt, rep.HasErr, rep.Err, rep.Panicked, rep.PanicMsg, rep.Warnings)
		for n, t := range rep.Outs {
			fmt.Printf("---- %s\n%s\n", n, t)
		}
		for _, f := range c.Res.Failures {
			fmt.Println("  " + f.Key + ": " + f.What)
		}
	}
}

func corpus() []*caseT {
	call := func(a, e int) stmt { return stmt{K: kCall, A: a, E: e} }
	ret := func(p int) stmt { return stmt{K: kRet, Pay: p} }
	return []*caseT{
		// DESIGN §5 C13 "Today": A.E1 = {B<-G; C<-H; return shown}, B.G = {A<-E1}: B calls the in-progress A.E1
		{Apps: []appT{{Eps: []endpointT{{Body: []stmt{call(1, 0), call(2, 0), ret(2)}}}}, {Eps: []endpointT{{Body: []stmt{call(0, 0), {K: kAction}}}}}, {Eps: []endpointT{{Body: []stmt{{K: kAction}}}}}}, Starts: [][2]int{{0, 0}}},
		// dangling call target (app), dangling endpoint
		{Apps: []appT{{Eps: []endpointT{{Body: []stmt{call(1, 0)}}}}}, Starts: [][2]int{{0, 0}}},
		{Apps: []appT{{Eps: []endpointT{{Body: []stmt{call(0, 1)}}}}}, Starts: [][2]int{{0, 0}}},
		// the same non-recursive callee twice
		{Apps: []appT{{Eps: []endpointT{{Body: []stmt{call(1, 0), call(1, 0)}}}}, {Eps: []endpointT{{Body: []stmt{call(2, 0)}}}}, {Eps: []endpointT{{Body: []stmt{{K: kAction}}}}}}, Starts: [][2]int{{0, 0}}},
		// alt as last statement, a call ending each choice, callee without shown payload
		{Apps: []appT{{Eps: []endpointT{{Body: []stmt{{K: kAlt, Alts: [][]stmt{{call(1, 0)}, {call(1, 0)}}}}}}}, {Eps: []endpointT{{Body: []stmt{{K: kAction}, ret(1)}}}}}, Starts: [][2]int{{0, 0}}},
		// re-entrancy through DIFFERENT endpoints of one application: A.E0 -> B.E0 -> A.E1 -> B.E0 (B.E0 is on the path: shown,
		// not expanded) -> A.E0 (on the path); A.E1 itself is expanded although A is already being expanded
		{Apps: []appT{{Eps: []endpointT{{Body: []stmt{call(1, 0), {K: kAction}}}, {Body: []stmt{call(1, 0), call(0, 0), ret(2)}}}}, {Eps: []endpointT{{Body: []stmt{call(0, 1), ret(2)}}}}}, Starts: [][2]int{{0, 0}}},
		// the same endpoint reached twice on different paths is expanded twice (the mark is released), a self call is not
		{Apps: []appT{{Eps: []endpointT{{Body: []stmt{call(0, 1), call(1, 0), call(0, 1)}}, {Body: []stmt{call(1, 0), call(0, 1)}}}}, {Eps: []endpointT{{Body: []stmt{call(0, 1)}}}}}, Starts: [][2]int{{0, 0}, {0, 1}}},
		// a statement without type: in the start endpoint; nested in a block of a callee; below a blackbox (not reached: harmless);
		// behind a call to a missing application (the error of the call comes first)
		{Apps: []appT{{Eps: []endpointT{{Body: []stmt{{K: kAction}, {K: kNil}}}}}}, Starts: [][2]int{{0, 0}}},
		{Apps: []appT{{Eps: []endpointT{{Body: []stmt{call(1, 0), ret(2)}}}}, {Eps: []endpointT{{Body: []stmt{{K: kAction}, {K: kBlock, BK: 0, Body: []stmt{{K: kNil}}}}}}}}, Starts: [][2]int{{0, 0}}},
		{Apps: []appT{{Eps: []endpointT{{Body: []stmt{call(1, 0), ret(2)}}}}, {Eps: []endpointT{{Body: []stmt{{K: kAlt, Alts: [][]stmt{{{K: kAction}}, {{K: kNil}}}}}}}}}, Starts: [][2]int{{0, 0}}, BBs: []bbT{{A: 1, E: 0, Cut: true, CLen: 2}}},
		{Apps: []appT{{Eps: []endpointT{{Body: []stmt{call(3, 0), {K: kNil}}}}}}, Starts: [][2]int{{0, 0}}},
		// GetReturnPayload looks past a statement without type: the black-boxed callee's `return` behind it still decides
		// that the call is answered (activate, note, return arrow, deactivate)
		{Apps: []appT{{Eps: []endpointT{{Body: []stmt{call(1, 0), {K: kAction}}}}}, {Eps: []endpointT{{Body: []stmt{{K: kNil}, {K: kBlock, BK: 1, Body: []stmt{{K: kNil}, ret(2)}}}}}}}, Starts: [][2]int{{0, 0}}, BBs: []bbT{{A: 1, E: 0, Cut: true, CLen: 2}}},
		// three sections; the second start is called by the first and calls it back; one start twice
		{Apps: []appT{{Eps: []endpointT{{Body: []stmt{call(1, 0), call(2, 0), ret(2)}}}}, {Eps: []endpointT{{Body: []stmt{call(0, 0), {K: kAction}}}}}, {Eps: []endpointT{{Body: []stmt{{K: kAction}}}}}}, Starts: [][2]int{{0, 0}, {1, 0}, {2, 0}, {0, 0}}},
		// return inside nested blocks decides the payload
		{Apps: []appT{{Eps: []endpointT{{Body: []stmt{call(1, 0)}}}}, {Eps: []endpointT{{Body: []stmt{{K: kBlock, BK: 0, Body: []stmt{{K: kBlock, BK: 1, Body: []stmt{ret(2)}}}}, call(0, 0)}}}}}, Starts: [][2]int{{0, 0}}},
	}
}
