// C13, option layer: generated modules WITH texts (names, attributes, patterns, `blackboxes` attributes, format
// attributes) through the real sequencediagram.DoConstructSequenceDiagrams in both of its modes, the blackboxes coming
// in by every door the code has: BlackboxesFlag (what `-b key=note` fills), Blackboxes, the `blackboxes` attribute of
// the project application and of its endpoints. Each case runs twice: with the plain formats (%(epname), %(appname))
// - that text is judged by the model-independent oracle (all clauses of the property, the call arrows against a
// reference walk in which every accepted blackbox is a cut point) -
// and with the formats of the case: the structure must be the same line for line, the label / note / title texts go
// to Coq (Seq/SeqOpts.v).
package main

import (
	"fmt"
	"regexp"
	"sort"
	"strings"
	"time"

	"github.com/anz-bank/sysl/pkg/cmdutils"
	"github.com/anz-bank/sysl/pkg/sequencediagram"
	"github.com/anz-bank/sysl/pkg/sysl"
	"github.com/sirupsen/logrus"
	"google.golang.org/protobuf/proto"

	"verifharness/common"
)

type optsT struct {
	Output    string      `json:"output"`
	Title     string      `json:"title,omitempty"`
	EpFmt     string      `json:"epfmt"`
	AppFmt    string      `json:"appfmt"`
	Endpoints []string    `json:"endpoints,omitempty"`
	Apps      []string    `json:"apps,omitempty"`
	BBFlag    [][2]string `json:"bbflag,omitempty"` // BlackboxesFlag (a map: keys distinct)
	BBList    [][]string  `json:"bblist,omitempty"` // Blackboxes
	Group     string      `json:"group,omitempty"`
}

type optCase struct {
	Apps []appT `json:"apps"`
	Opt  optsT  `json:"opt"`
}

func appName(apps []appT, i int) string { return an(i) + apps[i].Suffix }
func epName(apps []appT, a, e int) string {
	return en(e) + apps[a].Eps[e].Suffix
}

// ---------------------------------------------------------------- the module with its texts

func sAttr(v string) *sysl.Attribute { return &sysl.Attribute{Attribute: &sysl.Attribute_S{S: v}} }

func bbAttr(l []bbElt) *sysl.Attribute {
	var elt []*sysl.Attribute
	for _, b := range l {
		if b.NotArray {
			s := ""
			if len(b.Strs) > 0 {
				s = b.Strs[0]
			}
			elt = append(elt, sAttr(s))
			continue
		}
		var in []*sysl.Attribute
		for _, x := range b.Strs {
			in = append(in, sAttr(x))
		}
		elt = append(elt, &sysl.Attribute{Attribute: &sysl.Attribute_A{A: &sysl.Attribute_Array{Elt: in}}})
	}
	return &sysl.Attribute{Attribute: &sysl.Attribute_A{A: &sysl.Attribute_Array{Elt: elt}}}
}

func toProtoTx(apps []appT, ss []stmt) []*sysl.Statement {
	out := toProto(ss)
	for i, s := range ss {
		switch s.K {
		case kCall:
			c := out[i].GetCall()
			if s.A < len(apps) {
				c.Target = &sysl.AppName{Part: []string{appName(apps, s.A)}}
				if s.E < len(apps[s.A].Eps) {
					c.Endpoint = epName(apps, s.A, s.E)
				}
			}
			if len(s.Attrs) > 0 || len(s.XPats) > 0 {
				out[i].Attrs = map[string]*sysl.Attribute{}
				for k, v := range s.Attrs {
					out[i].Attrs[k] = sAttr(v)
				}
				if len(s.XPats) > 0 {
					out[i].Attrs["patterns"] = patAttr(s.XPats)
				}
			}
		case kBlock:
			b := toProtoTx(apps, s.Body)
			switch x := out[i].Stmt.(type) {
			case *sysl.Statement_Cond:
				x.Cond.Stmt = b
			case *sysl.Statement_Loop:
				x.Loop.Stmt = b
			case *sysl.Statement_LoopN:
				x.LoopN.Stmt = b
			case *sysl.Statement_Foreach:
				x.Foreach.Stmt = b
			case *sysl.Statement_Group:
				x.Group.Stmt = b
			}
		case kAlt:
			for j, ch := range s.Alts {
				out[i].GetAlt().Choice[j].Stmt = toProtoTx(apps, ch)
			}
		}
	}
	return out
}

func epPats(e *endpointT) []string {
	var ps []string
	if e.Hidden {
		ps = append(ps, "hidden")
	}
	return append(ps, e.XPats...)
}

// plain: without the format attributes of the applications (the run whose labels are the names)
func buildModuleTx(apps []appT, plain bool) *sysl.Module {
	m := &sysl.Module{Apps: map[string]*sysl.Application{}}
	for i, a := range apps {
		pa := &sysl.Application{Name: &sysl.AppName{Part: []string{appName(apps, i)}}, Endpoints: map[string]*sysl.Endpoint{}, Attrs: map[string]*sysl.Attribute{},
			Types: map[string]*sysl.Type{"T": {Type: &sysl.Type_Tuple_{Tuple: &sysl.Type_Tuple{}}, Attrs: map[string]*sysl.Attribute{"iso_conf": sAttr("restricted"), "iso_integ": sAttr("high")}}}}
		if len(a.Pats) > 0 {
			pa.Attrs["patterns"] = patAttr(a.Pats)
		}
		if a.Group != "" {
			pa.Attrs["team"] = sAttr(a.Group)
		}
		for k, v := range a.Attrs {
			if plain && (k == "epfmt" || k == "appfmt" || k == "seqtitle") {
				continue
			}
			pa.Attrs[k] = sAttr(v)
		}
		if a.BBAttr != nil {
			pa.Attrs["blackboxes"] = bbAttr(a.BBAttr)
		}
		for j := range a.Eps {
			e := &a.Eps[j]
			pe := &sysl.Endpoint{Name: epName(apps, i, j), LongName: e.Long, Stmt: toProtoTx(apps, e.Body), Attrs: map[string]*sysl.Attribute{}}
			if ps := epPats(e); len(ps) > 0 {
				pe.Attrs["patterns"] = patAttr(ps)
			}
			for k, v := range e.Attrs {
				pe.Attrs[k] = sAttr(v)
			}
			if e.BBAttr != nil {
				pe.Attrs["blackboxes"] = bbAttr(e.BBAttr)
			}
			for _, p := range e.Params {
				pe.Param = append(pe.Param, &sysl.Param{Name: "p", Type: &sysl.Type{Type: &sysl.Type_TypeRef{TypeRef: &sysl.ScopedRef{
					Ref: &sysl.Scope{Appname: &sysl.AppName{Part: []string{p[0]}}, Path: []string{p[1]}}}}}})
			}
			pa.Endpoints[pe.Name] = pe
		}
		m.Apps[appName(apps, i)] = pa
	}
	return m
}

// ---------------------------------------------------------------- running the real entry point

type optRep struct {
	Outs     map[string]string `json:"outs"`
	HasErr   bool              `json:"has_err"`
	Err      string            `json:"err"`
	Panicked bool              `json:"panicked"`
	PanicMsg string            `json:"panic_msg"`
	Warnings []string          `json:"warnings"`
	Mutated  bool              `json:"mutated"`
}

type logHook struct{ msgs *[]string }

func (h logHook) Levels() []logrus.Level { return []logrus.Level{logrus.WarnLevel} }
func (h logHook) Fire(e *logrus.Entry) error {
	*h.msgs = append(*h.msgs, e.Message)
	return nil
}

type optReq struct {
	Case  *optCase `json:"case"`
	Plain bool     `json:"plain"`
}

func runOptHere(q *optReq) (rep optRep) {
	oc := q.Case
	m := buildModuleTx(oc.Apps, q.Plain)
	before := proto.Clone(m)
	var msgs []string
	lg := logrus.New()
	lg.SetOutput(devnull{})
	lg.SetLevel(logrus.WarnLevel)
	lg.AddHook(logHook{&msgs})
	p := &cmdutils.CmdContextParamSeqgen{EndpointFormat: oc.Opt.EpFmt, AppFormat: oc.Opt.AppFmt, Title: oc.Opt.Title, Output: oc.Opt.Output,
		EndpointsFlag: oc.Opt.Endpoints, AppsFlag: oc.Opt.Apps, Blackboxes: oc.Opt.BBList, Group: oc.Opt.Group, BlackboxesFlag: map[string]string{}}
	if q.Plain {
		p.EndpointFormat, p.AppFormat = "%(epname)", "%(appname)"
	}
	for _, kv := range oc.Opt.BBFlag {
		p.BlackboxesFlag[kv[0]] = kv[1]
	}
	defer func() {
		if x := recover(); x != nil {
			rep.Panicked = true
			rep.PanicMsg = fmt.Sprint(x)
		}
		rep.Warnings = msgs
		rep.Mutated = !proto.Equal(before, m)
	}()
	outs, err := sequencediagram.DoConstructSequenceDiagrams(p, m, lg)
	rep.Outs = outs
	if err != nil {
		rep.HasErr, rep.Err = true, err.Error()
	}
	return rep
}

func runOpt(oc *optCase, plain bool) (rep optRep, crashed bool, msg string) {
	died, timedOut, stderr := worker.Call(workReq{Opt: &optReq{oc, plain}}, &rep, 20*time.Second)
	switch {
	case timedOut:
		return rep, true, "no answer within 20 s"
	case died:
		m := "the process died"
		if strings.Contains(stderr, "stack overflow") || strings.Contains(stderr, "stack exceeds") {
			m = "stack overflow"
		}
		return rep, true, m
	}
	return rep, false, ""
}

// ---------------------------------------------------------------- what the options ask for (the oracle's reading)

var reNotHit = regexp.MustCompile(`(?s)^blackbox '(.*)' (?:not hit in app (.*)|passed on commandline not hit)\n$`)

type givenBB struct {
	key, note string
	level     string // cli | app | ep
	diagram   int    // ep level: the diagram it belongs to
}

type wantDiagram struct {
	name     string
	title    string
	entries  []string
	starts   [][2]int
	badStart bool // an entry with blanks the code does not trim, or that names nothing: error expected / not judged
	given    []givenBB
}

// entryOf: an entry "App <- Endpoint" read the lenient way (blanks around the parts ignored); strict=false when the
// code's own reading (application trimmed on the right, endpoint on the left only) sees other names
func entryOf(apps []appT, s string) (a, e int, strict bool) {
	i := strings.Index(s, "<-")
	if i < 0 {
		return len(apps), 0, false
	}
	l, r := s[:i], s[i+2:]
	strict = strings.TrimLeft(l, " \t") == l && strings.TrimRight(r, " \t") == r
	an_, en_ := strings.TrimSpace(l), strings.TrimSpace(r)
	for ai := range apps {
		if appName(apps, ai) == an_ {
			for ei := range apps[ai].Eps {
				if epName(apps, ai, ei) == en_ {
					return ai, ei, strict
				}
			}
			return ai, len(apps[ai].Eps), strict
		}
	}
	return len(apps), 0, strict
}

// resolveKey: the endpoint a blackbox key names - exactly "App <- Endpoint"
func resolveKey(apps []appT, k string) (int, int, bool) {
	for a := range apps {
		for e := range apps[a].Eps {
			if appName(apps, a)+" <- "+epName(apps, a, e) == k {
				return a, e, true
			}
		}
	}
	return 0, 0, false
}

func pairsOf(l []bbElt) (out [][2]string, malformed bool) {
	for _, b := range l {
		switch {
		case b.NotArray:
			malformed = true
		case len(b.Strs) == 0:
		case len(b.Strs) == 1:
			malformed = true
		default:
			// a later pair with the same key replaces an earlier one (the attribute is read into a map)
			for i := 0; i < len(out); i++ {
				if out[i][0] == b.Strs[0] {
					out = append(out[:i], out[i+1:]...)
					i--
				}
			}
			out = append(out, [2]string{b.Strs[0], b.Strs[1]})
		}
	}
	return
}

// simple output names only: the three variables, replaced literally
func outName(f, app, ep, long string) string {
	f = strings.ReplaceAll(f, "%(appname)", app)
	f = strings.ReplaceAll(f, "%(epname)", ep)
	return strings.ReplaceAll(f, "%(eplongname)", long)
}

// wanted: the diagrams the options ask for, in the order they are made. malformed: a `blackboxes` attribute that is
// not a list of [key, note] pairs is in play (nothing is demanded of the result then, except that it is no panic)
func wanted(oc *optCase) (ds []wantDiagram, malformed, noCalls bool) {
	apps, o := oc.Apps, &oc.Opt
	mk := func(name, title string, entries []string, given []givenBB) wantDiagram {
		d := wantDiagram{name: name, title: title, entries: entries, given: given}
		for _, s := range entries {
			a, e, strict := entryOf(apps, s)
			if !strict || a >= len(apps) || e >= len(apps[a].Eps) {
				d.badStart = true
			}
			d.starts = append(d.starts, [2]int{a, e})
		}
		return d
	}
	if !strings.Contains(o.Output, "%(epname)") {
		if len(o.Endpoints) == 0 {
			return nil, false, false
		}
		var g []givenBB
		if len(o.BBList) > 0 {
			for _, b := range o.BBList {
				g = append(g, givenBB{key: b[0], note: b[1], level: "cli"})
			}
		} else {
			for _, kv := range o.BBFlag {
				if kv[0] != "" {
					g = append(g, givenBB{key: kv[0], note: kv[1], level: "cli"})
				}
			}
		}
		return []wantDiagram{mk(o.Output, o.Title, o.Endpoints, g)}, false, false
	}
	names := o.Apps
	if len(names) == 0 {
		for _, s := range o.Endpoints {
			names = append(names, strings.TrimSpace(strings.Split(s, "<-")[0]))
		}
	}
	for _, n := range names {
		ai := -1
		for i := range apps {
			if appName(apps, i) == n {
				ai = i
			}
		}
		if ai < 0 {
			continue
		}
		appPairs, bad := pairsOf(apps[ai].BBAttr)
		malformed = malformed || bad
		var order []int
		for e := range apps[ai].Eps {
			order = append(order, e)
		}
		sort.Slice(order, func(x, y int) bool { return epName(apps, ai, order[x]) < epName(apps, ai, order[y]) })
		for _, e := range order {
			ep := &apps[ai].Eps[e]
			var g []givenBB
			epPairs, bad := pairsOf(ep.BBAttr)
			malformed = malformed || bad
			// for its own diagram an endpoint's blackbox stands in for the application's blackbox of the same key (the more
			// specific one wins, whatever its note)
			for _, p := range appPairs {
				shadowed := false
				for _, q := range epPairs {
					shadowed = shadowed || q[0] == p[0]
				}
				if !shadowed {
					g = append(g, givenBB{key: p[0], note: p[1], level: "app"})
				}
			}
			for _, p := range epPairs {
				g = append(g, givenBB{key: p[0], note: p[1], level: "ep", diagram: len(ds)})
			}
			entries := o.Endpoints
			if len(entries) == 0 {
				for _, s := range ep.Body {
					if s.K == kCall {
						if s.A < len(apps) && s.E < len(apps[s.A].Eps) {
							entries = append(entries, appName(apps, s.A)+" <- "+epName(apps, s.A, s.E))
						} else {
							entries = append(entries, "nowhere <- nothing")
						}
					}
				}
				if len(entries) == 0 {
					noCalls = true
				}
			}
			ds = append(ds, mk(outName(o.Output, n, epName(apps, ai, e), ep.Long), "", entries, g))
		}
	}
	return ds, malformed, noCalls
}

// ---------------------------------------------------------------- Gallina printing

func gOptStrs(l []bbElt) string {
	var it []string
	for _, b := range l {
		if b.NotArray {
			it = append(it, "None")
		} else {
			it = append(it, "(Some "+gStrs(b.Strs)+")")
		}
	}
	return common.GList(it)
}

func protoAttrStrs(m map[string]*sysl.Attribute) map[string]string {
	out := map[string]string{}
	for k, v := range m {
		out[k] = v.GetS()
	}
	return out
}

func callTexts(ss []stmt, out *[]string) {
	for _, s := range ss {
		switch s.K {
		case kCall:
			at := map[string]string{}
			for k, v := range s.Attrs {
				at[k] = v
			}
			if len(s.XPats) > 0 {
				at["patterns"] = ""
			}
			*out = append(*out, fmt.Sprintf("CX %s %s", gAttrs(at), gStrs(s.XPats)))
		case kBlock:
			callTexts(s.Body, out)
		case kAlt:
			for _, c := range s.Alts {
				callTexts(c, out)
			}
		}
	}
}

func gTexts(apps []appT, m *sysl.Module) string {
	var as []string
	for i := range apps {
		pa := m.Apps[appName(apps, i)]
		var es []string
		for j := range apps[i].Eps {
			e := &apps[i].Eps[j]
			pe := pa.Endpoints[epName(apps, i, j)]
			var calls []string
			callTexts(e.Body, &calls)
			es = append(es, fmt.Sprintf("(%d, EX %s %s %s %s %s %s %s)", j, gStr(pe.Name), gStr(pe.LongName), gAttrs(protoAttrStrs(pe.Attrs)), gStrs(epPats(e)),
				gStr(strings.Join(cmdutils.GetAndFmtParam(m, pe.Param), " | ")), gOptStrs(e.BBAttr), common.GList(calls)))
		}
		as = append(as, fmt.Sprintf("(%d, AX %s %s %s %s)", i, gStr(appName(apps, i)), gAttrs(protoAttrStrs(pa.Attrs)), gOptStrs(apps[i].BBAttr), common.GList(es)))
	}
	return common.GList(as)
}

func gModule(apps []appT) string {
	var out []string
	for i, a := range apps {
		var ps, es []string
		for _, p := range a.Pats {
			ps = append(ps, patG(p))
		}
		for j, e := range a.Eps {
			es = append(es, fmt.Sprintf("(%d, EP %s %s)", j, common.GBool(e.Hidden), gStmts(e.Body)))
		}
		out = append(out, fmt.Sprintf("(%d, AP %s %s)", i, common.GList(ps), common.GList(es)))
	}
	return common.GList(out)
}

func gOpts(o *optsT) string {
	var bf, bl []string
	for _, kv := range o.BBFlag {
		bf = append(bf, "("+gStr(kv[0])+","+gStr(kv[1])+")")
	}
	for _, b := range o.BBList {
		bl = append(bl, gStrs(b))
	}
	return fmt.Sprintf("(OPT %s %s %s %s %s %s %s %s %s)", gStr(o.Output), gStr(o.Title), gStr(o.EpFmt), gStr(o.AppFmt), gStrs(o.Endpoints), gStrs(o.Apps),
		common.GList(bf), common.GList(bl), gStr(o.Group))
}

// every value a format of the case can be matched against (a superset)
func valuesOf(apps []appT, m *sysl.Module) []string {
	vs := []string{"", "human", "human sender", "needs_int"}
	for i := range apps {
		pa := m.Apps[appName(apps, i)]
		vs = append(vs, appName(apps, i), cmdutils.GetSortedISOCtrlStr(pa.Attrs))
		for _, v := range pa.Attrs {
			vs = append(vs, v.GetS())
		}
		for _, pe := range pa.Endpoints {
			vs = append(vs, pe.Name, pe.LongName, cmdutils.NormalizeEndpointName(pe.Name), strings.Join(cmdutils.GetAndFmtParam(m, pe.Param), " | "), cmdutils.GetSortedISOCtrlStr(pe.Attrs))
			for _, v := range pe.Attrs {
				vs = append(vs, v.GetS())
			}
		}
		for j := range apps[i].Eps {
			var walk func(ss []stmt)
			walk = func(ss []stmt) {
				for _, s := range ss {
					for _, v := range s.Attrs {
						vs = append(vs, v)
					}
					walk(s.Body)
					for _, c := range s.Alts {
						walk(c)
					}
				}
			}
			walk(apps[i].Eps[j].Body)
		}
	}
	return vs
}

// ---------------------------------------------------------------- judging one case

type txNamer struct{ apps []appT }

func (t txNamer) namer() *namer {
	return &namer{
		app: func(l string) int {
			for i := range t.apps {
				if appName(t.apps, i) == l {
					return i
				}
			}
			return 999999
		},
		ep: func(l string) int {
			var ei int
			l = strings.TrimPrefix(l, "<&timer>")
			if n, _ := fmt.Sscanf(l, "E%02d", &ei); n == 1 {
				return ei
			}
			if i := strings.LastIndex(l, "v"); i >= 0 {
				if n, _ := fmt.Sscanf(l[i:], "v%02d", &ei); n == 1 {
					return ei
				}
			}
			return 999999
		},
		sec: func(s string) (int, int) {
			a, e, _ := entryOf(t.apps, stripLinks(s))
			if a >= len(t.apps) || e >= len(t.apps[a].Eps) {
				return 999999, 999999
			}
			return a, e
		},
	}
}

var reLink = regexp.MustCompile(`\[\[\S+ (.*?)\]\]`)

func stripLinks(s string) string { return reLink.ReplaceAllString(s, "$1") }

func sameArrows(x, y []arrowT) bool {
	if len(x) != len(y) {
		return false
	}
	for i := range x {
		if x[i] != y[i] {
			return false
		}
	}
	return true
}

// refFor: the arrows the options ask for in diagram d, given which of its blackboxes count as accepted
func refFor(apps []appT, d *wantDiagram, accept func(g *givenBB) bool) (want []arrowT, wantErr, big bool, visited map[string]int) {
	tc := &caseT{Apps: apps, Starts: d.starts}
	for i := range d.given {
		g := &d.given[i]
		if a, e, ok := resolveKey(apps, g.key); ok && accept(g) {
			tc.BBs = append(tc.BBs, bbT{A: a, E: e, Cut: true, CLen: 2})
		}
	}
	refVisited = map[string]int{}
	want, wantErr, big = refDiagram(tc, 5000)
	visited = refVisited
	refVisited = nil
	return
}

func optOne(c *common.Ctx, cs *common.Cases, oc *optCase, stream string) {
	rp := replayT{Kind: "opt", Opt: oc}
	apps := oc.Apps
	nm := txNamer{apps}.namer()
	ds, malformed, noCalls := wanted(oc)
	plain, crashedP, msgP := runOpt(oc, true)
	fancy, crashedF, msgF := runOpt(oc, false)
	c.Count(fmt.Sprintf("opt|%+v", *oc), len(ds) > 0)
	c.Hist("stream:" + stream)
	templated := strings.Contains(oc.Opt.Output, "%(epname)")
	if templated {
		c.Hist("opt-mode:templated")
	} else {
		c.Hist("opt-mode:entries")
	}
	// ---- "a diagram or an error": neither run may panic or hang
	panicKey := func(msg string) string {
		if k := panicKind(msg); k != "" {
			return fmtPanicKey(msg)
		}
		if malformed && (strings.Contains(msg, "index out of range") || strings.Contains(msg, "nil pointer")) {
			return "panic:blackboxes-attribute-shape"
		}
		if strings.Contains(msg, "Unrecognised statement") {
			return "panic:statement-without-type"
		}
		return "panic:other"
	}
	if crashedP || crashedF {
		c.Fail("nontermination", "DoConstructSequenceDiagrams does not return ("+msgP+msgF+")", rp)
		return
	}
	if plain.Panicked {
		c.Fail(panicKey(plain.PanicMsg), "DoConstructSequenceDiagrams panics instead of returning diagrams or an error: "+plain.PanicMsg, rp)
	}
	if fancy.Panicked && !(plain.Panicked && plain.PanicMsg == fancy.PanicMsg) {
		c.Fail(panicKey(fancy.PanicMsg), "DoConstructSequenceDiagrams panics instead of returning diagrams or an error: "+fancy.PanicMsg, rp)
	}
	if plain.Mutated || fancy.Mutated {
		c.Fail("attributes-written", "DoConstructSequenceDiagrams changed the module it was given", rp)
	}
	// ---- the plain run against what the options ask for
	type diagObs struct {
		d         *diagram
		alias2app map[string]int
	}
	plainObs := map[string]diagObs{}
	if !plain.Panicked && !malformed {
		anyBad, anyErr := false, noCalls
		anyNil := false           // a diagram reaches a statement without type: an error is as good as skipping it
		final := map[string]int{} // output name -> index of the diagram that stays
		for i := range ds {
			anyBad = anyBad || ds[i].badStart
			final[ds[i].name] = i
		}
		type res struct {
			want []arrowT
		}
		results := make([]res, len(ds))
		for i := range ds {
			w, wantErr, big, _ := refFor(apps, &ds[i], func(g *givenBB) bool { return len(g.note) > 0 })
			anyNil = anyNil || refNilReached
			if big {
				c.Hist("skipped:reference-walk-too-big")
				return
			}
			anyErr = anyErr || wantErr
			results[i] = res{w}
		}
		switch {
		case plain.HasErr:
			if !anyErr && !anyBad && !anyNil {
				c.Fail("spurious-error", "DoConstructSequenceDiagrams returns an error although every entry and call target exists: "+plain.Err, rp)
			}
		case anyErr && !anyBad:
			c.Fail("missing-error", "an entry or a call target does not exist (or an endpoint of the application has no call to start from), yet diagrams were returned", rp)
		case anyBad:
			// entries the code reads differently from the lenient reading: not judged
		default:
			if len(plain.Outs) != len(final) {
				c.Fail("diagrams-differ", fmt.Sprintf("%d diagrams returned, %d asked for", len(plain.Outs), len(final)), rp)
			}
			for name, i := range final {
				text, ok := plain.Outs[name]
				if !ok {
					c.Fail("diagrams-differ", fmt.Sprintf("no diagram named %q returned", name), rp)
					continue
				}
				d, a2a, got := judgeText(c, apps, text, results[i].want, false, "", rp, nm)
				plainObs[name] = diagObs{d, a2a}
				if !sameArrows(got, results[i].want) {
					// which convention explains the text? (only to NAME the failure)
					key := "arrows-differ"
					oneChar, _, _, _ := refFor(apps, &ds[i], func(g *givenBB) bool { return len(g.note) > 1 || (len(g.note) == 1 && g.level != "app") })
					lost, _, _, _ := refFor(apps, &ds[i], func(g *givenBB) bool {
						if len(g.note) == 0 {
							return false
						}
						if g.level == "app" {
							for j := 0; j < i; j++ {
								for _, h := range ds[j].given {
									if h.level == "ep" && h.diagram == j && h.key == g.key {
										return false
									}
								}
							}
						}
						return true
					})
					switch {
					case i > 0 && sameArrows(got, oneChar):
						key = "blackbox-not-cut:application-level:one-character-note:later-diagram"
					case i > 0 && sameArrows(got, lost):
						key = "blackbox-not-cut:application-level:after-endpoint-level-with-same-key"
					}
					c.Fail(key, fmt.Sprintf("diagram %q: the call arrows are not the calls reachable from its entries with every blackbox as a cut point: %d arrows drawn, %d expected", name, len(got), len(results[i].want)), rp)
				}
			}
			// (whether a blackbox that cuts nothing is reported by a warning is NOT judged: warnings are not part of the
			// property; the reports the code logs are compared with the model in Coq only, as a description of the code)
		}
	}
	// ---- the run with the formats of the case: same structure, texts to Coq
	m := buildModuleTx(apps, false)
	var obs string
	switch {
	case fancy.Panicked:
		obs = "OObsPanic"
		c.Hist("opt-outcome:panic")
	case fancy.HasErr:
		obs = "OObsErr"
		c.Hist("opt-outcome:error")
	default:
		c.Hist("opt-outcome:diagrams")
		names := make([]string, 0, len(fancy.Outs))
		for n := range fancy.Outs {
			names = append(names, n)
		}
		sort.Strings(names)
		var dobs []string
		for _, n := range names {
			d := readDiagram(fancy.Outs[n])
			if d.badLine != "" {
				c.Fail("unreadable-line", fmt.Sprintf("line not understood by the PlantUML-sequence reader: %q", d.badLine), rp)
			}
			// the aliases of the diagram: from the run with plain labels when there is one of the same name and shape
			a2a := map[string]int{}
			po, ok := plainObs[n]
			if !plain.Panicked && !plain.HasErr && !ok {
				if text, has := plain.Outs[n]; has {
					pd := readDiagram(text)
					po = diagObs{pd, map[string]int{}}
					for _, dc := range pd.decls {
						po.alias2app[dc.alias] = nm.app(dc.label)
					}
					ok = true
				}
			}
			if ok {
				same := len(po.d.decls) == len(d.decls) && len(po.d.evs) == len(d.evs) && len(po.d.boxes) == len(d.boxes)
				for i := 0; same && i < len(d.decls); i++ {
					same = po.d.decls[i].agent == d.decls[i].agent && po.d.decls[i].alias == d.decls[i].alias
				}
				for i := 0; same && i < len(d.evs); i++ {
					x, y := po.d.evs[i], d.evs[i]
					same = x.kind == y.kind && x.s == y.s && x.t == y.t
				}
				if !same {
					c.Fail("format-changes-structure", fmt.Sprintf("diagram %q: with other format strings the diagram differs in more than its label texts", n), rp)
				}
				a2a = po.alias2app
			}
			var dg, lb, tx, bx []string
			for _, dc := range d.decls {
				ag, okA := agentG[dc.agent]
				if !okA {
					ag = "Actor"
				}
				ai, has := a2a[dc.alias]
				if !has {
					ai = 999999
				}
				dg = append(dg, fmt.Sprintf("(%d,%s)", ai, ag))
				lb = append(lb, gStr(dc.label))
			}
			// events: endpoints of arrows and sections from the plain run (position by position)
			var eg []string
			if ok && len(po.d.evs) == len(d.evs) {
				_, eg, _ = obsOf(c, po.d, a2a, rp, nm)
			}
			pp := func(al string) string {
				if al == "[" {
					return "W"
				}
				return fmt.Sprintf("(P %d)", a2a[al])
			}
			for i, e := range d.evs {
				switch e.kind {
				case "section":
					tx = append(tx, "TSection "+gStr(e.lbl))
				case "arrow":
					ei := 999999
					if ok && i < len(po.d.evs) {
						ei = nm.ep(po.d.evs[i].lbl)
					}
					tx = append(tx, fmt.Sprintf("TArrow %s %d %d %s", pp(e.s), a2a[e.t], ei, gStr(e.lbl)))
				case "noteover":
					tx = append(tx, "TNoteOver "+gStr(e.lbl))
				case "noteside":
					tx = append(tx, "TNoteSide "+gStr(e.lbl))
				}
			}
			for i, b := range d.boxes {
				var ms []string
				for _, al := range b {
					ms = append(ms, fmt.Sprint(a2a[al]))
				}
				bx = append(bx, "("+gStr(d.boxNames[i])+","+common.GList(ms)+")")
			}
			if d.titles > 1 {
				c.Fail("unreadable-line", "more than one title line", rp)
			}
			dobs = append(dobs, fmt.Sprintf("(%s, %s, %s, %s, %s, %s, %s)", gStr(n), gStr(d.title), common.GList(dg), common.GList(lb), common.GList(eg), common.GList(tx), common.GList(bx)))
		}
		var ws []string
		for _, w := range fancy.Warnings {
			mm := reNotHit.FindStringSubmatch(w)
			if mm == nil {
				continue
			}
			switch {
			case strings.Contains(w, "passed on commandline"):
				ws = append(ws, gStr("cli:"+mm[1]))
			case isAppLevel(oc, mm[2]):
				ws = append(ws, gStr("app:"+mm[1]))
			default:
				ws = append(ws, gStr("ep:"+mm[1]))
			}
		}
		obs = "(OObsOk " + common.GList(dobs) + " " + common.GList(ws) + ")"
	}
	// the formats in play and what regexp says about their patterns
	var tabs []string
	fmts := []string{oc.Opt.EpFmt, oc.Opt.AppFmt, oc.Opt.Title, oc.Opt.Output}
	for _, a := range apps {
		fmts = append(fmts, a.Attrs["epfmt"], a.Attrs["appfmt"], a.Attrs["seqtitle"])
	}
	vals := valuesOf(apps, m)
	seen := map[string]bool{}
	for _, f := range fmts {
		t := rxTable(sequencediagram.EscapeWordBoundary(f), vals)
		if t != "[]" && !seen[t] {
			seen[t] = true
			tabs = append(tabs, t)
		}
	}
	tab := "[]"
	if len(tabs) > 0 {
		tab = "(" + strings.Join(tabs, " ++ ") + ")%list"
	}
	cs.Add(fmt.Sprintf("(%s, %s, %s, %s, %s)", gModule(apps), gTexts(apps, m), gOpts(&oc.Opt), tab, obs), rp)
	if len(ds) > 0 && !fancy.Panicked && !fancy.HasErr {
		c.Sample(map[string]interface{}{"options": oc.Opt, "diagrams": len(fancy.Outs), "warnings": fancy.Warnings})
	}
}

// the application-level report quotes the application name alone; Visit's quotes "'App :: Endpoint'"
func isAppLevel(oc *optCase, where string) bool {
	for i := range oc.Apps {
		if where == "'"+appName(oc.Apps, i)+"'" {
			return true
		}
	}
	return false
}

// ---------------------------------------------------------------- generators

var keySpacings = []string{"%s <- %s", "%s <- %s", "%s <- %s", "%s <- %s", "%s<-%s", "%s  <-  %s", " %s <- %s", "%s <- %s ", "%s <-%s"}
var bbNotes = []string{"note", "see below", "x", " ", "", "   ", " note ", "n", "two words", "é"}
var appSuffixes = []string{"", "", "", " :: Sub", " x", "-é"}
var optFormats = []string{"%(epname)", "%(appname)", "%(@status?<color red>%(appname)</color>|%(appname))", "%(@status? <color green>%(epname)</color>|%(epname))",
	"<%(epname)%(needs_int? needsInt)>", "%(epname)%(args? (%(args)%))", "%(patterns?%(patterns): )%(epname)", "%(controls?[%(controls)] )%(epname)%(human? H)%(human_sender? HS)",
	"%(@team=='t1'?T1 )%(appname)%(controls? {%(controls)})", "%(@x~/\btba|tbd\b/?<b>%(epname)</b>|%(epname))", "%(epname", "%(", "%(@x~/(/?a|b)", "%(@x=='?a)", "plain", ""}

func decorate(r *common.Rng, apps []appT) {
	keys := []string{"status", "team", "x", "iso_ctrl_11_txt", "iso_ctrl_2_txt", "y"}
	akeys := []string{"status", "x", "iso_ctrl_11_txt", "iso_ctrl_2_txt", "y"} // "team" of an application is its group (appT.Group)
	for i := range apps {
		a := &apps[i]
		if r.Chance(1, 3) {
			a.Suffix = appSuffixes[r.Intn(len(appSuffixes))]
		}
		for n := r.Intn(3); n > 0; n-- {
			if a.Attrs == nil {
				a.Attrs = map[string]string{}
			}
			a.Attrs[akeys[r.Intn(len(akeys))]] = attrVals[r.Intn(len(attrVals))]
		}
		if r.Chance(1, 12) {
			if a.Attrs == nil {
				a.Attrs = map[string]string{}
			}
			a.Attrs["link"] = "http://x/" + an(i)
		}
		for j := range a.Eps {
			e := &a.Eps[j]
			switch r.Intn(8) {
			case 0:
				e.Suffix = " x"
			case 1:
				e.Suffix = fmt.Sprintf(" -> v%02d", j)
			case 2:
				e.Suffix = "-é"
			}
			if r.Chance(1, 4) {
				e.Long = []string{"long name", "L", "é long"}[r.Intn(3)]
			}
			for n := r.Intn(3); n > 0; n-- {
				if e.Attrs == nil {
					e.Attrs = map[string]string{}
				}
				e.Attrs[keys[r.Intn(len(keys))]] = attrVals[r.Intn(len(attrVals))]
			}
			if r.Chance(1, 12) {
				if e.Attrs == nil {
					e.Attrs = map[string]string{}
				}
				e.Attrs["link"] = "http://x/" + en(j)
			}
			if r.Chance(1, 4) {
				e.XPats = append(e.XPats, []string{"tba", "cron", "rest", "tbd", "soap"}[r.Intn(5)])
				if r.Chance(1, 3) {
					e.XPats = append(e.XPats, []string{"tba", "rest", "a"}[r.Intn(3)])
				}
			}
			if r.Chance(1, 5) {
				e.Params = append(e.Params, [2]string{an(r.Intn(len(apps))), []string{"T", "U"}[r.Intn(2)]})
			}
			var walk func(ss []stmt)
			walk = func(ss []stmt) {
				for k := range ss {
					s := &ss[k]
					if s.K == kCall {
						if r.Chance(1, 4) {
							s.Attrs = map[string]string{keys[r.Intn(len(keys))]: attrVals[r.Intn(len(attrVals))]}
						}
						if r.Chance(1, 5) {
							s.XPats = []string{[]string{"tbd", "async", "rest"}[r.Intn(3)]}
						}
					}
					walk(s.Body)
					for _, c := range s.Alts {
						walk(c)
					}
				}
			}
			walk(e.Body)
		}
	}
}

func genNote(r *common.Rng) string { return bbNotes[r.Intn(len(bbNotes))] }

func genKey(r *common.Rng, apps []appT, exact bool) string {
	a := r.Intn(len(apps))
	e := r.Intn(len(apps[a].Eps))
	f := "%s <- %s"
	if !exact {
		f = keySpacings[r.Intn(len(keySpacings))]
	}
	if r.Chance(1, 15) {
		return fmt.Sprintf(f, appName(apps, a), "nosuch")
	}
	return fmt.Sprintf(f, appName(apps, a), epName(apps, a, e))
}

func genBBAttr(r *common.Rng, apps []appT) []bbElt {
	var l []bbElt
	for n := 1 + r.Intn(2); n > 0; n-- {
		l = append(l, bbElt{Strs: []string{genKey(r, apps, r.Chance(5, 6)), genNote(r)}})
	}
	if r.Chance(1, 14) {
		switch r.Intn(4) {
		case 0:
			l = append(l, bbElt{NotArray: true, Strs: []string{genKey(r, apps, true)}})
		case 1:
			l = append(l, bbElt{Strs: []string{genKey(r, apps, true)}})
		case 2:
			l = append(l, bbElt{})
		default:
			l = append(l, bbElt{Strs: []string{genKey(r, apps, true), "note", "more"}})
		}
	}
	return l
}

func genOptFormat(r *common.Rng, bad bool) string {
	for {
		var f string
		if r.Chance(2, 3) {
			f = optFormats[r.Intn(len(optFormats))]
		} else {
			f = genFmtStr(r, 1)
		}
		if strings.Contains(f, "patterns~/") || strings.Contains(f, "controls~/") {
			continue
		}
		isBad := func() (b bool) {
			defer func() {
				if recover() != nil {
					b = true
				}
			}()
			sequencediagram.ConstructFormatParser(f, "").Parse(map[string]string{})
			return false
		}()
		if isBad && !bad {
			continue
		}
		return f
	}
}

func genOptCase(r *common.Rng) *optCase {
	hostile := r.Chance(1, 10)
	o := &genOpts{napps: 2 + r.Intn(3), neps: 1 + r.Intn(3), depth: 2, width: 3, patterns: r.Chance(1, 2), hidden: r.Chance(1, 3), dangling: hostile && r.Bool(), nils: hostile && r.Chance(1, 3)}
	tc := genModule(r, o)
	apps := tc.Apps
	decorate(r, apps)
	oc := &optCase{Apps: apps}
	badFmt := !hostile && r.Chance(1, 8)
	oc.Opt.EpFmt, oc.Opt.AppFmt = "%(epname)", "%(appname)"
	if r.Chance(2, 3) {
		oc.Opt.EpFmt = genOptFormat(r, badFmt)
	}
	if r.Chance(1, 2) {
		oc.Opt.AppFmt = genOptFormat(r, badFmt && r.Chance(1, 3))
	}
	if r.Chance(1, 6) {
		oc.Opt.Group = "team"
		for i := range apps {
			if r.Chance(2, 3) {
				apps[i].Group = []string{"t2", "t1", "t3"}[r.Intn(3)]
			}
		}
	}
	pickEntry := func() string {
		a := r.Intn(len(apps))
		e := r.Intn(len(apps[a].Eps))
		f := "%s <- %s"
		if r.Chance(1, 5) {
			f = keySpacings[r.Intn(len(keySpacings))]
		}
		if hostile && r.Chance(1, 4) {
			return fmt.Sprintf(f, appName(apps, a), "nosuch")
		}
		return fmt.Sprintf(f, appName(apps, a), epName(apps, a, e))
	}
	if r.Chance(3, 5) {
		// one diagram for the -s entries
		oc.Opt.Output = []string{"out.puml", "d/seq.png", "%(appname).puml"}[r.Intn(3)]
		if r.Chance(1, 3) {
			oc.Opt.Title = []string{"Title", "a title ", "%(epname)"}[r.Intn(3)]
		}
		n := 1
		if r.Chance(1, 4) {
			n = 2 + r.Intn(2)
		}
		if hostile && r.Chance(1, 6) {
			n = 0
		}
		for i := 0; i < n; i++ {
			oc.Opt.Endpoints = append(oc.Opt.Endpoints, pickEntry())
		}
		nb := r.Intn(4)
		seen := map[string]bool{}
		for i := 0; i < nb; i++ {
			k := genKey(r, apps, r.Chance(3, 4))
			if r.Chance(1, 20) {
				k = ""
			}
			if seen[k] {
				continue
			}
			seen[k] = true
			oc.Opt.BBFlag = append(oc.Opt.BBFlag, [2]string{k, genNote(r)})
		}
		sort.Slice(oc.Opt.BBFlag, func(i, j int) bool { return oc.Opt.BBFlag[i][0] < oc.Opt.BBFlag[j][0] })
		if r.Chance(1, 6) {
			for _, kv := range oc.Opt.BBFlag {
				oc.Opt.BBList = append(oc.Opt.BBList, []string{kv[0], kv[1]})
			}
			if r.Bool() {
				oc.Opt.BBFlag = nil
			}
		}
		return oc
	}
	// templated: a project application whose endpoints call into the module
	pi := len(apps)
	proj := appT{Suffix: "Project"}
	ne := 1 + r.Intn(3)
	for j := 0; j < ne; j++ {
		var body []stmt
		nc := 1 + r.Intn(2)
		if hostile && r.Chance(1, 5) {
			nc = 0
		}
		for k := 0; k < nc; k++ {
			a := r.Intn(len(apps))
			body = append(body, stmt{K: kCall, A: a, E: r.Intn(len(apps[a].Eps))})
		}
		if r.Chance(1, 5) {
			body = append(body, stmt{K: kAction})
		}
		if body == nil {
			body = []stmt{}
		}
		e := endpointT{Body: body}
		if r.Chance(1, 3) {
			e.Suffix = []string{" x", fmt.Sprintf(" -> v%02d", j), "-seq"}[r.Intn(3)]
		}
		if r.Chance(1, 3) {
			e.Long = "Long " + en(j)
		}
		if r.Chance(1, 3) {
			e.BBAttr = genBBAttr(r, apps)
		}
		if r.Chance(1, 8) {
			e.Attrs = map[string]string{"groupby": "team"}
		}
		proj.Eps = append(proj.Eps, e)
	}
	proj.Attrs = map[string]string{}
	if r.Chance(1, 2) {
		proj.Attrs["seqtitle"] = []string{"Diagram", "%(epname) of %(@team)", "%(eplongname?%(eplongname)|%(epname))", "%(", "t "}[r.Intn(5)]
		if proj.Attrs["seqtitle"] == "%(" && !badFmt {
			proj.Attrs["seqtitle"] = "Seq"
		}
	}
	if r.Chance(1, 3) {
		proj.Attrs["epfmt"] = genOptFormat(r, badFmt)
	}
	if r.Chance(1, 3) {
		proj.Attrs["appfmt"] = genOptFormat(r, false)
	}
	if r.Chance(1, 4) {
		proj.Attrs["team"] = "t9"
	}
	if r.Chance(1, 2) {
		proj.BBAttr = genBBAttr(r, apps)
		// the shapes that matter: a note of one character at the application, a key shared with an endpoint
		if r.Chance(1, 3) && len(proj.BBAttr) > 0 {
			proj.BBAttr[0].Strs[1] = "x"
		}
		if r.Chance(1, 4) && len(proj.Eps) > 1 && len(proj.BBAttr) > 0 {
			proj.Eps[0].BBAttr = append(proj.Eps[0].BBAttr, bbElt{Strs: []string{proj.BBAttr[0].Strs[0], "own note"}})
		}
	}
	oc.Apps = append(apps, proj)
	oc.Opt.Output = []string{"%(epname).puml", "%(epname).puml", "%(appname)-%(epname)", "d/%(epname)%(eplongname)"}[r.Intn(4)]
	oc.Opt.Apps = []string{appName(oc.Apps, pi)}
	if r.Chance(1, 3) {
		oc.Opt.Title = []string{"Title", "%(epname)"}[r.Intn(2)]
	}
	if r.Chance(1, 8) {
		oc.Opt.Endpoints = []string{pickEntry()}
		if r.Bool() {
			oc.Opt.Apps = nil
			oc.Opt.Endpoints = []string{appName(oc.Apps, pi) + " <- " + epName(oc.Apps, pi, 0)}
		}
	}
	if r.Chance(1, 15) {
		oc.Opt.BBFlag = [][2]string{{genKey(r, apps, true), "note"}}
	}
	return oc
}

func optHeader() string {
	return `From Coq Require Import String Ascii List NArith Bool. Import ListNotations.
Require Import Verif.Seq.SeqModel Verif.Seq.Fmt Verif.Seq.SeqOpts Verif.Seq.Run Verif.Seq.RunFmt Verif.Seq.RunOpts Verif.Gen.SeqShape Verif.Base.Harness.
Local Open Scope string_scope. Local Open Scope N_scope.
Notation C := Call. Notation Ac := Action. Notation D := Dots. Notation B := Block. Notation Al := Alt. Notation W := World. Notation Ni := Nil.
Definition Re := Ret RetEmpty. Definition Rp := Ret RetPrim. Definition Rs := Ret RetShown.
Definition EP h b := {| ep_hidden := h; ep_body := b |}. Definition AP p e := {| app_pats := p; app_eps := e |}.
` + jsonFact()
}

func optStream(c *common.Ctx, n int) {
	footer := `Definition M := Eval vm_compute in mismatches (opt_ok json_short_b variant_now ovariant_now) cases. Print M.`
	cs := c.NewCases("C13opt", optHeader(), "opt_case", footer, 150)
	for _, oc := range optCorpus() {
		optOne(c, cs, oc, "opt-corpus")
	}
	for i := 0; i < n; i++ {
		optOne(c, cs, genOptCase(c.Rng), "opt")
	}
	cs.Close()
}

func optCorpus() []*optCase {
	call := func(a, e int) stmt { return stmt{K: kCall, A: a, E: e} }
	ret := func(p int) stmt { return stmt{K: kRet, Pay: p} }
	base := func() []appT {
		return []appT{
			{Eps: []endpointT{{Body: []stmt{call(1, 0), call(2, 0), ret(2)}}}},
			{Eps: []endpointT{{Body: []stmt{call(2, 0), {K: kAction}}}}},
			{Eps: []endpointT{{Body: []stmt{{K: kAction}, ret(2)}}, {Body: []stmt{call(1, 0)}}}},
		}
	}
	proj := func(bb []bbElt, e0, e1 []bbElt) appT {
		return appT{Suffix: "Project", BBAttr: bb, Attrs: map[string]string{"seqtitle": "%(epname)"}, Eps: []endpointT{
			{Body: []stmt{call(0, 0)}, BBAttr: e0}, {Body: []stmt{call(0, 0), call(2, 1)}, BBAttr: e1}}}
	}
	std := optsT{Output: "%(epname).puml", EpFmt: "%(epname)", AppFmt: "%(appname)"}
	withApps := func(apps []appT, p appT, o optsT) *optCase {
		all := append(apps, p)
		o.Apps = []string{appName(all, len(all)-1)}
		return &optCase{Apps: all, Opt: o}
	}
	k10 := "A01 <- E00"
	return []*optCase{
		// -b 'A01 <- E00=note' and friends
		{Apps: base(), Opt: optsT{Output: "o.puml", EpFmt: "%(epname)", AppFmt: "%(appname)", Endpoints: []string{"A00 <- E00"}, BBFlag: [][2]string{{k10, "note"}}}},
		{Apps: base(), Opt: optsT{Output: "o.puml", EpFmt: "%(epname)", AppFmt: "%(appname)", Endpoints: []string{"A00 <- E00"}, BBFlag: [][2]string{{k10, "x"}}}},
		{Apps: base(), Opt: optsT{Output: "o.puml", EpFmt: "%(epname)", AppFmt: "%(appname)", Endpoints: []string{"A00 <- E00"}, BBFlag: [][2]string{{k10, ""}}}},
		{Apps: base(), Opt: optsT{Output: "o.puml", EpFmt: "%(epname)", AppFmt: "%(appname)", Endpoints: []string{"A00 <- E00"}, BBFlag: [][2]string{{"A01<-E00", "note"}}}},
		{Apps: base(), Opt: optsT{Output: "o.puml", EpFmt: "%(epname)", AppFmt: "%(appname)", Endpoints: []string{"A00<-E00", "A02 <- E01"}, BBFlag: [][2]string{{"A02 <- E00", " "}}}},
		{Apps: base(), Opt: optsT{Output: "o.puml", EpFmt: "%(", AppFmt: "%(appname)", Endpoints: []string{"A00 <- E00"}}},
		{Apps: base(), Opt: optsT{Output: "o.puml", EpFmt: "%(epname)", AppFmt: "%(appname~/(/)", Endpoints: []string{"A00 <- E00"}}},
		// the `blackboxes` attribute of the project application / of its endpoints
		withApps(base(), proj([]bbElt{{Strs: []string{k10, "note"}}}, nil, nil), std),
		withApps(base(), proj([]bbElt{{Strs: []string{k10, "x"}}}, nil, nil), std),
		withApps(base(), proj([]bbElt{{Strs: []string{k10, "note"}}}, []bbElt{{Strs: []string{k10, "mine"}}}, nil), std),
		withApps(base(), proj(nil, []bbElt{{Strs: []string{k10, ""}}}, []bbElt{{Strs: []string{"A02 <- E00", "n2"}}}), std),
		withApps(base(), proj([]bbElt{{Strs: []string{k10}}}, nil, nil), std),
		withApps(base(), proj([]bbElt{{NotArray: true, Strs: []string{k10}}}, nil, nil), std),
		withApps(base(), proj(nil, nil, nil), optsT{Output: "%(epname", EpFmt: "%(epname)", AppFmt: "%(appname)"}),
	}
}
