// C13, the command line itself: the real `sysl sd` binary (VERIF_SYSL_BIN) on a fixed Sysl source, the blackboxes given
// the way a user gives them: `-b 'App <- Ep=note'` (kingpin's KEY=VALUE map -> BlackboxesFlag -> ParseBlackBoxesFromArgument
// -> TransformBlackboxesToUptos) and the `blackboxes` attribute in the source (templated mode, through the parser). The
// oracle is the one of the other streams: the .puml text against the reference walk in which every accepted blackbox is
// a cut point; no Go panic, whatever the format strings are (what stderr says about blackboxes is not judged).
package main

import (
	"bytes"
	"fmt"
	"os"
	"os/exec"
	"path/filepath"
	"strings"
	"time"

	"google.golang.org/protobuf/proto"

	"verifharness/common"
)

const cliSource = `A00:
    !type T:
        x <: int
    E00:
        A01 <- E00
        A02 <- E00
        return ok <: A00.T

A01:
    E00:
        A02 <- E00
        act

A02:
    E00:
        act
        return ok <: A00.T
    E01:
        A01 <- E00

Project%s:
    E00%s:
        A00 <- E00
    E01:
        A00 <- E00
        A02 <- E01
`

type cliCase struct {
	Args     []string `json:"args"`
	ProjAttr string   `json:"proj_attr,omitempty"` // attributes of the project application, as written in the source
	EpAttr   string   `json:"ep_attr,omitempty"`   // attributes of Project <- E00
	// when set: no source file; this module goes to the standard input of the command as a compiled (binary protobuf)
	// module - the one way into `sysl sd` on which the parser's post-processing does not look at the statements first
	Stdin *caseT `json:"stdin,omitempty"`
}

func cliApps() []appT {
	call := func(a, e int) stmt { return stmt{K: kCall, A: a, E: e} }
	return []appT{
		{Eps: []endpointT{{Body: []stmt{call(1, 0), call(2, 0), {K: kRet, Pay: 2}}}}},
		{Eps: []endpointT{{Body: []stmt{call(2, 0), {K: kAction}}}}},
		{Eps: []endpointT{{Body: []stmt{{K: kAction}, {K: kRet, Pay: 2}}}, {Body: []stmt{call(1, 0)}}}},
	}
}

type cliWant struct {
	file   string
	starts [][2]int
}

func cliStream(c *common.Ctx) {
	bin := os.Getenv("VERIF_SYSL_BIN")
	if bin == "" {
		c.Res.Notes = append(c.Res.Notes, "VERIF_SYSL_BIN not set: the command-line stream was skipped")
		return
	}
	dir, err := os.MkdirTemp("", "c13cli")
	if err != nil {
		return
	}
	defer os.RemoveAll(dir)
	apps := cliApps()
	type tcase struct {
		cc     cliCase
		bbs    [][2]string // what the options say: key, note
		wants  []cliWant
		expect string // ok | error
	}
	one := []cliWant{{"out.puml", [][2]int{{0, 0}}}}
	flag := func(bbs [][2]string, extra ...string) tcase {
		args := []string{"sd", "-o", "out.puml", "-s", "A00 <- E00"}
		for _, b := range bbs {
			args = append(args, "-b", b[0]+"="+b[1])
		}
		return tcase{cc: cliCase{Args: append(args, extra...)}, bbs: bbs, wants: one, expect: "ok"}
	}
	tmpl := func(projAttr, epAttr string, bbs [][2]string) tcase {
		return tcase{cc: cliCase{Args: []string{"sd", "-o", "%(epname).puml", "-a", "Project"}, ProjAttr: projAttr, EpAttr: epAttr}, bbs: bbs,
			wants: []cliWant{{"E00.puml", [][2]int{{0, 0}}}, {"E01.puml", [][2]int{{0, 0}, {2, 1}}}}, expect: "ok"}
	}
	k := "A01 <- E00"
	cases := []tcase{
		flag(nil),
		flag([][2]string{{k, "note"}}),
		flag([][2]string{{k, "x"}}),
		flag([][2]string{{k, " "}}),
		flag([][2]string{{k, "   "}}),
		flag([][2]string{{k, " note "}}),
		flag([][2]string{{k, ""}}),
		flag([][2]string{{k, "a=b"}}),
		flag([][2]string{{"A01<-E00", "note"}}),
		flag([][2]string{{"A01  <-  E00", "note"}}),
		flag([][2]string{{" A01 <- E00", "note"}}),
		flag([][2]string{{k, "note"}, {"A02 <- E00", "n"}}),
		flag([][2]string{{"A02 <- E01", "never reached"}}),
		flag([][2]string{{k, "note"}}, "--endpoint_format", "%(@x?<%(epname)>|%(epname))", "--app_format", "%(@y?y)%(appname)"),
		tmpl("", "", nil),
		tmpl(` [blackboxes=[["A01 <- E00", "note"]]]`, "", [][2]string{{k, "note"}}),
		tmpl(` [blackboxes=[["A01 <- E00", "x"]]]`, "", [][2]string{{k, "x"}}),
		tmpl(` [blackboxes=[["A01 <- E00", "note"]]]`, ` [blackboxes=[["A01 <- E00", "mine"]]]`, [][2]string{{k, "note"}}),
		tmpl(` [blackboxes=[["A02 <- E00", "n"], ["A01<-E00", "odd"]]]`, "", [][2]string{{"A02 <- E00", "n"}, {"A01<-E00", "odd"}}),
	}
	bad := func(args ...string) tcase {
		return tcase{cc: cliCase{Args: append([]string{"sd", "-o", "out.puml", "-s", "A00 <- E00"}, args...)}, expect: "error"}
	}
	cases = append(cases,
		bad("--endpoint_format", "%(epname"), bad("--endpoint_format", "%("), bad("--app_format", "%(appname~/(/)"), bad("--endpoint_format", "%(a=='"),
		bad("-b", "A01 <- E00"), // not KEY=VALUE
		tcase{cc: cliCase{Args: []string{"sd", "-o", "%(epname", "-a", "Project"}}, expect: "any"}, // not the templated mode, and no -s: nothing to do
		tcase{cc: cliCase{Args: []string{"sd", "-o", "%(epname).%(x", "-a", "Project"}}, expect: "error"},
		tcase{cc: cliCase{Args: []string{"sd", "-o", "%(epname).puml", "-a", "Project"}, ProjAttr: ` [blackboxes=["A01 <- E00"]]`}, expect: "any"},
		tcase{cc: cliCase{Args: []string{"sd", "-o", "%(epname).puml", "-a", "Project"}, ProjAttr: ` [blackboxes=[["A01 <- E00"]]]`}, expect: "any"},
		tcase{cc: cliCase{Args: []string{"sd", "-o", "%(epname).puml", "-a", "Project"}, ProjAttr: ` [epfmt="%(epname"]`}, expect: "error"},
	)
	// a compiled module on standard input that holds a statement without a type: in an endpoint the diagram expands
	// (not a crash), and in one it does not reach (harmless)
	withNil := func(a, e int) *caseT {
		ap := cliApps()
		ap[a].Eps[e].Body = append(ap[a].Eps[e].Body, stmt{K: kBlock, BK: 0, Body: []stmt{{K: kNil}}})
		return &caseT{Apps: ap}
	}
	cases = append(cases,
		tcase{cc: cliCase{Args: []string{"sd", "-o", "out.puml", "-s", "A00 <- E00"}, Stdin: &caseT{Apps: cliApps()}}, wants: one, expect: "ok"},
		tcase{cc: cliCase{Args: []string{"sd", "-o", "out.puml", "-s", "A00 <- E00"}, Stdin: withNil(2, 0)}, expect: "any"}, // an error (or a diagram without it): not a crash
		tcase{cc: cliCase{Args: []string{"sd", "-o", "out.puml", "-s", "A00 <- E00"}, Stdin: withNil(2, 1)}, wants: one, expect: "ok"},
	)
	for _, t := range cases {
		cc := t.cc
		rp := replayT{Kind: "cli", Cli: &cc}
		c.Count(fmt.Sprintf("cli|%v|%s|%s", t.cc.Args, t.cc.ProjAttr, t.cc.EpAttr), true)
		c.Hist("stream:cli")
		sub, _ := os.MkdirTemp(dir, "run")
		os.WriteFile(filepath.Join(sub, "m.sysl"), []byte(fmt.Sprintf(cliSource, t.cc.ProjAttr, t.cc.EpAttr)), 0o644)
		cmd := exec.Command(bin, append(append([]string{}, t.cc.Args...), "m.sysl")...)
		if t.cc.Stdin != nil {
			pb, _ := proto.Marshal(buildModule(t.cc.Stdin))
			cmd = exec.Command(bin, t.cc.Args...)
			cmd.Stdin = bytes.NewReader(pb)
		}
		cmd.Dir = sub
		var outb []byte
		var rerr error
		done := make(chan struct{})
		go func() { outb, rerr = cmd.CombinedOutput(); close(done) }()
		select {
		case <-done:
		case <-time.After(60 * time.Second):
			cmd.Process.Kill()
			<-done
			c.Fail("nontermination", "sysl sd did not terminate within 60 s", rp)
			continue
		}
		so := string(outb)
		status := 0
		if ee, ok := rerr.(*exec.ExitError); ok {
			status = ee.ExitCode()
		} else if rerr != nil {
			status = -1
		}
		if strings.Contains(so, "panic:") || strings.Contains(so, "goroutine ") || strings.Contains(so, "fatal error:") {
			key := "panic:other"
			switch {
			case panicKind(so) != "":
				key = fmtPanicKey(so)
			case strings.Contains(so, "index out of range") || strings.Contains(so, "nil pointer"):
				key = "panic:blackboxes-attribute-shape"
			case strings.Contains(so, "Unrecognised statement"):
				key = "panic:statement-without-type"
			}
			c.Fail(key, "sysl sd dies with a Go panic: "+strings.ReplaceAll(so[:min(len(so), 240)], "\n", " "), rp)
			c.Hist("cli-outcome:panic")
			continue
		}
		switch t.expect {
		case "error":
			if status == 0 {
				c.Fail("missing-error", "sysl sd exits with status 0 although its options cannot be read", rp)
			}
			c.Hist("cli-outcome:error")
			continue
		case "any":
			c.Hist(fmt.Sprintf("cli-outcome:status-%d", status))
			continue
		}
		if status != 0 {
			c.Fail("spurious-error", fmt.Sprintf("sysl sd exits with status %d: %s", status, strings.ReplaceAll(so[:min(len(so), 200)], "\n", " ")), rp)
			continue
		}
		c.Hist("cli-outcome:diagrams")
		for _, w := range t.wants {
			text, err := os.ReadFile(filepath.Join(sub, w.file))
			if err != nil {
				c.Fail("diagrams-differ", "sysl sd did not write "+w.file, rp)
				continue
			}
			tc := &caseT{Apps: apps, Starts: w.starts}
			if t.cc.Stdin != nil {
				tc.Apps = t.cc.Stdin.Apps
			}
			for _, b := range t.bbs {
				if a, e, ok := resolveKey(apps, b[0]); ok && len(b[1]) > 0 {
					tc.BBs = append(tc.BBs, bbT{A: a, E: e, Cut: true, CLen: 2})
				}
			}
			want, wantErr, _ := refDiagram(tc, 5000)
			judgeText(c, apps, string(text), want, wantErr, "arrows-differ:command-line", rp, plainNames)
		}
	}
}
