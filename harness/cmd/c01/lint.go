// C01, stream "lint-closure": closures in which one file is reachable under several spellings (`./a.sysl`,
// `sub/../a.sysl`, `a.sysl`, `/a`, `a@main` for the root), files that differ only in the case of their name, the same
// application re-opened in many files and in one file, application names differing only in case or in the spelling
// of `::`, duplicate endpoints / REST methods, calls to existing / missing applications, endpoints and methods.
// The linter (pkg/parse/linter.go) ends the process with logrus.Fatal when it records the same application or
// endpoint location twice - which a second walk of a file under the same name would do; the worker would then be
// seen to die. The recordings of every case (derived here from what the generator wrote, file by file in the order
// Parse reports with OperationSummary) are replayed by the Coq model Total/Linter.v, whose warnings (as a multiset)
// must be the ones logrus received.
package main

import (
	"fmt"
	"path"
	"regexp"
	"sort"
	"strconv"
	"strings"

	"verifharness/common"
)

type gItem struct {
	kind      int // 0 simple endpoint (a = name), 1 REST method (a = url, b = verb), 2 call (a = target as recorded, b = endpoint, c = verb)
	a, b, c   string
	line, col int
}
type gBlock struct {
	app       string // getFullAppName(): parts joined by "::"
	line, col int    // start of the app_decl: the INDENT token = position of the first member
	items     []gItem
}
type gFile struct {
	phys   string
	text   string
	blocks []gBlock
}

var lintApps = [][2]string{ // header spelling, full name
	{"A", "A"}, {"a", "a"}, {"B", "B"}, {"b", "b"}, {"Ns :: D", "Ns::D"}, {"Ns::D", "Ns::D"}, {"NS :: D", "NS::D"}, {"ns :: d", "ns::d"}, {"Ab", "Ab"}, {"AB", "AB"},
}
var lintTargets = []string{"A", "a", "B", "b", "Ns :: D", "Ns::D", "NS::D", "Nope", ".", "Ab", "aB", "Ns  ::  D"}
var lintEps = []string{"x", "y", "Ev", "x"}
var lintVerbs = []string{"GET", "POST", "DELETE", "PUT", "PATCH"}
var lintPaths = []string{"/p0", "/p1", "/p0/q"}

// genLintFile writes one file: import lines, then application blocks; positions are 1-based lines, 0-based columns
// (ANTLR's convention, which createLocation prints).
func genLintFile(r *common.Rng, phys string, imports []string) gFile {
	var sb strings.Builder
	line := 1
	w := func(s string) { sb.WriteString(s + "\n"); line++ }
	for _, im := range imports {
		w("import " + im)
	}
	f := gFile{phys: phys}
	nb := 1 + r.Intn(3)
	for bi := 0; bi < nb; bi++ {
		an := lintApps[r.Intn(len(lintApps))]
		w(an[0] + ":")
		blk := gBlock{app: an[1], line: line, col: 4}
		stmts := func(ind int) {
			n := r.Intn(3)
			if n == 0 {
				w(strings.Repeat(" ", ind) + "...")
				return
			}
			for k := 0; k < n; k++ {
				t := lintTargets[r.Intn(len(lintTargets))]
				var ep, verb, eptext string
				if r.Chance(1, 2) {
					ep = lintEps[r.Intn(len(lintEps))]
					eptext = ep
				} else {
					verb = lintVerbs[r.Intn(2)]
					ep = lintPaths[r.Intn(len(lintPaths))]
					eptext = verb + " " + ep
				}
				rec := strings.TrimSpace(t)
				if t == "." {
					rec = an[1]
					w(strings.Repeat(" ", ind) + ". <- " + eptext)
				} else {
					w(strings.Repeat(" ", ind) + t + " <- " + eptext)
				}
				blk.items = append(blk.items, gItem{kind: 2, a: rec, b: ep, c: verb, line: line - 1, col: ind})
			}
		}
		nm := 1 + r.Intn(3)
		for mi := 0; mi < nm; mi++ {
			if r.Chance(3, 5) {
				ep := lintEps[r.Intn(len(lintEps))]
				w("    " + ep + ":")
				blk.items = append(blk.items, gItem{kind: 0, a: ep, line: line - 1, col: 4})
				stmts(8)
			} else {
				p := lintPaths[r.Intn(len(lintPaths))]
				w("    " + p + ":")
				nv := 1 + r.Intn(2)
				for vi := 0; vi < nv; vi++ {
					verb := lintVerbs[r.Intn(3)]
					w("        " + verb + ":")
					blk.items = append(blk.items, gItem{kind: 1, a: p, b: verb, line: line - 1, col: 8})
					stmts(12)
				}
			}
		}
		f.blocks = append(f.blocks, blk)
	}
	f.text = sb.String()
	return f
}

// physOf: the file a spelled import name denotes in the in-memory file system
func physOf(spelled string) string {
	if i := strings.Index(spelled, "@"); i >= 0 {
		spelled = spelled[:i]
	}
	return path.Clean(strings.TrimPrefix(spelled, "/"))
}

// spell: ways to write an import of physical file `to` from a file in directory `fromDir` (root-relative)
func spell(r *common.Rng, fromDir, to string, isRoot bool) string {
	rel := to
	if fromDir != "." {
		rel = "../" + to
		if strings.HasPrefix(to, fromDir+"/") {
			rel = strings.TrimPrefix(to, fromDir+"/")
		}
	}
	noext := strings.TrimSuffix(rel, ".sysl")
	forms := []string{rel, noext, "./" + rel, "./" + noext, "sub/../" + noext, "/" + to, "/" + strings.TrimSuffix(to, ".sysl"), "x/y/../../" + rel}
	if fromDir != "." { // "sub/../" is relative to the importing file's directory: only meaningful from the top
		forms[4] = "./" + rel
	}
	if isRoot { // the root's index is claimed before anything is read: a version suffix on it is never read
		forms = append(forms, noext+"@main", rel+"@develop")
	}
	return forms[r.Intn(len(forms))]
}

var reLintLoc = regexp.MustCompile(`^(.*):(\d+):(\d+)$`)

func gLoc(s string) (string, bool) {
	m := reLintLoc.FindStringSubmatch(s)
	if m == nil || strings.Contains(m[1], ":") {
		return "", false
	}
	return fmt.Sprintf("(LAt %s %s %s)", common.GString(m[1]), m[2], m[3]), true
}

var (
	reMethodExists = regexp.MustCompile(`^recordMethod: method already exist: (\S+) (\S+) <- (\S+) (\S+)$`)
	reMethodNoApp  = regexp.MustCompile(`^recordMethod: app does not exist: (\S+) (\S+)$`)
	reLintWarn     = regexp.MustCompile(`^lint (\S+): (Application|Method|Endpoint) '(.*)' does not exist for call '(.*)'$`)
)

// warnTerms turns the warnings logrus received into Linter.warn terms; ok=false: a linter message this harness cannot read
func warnTerms(logs []string) (terms []string, other int, ok bool) {
	ok = true
	for _, l := range logs {
		if !strings.HasPrefix(l, "warning|") {
			other++
			continue
		}
		msg := strings.TrimPrefix(l, "warning|")
		switch {
		case strings.HasPrefix(msg, "lint: case-sensitive redefinitions detected:\n"):
			for _, ln := range strings.Split(strings.TrimPrefix(msg, "lint: case-sensitive redefinitions detected:\n"), "\n") {
				parts := strings.Split(ln, ", ")
				first := strings.Split(parts[0], ":")
				if len(first) < 4 {
					return nil, 0, false
				}
				app := strings.Join(first[:len(first)-3], ":")
				parts[0] = strings.Join(first[len(first)-3:], ":")
				for _, p := range parts {
					loc, good := gLoc(p)
					if !good {
						return nil, 0, false
					}
					terms = append(terms, fmt.Sprintf("WRedef %s %s", common.GString(app), loc))
				}
			}
		case reMethodExists.MatchString(msg):
			m := reMethodExists.FindStringSubmatch(msg)
			loc, good := gLoc(m[1])
			if !good {
				return nil, 0, false
			}
			terms = append(terms, fmt.Sprintf("WRecMethod EMethodExists %s %s %s %s", loc, common.GString(m[2]), common.GString(m[3]), common.GString(m[4])))
		case reMethodNoApp.MatchString(msg):
			m := reMethodNoApp.FindStringSubmatch(msg)
			loc, good := gLoc(m[1])
			if !good {
				return nil, 0, false
			}
			terms = append(terms, fmt.Sprintf("WRecMethod EMethodNoApp %s %s \"\" \"\"", loc, common.GString(m[2])))
		case strings.HasPrefix(msg, "recordEndpoint: endpoint already exists:"):
			terms = append(terms, "WRecCall EEpExists")
		case strings.HasPrefix(msg, "recordEndpoint: app does not exist:"):
			terms = append(terms, "WRecCall ENoApp")
		case strings.HasPrefix(msg, "recordAsCall: location already exists"):
			terms = append(terms, "WRecCall ECallLocExists")
		case reLintWarn.MatchString(msg):
			m := reLintWarn.FindStringSubmatch(msg)
			loc, good := gLoc(m[1])
			if !good {
				return nil, 0, false
			}
			cons := map[string]string{"Application": "WLintNoApp", "Method": "WLintNoMethod", "Endpoint": "WLintNoEndpoint"}[m[2]]
			terms = append(terms, fmt.Sprintf("%s %s %s %s", cons, loc, common.GString(m[3]), common.GString(m[4])))
		case strings.HasPrefix(msg, "record") || strings.HasPrefix(msg, "lint"):
			return nil, 0, false
		default:
			other++
		}
	}
	return terms, other, true
}

func gBlocks(bs []gBlock) string {
	var out []string
	for _, b := range bs {
		var its []string
		for _, it := range b.items {
			switch it.kind {
			case 0:
				its = append(its, fmt.Sprintf("IEndpoint %s %d %d", common.GString(it.a), it.line, it.col))
			case 1:
				its = append(its, fmt.Sprintf("IMethod %s %s %d %d", common.GString(it.a), common.GString(it.b), it.line, it.col))
			default:
				its = append(its, fmt.Sprintf("ICall %s %s %s %d %d", common.GString(it.a), common.GString(it.b), common.GString(it.c), it.line, it.col))
			}
		}
		out = append(out, fmt.Sprintf("Bk %s %d %d %s", common.GString(b.app), b.line, b.col, common.GList(its)))
	}
	return common.GList(out)
}

// fatalSite: which logrus.Fatal ended the worker (from the line the worker's hook wrote to stderr)
func fatalSite(stderr string) (site, msg string) {
	i := strings.Index(stderr, "VERIF-FATAL ")
	if i < 0 {
		return "", ""
	}
	msg = stderr[i+len("VERIF-FATAL "):]
	if j := strings.Index(msg, "\n"); j >= 0 {
		msg = msg[:j]
	}
	site = "other"
	if j := strings.Index(msg, ":"); j > 0 && !strings.Contains(msg[:j], " ") {
		site = msg[:j]
	}
	return site, msg
}

func lintStream(c *common.Ctx, do func(cs caseT) rep, n int) {
	header := `From Coq Require Import String List Bool NArith. Import ListNotations.
Require Import Verif.Total.Linter Verif.Total.RunLint Verif.Base.Harness.
Local Open Scope string_scope. Local Open Scope N_scope.`
	footer := `Definition M := Eval vm_compute in mismatches c01_lint_ok cases. Print M.`
	lc := c.NewCases("C01lint", header, "lint_case", footer, 400)
	physNames := []string{"a.sysl", "b.sysl", "sub/c.sysl", "A.sysl", "sub/a.sysl"}
	for i := 0; i < n; i++ {
		nf := 1 + c.Rng.Intn(len(physNames))
		files := map[string]string{}
		gen := map[string]gFile{}
		rootPhys := physNames[0]
		for k := 0; k < nf; k++ {
			ph := physNames[k]
			var imps []string
			ni := c.Rng.Intn(4)
			for q := 0; q < ni; q++ {
				to := physNames[c.Rng.Intn(nf)]
				if c.Rng.Chance(1, 25) {
					to = "missing.sysl"
				}
				imps = append(imps, spell(c.Rng, path.Dir(ph), to, to == rootPhys))
			}
			g := genLintFile(c.Rng, ph, imps)
			gen[ph] = g
			files[ph] = g.text
		}
		rootSpell := []string{"a.sysl", "./a.sysl", "sub/../a.sysl", "a", "./sub/../a", "x/../a.sysl"}[c.Rng.Intn(6)]
		cs := caseT{Stream: "lint-closure", Files: files, Root: rootSpell, Logs: true,
			Note: fmt.Sprintf("closure of %d files, root spelled %q, imports under several spellings", nf, rootSpell)}
		r := do(cs)
		c.Hist(fmt.Sprintf("lint-files-walked:%d", len(r.Processed)))
		var obs string
		switch r.Outcome {
		case "model":
			terms, other, ok := warnTerms(r.Logs)
			if !ok {
				c.Fail("harness:lint-message", fmt.Sprintf("a linter message could not be read: %q", r.Logs), cs)
				continue
			}
			c.HistN("lint-warnings", len(terms))
			c.HistN("lint-other-log-lines", other)
			sort.Strings(terms)
			for k := range terms {
				terms[k] = "(" + terms[k] + ")"
			}
			obs = "ODone " + common.GList(terms)
		case "died":
			continue // an oracle failure already (judge), with its replay; a dead process reports neither warnings nor the files it walked
		default: // import error (missing file): judged by the oracle, nothing recorded to compare
			cls := "other"
			for _, k := range []string{"file does not exist", "imported as different", "syntax errors", "cannot be processed"} {
				if strings.Contains(r.Msg, k) {
					cls = k
				}
			}
			c.Hist("lint-closure-error:" + cls)
			continue
		}
		// the walks, in the order Parse reports; sc.filename = the reported name
		var walks []string
		twice := map[string]int{}
		for _, name := range r.Processed {
			g, ok := gen[physOf(name)]
			if !ok {
				walks = nil
				break
			}
			twice[physOf(name)]++
			walks = append(walks, fmt.Sprintf("(%s, %s)", common.GString(name), gBlocks(g.blocks)))
		}
		if walks == nil {
			c.Fail("harness:lint-walk", fmt.Sprintf("Parse reports a processed file this harness did not write: %v", r.Processed), cs)
			continue
		}
		nt := 0
		for _, v := range twice {
			if v > 1 {
				nt++
			}
		}
		c.Hist("lint-files-walked-under-2-names:" + strconv.Itoa(nt))
		lc.Add(fmt.Sprintf("(%s, %s)", common.GList(walks), obs), cs)
		if i < 2 {
			c.Sample(map[string]interface{}{"stream": "lint-closure", "root": rootSpell, "files": files, "processed": r.Processed, "warnings": r.Logs})
		}
	}
	lc.Close()
}
