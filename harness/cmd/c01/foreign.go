// C01, streams "swagger-cycle" and "foreign-cycle": FOREIGN files of an import closure whose schemas are cyclic.
// `import api.yaml as Foo :: Api ~swagger` makes parseSpecs convert the Swagger document inside a goroutine
// (importForeign); the importer (pkg/importer/openapi3_legacy.go: loadTypeSchema <-> buildField,
// typeNameFromSchemaRef) recurses over the schema graph, which $ref circles make cyclic. Unbounded recursion ends in
// `fatal error: stack overflow`, which no recover() stops: the worker subprocess dies (verdict `died`).
//
//	swagger-cycle   Swagger 2 documents over the fragment the Coq model Total/ImportRec.v transliterates: 1-4
//	                definitions out of {A, B, C, D, object}; schemas = object (oneOf / allOf / properties), array with
//	                items, primitive; every schema position is a $ref to a definition or an inline schema (depth <= 3):
//	                circles direct, through allOf, items, properties, oneOf, self-reference, mutual recursion. The model
//	                predicts "circular reference detected" or success exactly.
//	foreign-cycle   judged by the oracle only: the same documents widened with additionalProperties, arrays without
//	                items, $ref-only definitions, deep refs ('#/definitions/A/properties/p'), refs outside the
//	                definitions ('#/x-defs/A'), schemas in parameters and responses, the OpenAPI 3 spelling of all of it
//	                (arr.ai importer, a worker of its own), yaml block and json spelling, reached directly or through
//	                an intermediate .sysl file; XSD documents with cyclic complex types (not a format importForeign takes).
package main

import (
	"encoding/json"
	"fmt"
	"os"
	"sort"
	"strings"
	"time"

	"verifharness/common"
)

// ---- abstract documents ----
type fref struct {
	ref string // name of a definition, "" = inline
	inl int    // node id of the inline schema
}
type fnode struct {
	kind                int // 0 primitive, 1 array with items, 2 object, 3 array without items
	items               fref
	oneof, allof, props []fref
	pnames              []string // property names, parallel to props
	addl                *fref    // additionalProperties (wide fragment only)
	notype              bool     // object written without `type: object`
}
type fdoc struct {
	nodes []*fnode // index = node id, 0 unused
	defs  []string // names, sorted
	defN  map[string]int
	wide  bool
	pctr  int
}

var defNames = []string{"object", "A", "B", "C", "D"} // Coq ids 1..5
func defID(n string) int {
	for i, d := range defNames {
		if d == n {
			return i + 1
		}
	}
	return 0
}

func (d *fdoc) newNode() int { d.nodes = append(d.nodes, &fnode{}); return len(d.nodes) - 1 }

func (d *fdoc) genRef(r *common.Rng, depth int) fref {
	if depth <= 0 || r.Chance(11, 20) {
		return fref{ref: d.defs[r.Intn(len(d.defs))]}
	}
	id := d.newNode() // numbered before its own children: pre-order
	d.fill(r, id, depth-1)
	return fref{inl: id}
}

func (d *fdoc) fill(r *common.Rng, id, depth int) {
	n := d.nodes[id]
	switch k := r.Intn(20); {
	case k < 12:
		n.kind = 2
		if r.Chance(1, 10) {
			for i, c := 0, 1+r.Intn(2); i < c; i++ {
				if d.wide {
					n.oneof = append(n.oneof, d.genRef(r, depth))
				} else {
					// openapi2conv leaves oneOf as it is (a $ref below it stays '#/definitions/..' and the loader then
					// rejects the document): in the modelled fragment an option is an inline schema without references
					id := d.newNode()
					d.nodes[id].kind = []int{0, 2}[r.Intn(2)]
					n.oneof = append(n.oneof, fref{inl: id})
				}
			}
		}
		for i, c := 0, r.Intn(3); i < c; i++ {
			n.allof = append(n.allof, d.genRef(r, depth))
		}
		for i, c := 0, r.Intn(3); i < c; i++ {
			n.props = append(n.props, d.genRef(r, depth))
			d.pctr++
			n.pnames = append(n.pnames, fmt.Sprintf("p%d", d.pctr))
		}
		n.notype = len(n.allof) > 0 && r.Chance(1, 3)
		if d.wide && r.Chance(1, 5) {
			a := d.genRef(r, depth)
			n.addl = &a
		}
	case k < 17:
		n.kind = 1
		n.items = d.genRef(r, depth)
		if d.wide && r.Chance(1, 6) {
			n.kind = 3
		}
	default:
		n.kind = 0
	}
}

func genDoc(r *common.Rng, wide bool) *fdoc {
	d := &fdoc{nodes: []*fnode{nil}, defN: map[string]int{}, wide: wide}
	k := 1 + r.Intn(4)
	perm := []int{0, 1, 2, 3, 4}
	for i := len(perm) - 1; i > 0; i-- {
		j := r.Intn(i + 1)
		perm[i], perm[j] = perm[j], perm[i]
	}
	for _, i := range perm[:k] {
		d.defs = append(d.defs, defNames[i])
	}
	sort.Strings(d.defs)
	for _, n := range d.defs {
		d.defN[n] = d.newNode()
	}
	for _, n := range d.defs {
		d.fill(r, d.defN[n], 3)
	}
	return d
}

// ---- ordered JSON / YAML emission ----
type kv struct {
	k string
	v interface{}
}
type om []kv

func emitJSON(v interface{}, sb *strings.Builder) {
	switch x := v.(type) {
	case om:
		sb.WriteString("{")
		for i, e := range x {
			if i > 0 {
				sb.WriteString(", ")
			}
			b, _ := json.Marshal(e.k)
			sb.Write(b)
			sb.WriteString(": ")
			emitJSON(e.v, sb)
		}
		sb.WriteString("}")
	case []interface{}:
		sb.WriteString("[")
		for i, e := range x {
			if i > 0 {
				sb.WriteString(", ")
			}
			emitJSON(e, sb)
		}
		sb.WriteString("]")
	default:
		b, _ := json.Marshal(x)
		sb.Write(b)
	}
}

func emitYAML(v interface{}, ind int, sb *strings.Builder) {
	pad := strings.Repeat("  ", ind)
	switch x := v.(type) {
	case om:
		if len(x) == 0 {
			sb.WriteString(pad + "{}\n")
		}
		for _, e := range x {
			kb, _ := json.Marshal(e.k)
			switch c := e.v.(type) {
			case om:
				if len(c) == 0 {
					fmt.Fprintf(sb, "%s%s: {}\n", pad, kb)
				} else {
					fmt.Fprintf(sb, "%s%s:\n", pad, kb)
					emitYAML(c, ind+1, sb)
				}
			case []interface{}:
				if len(c) == 0 {
					fmt.Fprintf(sb, "%s%s: []\n", pad, kb)
				} else {
					fmt.Fprintf(sb, "%s%s:\n", pad, kb)
					emitYAML(c, ind+1, sb)
				}
			default:
				b, _ := json.Marshal(c)
				fmt.Fprintf(sb, "%s%s: %s\n", pad, kb, b)
			}
		}
	case []interface{}:
		for _, e := range x {
			var inner strings.Builder
			switch c := e.(type) {
			case om, []interface{}:
				emitYAML(c, ind+1, &inner)
				s := inner.String()
				// the first line of the nested block follows the dash
				sb.WriteString(pad + "- " + strings.TrimPrefix(s, strings.Repeat("  ", ind+1)))
			default:
				b, _ := json.Marshal(c)
				fmt.Fprintf(sb, "%s- %s\n", pad, b)
			}
		}
	}
}

func (d *fdoc) refPath(name string, v3 bool) string {
	if v3 {
		return "#/components/schemas/" + name
	}
	return "#/definitions/" + name
}

func (d *fdoc) schemaOf(f fref, v3 bool) om {
	if f.ref != "" {
		return om{{"$ref", d.refPath(f.ref, v3)}}
	}
	return d.schema(f.inl, v3)
}

func (d *fdoc) schema(id int, v3 bool) om {
	n := d.nodes[id]
	switch n.kind {
	case 1:
		return om{{"type", "array"}, {"items", d.schemaOf(n.items, v3)}}
	case 3:
		return om{{"type", "array"}}
	case 2:
		o := om{}
		if !n.notype {
			o = append(o, kv{"type", "object"})
		}
		list := func(key string, l []fref) {
			if len(l) > 0 {
				var xs []interface{}
				for _, f := range l {
					xs = append(xs, d.schemaOf(f, v3))
				}
				o = append(o, kv{key, xs})
			}
		}
		list("oneOf", n.oneof)
		list("allOf", n.allof)
		if len(n.props) > 0 {
			ps := om{}
			for i, f := range n.props {
				ps = append(ps, kv{n.pnames[i], d.schemaOf(f, v3)})
			}
			o = append(o, kv{"properties", ps})
		}
		if n.addl != nil {
			o = append(o, kv{"additionalProperties", d.schemaOf(*n.addl, v3)})
		}
		if len(o) == 0 {
			o = append(o, kv{"type", "object"})
		}
		return o
	}
	return om{{"type", "string"}}
}

// extras of the wide fragment: what else can carry a schema or a reference
type fextra struct {
	aliasDef  [2]string // definition X: {$ref: Y} (X not among the generated ones)
	deepRef   bool      // a definition whose property refers to '#/definitions/<d>/properties/<p>' style positions
	xdefs     bool      // a schema outside the definitions, referring to itself, referred to from a definition
	pathRef   string    // a response / body parameter with a $ref to this definition
	pathInl   bool      // a response with an inline array of a $ref
	selfAllOf string    // definition that is allOf of itself plus a property of its own type
}

// m("k1", v1, "k2", v2, ...) / l(x1, x2, ...): ordered map / list literals
func m(kvs ...interface{}) om {
	o := om{}
	for i := 0; i+1 < len(kvs); i += 2 {
		o = append(o, kv{kvs[i].(string), kvs[i+1]})
	}
	return o
}
func l(xs ...interface{}) []interface{} { return xs }

func (d *fdoc) text(v3, asJSON bool, ex *fextra) string {
	schemas := om{}
	for _, n := range d.defs {
		schemas = append(schemas, kv{n, d.schema(d.defN[n], v3)})
	}
	ref := func(name string) om { return m("$ref", d.refPath(name, v3)) }
	var xdefs om
	paths := om{}
	if ex != nil {
		if ex.aliasDef[0] != "" {
			schemas = append(schemas, kv{ex.aliasDef[0], ref(ex.aliasDef[1])})
		}
		if ex.selfAllOf != "" {
			self := ex.selfAllOf
			schemas = append(schemas, kv{self, m("allOf", l(ref(d.defs[0]),
				m("type", "object", "properties", m("again", ref(self), "many", m("type", "array", "items", ref(self))))))})
		}
		if ex.deepRef {
			schemas = append(schemas, kv{"Deep", m("type", "object", "properties", m(
				"x", m("type", "array", "items", m("$ref", d.refPath("Deep", v3)+"/properties/y")),
				"y", m("type", "object", "allOf", l(ref(d.defs[0])), "properties", m("z", ref("Deep")))))})
		}
		if ex.xdefs {
			xdefs = m("Loop", m("type", "object", "properties", m("next", m("$ref", "#/x-defs/Loop"), "d", ref(d.defs[0]))))
			schemas = append(schemas, kv{"UsesX", m("type", "object", "allOf", l(m("$ref", "#/x-defs/Loop")))})
		}
		if ex.pathRef != "" || ex.pathInl {
			var sch om
			if ex.pathInl {
				sch = m("type", "array", "items", m("type", "object", "allOf", l(ref(d.defs[len(d.defs)-1])), "properties", m("self", ref(d.defs[0]))))
			} else {
				sch = ref(ex.pathRef)
			}
			if v3 {
				content := m("application/json", m("schema", sch))
				paths = m("/p/{id}", m("post", m(
					"requestBody", m("content", content),
					"responses", m("200", m("description", "ok", "content", content)))))
			} else {
				paths = m("/p/{id}", m("post", m(
					"parameters", l(m("name", "id", "in", "path", "required", true, "type", "string"), m("name", "body", "in", "body", "schema", sch)),
					"responses", m("200", m("description", "ok", "schema", sch)))))
			}
		}
	}
	var doc om
	if v3 {
		doc = m("openapi", "3.0.0", "info", m("title", "t", "version", "1"), "paths", paths, "components", m("schemas", schemas))
	} else {
		doc = m("swagger", "2.0", "info", m("title", "t", "version", "1"), "paths", paths, "definitions", schemas)
	}
	if xdefs != nil {
		doc = append(doc, kv{"x-defs", xdefs})
	}
	var sb strings.Builder
	if asJSON {
		emitJSON(doc, &sb)
		sb.WriteString("\n")
	} else {
		emitYAML(doc, 0, &sb)
	}
	return sb.String()
}

// ---- Gallina ----
func (d *fdoc) gref(f fref) string {
	if f.ref != "" {
		return fmt.Sprintf("R %d", defID(f.ref))
	}
	return fmt.Sprintf("I %d", f.inl)
}
func (d *fdoc) grefs(l []fref) string {
	var xs []string
	for _, f := range l {
		xs = append(xs, d.gref(f))
	}
	return common.GList(xs)
}
func (d *fdoc) gallina() string {
	var ns, ds, os []string
	for id := 1; id < len(d.nodes); id++ {
		n := d.nodes[id]
		k := "KPrim"
		switch n.kind {
		case 1:
			k = "KArr (" + d.gref(n.items) + ")"
		case 3:
			k = "KArrNoItems"
		case 2:
			k = fmt.Sprintf("KObj %s %s %s", d.grefs(n.oneof), d.grefs(n.allof), d.grefs(n.props))
		}
		ns = append(ns, fmt.Sprintf("(%d, %s)", id, k))
	}
	for _, n := range d.defs {
		ds = append(ds, fmt.Sprintf("(%d%%positive, %d)", defID(n), d.defN[n]))
		os = append(os, fmt.Sprintf("%d%%positive", defID(n)))
	}
	return fmt.Sprintf("Doc %s %s %s", common.GList(ns), common.GList(ds), common.GList(os))
}

// shape statistics for the histogram: does the reference graph have a circle at all, and through what
func (d *fdoc) hasCycle() bool {
	adj := map[string][]string{}
	for _, n := range d.defs {
		var walk func(id int)
		walk = func(id int) {
			x := d.nodes[id]
			fs := append(append(append([]fref{}, x.oneof...), x.allof...), x.props...)
			if x.kind == 1 {
				fs = append(fs, x.items)
			}
			if x.addl != nil {
				fs = append(fs, *x.addl)
			}
			for _, f := range fs {
				if f.ref != "" {
					adj[n] = append(adj[n], f.ref)
				} else {
					walk(f.inl)
				}
			}
		}
		walk(d.defN[n])
	}
	state := map[string]int{}
	var dfs func(n string) bool
	dfs = func(n string) bool {
		state[n] = 1
		for _, m := range adj[n] {
			if state[m] == 1 || (state[m] == 0 && dfs(m)) {
				return true
			}
		}
		state[n] = 2
		return false
	}
	for _, n := range d.defs {
		if state[n] == 0 && dfs(n) {
			return true
		}
	}
	return false
}

var importSpellings = []struct{ file, stmt string }{
	{"api.yaml", "import api.yaml as Foo :: Api ~swagger"},
	{"api.yaml", "import api.yaml as Api"},
	{"api.json", "import api.json as Foo :: Api ~swagger"},
	{"api.yml", "import api.yml as foo.bar.Api ~openapi2"},
	{"sub/api.yaml", "import sub/api.yaml as Foo :: Api ~swagger"},
	{"api.yaml", "import ./api.yaml as Api ~swagger"},
}

func foreignCase(stream string, r *common.Rng, text func(asJSON bool) string, note string) caseT {
	sp := importSpellings[r.Intn(len(importSpellings))]
	files := map[string]string{sp.file: text(strings.HasSuffix(sp.file, ".json") || r.Chance(1, 4))}
	root := sp.stmt + "\nApp:\n    E:\n        ...\n"
	if r.Chance(1, 4) { // reached through an intermediate file
		files["mid.sysl"] = sp.stmt + "\nMid:\n    ...\n"
		root = "import mid\nApp:\n    E:\n        ...\n"
	}
	files["root.sysl"] = root
	return caseT{Stream: stream, Files: files, Root: "root.sysl", Note: note + " reached through `" + sp.stmt + "`"}
}

var xsdCyclic = []string{
	// element of its own type
	`<xs:complexType name="T1"><xs:sequence><xs:element name="next" type="tns:T1" minOccurs="0"/></xs:sequence></xs:complexType>`,
	// mutual recursion of two and three complex types
	`<xs:complexType name="T1"><xs:sequence><xs:element name="b" type="tns:T2"/></xs:sequence></xs:complexType><xs:complexType name="T2"><xs:sequence><xs:element name="a" type="tns:T1" maxOccurs="unbounded"/></xs:sequence></xs:complexType>`,
	`<xs:complexType name="T1"><xs:sequence><xs:element name="b" type="tns:T2"/></xs:sequence></xs:complexType><xs:complexType name="T2"><xs:sequence><xs:element name="c" type="tns:T3"/></xs:sequence></xs:complexType><xs:complexType name="T3"><xs:sequence><xs:element name="a" type="tns:T1"/></xs:sequence></xs:complexType>`,
	// extension of a base with an element of the derived type
	`<xs:complexType name="Base"><xs:sequence><xs:element name="d" type="tns:Derived" minOccurs="0"/></xs:sequence></xs:complexType><xs:complexType name="Derived"><xs:complexContent><xs:extension base="tns:Base"><xs:sequence><xs:element name="me" type="tns:Derived" minOccurs="0"/></xs:sequence></xs:extension></xs:complexContent></xs:complexType>`,
	// extension circle
	`<xs:complexType name="X"><xs:complexContent><xs:extension base="tns:Y"><xs:sequence><xs:element name="x" type="xs:string"/></xs:sequence></xs:extension></xs:complexContent></xs:complexType><xs:complexType name="Y"><xs:complexContent><xs:extension base="tns:X"><xs:sequence><xs:element name="y" type="xs:string"/></xs:sequence></xs:extension></xs:complexContent></xs:complexType>`,
	// anonymous complex type inside an element that refers to the enclosing named type
	`<xs:complexType name="T1"><xs:sequence><xs:element name="in"><xs:complexType><xs:sequence><xs:element name="up" type="tns:T1"/></xs:sequence></xs:complexType></xs:element></xs:sequence></xs:complexType>`,
	// simple type restricting itself
	`<xs:simpleType name="S"><xs:restriction base="tns:S"/></xs:simpleType><xs:complexType name="T1"><xs:sequence><xs:element name="s" type="tns:S"/></xs:sequence></xs:complexType>`,
}

func xsdText(body string) string {
	return `<?xml version="1.0"?>` + "\n" + `<xs:schema xmlns:xs="http://www.w3.org/2001/XMLSchema" xmlns:tns="urn:t" targetNamespace="urn:t">` + "\n" +
		`<xs:element name="root" type="tns:T1"/>` + "\n" + body + "\n</xs:schema>\n"
}

// foreignStream runs both streams. The OpenAPI 3 documents go to the arr.ai importer, which takes seconds per file:
// they run on a worker of their own, started first and joined at the end.
func foreignStream(c *common.Ctx, do func(cs caseT) rep, big bool) {
	nModel, nWide, nV3 := 220, 120, 3
	if big {
		nModel, nWide, nV3 = 4000, 2500, 40
	}
	// --- OpenAPI 3 on a second worker ---
	type v3res struct {
		cs caseT
		r  rep
	}
	var v3cases []caseT
	for i := 0; i < nV3; i++ {
		d := genDoc(c.Rng, true)
		ex := &fextra{}
		if i%2 == 1 {
			ex.selfAllOf = "Self"
		}
		txt := func(asJSON bool) string { return d.text(true, asJSON, ex) }
		cs := foreignCase("foreign-cycle", c.Rng, txt, fmt.Sprintf("an OpenAPI 3 document with %d schemas (reference circle: %v)", len(d.defs), d.hasCycle()))
		cs.Slow = true
		v3cases = append(v3cases, cs)
	}
	if big {
		// the shape of known finding stack-overflow:pkg/arrai.EvaluateBundle, so that every thorough run shows it: a property
		// that is allOf of an inline object and of the schema that contains it (about 30 s until the 64 MB stack is exhausted)
		doc := "openapi: \"3.0.0\"\ninfo: {title: t, version: \"1\"}\npaths: {}\ncomponents:\n  schemas:\n    C:\n      type: object\n      properties:\n        p4:\n          allOf:\n            - type: object\n              properties:\n                q:\n                  type: string\n            - $ref: \"#/components/schemas/C\"\n"
		v3cases = append(v3cases, caseT{Stream: "foreign-cycle", Slow: true, Root: "root.sysl", Note: "an OpenAPI 3 document whose property is allOf of an inline object and of the enclosing schema",
			Files: map[string]string{"api.yaml": doc, "root.sysl": "import api.yaml as Foo :: Api ~openapi3\nApp:\n    ...\n"}})
	}
	v3done := make(chan []v3res, 1)
	go func() {
		w3 := common.NewWorker()
		defer w3.Close()
		var out []v3res
		for _, cs := range v3cases {
			out = append(out, v3res{cs, runOn(w3, cs, 150*time.Second)})
		}
		v3done <- out
	}()

	// --- swagger-cycle: against the Coq model ---
	header := `From Coq Require Import List Bool NArith PArith. Import ListNotations.
Require Import Verif.Total.ImportRec Verif.Total.RunImportRec Verif.Base.Harness.
Definition R (p:positive) := SRef p. Definition I (n:nat) := SInl n.
Definition Doc n d o := {| nodes := n; defs := d; order := o |}.`
	footer := `Definition M := Eval vm_compute in mismatches c01_swagger_ok cases. Print M.`
	sc := c.NewCases("C01swagger", header, "swagger_case", footer, 1500)
	for i := 0; i < nModel; i++ {
		d := genDoc(c.Rng, false)
		cyc := d.hasCycle()
		cs := foreignCase("swagger-cycle", c.Rng, func(asJSON bool) string { return d.text(false, asJSON, nil) },
			fmt.Sprintf("a Swagger 2 document with %d definitions (reference circle: %v)", len(d.defs), cyc))
		r := do(cs)
		obs := ""
		switch {
		case r.Outcome == "model":
			obs = "SModel"
		case r.Outcome == "error" && strings.Contains(r.Msg, "circular reference detected"):
			obs = "SCirc"
		case r.Outcome == "error" && strings.Contains(r.Msg, "has no items"):
			obs = "SNoItems"
		case r.Outcome == "error" && strings.Contains(r.Msg, "error converting openapi 2"):
			obs = "SLib" // kin-openapi refused the document before the importer saw it
		case r.Outcome == "error" && r.Code == 2 && strings.Contains(r.Msg, "has syntax errors") && !strings.Contains(r.Msg, "unknown format"):
			obs = "SSyntax" // the importer finished; what it wrote is not valid Sysl
		case r.Outcome == "error":
			obs = "SOther"
			m := r.Msg
			if i := strings.Index(m, "unknown format: "); i >= 0 {
				m = m[i+16:]
			}
			if len(m) > 70 {
				m = m[:70]
			}
			c.Hist("swagger-cycle:other-error:" + m)
		default:
			continue // died / hang / panic: judged by the oracle
		}
		c.Hist(fmt.Sprintf("swagger-cycle:circle=%v:%s", cyc, obs))
		if dump := os.Getenv("VERIF_C01_DUMP"); dump != "" { // development aid
			if f, err := os.OpenFile(dump, os.O_APPEND|os.O_CREATE|os.O_WRONLY, 0o644); err == nil {
				b, _ := json.Marshal(map[string]interface{}{"files": cs.Files, "obs": obs, "msg": r.Msg, "doc": d.gallina()})
				f.Write(append(b, '\n'))
				f.Close()
			}
		}
		sc.Add(fmt.Sprintf("(%s, %s)", d.gallina(), obs), cs)
		if i < 2 {
			c.Sample(map[string]interface{}{"stream": "swagger-cycle", "files": cs.Files, "outcome": r.Outcome, "msg": r.Msg})
		}
	}
	sc.Close()

	// --- foreign-cycle: wider documents, oracle only ---
	for i := 0; i < nWide; i++ {
		d := genDoc(c.Rng, true)
		ex := &fextra{}
		switch c.Rng.Intn(7) {
		case 0:
			ex.aliasDef = [2]string{"Alias", d.defs[c.Rng.Intn(len(d.defs))]}
		case 1:
			ex.deepRef = true
		case 2:
			ex.xdefs = true
		case 3:
			ex.pathRef = d.defs[c.Rng.Intn(len(d.defs))]
		case 4:
			ex.pathInl = true
		case 5:
			ex.selfAllOf = "Self"
		}
		cs := foreignCase("foreign-cycle", c.Rng, func(asJSON bool) string { return d.text(false, asJSON, ex) },
			fmt.Sprintf("a Swagger 2 document with %d definitions and extras %+v (reference circle: %v)", len(d.defs), *ex, d.hasCycle()))
		r := do(cs)
		c.Hist("foreign-cycle:swagger2:" + r.Outcome)
	}
	// XSD: importForeign does not take the format; the statement must end in an error, not in the XSD importer
	for i, body := range xsdCyclic {
		for _, fn := range []string{"api.xsd", "api.xml"} {
			cs := caseT{Stream: "foreign-cycle", Files: map[string]string{fn: xsdText(body), "root.sysl": "import " + fn + " as Foo :: Api ~xsd\nApp:\n    ...\n"}, Root: "root.sysl",
				Note: fmt.Sprintf("cyclic XSD document #%d imported as %s", i, fn)}
			r := do(cs)
			c.Hist("foreign-cycle:xsd:" + r.Outcome)
		}
		// for the record only (sysl import is outside this property): the XSD importer itself on the same document
		var rr rep
		died, timedOut, _ := w.Call(req{Files: map[string]string{"api.xsd": xsdText(body)}, Root: "api.xsd", Direct: true}, &rr, 20*time.Second)
		switch {
		case timedOut:
			c.Hist("xsd-importer-direct(not judged):hang")
		case died:
			c.Hist("xsd-importer-direct(not judged):died")
			c.Res.Extra[fmt.Sprintf("xsd_importer_direct_died_on_document_%d", i)] = body
		default:
			c.Hist("xsd-importer-direct(not judged):" + rr.Outcome)
		}
	}
	// join the OpenAPI 3 worker; judged here, in generation order
	for _, x := range <-v3done {
		judge(c, x.cs, x.r)
		c.Count(caseKey(x.cs), true)
		c.Hist("foreign-cycle:openapi3:" + x.r.Outcome)
	}
}
