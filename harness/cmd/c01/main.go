// C01: compilation is total. Streams of hostile / odd / near-miss inputs are compiled by the real parser in a
// worker subprocess (so that a panic in a goroutine, os.Exit or a hang is observed from outside); the oracle is
// the property itself: every case ends as a model or as an error with a non-zero exit code - never a crash,
// never a hang. Field-type forms are additionally compared with the Coq crash predictor (Total/FieldPanics.v),
// and import closures with the pipeline model (Total/Pipeline.v).
package main

import (
	"encoding/hex"
	"encoding/json"
	"fmt"
	"io"
	"os"
	"os/exec"
	"path/filepath"
	"runtime/debug"
	"sort"
	"strings"
	"time"

	"github.com/anz-bank/sysl/pkg/importer"
	"github.com/anz-bank/sysl/pkg/parse"
	"github.com/anz-bank/sysl/pkg/sysl"
	"github.com/anz-bank/sysl/pkg/syslutil"
	"github.com/sirupsen/logrus"
	"github.com/spf13/afero"

	"verifharness/common"
)

type req struct {
	Files   map[string]string `json:"files"`
	Root    string            `json:"root"`
	Logs    bool              `json:"logs,omitempty"`    // report what logrus received and the files Parse processed
	Payload bool              `json:"payload,omitempty"` // report the bytes of the first return payload / call endpoint of App.E
	Direct  bool              `json:"direct,omitempty"`  // not a compilation: hand Files[Root] to the importer the file name selects (for the record only)
}
type rep struct {
	Outcome   string   `json:"outcome"` // model | error | panic
	Code      int      `json:"code"`
	Msg       string   `json:"msg"`
	Trace     string   `json:"trace,omitempty"`
	Apps      int      `json:"apps"`
	Logs      []string `json:"logs,omitempty"`      // "level|message" of every logrus entry at warning level or above
	Processed []string `json:"processed,omitempty"` // OperationSummary: the files handed to parseSpecs, in order
	Payload   string   `json:"payload,omitempty"`   // hex of the payload of the first statement of App.E ("none": no such statement)
	Lit       string   `json:"lit,omitempty"`       // the integer literal assigned first in view App.v: "i:<decimal>", "unset" (no value), "other"
	Names     string   `json:"names,omitempty"`     // "app=<hex>;target=<hex>;mixin=<hex>": Name.Part (joined by "::") of the only application, of the target of the first call of App.E, of the first mixin of App
}

// logHook collects what the code under test logs; a Fatal entry is also written to stderr, because logrus ends the
// process right after the hooks and the parent then only has the worker's stderr.
type logHook struct{ lines []string }

func (h *logHook) Levels() []logrus.Level {
	return []logrus.Level{logrus.PanicLevel, logrus.FatalLevel, logrus.ErrorLevel, logrus.WarnLevel}
}
func (h *logHook) Fire(e *logrus.Entry) error {
	if e.Level == logrus.FatalLevel {
		fmt.Fprintf(os.Stderr, "VERIF-FATAL %s\n", strings.ReplaceAll(e.Message, "\n", " "))
	}
	h.lines = append(h.lines, e.Level.String()+"|"+e.Message)
	return nil
}

var hook = &logHook{}

// withStdout runs f with os.Stdout redirected to a pipe and returns what f printed (Parse prints the operation summary there)
func withStdout(f func()) string {
	old := os.Stdout
	r, w, err := os.Pipe()
	if err != nil {
		f()
		return ""
	}
	os.Stdout = w
	done := make(chan string)
	go func() { b, _ := io.ReadAll(r); done <- string(b) }()
	func() {
		defer func() { os.Stdout = old; w.Close() }()
		f()
	}()
	return <-done
}

func compileInWorker(line []byte) interface{} {
	var r req
	if err := json.Unmarshal(line, &r); err != nil {
		return rep{Outcome: "badreq"}
	}
	out := rep{}
	func() {
		defer func() {
			if x := recover(); x != nil {
				out = rep{Outcome: "panic", Msg: fmt.Sprint(x), Trace: string(debug.Stack())}
			}
		}()
		if r.Direct {
			imp, err := importer.Factory(r.Root, false, "", []byte(r.Files[r.Root]), logrus.StandardLogger())
			if err == nil {
				imp, err = imp.Configure(&importer.ImporterArg{AppName: "Api", PackageName: "Foo"})
			}
			if err == nil {
				_, err = imp.Load(r.Files[r.Root])
			}
			if err != nil {
				out = rep{Outcome: "error", Code: 1, Msg: err.Error()}
			} else {
				out = rep{Outcome: "model"}
			}
			return
		}
		fs := afero.NewMemMapFs()
		for n, c := range r.Files {
			afero.WriteFile(fs, n, []byte(c), 0o644)
		}
		p := parse.NewParser()
		var m *sysl.Module
		var err error
		if r.Logs {
			hook.lines = nil
			p.OperationSummary = true
			so := withStdout(func() { m, err = p.ParseFromFs(r.Root, fs) })
			var sum struct {
				FilesProcessed []string `json:"filesProcessed"`
			}
			if i := strings.Index(so, "{"); i >= 0 {
				json.Unmarshal([]byte(so[i:]), &sum)
			}
			defer func() {
				if out.Outcome == "model" || out.Outcome == "error" {
					out.Logs, out.Processed = hook.lines, sum.FilesProcessed
				}
			}()
		} else {
			m, err = p.ParseFromFs(r.Root, fs)
		}
		if err != nil {
			code := 1 // what main2 does: default 1, Exit carries its own code
			if e, ok := err.(syslutil.Exit); ok {
				code = e.Code
			}
			msg := err.Error()
			if len(msg) > 300 {
				msg = msg[:300]
			}
			out = rep{Outcome: "error", Code: code, Msg: msg}
			if m != nil {
				out.Msg = "ERROR-WITH-MODEL " + out.Msg
			}
			return
		}
		if m == nil {
			out = rep{Outcome: "error", Code: 0, Msg: "nil model and nil error"}
			return
		}
		out = rep{Outcome: "model", Apps: len(m.Apps)}
		if r.Payload {
			var nm []string
			join := func(n *sysl.AppName) string { return hex.EncodeToString([]byte(strings.Join(n.GetPart(), "::"))) }
			if len(m.Apps) == 1 {
				for _, a := range m.Apps {
					nm = append(nm, "app="+join(a.Name))
				}
			}
			if a := m.Apps["App"]; a != nil {
				if e := a.Endpoints["E"]; e != nil && len(e.Stmt) > 0 && e.Stmt[0].GetCall() != nil {
					nm = append(nm, "target="+join(e.Stmt[0].GetCall().Target))
				}
				if len(a.Mixin2) > 0 {
					nm = append(nm, "mixin="+join(a.Mixin2[0].Name))
				}
			}
			out.Names = strings.Join(nm, ";")
			out.Payload = "none"
			if a := m.Apps["App"]; a != nil && a.Views["v"] != nil {
				out.Lit = "other"
				if tr := a.Views["v"].GetExpr().GetTransform(); tr != nil && len(tr.Stmt) > 0 && tr.Stmt[0].GetAssign() != nil {
					if l := tr.Stmt[0].GetAssign().GetExpr().GetLiteral(); l != nil {
						switch v := l.Value.(type) {
						case *sysl.Value_I:
							out.Lit = fmt.Sprintf("i:%d", v.I)
						case nil:
							out.Lit = "unset"
						}
					}
				}
			}
			if a := m.Apps["App"]; a != nil && a.Endpoints["E"] != nil && len(a.Endpoints["E"].Stmt) > 0 {
				st := a.Endpoints["E"].Stmt[0]
				if st.GetRet() != nil {
					out.Payload = hex.EncodeToString([]byte(st.GetRet().Payload))
				} else if st.GetCall() != nil {
					out.Payload = hex.EncodeToString([]byte(st.GetCall().Endpoint))
				}
			}
		}
	}()
	return out
}

type caseT struct {
	Stream  string            `json:"stream"`
	Files   map[string]string `json:"files"`
	Root    string            `json:"root"`
	Note    string            `json:"note,omitempty"`
	Logs    bool              `json:"logs,omitempty"`
	Payload bool              `json:"payload,omitempty"`
	Slow    bool              `json:"slow,omitempty"` // an OpenAPI 3 document: the arr.ai importer takes seconds, the deadline is 150 s
}

var w *common.Worker

func runOn(wk *common.Worker, cs caseT, deadline time.Duration) rep {
	var r rep
	died, timedOut, stderr := wk.Call(req{Files: cs.Files, Root: cs.Root, Logs: cs.Logs, Payload: cs.Payload}, &r, deadline)
	if timedOut {
		r = rep{Outcome: "hang"}
	} else if died {
		r = rep{Outcome: "died", Trace: stderr}
	}
	return r
}

func run(c *common.Ctx, cs caseT) rep {
	if cs.Slow {
		return runOn(w, cs, 150*time.Second)
	}
	return runOn(w, cs, 20*time.Second)
}

// caseKey: a case is its set of files
func caseKey(cs caseT) string {
	var ks []string
	for k, v := range cs.Files {
		ks = append(ks, k+"\x00"+v)
	}
	sort.Strings(ks)
	return strings.Join(ks, "\x01")
}

// judge: the property itself
func judge(c *common.Ctx, cs caseT, r rep) {
	c.Hist("stream:" + cs.Stream)
	c.Hist("outcome:" + r.Outcome)
	switch r.Outcome {
	case "model":
	case "error":
		if r.Code == 0 {
			c.Fail("error-with-zero-status", fmt.Sprintf("compilation of %s reports an error (%q) but the exit status would be 0", cs.Note, r.Msg), cs)
		}
		if strings.HasPrefix(r.Msg, "ERROR-WITH-MODEL") {
			c.Fail("error-and-model", "compilation returned both an error and a model: "+r.Msg, cs)
		}
		c.Hist(fmt.Sprintf("error-code:%d", r.Code))
	case "panic", "died":
		if fs, msg := fatalSite(r.Trace); r.Outcome == "died" && fs != "" {
			c.Fail("killed:logrus.Fatal:"+fs, fmt.Sprintf("compiling %s ends the process in logrus.Fatal (%s)", cs.Note, msg), cs)
			return
		}
		if fn := overflowSite(r.Trace); fn != "" {
			c.Fail("stack-overflow:"+fn, fmt.Sprintf("compiling %s ends the process with `fatal error: stack overflow`: unbounded recursion through %s", cs.Note, fn), cs)
			return
		}
		site := common.PanicSite(r.Trace)
		what := r.Msg
		if what == "" {
			t := r.Trace
			if i := strings.Index(t, "panic:"); i >= 0 {
				t = t[i:]
			} else if i := strings.Index(t, "fatal error:"); i >= 0 {
				t = t[i:]
			}
			if len(t) > 160 {
				t = t[:160]
			}
			what = strings.ReplaceAll(t, "\n", " ")
		}
		c.Fail("crash:"+site, fmt.Sprintf("compiling %s aborts with a runtime panic at %s: %s", cs.Note, site, what), cs)
	case "hang":
		c.Fail("hang", fmt.Sprintf("compiling %s did not terminate within the deadline (20 s; 150 s for an OpenAPI 3 import)", cs.Note), cs)
	default:
		c.Fail("harness", "unexpected worker outcome "+r.Outcome, cs)
	}
}

// overflowSite: for a `fatal error: stack overflow` trace, the function of the module that occurs most often among the
// frames shown (the top frame of an overflow is arbitrary; the recursion is what repeats). "" = not a stack overflow.
func overflowSite(trace string) string {
	if !strings.Contains(trace, "stack overflow") {
		return ""
	}
	count := map[string]int{}
	for _, l := range strings.Split(trace, "\n") {
		l = strings.TrimSpace(l)
		if !strings.HasPrefix(l, "github.com/anz-bank/sysl/") {
			continue
		}
		if i := strings.LastIndex(l, "("); i > 0 {
			l = l[:i]
		}
		l = strings.TrimPrefix(l, "github.com/anz-bank/sysl/")
		count[l]++
	}
	best, n := "unknown", 0
	for f, k := range count {
		if k > n || (k == n && f < best) {
			best, n = f, k
		}
	}
	return best
}

// ---------- stream A: the crash family found while reading the listener ----------
var crashFamily = []string{
	"App:\n    !type T:\n        x <: float(5)\n",
	"App:\n    !type T:\n        x <: any(3)\n",
	"App:\n    !type T:\n        x <: sequence of bool(3)\n",
	"App:\n    !type T:\n        x <: string(99999999999999999999)\n",
	"App:\n    !type T:\n        x <: int(1..99999999999999999999)\n",
	"App:\n    !type T:\n        x <: decimal(5.99999999999999999999)\n",
	"App:\n    !wrap A:\n        E:\n            ...\n    !wrap B:\n        F:\n            ...\n",
	"App:\n    !view v(a <: int) -> int:\n        a -> (:\n            x = 99999999999999999999\n        )\n",
	"App:\n    E:\n        return 100%\n",
	"App:\n    E:\n        return ok <: %zz\n",
	"A%zz:\n    ...\n",
	"App:\n    !type T%:\n        x <: int\n",
	"App:\n    !type T:\n        x%g <: int\n",
	"App:\n    !alias A:\n        sequence of float(3)\n",
	"App:\n    E(p <: float(3)):\n        ...\n",
	"App:\n    /x/{id <: float(9)}:\n        GET:\n            ...\n",
	"App:\n    /x:\n        GET ?q=float(3):\n            ...\n",
	"App:\n    !union U:\n        int(99999999999999999999)\n",
	"App:\n    !table T:\n        x <: set of any(1..2)\n",
	"App:\n    E:\n        . <- %\n",
	"App:\n    E:\n        %%% <- x\n",
	"App:\n    -|> %zz\n",
	"App:\n    !enum E:\n        A: 99999999999999999999\n",
	"App:\n    !enum E:\n        A : 1\n        A : 2\n",
	"App:\n    <-> Ev%zz:\n        ...\n",
	"App:\n    Other%zz -> Ev:\n        ...\n",
	"App[~x, a=\"%zz\"]:\n    @b = [[\"%\"], []]\n    ...\n",
	// lint of a call that names a simple endpoint with a REST method (nil method map, linter.go lintEndpoint)
	"A:\n    foo:\n        ...\nB:\n    bar:\n        A <- GET foo\n",
	// post-processing assertions (inferAnonymousType, valueTypeToSysl): nested transform without a declared type whose body assigns a plain value
	"App:\n    !view v(a <: int) -> int:\n        a -> (:\n            x = a -> (:\n                y = 1\n            )\n        )\n",
	"App:\n    !view v(a <: int) -> int:\n        a -> (:\n            let t = a -> (:\n                y = \"s\"\n            )\n            x = t\n        )\n",
	// collector call template whose target extends an ordinary call's target by one more namespace part
	"Payments:\n    Post:\n        ...\nPayments :: Ledger:\n    Post:\n        ...\nShop:\n    Buy:\n        Payments <- Post\n    .. * <- *:\n        Payments :: Ledger <- Post [~audited]\n",
	"Shop:\n    Buy:\n        A :: B :: C <- Post\n    .. * <- *:\n        A <- Post [~x]\n        A :: B <- Post [~y]\n",
}

// ---------- stream B: field-type forms (bounded-exhaustive in thorough, sampled in quick) ----------
var natives = []string{"int", "int32", "int64", "float", "float32", "float64", "string", "date", "bool", "decimal", "datetime", "bytes", "any"}
var gnat = []string{"NInt", "NInt32", "NInt64", "NFloat", "NFloat32", "NFloat64", "NString", "NDate", "NBool", "NDecimal", "NDatetime", "NBytes", "NAny"}
var nums = []string{"0", "7", "2147483648", "9223372036854775807", "9223372036854775808", "99999999999999999999"}

type fieldForm struct {
	nat, wrap, spec int // spec: 0 none 1 (n) 2 (n.m) 3 (n..m) 4 (n..)
	a, b            int // indices into nums
	opt             bool
}

// the positions a type expression can stand in besides a field of a !type
var typePositions = []string{"type-field", "alias", "endpoint-param", "path-param", "query-param", "union-member", "table-field", "view-param"}

func (f fieldForm) textAt(pos int) string {
	src := f.text()
	ty := strings.TrimSuffix(strings.TrimPrefix(strings.Split(src, "\n")[2], "        f <: "), "\n")
	switch pos {
	case 1:
		return "App:\n    !alias Al:\n        " + ty + "\n"
	case 2:
		return "App:\n    E(p <: " + ty + "):\n        ...\n"
	case 3:
		return "App:\n    /x/{id <: " + ty + "}:\n        GET:\n            ...\n"
	case 4:
		return "App:\n    /x:\n        GET ?q=" + ty + ":\n            ...\n"
	case 5:
		return "App:\n    !union U:\n        " + ty + "\n"
	case 6:
		return "App:\n    !table T:\n        f <: " + ty + "\n"
	case 7:
		return "App:\n    !view v(a <: " + ty + ") -> int:\n        a -> (:\n            x = 1\n        )\n"
	}
	return src
}

func (f fieldForm) text() string {
	ty := natives[f.nat]
	switch f.spec {
	case 1:
		ty += "(" + nums[f.a] + ")"
	case 2:
		ty += "(" + nums[f.a] + "." + nums[f.b] + ")"
	case 3:
		ty += "(" + nums[f.a] + ".." + nums[f.b] + ")"
	case 4:
		ty += "(" + nums[f.a] + "..)"
	}
	switch f.wrap {
	case 1:
		ty = "set of " + ty
	case 2:
		ty = "sequence of " + ty
	}
	if f.opt {
		ty += "?"
	}
	return "App:\n    !type T:\n        f <: " + ty + "\n"
}
func (f fieldForm) gallina() string {
	spec := "SNone"
	switch f.spec {
	case 1:
		spec = "SSize " + nums[f.a] + " None"
	case 2:
		spec = "SSize " + nums[f.a] + " (Some " + nums[f.b] + ")"
	case 3:
		spec = "SArr " + nums[f.a] + " (Some " + nums[f.b] + ")"
	case 4:
		spec = "SArr " + nums[f.a] + " None"
	}
	return fmt.Sprintf("D %s %s (%s) %s", gnat[f.nat], []string{"WNone", "WSet", "WSeq"}[f.wrap], spec, common.GBool(f.opt))
}

// ---------- stream C: near-misses of corpus files ----------
func corpus(repo string) []string {
	var files []string
	filepath.Walk(repo, func(p string, info os.FileInfo, err error) error {
		if err == nil && !info.IsDir() && strings.HasSuffix(p, ".sysl") && info.Size() < 12000 && !strings.Contains(p, "/node_modules/") {
			files = append(files, p)
		}
		return nil
	})
	sort.Strings(files)
	return files
}

var oddTokens = []string{"%", "%zz", "99999999999999999999", "(3)", "(1..)", "?", "<:", "<-", ":", "...", "!wrap X:", "!type", "sequence of", "set of", "float(2)", "[~a]", "@a = \"b\"", "|", "::", ".", "..", "\t", "  ", "\"", "'", "#", "{", "}", "!alias A:", "!union U:", "-|> Z", "return", "if x:", "else:", "one of:", "for each x in y:", "\x00", "\xff\xfe", "é", "\r\n", "<->", "->"}

func mutate(r *common.Rng, src string) (string, string) {
	lines := strings.Split(src, "\n")
	n := 1 + r.Intn(3)
	var ops []string
	for i := 0; i < n; i++ {
		if len(lines) == 0 {
			break
		}
		li := r.Intn(len(lines))
		switch r.Intn(11) {
		case 0:
			lines = append(lines[:li], lines[li+1:]...)
			ops = append(ops, "del-line")
		case 1:
			lines = append(lines[:li+1], lines[li:]...)
			ops = append(ops, "dup-line")
		case 2:
			lines[li] = " " + lines[li]
			ops = append(ops, "indent+1")
		case 3:
			lines[li] = strings.TrimPrefix(lines[li], " ")
			ops = append(ops, "indent-1")
		case 4, 5, 6:
			toks := strings.Fields(lines[li])
			if len(toks) > 0 {
				ti := r.Intn(len(toks))
				ind := lines[li][:len(lines[li])-len(strings.TrimLeft(lines[li], " \t"))]
				switch r.Intn(4) {
				case 0:
					toks = append(toks[:ti], toks[ti+1:]...)
					ops = append(ops, "del-tok")
				case 1:
					toks = append(toks[:ti+1], toks[ti:]...)
					ops = append(ops, "dup-tok")
				case 2:
					toks[ti] = oddTokens[r.Intn(len(oddTokens))]
					ops = append(ops, "repl-tok")
				default:
					toks[ti] = toks[ti] + oddTokens[r.Intn(len(oddTokens))]
					ops = append(ops, "glue-tok")
				}
				lines[li] = ind + strings.Join(toks, " ")
			}
		case 7:
			ind := lines[li][:len(lines[li])-len(strings.TrimLeft(lines[li], " \t"))]
			ins := []string{"!wrap W:", "@a = [[]]", "return 100%", "x <: float(5)", "x <: int(99999999999999999999)", ". <- %", "-|> Nope", "!type T:", "...", "| a", "x = 99999999999999999999"}
			lines = append(lines[:li+1], append([]string{ind + ins[r.Intn(len(ins))]}, lines[li+1:]...)...)
			ops = append(ops, "ins-line")
		case 8:
			s := strings.Join(lines, "\n")
			if len(s) > 0 {
				s = s[:r.Intn(len(s))]
			}
			lines = strings.Split(s, "\n")
			ops = append(ops, "truncate")
		case 9:
			lines[li] = strings.ReplaceAll(lines[li], "    ", "\t")
			ops = append(ops, "tabs")
		default:
			if len(lines[li]) > 0 {
				b := []byte(lines[li])
				b[r.Intn(len(b))] = byte(r.Intn(256))
				lines[li] = string(b)
			}
			ops = append(ops, "byte")
		}
	}
	return strings.Join(lines, "\n"), strings.Join(ops, "+")
}

// ---------- stream D: grammatical but semantically odd specifications ----------
func odd(r *common.Rng) string {
	var sb strings.Builder
	napps := 1 + r.Intn(3)
	names := []string{"A", "B", "C", "Ns :: D", "E%20F", "G%2FH", "A :: B", "A :: B :: C", "Ns"}
	// call targets share prefixes of different lengths with each other and with the declared apps
	targets := []string{"A", "B", "Nope", ".", "Ns :: D", "A :: B", "A :: B :: C", "Ns", "Ns :: D :: X"}
	eps := []string{"E0", "E1", "E2", "GET /p0/{id}", "POST /p1/{id}", "GET E0", "PATCH /p0", "GET /nope", "Ev"}
	prim := []string{"int", "string", "bool", "date", "decimal(5.2)", "string(10)", "int(1..5)", "Nope", "A.T", "B.Missing", "T", "sequence of T", "set of Nope", "any", "bytes(3)", "int64", "float32"}
	for i := 0; i < napps; i++ {
		an := names[r.Intn(len(names))]
		sb.WriteString(an)
		if r.Chance(1, 3) {
			sb.WriteString(" \"long name\"")
		}
		if r.Chance(1, 3) {
			sb.WriteString(" [~tag, a=\"b\", c=[\"d\", [\"e\"]]]")
		}
		sb.WriteString(":\n")
		nm := r.Intn(6)
		if nm == 0 {
			sb.WriteString("    ...\n")
		}
		for j := 0; j < nm; j++ {
			switch r.Intn(12) {
			case 0:
				fmt.Fprintf(&sb, "    !type T%d:\n", r.Intn(2))
				nf := r.Intn(4)
				if nf == 0 {
					sb.WriteString("        ...\n")
				}
				for k := 0; k < nf; k++ {
					fmt.Fprintf(&sb, "        f%d <: %s", r.Intn(3), prim[r.Intn(len(prim))])
					if r.Chance(1, 3) {
						sb.WriteString("?")
					}
					if r.Chance(1, 4) {
						sb.WriteString(" [~pk]")
					}
					sb.WriteString("\n")
				}
			case 1:
				fmt.Fprintf(&sb, "    !table T%d:\n        id <: int [~pk]\n        r <: %s\n", r.Intn(2), prim[r.Intn(len(prim))])
			case 2:
				fmt.Fprintf(&sb, "    !enum En:\n        X: %d\n        Y: %s\n", r.Intn(5), []string{"1", "70000", "2147483648", "0"}[r.Intn(4)])
			case 3:
				fmt.Fprintf(&sb, "    !alias Al%d:\n        %s\n", r.Intn(2), prim[r.Intn(len(prim))])
			case 4:
				fmt.Fprintf(&sb, "    !union U:\n        %s\n        %s\n", []string{"T", "int", "Nope", "T0"}[r.Intn(4)], []string{"T1", "string", "U"}[r.Intn(3)])
			case 5:
				fmt.Fprintf(&sb, "    -|> %s\n", targets[r.Intn(len(targets))])
			case 6:
				fmt.Fprintf(&sb, "    /p%d/{id <: %s}:\n        %s:\n            return ok <: %s\n", r.Intn(2), []string{"int", "string", "T", "Nope"}[r.Intn(4)], []string{"GET", "POST", "PATCH", "DELETE", "PUT"}[r.Intn(5)], prim[r.Intn(len(prim))])
			case 7:
				sb.WriteString("    <-> Ev:\n        ...\n")
			case 8:
				fmt.Fprintf(&sb, "    %s -> Ev:\n        ...\n", []string{"A", "B", "Nope"}[r.Intn(3)])
			case 9:
				sb.WriteString("    .. * <- *:\n")
				nt := 1 + r.Intn(4)
				for k := 0; k < nt; k++ {
					switch r.Intn(5) {
					case 0:
						fmt.Fprintf(&sb, "        %s -> %s [~s%d]\n", targets[r.Intn(len(targets))], []string{"Ev", "Ev2"}[r.Intn(2)], k)
					case 1:
						fmt.Fprintf(&sb, "        %s [~e%d]\n", eps[r.Intn(len(eps))], k)
					default:
						fmt.Fprintf(&sb, "        %s <- %s [~x%d, k=\"v\", l=[\"a\", \"b\"]]\n", targets[r.Intn(len(targets))], eps[r.Intn(len(eps))], k)
					}
				}
			case 10:
				fmt.Fprintf(&sb, "    !view v%d(a <: %s) -> %s:\n        a -> (:\n            x = %s\n        )\n", r.Intn(2), prim[r.Intn(4)], prim[r.Intn(4)], []string{"1", "a", "a + 1", "\"s\"", "a.b", "a -> <T>(:\n                y = .\n            )"}[r.Intn(6)])
			default:
				fmt.Fprintf(&sb, "    E%d", r.Intn(3))
				if r.Chance(1, 3) {
					fmt.Fprintf(&sb, "(p <: %s)", prim[r.Intn(len(prim))])
				}
				sb.WriteString(":\n")
				depth := 2
				var body func(ind string, d int)
				body = func(ind string, d int) {
					ns := 1 + r.Intn(3)
					for k := 0; k < ns; k++ {
						switch r.Intn(10) {
						case 0:
							fmt.Fprintf(&sb, "%s%s <- %s\n", ind, targets[r.Intn(len(targets))], eps[r.Intn(len(eps))])
						case 1:
							fmt.Fprintf(&sb, "%sreturn %s\n", ind, []string{"ok", "ok <: T", "error <: Nope", "200", "ok <: sequence of A.T", "x y z"}[r.Intn(6)])
						case 2:
							if d > 0 {
								fmt.Fprintf(&sb, "%sif c%d:\n", ind, k)
								body(ind+"    ", d-1)
								if r.Bool() {
									fmt.Fprintf(&sb, "%selse:\n", ind)
									body(ind+"    ", d-1)
								}
							} else {
								fmt.Fprintf(&sb, "%s...\n", ind)
							}
						case 3:
							if d > 0 {
								fmt.Fprintf(&sb, "%sone of:\n%s    case1:\n", ind, ind)
								body(ind+"        ", d-1)
							} else {
								fmt.Fprintf(&sb, "%saction\n", ind)
							}
						case 4:
							if d > 0 {
								fmt.Fprintf(&sb, "%s%s:\n", ind, []string{"for each x in y", "loop 3 times", "while c", "until c", "alt a", "grp"}[r.Intn(6)])
								body(ind+"    ", d-1)
							} else {
								fmt.Fprintf(&sb, "%s...\n", ind)
							}
						case 5:
							fmt.Fprintf(&sb, "%s| text statement %%41\n", ind)
						default:
							fmt.Fprintf(&sb, "%sdo thing %d\n", ind, k)
						}
					}
				}
				body("        ", depth)
			}
		}
	}
	return sb.String()
}

// B2: the same type expressions in the other positions a type can stand in; same predictor (class of the outcome)
func fieldPositions(c *common.Ctx, single func(stream, note, src string) rep, forms []fieldForm, header, footer string, big bool) {
	pc := c.NewCases("C01fieldpos", header, "fdecl * obsclass", footer, 1200)
	div := uint64(60)
	if big {
		div = 4
	}
	only := os.Getenv("VERIF_C01_FIELDPOS") // development aid: "all" = every form
	for pos := 1; pos < len(typePositions); pos++ {
		for i, f := range forms {
			few := pos == 3 || pos == 4 // path / query parameter: 26 admitted forms each, all of them in both tiers
			if only != "all" && !few && (uint64(i)*2654435761+uint64(pos)*40503+c.Seed)%div != 0 {
				continue
			}
			if !typePosTakes(pos, f) {
				continue
			}
			src := f.textAt(pos)
			r := single("field-form", fmt.Sprintf("type expression in position %s: %q", typePositions[pos], strings.TrimSpace(strings.Split(src, "\n")[len(strings.Split(src, "\n"))-2])), src)
			cls := "OModel"
			switch r.Outcome {
			case "error":
				cls = fmt.Sprintf("(OError %d)", r.Code)
			case "model":
			default:
				cls = "OCrash"
			}
			c.Hist("field-position:" + typePositions[pos] + ":" + cls)
			if dump := os.Getenv("VERIF_C01_DUMP"); dump != "" {
				if fh, err := os.OpenFile(dump, os.O_APPEND|os.O_CREATE|os.O_WRONLY, 0o644); err == nil {
					fmt.Fprintf(fh, "%d\t%d\t%d\t%d\t%v\t%s\t%s\t%s\n", pos, f.nat, f.wrap, f.spec, f.opt, cls, r.Msg, f.gallina())
					fh.Close()
				}
			}
			pc.Add(fmt.Sprintf("(%s, %s)", f.gallina(), cls), caseT{Stream: "field-form", Files: map[string]string{"root.sysl": src}, Root: "root.sysl"})
		}
	}
	pc.Close()
}

// typePosTakes: the forms the grammar admits in a position
// (measured once over all 6 630 forms x 7 positions; a form outside is a syntax error there and never reaches the listener)
func typePosTakes(pos int, f fieldForm) bool {
	switch pos {
	case 1, 5: // alias, union member: no `?`; a size / array spec only behind `set of` / `sequence of`
		return !f.opt && (f.wrap != 0 || f.spec == 0)
	case 3: // path parameter: a bare type or `sequence of` one
		return !f.opt && f.spec == 0 && f.wrap != 1
	case 4: // query parameter: a bare type, optional or not
		return f.spec == 0 && f.wrap == 0
	case 7: // view parameter: a spec only behind a collection
		return f.wrap != 0 || f.spec == 0
	}
	return true // endpoint parameter, table field: everything a !type field takes
}

const fieldHeader = `From Coq Require Import List ZArith Bool NArith. Import ListNotations.
Require Import Verif.Total.FieldPanics Verif.Total.Pipeline Verif.Total.RunC01 Verif.Gen.Guards Verif.Base.Harness.
Local Open Scope Z_scope.
Definition D n w s o := {| fnat := n; fwrap := w; fspec := s; fopt := o |}.`
const fieldFooter = `Definition M := Eval vm_compute in mismatches (c01_field_ok Gen.Guards.guards) cases. Print M.`

func main() {
	if common.IsWorker() {
		// unbounded recursion ends in `fatal error: stack overflow` when a goroutine's stack passes the limit (1 GB by
		// default, reached only after tens of seconds): 64 MB shows the same death within the deadline
		debug.SetMaxStack(64 << 20)
		// a worker that is stuck in the code under test never sees its stdin close: leave when the harness is gone
		go func() {
			for {
				time.Sleep(2 * time.Second)
				if os.Getppid() == 1 {
					os.Exit(3)
				}
			}
		}()
		logrus.SetLevel(logrus.WarnLevel) // entries go to the hook only
		logrus.SetOutput(io.Discard)
		logrus.AddHook(hook)
		common.ServeWorker(compileInWorker)
		return
	}
	c := common.Setup("C01")
	defer c.Finish()
	w = common.NewWorker()
	defer w.Close()
	repo := os.Getenv("VERIF_REPO")
	if repo == "" {
		repo = "/repo"
	}
	c.Res.Rule = "each case = a root file (plus imported files) compiled by the real parser in a worker subprocess; streams: crash-family corpus, field-type forms (13 natives x 5 spec forms x 3 wrappers x digit lengths 1..20), token/line/byte-level mutants of the repository's .sysl corpus, generated grammatical-but-odd specs, import closures over those, closures of 1-5 files reached under several spellings of the same path with re-opened / case-variant applications and duplicate endpoints (the linter model replays their recordings), free text after `return` / `<-` over {% 2 0 4 a G blank +} up to length 4 (the MustUnescape model predicts panic or the stored bytes), the same texts as application name / call target / mixin (the name-position model predicts syntax error, recovered panic or the stored name), all sequences of 1..4 application blocks over two applications with 0..2 `!wrap` members each in three file layouts, foreign files (Swagger 2 / OpenAPI 3 in yaml and json, XSD) with cyclic schemas reached through import statements (1-4 definitions out of {A,B,C,D,object}, schema positions = $ref or inline schema of depth <= 3, circles through allOf / items / properties / oneOf / additionalProperties; the model of the Swagger importer's recursion predicts `circular reference detected` or success); distinct = distinct file contents; non-trivial = the input is not an unmodified corpus file"
	if c.Replay != "" {
		var cs caseT
		if err := common.LoadReplay(c.Replay, &cs); err != nil {
			fmt.Fprintln(os.Stderr, err)
			os.Exit(3)
		}
		r := run(c, cs)
		judge(c, cs, r)
		c.Count("replay", true)
		fmt.Printf("replay: outcome=%s code=%d msg=%q failures=%d\n", r.Outcome, r.Code, r.Msg, len(c.Res.Failures))
		return
	}
	key := func(cs caseT) string {
		var ks []string
		for k, v := range cs.Files {
			ks = append(ks, k+"\x00"+v)
		}
		sort.Strings(ks)
		return strings.Join(ks, "\x01")
	}
	do := func(cs caseT) rep {
		r := run(c, cs)
		judge(c, cs, r)
		c.Count(key(cs), cs.Stream != "corpus")
		return r
	}
	single := func(stream, note, src string) rep {
		return do(caseT{Stream: stream, Files: map[string]string{"root.sysl": src}, Root: "root.sysl", Note: note})
	}
	big := c.Thorough() || c.Search
	switch os.Getenv("VERIF_C01_ONLY") { // development aid: one stream alone
	case "foreign":
		foreignStream(c, do, big)
		return
	case "unescape":
		unescapeStream(c, do, big)
		return
	case "wrap":
		wrapStream(c, do, big)
		return
	case "fieldpos":
		var forms []fieldForm
		for nat := range natives {
			for wrap := 0; wrap < 3; wrap++ {
				for _, opt := range []bool{false, true} {
					forms = append(forms, fieldForm{nat, wrap, 0, 0, 0, opt})
					for a := range nums {
						forms = append(forms, fieldForm{nat, wrap, 1, a, 0, opt}, fieldForm{nat, wrap, 4, a, 0, opt})
						for b := range nums {
							forms = append(forms, fieldForm{nat, wrap, 2, a, b, opt}, fieldForm{nat, wrap, 3, a, b, opt})
						}
					}
				}
			}
		}
		fieldPositions(c, single, forms, fieldHeader, fieldFooter, big)
		return
	}

	// A
	for i, src := range crashFamily {
		r := single("crash-family", fmt.Sprintf("crash-family input #%d (%q)", i, strings.ReplaceAll(src, "\n", "\\n")), src)
		if i < 3 {
			c.Sample(map[string]interface{}{"stream": "crash-family", "source": src, "outcome": r.Outcome, "code": r.Code})
		}
	}

	// B: field forms -> Coq predictor
	header, footer := fieldHeader, fieldFooter
	fc := c.NewCases("C01field", header, "fdecl * obsclass", footer, 1200)
	var forms []fieldForm
	for nat := range natives {
		for wrap := 0; wrap < 3; wrap++ {
			for _, opt := range []bool{false, true} {
				forms = append(forms, fieldForm{nat, wrap, 0, 0, 0, opt})
				for a := range nums {
					forms = append(forms, fieldForm{nat, wrap, 1, a, 0, opt}, fieldForm{nat, wrap, 4, a, 0, opt})
					for b := range nums {
						forms = append(forms, fieldForm{nat, wrap, 2, a, b, opt}, fieldForm{nat, wrap, 3, a, b, opt})
					}
				}
			}
		}
	}
	c.Res.Extra["field_forms_total"] = len(forms)
	nf := 0
	for i, f := range forms {
		if !big && (uint64(i)*2654435761+c.Seed)%5 != 0 {
			continue
		}
		nf++
		src := f.text()
		r := single("field-form", fmt.Sprintf("field declaration %q", strings.TrimSpace(strings.Split(src, "\n")[2])), src)
		cls := "OModel"
		switch r.Outcome {
		case "error":
			cls = fmt.Sprintf("(OError %d)", r.Code)
		case "model":
		default:
			cls = "OCrash"
		}
		fc.Add(fmt.Sprintf("(%s, %s)", f.gallina(), cls), caseT{Stream: "field-form", Files: map[string]string{"root.sysl": src}, Root: "root.sysl"})
		if nf%400 == 1 {
			c.Sample(map[string]interface{}{"stream": "field-form", "source": src, "outcome": r.Outcome, "code": r.Code})
		}
	}
	fc.Close()
	if big {
		c.Res.Extra["field_forms_exhaustive"] = true
	}
	fieldPositions(c, single, forms, header, footer, big)

	// C: corpus and mutants
	files := corpus(repo)
	c.Res.Extra["corpus_files"] = len(files)
	nmut := 1
	if big {
		nmut = 12
	}
	type known struct {
		src string
		cls string
	}
	var pool []known // single files with known class, for the closure stream
	for fi, p := range files {
		b, err := os.ReadFile(p)
		if err != nil {
			continue
		}
		src := string(b)
		if strings.Contains(src, "import ") {
			// files with imports need their neighbours; mutate them anyway (imports then fail cleanly or not)
		}
		if !big && (uint64(fi)+c.Seed)%3 != 0 {
			continue
		}
		for k := 0; k < nmut; k++ {
			m, ops := mutate(c.Rng, src)
			r := single("corpus-mutant", fmt.Sprintf("mutant (%s) of %s", ops, strings.TrimPrefix(p, repo+"/")), m)
			c.Hist("mutation:" + strings.Split(ops, "+")[0])
			if len(m) < 1500 && !strings.Contains(m, "import ") && (r.Outcome == "model" || r.Outcome == "error") && len(pool) < 400 {
				pool = append(pool, known{m, r.Outcome + fmt.Sprint(r.Code)})
			}
		}
	}
	// D: odd specs
	nodd := 250
	if big {
		nodd = 6000
	}
	for i := 0; i < nodd; i++ {
		src := odd(c.Rng)
		r := single("odd-spec", "generated odd specification", src)
		if i < 2 {
			c.Sample(map[string]interface{}{"stream": "odd-spec", "source": src, "outcome": r.Outcome, "code": r.Code})
		}
		if r.Outcome == "model" || r.Outcome == "error" {
			pool = append(pool, known{src, r.Outcome + fmt.Sprint(r.Code)})
		}
	}
	for _, src := range crashFamily {
		pool = append(pool, known{src, "?"})
	}
	// random bytes / binary junk
	for i := 0; i < 40; i++ {
		n := c.Rng.Intn(200)
		b := make([]byte, n)
		for j := range b {
			b[j] = byte(c.Rng.Intn(256))
		}
		single("random-bytes", "random byte string", string(b))
	}

	// E: import closures over files whose class alone is known -> pipeline model in Coq
	header2 := `From Coq Require Import List ZArith Bool NArith. Import ListNotations.
Require Import Verif.Total.Pipeline Verif.Total.RunC01 Verif.Gen.Guards Verif.Base.Harness.
Local Open Scope Z_scope.`
	footer2 := `Definition M := Eval vm_compute in mismatches (c01_closure_ok Gen.Guards.guards) cases. Print M.`
	cc := c.NewCases("C01closure", header2, "closure_case", footer2, 1500)
	ncl := 150
	if big {
		ncl = 3000
	}
	for i := 0; i < ncl && len(pool) > 3; i++ {
		n := 2 + c.Rng.Intn(4)
		fl := map[string]string{}
		var classes []string
		names := make([]string, n)
		for k := 0; k < n; k++ {
			names[k] = fmt.Sprintf("f%d.sysl", k)
		}
		// file k imports a random subset of files (cycles and self-imports allowed); file 0 is the root
		reach := map[int]bool{}
		imports := make([][]int, n)
		var missing []bool
		for k := 0; k < n; k++ {
			kn := pool[c.Rng.Intn(len(pool))]
			var imp strings.Builder
			ni := c.Rng.Intn(3)
			for q := 0; q < ni; q++ {
				t := c.Rng.Intn(n)
				imports[k] = append(imports[k], t)
				fmt.Fprintf(&imp, "import f%d\n", t)
			}
			miss := c.Rng.Chance(1, 12) && k > 0
			missing = append(missing, miss)
			if !miss {
				fl[names[k]] = imp.String() + kn.src
			}
			// class of the file alone: the harness measures it (with its import lines removed)
			classes = append(classes, kn.cls)
		}
		// the class of every file is measured as it stands in the closure - with its own import lines, which can change how the
		// rest is read (a first line that starts with a blank is an application at the top of a file, an indentation error
		// after an import line) - against stub files for whatever it imports
		for k := 0; k < n; k++ {
			if missing[k] {
				continue
			}
			alone := map[string]string{}
			for t := 0; t < n; t++ {
				alone[names[t]] = fmt.Sprintf("Stub%d:\n    ...\n", t)
			}
			alone[names[k]] = fl[names[k]]
			r := run(c, caseT{Files: alone, Root: names[k]})
			classes[k] = r.Outcome + fmt.Sprint(r.Code)
		}
		var walk func(k int)
		walk = func(k int) {
			if reach[k] {
				return
			}
			reach[k] = true
			if missing[k] {
				return
			}
			for _, t := range imports[k] {
				walk(t)
			}
		}
		walk(0)
		cs := caseT{Stream: "closure", Files: fl, Root: "f0.sysl", Note: fmt.Sprintf("import closure of %d files", n)}
		r := do(cs)
		// Gallina: list of (reachable?, class) per file in index order + observed
		var items []string
		ok := true
		for k := 0; k < n; k++ {
			cl := ""
			switch {
			case missing[k]:
				cl = "FMissing"
			case classes[k] == "model0":
				cl = "FGood"
			case classes[k] == "error2":
				cl = "FBadParse"
			default:
				ok = false
			}
			items = append(items, fmt.Sprintf("(%s, %s)", common.GBool(reach[k]), cl))
		}
		if !ok {
			continue // a file whose class alone is neither model nor parse error (crash): judged above, not comparable
		}
		obs := "OModel"
		switch r.Outcome {
		case "error":
			obs = fmt.Sprintf("(OError %d)", r.Code)
		case "model":
		default:
			obs = "OCrash"
		}
		cc.Add(fmt.Sprintf("(%s, %s)", common.GList(items), obs), cs)
		c.Hist("closure-obs:" + r.Outcome + fmt.Sprint(r.Code))
	}
	cc.Close()

	// E2: deep and wide import closures (long chains, wide fans, chain+fan, long cycles): termination of the collector
	ndeep := 10
	if big {
		ndeep = 60
	}
	for i := 0; i < ndeep; i++ {
		fl := map[string]string{}
		shape := i % 5
		n := 17 + c.Rng.Intn(30)
		name := func(k int) string { return fmt.Sprintf("d%d.sysl", k) }
		for k := 0; k < n; k++ {
			var imp strings.Builder
			switch shape {
			case 0: // chain
				if k+1 < n {
					fmt.Fprintf(&imp, "import d%d\n", k+1)
				}
			case 1: // fan from the root
				if k == 0 {
					for q := 1; q < n; q++ {
						fmt.Fprintf(&imp, "import d%d\n", q)
					}
				}
			case 2: // chain where every file also imports the root and itself (cycles)
				if k+1 < n {
					fmt.Fprintf(&imp, "import d%d\n", k+1)
				}
				fmt.Fprintf(&imp, "import d0\nimport d%d\n", k)
			case 3: // binary tree
				if 2*k+1 < n {
					fmt.Fprintf(&imp, "import d%d\n", 2*k+1)
				}
				if 2*k+2 < n {
					fmt.Fprintf(&imp, "import d%d\n", 2*k+2)
				}
			default: // every file imports the next three (dense DAG)
				for q := 1; q <= 3 && k+q < n; q++ {
					fmt.Fprintf(&imp, "import d%d\n", k+q)
				}
			}
			fl[name(k)] = imp.String() + fmt.Sprintf("App%d:\n    ...\n", k)
		}
		cs := caseT{Stream: "deep-closure", Files: fl, Root: "d0.sysl", Note: fmt.Sprintf("import closure of %d files, shape %d (0 chain, 1 fan, 2 chain with cycles, 3 tree, 4 dense)", n, shape)}
		r := do(cs)
		if r.Outcome == "model" && r.Apps != n {
			c.Fail("closure-incomplete", fmt.Sprintf("%s compiled to %d applications, %d declared", cs.Note, r.Apps, n), cs)
		}
	}

	// G: closures reached under several spellings; the linter's recordings against Total/Linter.v
	nlint := 160
	if big {
		nlint = 2500
	}
	lintStream(c, do, nlint)

	// H: free text in `return` / call statements against the MustUnescape model (Total/Unescape.v)
	unescapeStream(c, do, big)

	// J: a second `!wrap` of one application anywhere in the closure (Total/Wrap.v)
	wrapStream(c, do, big)

	// I: foreign files with cyclic schemas reached through import statements (Total/ImportRec.v predicts the Swagger 2 fragment)
	foreignStream(c, do, big)

	// F: the real binary on a sample: exit status and stderr markers
	if bin := os.Getenv("VERIF_SYSL_BIN"); bin != "" {
		dir, _ := os.MkdirTemp("", "c01bin")
		defer os.RemoveAll(dir)
		ns := 25
		if big {
			ns = 200
		}
		for i := 0; i < ns; i++ {
			var src string
			if i < len(crashFamily) {
				src = crashFamily[i]
			} else {
				src = pool[c.Rng.Intn(len(pool))].src
			}
			os.WriteFile(filepath.Join(dir, "m.sysl"), []byte(src), 0o644)
			cmd := exec.Command(bin, "pb", "--mode", "textpb", "-o", filepath.Join(dir, "out.textpb"), "m.sysl")
			cmd.Dir = dir
			done := make(chan struct{})
			var outb []byte
			var err error
			go func() { outb, err = cmd.CombinedOutput(); close(done) }()
			select {
			case <-done:
			case <-time.After(30 * time.Second):
				cmd.Process.Kill()
				<-done
				c.Fail("hang:binary", "sysl pb did not terminate within 30 s", caseT{Stream: "binary", Files: map[string]string{"root.sysl": src}, Root: "root.sysl"})
				continue
			}
			status := 0
			if ee, ok := err.(*exec.ExitError); ok {
				status = ee.ExitCode()
			} else if err != nil {
				status = -1
			}
			so := string(outb)
			cs := caseT{Stream: "binary", Files: map[string]string{"root.sysl": src}, Root: "root.sysl", Note: "sysl pb on a generated file"}
			c.Count("bin:"+src, true)
			c.Hist(fmt.Sprintf("binary-status:%d", status))
			if strings.Contains(so, "panic:") || strings.Contains(so, "fatal error:") || strings.Contains(so, "goroutine ") {
				c.Fail("crash:binary:"+common.PanicSite(so), "sysl pb dies with a Go panic: "+strings.ReplaceAll(so[:min(len(so), 200)], "\n", " "), cs)
			} else if status != 0 && status != 1 && status != 2 {
				c.Fail("exit-status", fmt.Sprintf("sysl pb exits with status %d", status), cs)
			} else if status == 0 {
				if st, e := os.Stat(filepath.Join(dir, "out.textpb")); e != nil || st.Size() == 0 {
					// an empty module encodes to zero bytes: only flag when the parser in-process produced apps
					var rr rep
					w.Call(req{Files: map[string]string{"root.sysl": src}, Root: "root.sysl"}, &rr, 20*time.Second)
					if rr.Outcome != "model" {
						c.Fail("status0-no-model", "sysl pb exits 0 although compilation reports "+rr.Outcome, cs)
					}
				}
				os.Remove(filepath.Join(dir, "out.textpb"))
			}
		}
	}
	c.Res.Extra["worker_restarts"] = w.Restarts
}

func min(a, b int) int {
	if a < b {
		return a
	}
	return b
}
