// C01, stream "wrap-form": the listener's abort on a second `!wrap` (EnterModel_name: "not implemented yet?").
// Bounded-exhaustive: every sequence of 1..4 application blocks over the applications {A, B} with 0, 1 or 2 `!wrap`
// members each (1 554 walks; all in thorough, one in eight in quick), laid out in one file, in a root plus one imported
// file, or one block per file along an import chain - the application is the same module entry wherever it is re-opened.
// The Coq model Total/Wrap.v predicts the recovered panic or a model.
package main

import (
	"fmt"
	"strings"

	"verifharness/common"
)

func wrapStream(c *common.Ctx, do func(cs caseT) rep, big bool) {
	header := `From Coq Require Import List Bool NArith Arith. Import ListNotations.
Require Import Verif.Total.FieldPanics Verif.Total.Wrap Verif.Total.RunWrap Verif.Base.Harness.
Definition B (a:N) (w:nat) : wblock := (a, w).`
	footer := `Definition M := Eval vm_compute in mismatches c01_wrap_ok cases. Print M.`
	wc := c.NewCases("C01wrap", header, "wrap_case", footer, 2000)
	apps := []string{"A", "B"}
	type blk struct{ app, wraps int }
	var walks [][]blk
	var gen func(prefix []blk, n int)
	gen = func(prefix []blk, n int) {
		if len(prefix) > 0 {
			walks = append(walks, append([]blk{}, prefix...))
		}
		if n == 0 {
			return
		}
		for a := range apps {
			for w := 0; w <= 2; w++ {
				gen(append(prefix, blk{a, w}), n-1)
			}
		}
	}
	gen(nil, 4)
	c.Res.Extra["wrap_walks_total"] = len(walks)
	text := func(b blk, k int) string {
		var sb strings.Builder
		sb.WriteString(apps[b.app] + ":\n")
		for i := 0; i < b.wraps; i++ {
			fmt.Fprintf(&sb, "    !wrap M%d:\n        !table T%d\n", i, k)
		}
		if b.wraps == 0 || k%2 == 1 {
			fmt.Fprintf(&sb, "    E%d:\n        ...\n", k)
		}
		return sb.String()
	}
	for i, wk := range walks {
		if !big && (uint64(i)*2654435761+c.Seed)%8 != 0 {
			continue
		}
		files := map[string]string{}
		layout := i % 3
		switch {
		case layout == 0 || len(wk) == 1: // one file
			var sb strings.Builder
			for k, b := range wk {
				sb.WriteString(text(b, k))
			}
			files["root.sysl"] = sb.String()
		case layout == 1: // the first block in the root, the rest in one imported file
			files["root.sysl"] = "import rest\n" + text(wk[0], 0)
			var sb strings.Builder
			for k, b := range wk[1:] {
				sb.WriteString(text(b, k+1))
			}
			files["rest.sysl"] = sb.String()
		default: // one block per file, an import chain
			for k, b := range wk {
				name := "root.sysl"
				if k > 0 {
					name = fmt.Sprintf("f%d.sysl", k)
				}
				imp := ""
				if k+1 < len(wk) {
					imp = fmt.Sprintf("import f%d\n", k+1)
				}
				files[name] = imp + text(b, k)
			}
		}
		var gs []string
		for _, b := range wk {
			gs = append(gs, fmt.Sprintf("B %d %d", b.app+1, b.wraps))
		}
		cs := caseT{Stream: "wrap-form", Files: files, Root: "root.sysl", Note: fmt.Sprintf("application blocks %v (application, number of !wrap members) in layout %d", wk, layout)}
		r := do(cs)
		obs := ""
		switch {
		case r.Outcome == "model":
			obs = "WModel"
		case r.Outcome == "error" && r.Code == 2 && strings.Contains(r.Msg, "cannot be processed") && strings.Contains(r.Msg, "not implemented yet?"):
			obs = "WPanicRecovered"
		case r.Outcome == "error":
			obs = "WOther"
		default:
			continue
		}
		c.Hist("wrap-obs:" + obs)
		wc.Add(fmt.Sprintf("(%s, %s)", common.GList(gs), obs), cs)
	}
	wc.Close()
	if big {
		c.Res.Extra["wrap_walks_exhaustive"] = true
	}
}
