// C01, stream "unescape-form": free text in the two positions where the lexer hands the listener any bytes up to
// the end of the line - `return <text>` and `. <- <text>` - bounded-exhaustively over an alphabet that contains
// '%', hex digits, a non-hex letter, a blank and '+'. MustUnescape (pkg/parse/utils.go) panics on a '%' that is not
// followed by two hex digits; under walkTree's recover that is a ParseError "cannot be processed". The Coq model
// Total/Unescape.v predicts, per text, Panic or the exact bytes stored in the statement.
package main

import (
	"encoding/hex"
	"fmt"
	"strings"

	"verifharness/common"
)

var unescAlphabet = []byte{'%', '2', '0', '4', 'a', 'G', ' ', '+'}

func unescapeStream(c *common.Ctx, do func(cs caseT) rep, big bool) {
	header := `From Coq Require Import String List Bool NArith ZArith. Import ListNotations.
Require Import Verif.Total.FieldPanics Verif.Total.Unescape Verif.Total.RunUnescape Verif.Base.Harness.
Local Open Scope string_scope. Local Open Scope N_scope.`
	footer := `Definition M := Eval vm_compute in mismatches c01_unescape_ok cases. Print M.`
	uc := c.NewCases("C01unescape", header, "unescape_case", footer, 1200)
	var texts []string
	var gen func(prefix []byte, n int)
	gen = func(prefix []byte, n int) {
		if len(prefix) > 0 {
			texts = append(texts, string(prefix))
		}
		if n == 0 {
			return
		}
		for _, b := range unescAlphabet {
			gen(append(append([]byte{}, prefix...), b), n-1)
		}
	}
	gen(nil, 4)
	c.Res.Extra["unescape_texts_total"] = 5 * len(texts)
	n := 0
	for i, t := range texts {
		for pos := 0; pos < 5; pos++ {
			if !big && (uint64(5*i+pos)*2654435761+c.Seed)%9 != 0 {
				continue
			}
			n++
			raw := "k" + t // the text after `return` / `<-` up to the end of the line, blanks included
			var src, gpos string
			nameKey := ""
			switch pos {
			case 0:
				src = "App:\n    E:\n        return " + raw + "\n"
				gpos = "PRet"
			case 1:
				src = "App:\n    E:\n        . <- " + raw + "\n"
				gpos = "PCall"
			case 2: // the name of an application (free text up to the colon)
				src = raw + ":\n    ...\n"
				gpos, nameKey = "PApp", "app="
			case 3: // the target of a call
				src = "App:\n    E:\n        " + raw + " <- x\n"
				gpos, nameKey = "PTarget", "target="
			default: // the application a mixin names
				src = "App:\n    -|> " + raw + "\n"
				gpos, nameKey = "PMixin", "mixin="
			}
			cs := caseT{Stream: "unescape-form", Files: map[string]string{"root.sysl": src}, Root: "root.sysl", Payload: true,
				Note: fmt.Sprintf("statement %q", strings.TrimSpace(strings.Split(src, "\n")[2]))}
			r := do(cs)
			obs := ""
			switch {
			case r.Outcome == "model" && nameKey != "":
				obs = "UNoStatement"
				for _, kvp := range strings.Split(r.Names, ";") {
					if strings.HasPrefix(kvp, nameKey) {
						b, _ := hex.DecodeString(strings.TrimPrefix(kvp, nameKey))
						obs = "UModel " + common.GBytes(string(b))
					}
				}
			case r.Outcome == "model":
				b, _ := hex.DecodeString(r.Payload)
				obs = "UModel " + common.GBytes(string(b))
				if r.Payload == "none" {
					obs = "UNoStatement"
				}
			case r.Outcome == "error" && r.Code == 2 && strings.Contains(r.Msg, "cannot be processed") && strings.Contains(r.Msg, "invalid URL escape"):
				obs = "UPanicRecovered"
			case r.Outcome == "error" && r.Code == 2 && strings.Contains(r.Msg, "syntax errors"):
				obs = "USyntax"
			case r.Outcome == "error":
				obs = "UOtherError" // a reported error, but not the recovered panic of MustUnescape
			default:
				continue // crash / hang: judged by the oracle
			}
			c.Hist("unescape-obs:" + gpos + ":" + strings.Fields(obs)[0])
			uc.Add(fmt.Sprintf("(%s, %s, %s)", gpos, common.GString(raw), obs), cs)
			if n%300 == 1 {
				c.Sample(map[string]interface{}{"stream": "unescape-form", "source": src, "outcome": r.Outcome, "code": r.Code, "payload_hex": r.Payload})
			}
		}
	}
	// integer literals of view expressions (ExitLiteral: strconv.ParseInt(txt, 10, 0) + PanicOnError)
	lits := []string{"0", "7", "007", "2147483648", "9223372036854775806", "9223372036854775807", "9223372036854775808", "9223372036854775809",
		"09223372036854775807", "000000000000000000009223372036854775808", "18446744073709551615", "18446744073709551616", "99999999999999999999"}
	for k := 1; k <= 24; k++ {
		lits = append(lits, strings.Repeat("9", k), "1"+strings.Repeat("0", k))
	}
	for _, t := range lits {
		src := "App:\n    !view v(a <: int) -> int:\n        a -> (:\n            x = " + t + "\n        )\n"
		cs := caseT{Stream: "literal-form", Files: map[string]string{"root.sysl": src}, Root: "root.sysl", Payload: true, Note: fmt.Sprintf("view literal %q", "x = "+t)}
		r := do(cs)
		obs := ""
		switch {
		case r.Outcome == "model" && strings.HasPrefix(r.Lit, "i:"):
			obs = "UInt (" + strings.TrimPrefix(r.Lit, "i:") + ")%Z"
		case r.Outcome == "model":
			obs = "UNoStatement" // a model whose literal holds no integer
		case r.Outcome == "error" && r.Code == 2 && strings.Contains(r.Msg, "cannot be processed") && strings.Contains(r.Msg, "strconv.ParseInt"):
			obs = "UPanicRecovered"
		case r.Outcome == "error" && r.Code == 2 && strings.Contains(r.Msg, "syntax errors"):
			obs = "USyntax"
		case r.Outcome == "error":
			obs = "UOtherError" // a reported error, but not the recovered ParseInt panic of ExitLiteral
		default:
			continue
		}
		c.Hist("literal-obs:" + strings.Fields(obs)[0])
		uc.Add(fmt.Sprintf("(PLit, %s, %s)", common.GString(t), obs), cs)
	}
	uc.Close()
	if big {
		c.Res.Extra["unescape_texts_exhaustive"] = true
	}
}
