// Round 3: the remaining CLI commands that run offline - template, codegen, transform, test-rig, repl, lsp, env, info,
// display-summary, help - on the same untidy-but-valid models, plus (optionMatrix) every flag of every command with
// boundary values that are well-formed option syntax: empty, unknown enum value, unknown name, missing file, directory
// instead of file, output path in a missing directory, unwritable output. Values that are NOT well-formed options - a
// --filter that does not compile as a regular expression, a malformed %(...) format string - are outside the property
// ("every command with well-formed options") and are not generated. All judged by the same oracle: exit 0 with output, or a
// non-zero status with a message; never a Go runtime trace, never a hang.
package main

import (
	"fmt"
	"strings"

	"verifharness/common"
)

// a transform / template in the older "semantic" form (views over sysl.App) with its grammar (tests/test.gen.*)
const fxTransform = `TransformApp:
  !view filename(app <: sysl.App) -> string:
    app -> (:
      filename = app.name + ".java"
    )

  !view javaFile(app <: sysl.App, basePath <: string, depPath <: string) -> string:
    app -> (:

      package = .attrs.package -> <package> (name1:
        packageName = name1
      )
      comment = {"comment1", "comment2"}

      import = {"import1", depPath} -> <set of import>(name:
        importPath = name
      )

      definition = basePath
    )
`
const fxGrammar = `javaFile: package annotations? comment* import* definition;
package: 'package' packageName '\n';
import: 'import' importPath '\n';
`

// a template in the "templated" form: one view over sysl.TemplateInput walking endpoints, statements and types
const fxTemplate = `TemplateApp:
  !view start(input <: sysl.TemplateInput) -> sysl.TemplateResult:
    input -> (:
      apps = input.Apps -> <set of string> (app:
        app = build(app)
      )
    )

  !view build(app <: sysl.App) -> sysl.TemplateResult:
    app -> (:
      Data = "app " + app.name + "\n" + Join(Endpoints(app.endpoints) flatten(.out), "\n") + "\n" + Join(Types(app.types) flatten(.out), "\n")
      Filename = app.name + ".txt"
    )

  !view Endpoints(eps <: set of sysl.Endpoints) -> sequence of out:
    eps -> (ep:
      out = "ep " + ep.value.name + ": " + Join(Stmts(ep.value.stmts) flatten(.out), ",")
    )

  !view Stmts(stmts <: sequence of sysl.Statement) -> sequence of out:
    stmts -> (s:
      out = if s.type == "call" then "call " + s.target + "." + s.endpoint else s.type
    )

  !view Types(types <: set of sysl.Type) -> sequence of out:
    types -> (t:
      out = "type " + t.key + " " + Join(Fields(t.value.fields) flatten(.out), ",")
    )

  !view Fields(fields <: set of sysl.Field) -> sequence of out:
    fields -> (f:
      out = f.key + ":" + f.value.type
    )
`

// a template whose start view does not return a sysl.TemplateResult
const fxTemplateShape = `TemplateApp:
  !view start(input <: sysl.TemplateInput) -> sequence of string:
    input.Apps -> <sequence of string> (app:
      Filename = app.name + ".txt"
      Data = "app " + app.name
    )
`

const fxArrai = `\input input.models => \(:rel, ...) rel.app => .appName`
const fxArraiDeep = `\input input.models => \(:rel, ...) (apps: rel.app => .appName, calls: rel.stmt where .stmtCall => .stmtCall, fields: rel.field => .fieldType)`

func extraFiles(m *SModel) map[string]string {
	var rig []string
	for i, a := range m.Apps {
		if i < 2 {
			rig = append(rig, fmt.Sprintf(`%q: {"name": %q, "import": "example.com/gen/%d", "port": "808%d", "impl": {"name": "impl", "import": "example.com/impl", "interface_factory": "F", "callback_factory": "G"}}`, a.Name, a.Name, i, i))
		}
	}
	rig = append(rig, `"Ghost0": {"name": "Ghost0", "port": "1"}`)
	return map[string]string{
		"tf.sysl": fxTransform, "tf.g": fxGrammar, "tmpl.sysl": fxTemplate, "t.arrai": fxArrai, "deep.arrai": fxArraiDeep,
		"bad.arrai": "\\x x x (", "shape.sysl": fxTemplateShape, "rig.json": "{" + strings.Join(rig, ",\n") + "}",
	}
}

// extraMatrix: command lines for one model; `add` always, `addx` in thorough or one in five
func extraMatrix(rng *common.Rng, m *SModel, add, addx func(class string, argv ...string) *Run) {
	app := "Ghost0"
	if len(m.Apps) > 0 {
		app = m.Apps[rng.Intn(len(m.Apps))].Name
	}
	half := func(class string, argv ...string) { // every second model in quick
		if rng.Bool() {
			add(class, argv...)
		} else {
			addx(class, argv...)
		}
	}
	half("template", "template", "--template", "tmpl.sysl", "--start", "start", "--app-name", app, "--outdir", "out/", "m.sysl")
	addx("template", "template", "--template", "tmpl.sysl", "--start", "start", "--app-name", "Ghost0", "--outdir", "out/", "m.sysl")
	addx("template", "template", "--template", "tmpl.sysl", "--start", "start", "--outdir", "out/", "m.sysl")
	addx("template", "template", "--template", "tf.sysl", "--start", "javaFile", "--app-name", app, "--outdir", "out/", "m.sysl")
	addx("template", "template", "--template", "tf.sysl", "--start", "javaFile", "--app-name", "Ghost0", "--outdir", "out/", "m.sysl")
	addx("template", "template", "--template", "tmpl.sysl", "--start", "nosuchview", "--app-name", app, "--outdir", "out/", "m.sysl")
	addx("template", "template", "--template", "shape.sysl", "--start", "start", "--app-name", app, "--outdir", "out/", "m.sysl")
	half("codegen", "codegen", "--transform", "tf.sysl", "--grammar", "tf.g", "--start", "javaFile", "--app-name", app, "--outdir", "out/", "m.sysl")
	addx("codegen", "codegen", "--transform", "tf.sysl", "--grammar", "tf.g", "--start", "javaFile", "--app-name", "Ghost0", "--outdir", "out/", "m.sysl")
	addx("codegen", "codegen", "--transform", "tf.sysl", "--grammar", "tf.g", "--start", "javaFile", "--outdir", "out/", "m.sysl")
	addx("codegen", "codegen", "--transform", "tf.sysl", "--grammar", "tf.g", "--start", "javaFile", "--validate-only", "m.sysl")
	addx("codegen", "codegen", "--transform", "tf.sysl", "--grammar", "tf.g", "--start", "javaFile", "--app-name", app, "--disable-validator", "--dep-path", "dep", "--basepath", "base", "--outdir", "out/", "m.sysl")
	addx("transform", "transform", "--script", "t.arrai", "m.sysl")
	addx("transform", "transform", "--script", "deep.arrai", "-o", "out/t.txt", "m.sysl")
	addx("transform", "transform", "--script", "bad.arrai", "m.sysl")
	addx("test-rig", "test-rig", "--template", "rig.json", "--output-dir", "out/rig", "m.sysl")
	addx("display-summary", "display-summary", "m.sysl")
	addx("validate", "validate", "--max-import-depth", "1", "--operation-summary", "m.sysl")
}

// commands that take no model (or read it from stdin): once per check
func standaloneRuns(models []string) []*Run {
	mk := func(class, stdin string, files map[string]string, argv ...string) *Run {
		return &Run{Class: class, Files: files, Argv: argv, Stdin: stdin, Note: "standalone"}
	}
	none := map[string]string{"m.sysl": "A:\n    E:\n        Ghost <- G\n"}
	rs := []*Run{
		mk("env", "", none, "env"),
		mk("info", "", none, "info"),
		mk("help", "", none, "help"),
		mk("help", "", none, "help", "nosuchcommand"),
		mk("help", "", none, "--help-long"),
		mk("version", "", none, "--version"),
		mk("repl", "", none, "repl"),
		mk("repl", "1 + 1\n\"a\" + 1\nx.y.z\n[1,2] -> (v: w = v)\n{1,2} flatten(.a)\n((((\nif true then 1\n\x00\xff\n", none, "repl"),
		mk("repl", strings.Repeat("(", 40)+"1"+strings.Repeat(")", 40)+"\n"+strings.Repeat("1+", 200)+"1\n", none, "repl"),
		mk("lsp", "", none, "lsp"),
		mk("lsp", "Content-Length: 5\r\n\r\nhello", none, "lsp"),
		mk("lsp", "Content-Length: 99999\r\n\r\n{}", none, "lsp"),
		mk("lsp", "Content-Length: 58\r\n\r\n{\"jsonrpc\":\"2.0\",\"id\":1,\"method\":\"initialize\",\"params\":{}}", none, "lsp"),
		mk("display-summary", "", none, "display-summary", "nosuch.sysl"),
		mk("nocommand", "", none),
		mk("nocommand", "", none, "nosuchcommand", "m.sysl"),
	}
	// a model on stdin instead of a file
	for i, t := range models {
		if i >= 2 {
			break
		}
		js := fmt.Sprintf(`[{"path": "m.sysl", "content": %q}]`, t)
		rs = append(rs, mk("validate", js, none, "validate"))
		rs = append(rs, mk("pb", js, none, "pb", "--mode", "json"))
		rs = append(rs, mk("pb", "not json", none, "pb", "--mode", "json"))
	}
	return rs
}

// ---------------------------------------------------------------- option boundary values
const optModel = `Shop [package="shop"]:
    !type Item:
        id <: int
        name <: string
    !table Stock:
        id <: int [~pk]
        qty <: int
    /items/{id <: int}:
        GET ?q=string:
            Store <- Fetch
            return ok <: Item
    Order:
        Store <- Fetch
        return ok <: Item

Store:
    Fetch:
        return ok <: Shop.Item

Proj [~project]:
    All:
        Shop
        Store
`

type optFlag struct {
	name string // the flag as written on the command line
	kind string // str fmt enum pattern infile outfile outdir name int
}
type optCmd struct {
	class string
	base  []string // a command line that works
	flags []optFlag
}

func optCommands() []optCmd {
	return []optCmd{
		{"pb", []string{"pb", "--mode", "json", "-o", "out/m.json", "--filter", "Shop", "m.sysl"},
			[]optFlag{{"--mode", "enum"}, {"-o", "outfile"}, {"--filter", "name"}, {"--log", "enum"}, {"--root", "outdir"}, {"--max-import-depth", "int"}}},
		{"pb", []string{"pb", "--mode", "json", "--split-apps", "out/split", "m.sysl"}, []optFlag{{"--split-apps", "outdir"}}},
		{"sd", []string{"sd", "-o", "out/%(epname).puml", "-s", "Shop <- Order", "-t", "Title", "--endpoint_format", "%(epname)", "--app_format", "%(appname)", "-b", "Store <- Fetch=box", "-g", "package", "m.sysl"},
			[]optFlag{{"-o", "outfile"}, {"-s", "name"}, {"-t", "str"}, {"--endpoint_format", "fmt"}, {"--app_format", "fmt"}, {"-b", "name"}, {"-g", "str"}, {"-p", "str"}}},
		{"sd", []string{"sd", "-o", "out/%(epname).puml", "-a", "Proj", "m.sysl"}, []optFlag{{"-a", "name"}}},
		{"ints", []string{"ints", "-o", "out/%(epname).puml", "-j", "Proj", "-t", "T", "--filter", "All", "-e", "Store", "m.sysl"},
			[]optFlag{{"-o", "outfile"}, {"-j", "name"}, {"-t", "str"}, {"--filter", "pattern"}, {"-e", "name"}, {"-p", "str"}}},
		{"datamodel", []string{"datamodel", "-o", "out/%(epname).puml", "-j", "Proj", "-t", "T", "-f", "All", "--class_format", "%(classname)", "m.sysl"},
			[]optFlag{{"-o", "outfile"}, {"-j", "name"}, {"-t", "str"}, {"-f", "pattern"}, {"--class_format", "fmt"}, {"-p", "str"}}},
		{"diagram-integration", []string{"diagram", "-i", "-a", "Shop", "-o", "out/d.svg", "m.sysl"}, []optFlag{{"-a", "name"}, {"-o", "outfile"}}},
		{"diagram-sequence", []string{"diagram", "-s", "-a", "Shop", "-e", "Order", "-o", "out/d.svg", "m.sysl"}, []optFlag{{"-a", "name"}, {"-e", "name"}}},
		{"export", []string{"export", "-f", "openapi3", "-a", "Shop", "-o", "out/%(appname).yaml", "m.sysl"}, []optFlag{{"-f", "enum"}, {"-a", "name"}, {"-o", "outfile"}}},
		{"generate-db-scripts", []string{"generate-db-scripts", "-o", "out/", "-a", "Shop", "-d", "postgres", "-t", "T", "m.sysl"},
			[]optFlag{{"-o", "outdir"}, {"-a", "name"}, {"-d", "enum"}, {"-t", "str"}}},
		{"generate-db-scripts-delta", []string{"generate-db-scripts-delta", "-o", "out/", "-a", "Shop", "-d", "postgres", "-t", "T", "m.sysl", "m.sysl"},
			[]optFlag{{"-o", "outdir"}, {"-a", "name"}, {"-d", "enum"}, {"-t", "str"}}},
		{"import", []string{"import", "-i", "spec.yaml", "-a", "Imp", "-p", "pkg", "-f", "openapi3", "-o", "out/i.sysl"},
			[]optFlag{{"-i", "infile"}, {"-a", "name"}, {"-p", "str"}, {"-f", "enum"}, {"-o", "outfile"}}},
		// the other importers that run without arr.ai (fast); for them a directory is a legitimate kind of input
		{"import", []string{"import", "-i", "spec2.yaml", "-a", "Imp", "-p", "pkg", "-f", "swagger", "-o", "out/i.sysl"},
			[]optFlag{{"-i", "inpath"}, {"-a", "name"}, {"-p", "str"}, {"-o", "outfile"}}},
		{"import", []string{"import", "-i", "spec.xsd", "-a", "Imp", "-p", "pkg", "-f", "xsd", "-o", "out/i.sysl"},
			[]optFlag{{"-i", "inpath"}, {"-a", "name"}, {"-p", "str"}, {"-o", "outfile"}}},
		{"import", []string{"import", "-i", "spec.sql", "-a", "Imp", "-p", "pkg", "-f", "postgres", "-o", "out/i.sysl"},
			[]optFlag{{"-i", "inpath"}, {"-a", "name"}, {"-f", "enum"}, {"-o", "outfile"}}},
		{"template", []string{"template", "--root-template", ".", "--template", "tmpl.sysl", "--start", "start", "--app-name", "Shop", "--outdir", "out/", "m.sysl"},
			[]optFlag{{"--root-template", "outdir"}, {"--template", "infile"}, {"--start", "name"}, {"--app-name", "name"}, {"--outdir", "outdir"}}},
		{"codegen", []string{"codegen", "--root-transform", ".", "--transform", "tf.sysl", "--grammar", "tf.g", "--start", "javaFile", "--app-name", "Shop", "--outdir", "out/", "--dep-path", "d", "--basepath", "b", "m.sysl"},
			[]optFlag{{"--root-transform", "outdir"}, {"--transform", "infile"}, {"--grammar", "infile"}, {"--start", "name"}, {"--app-name", "name"}, {"--outdir", "outdir"}, {"--dep-path", "str"}, {"--basepath", "str"}}},
		{"transform", []string{"transform", "--script", "t.arrai", "-o", "out/t.txt", "m.sysl"}, []optFlag{{"--script", "infile"}, {"-o", "outfile"}, {"-t", "infile"}}},
		{"test-rig", []string{"test-rig", "--template", "rig.json", "--output-dir", "out/rig", "m.sysl"}, []optFlag{{"--template", "infile"}, {"--output-dir", "outdir"}}},
		{"validate", []string{"validate", "m.sysl"}, nil},
	}
}

var optValues = map[string][]string{
	"str":     {"", "\xff\xfe", strings.Repeat("x", 3000), "ünï cödé \"q\" 'q' \n"}, // titles are format strings: no "%("
	"fmt":     {"", "%(nosuch)", "%(epname?yes|no)", "%%(", "plain text"},           // well-formed format strings only
	"enum":    {"", "nosuchvalue"},
	"pattern": {"", "NoSuch", ".*", "^All$", "a|b"}, // valid regular expressions only
	"infile":  {"", "nosuch.file", "adir", "/dev/null"},
	"inpath":  {"", "nosuch.file", "adir", "/dev/null"},
	"outfile": {"", "missingdir/sub/out.x", "adir", "/proc/nosuch/out.x", "/dev/full"},
	"outdir":  {"", "missingdir/sub", "m.sysl", "/proc/nosuch/sub"},
	"name":    {"", "NoSuch", "Shop <- ", " <- Order", "<-", "Shop <- Order <- Order", strings.Repeat("N", 3000), "Ünï", "Shop,NoSuch", "Shop <- Order=", "="},
	"int":     {"", "abc", "-1", "99999999999999999999"},
}

// must the command refuse the value? (the others may legitimately be accepted: an unknown name selects nothing, ...)
func mustFail(kind, val string) bool {
	switch kind {
	case "infile":
		return val != "/dev/null"
	case "inpath":
		return val == "" || val == "nosuch.file"
	case "int":
		return val == "abc"
	}
	return false
}

func optionRuns(rng *common.Rng, all bool) []*Run {
	files := map[string]string{"m.sysl": optModel, "adir/keep.txt": "x",
		"spec2.yaml": "swagger: \"2.0\"\ninfo:\n  title: T\n  version: \"1\"\npaths: {}\ndefinitions:\n  A:\n    type: object\n    properties:\n      id:\n        type: integer\n",
		"spec.xsd":   "<?xml version=\"1.0\"?>\n<xs:schema xmlns:xs=\"http://www.w3.org/2001/XMLSchema\"><xs:complexType name=\"A\"><xs:sequence><xs:element name=\"n\" type=\"xs:int\"/></xs:sequence></xs:complexType></xs:schema>\n",
		"spec.sql":   "CREATE TABLE a (id int primary key);\n",
		"spec.yaml":  "openapi: \"3.0.0\"\ninfo:\n  title: T\n  version: \"1\"\npaths: {}\ncomponents:\n  schemas:\n    A:\n      type: object\n      properties:\n        id:\n          type: integer\n"}
	for n, c := range extraFiles(&SModel{Apps: []SApp{{Name: "Shop"}, {Name: "Store"}}}) {
		files[n] = c
	}
	var runs []*Run
	k := 0
	for _, oc := range optCommands() {
		emit := func(flag, kind, val string, argv []string) {
			if !all && !(kind == "fmt" && rng.Intn(3) == 0 || rng.Intn(6) == 0) {
				return
			}
			av := append([]string{}, argv...)
			for i, a := range av {
				av[i] = strings.ReplaceAll(a, "out/", fmt.Sprintf("out%d/", k))
			}
			k++
			runs = append(runs, &Run{Class: "opt-" + oc.class, Files: files, Argv: av, Opt: flag + ":" + kind, MustFail: mustFail(kind, val),
				Note: fmt.Sprintf("option %s (%s) = %q", flag, kind, headOf(val, 40))})
		}
		for _, f := range oc.flags {
			for _, v := range optValues[f.kind] {
				if f.name == "--script" && v == "/dev/null" {
					// an EMPTY arr.ai script ends with a parse error, but arr.ai (third party) needs ~40 s of CPU to
					// build the message: it would be taken for a hang
					continue
				}
				av := append([]string{}, oc.base...)
				found := false
				for i := 0; i+1 < len(av); i++ {
					if av[i] == f.name {
						av[i+1] = v
						found = true
					}
				}
				if !found { // a flag the base line does not use: put it in front of the module arguments
					cmdName := av[0]
					av = append([]string{cmdName, f.name, v}, av[1:]...)
				}
				emit(f.name, f.kind, v, av)
			}
		}
		// the module argument itself
		for _, v := range []string{"nosuch.sysl", "adir", ""} {
			av := append([]string{}, oc.base...)
			if av[len(av)-1] != "m.sysl" {
				continue
			}
			av[len(av)-1] = v
			emit("MODULE", "infile", v, av)
		}
	}
	return runs
}
