// Cases of the second kind (Cmds/RunX.v x_case): XFmt - a command that reads the project application's format strings;
// XImp - a generated Swagger 2 document as the tree of Cmds/ImpModel.v.
package main

import (
	"encoding/json"
	"fmt"
	"os"
	"path/filepath"
	"strings"

	"verifharness/common"
)

var jsonUnmarshal = json.Unmarshal

type xCaseWriter struct {
	c  *common.Ctx
	cs *common.Cases
}

func newXCaseWriter(c *common.Ctx) *xCaseWriter {
	hdr := "From Coq Require Import String List NArith Bool.\nImport ListNotations.\nRequire Import Verif.Seq.Fmt Verif.Cmds.Walk Verif.Cmds.FmtModel Verif.Cmds.ImpModel Verif.Cmds.Run Verif.Cmds.RunX Verif.Gen.CmdGuards Verif.Base.Harness.\nLocal Open Scope N_scope.\n"
	ftr := "Definition M := Eval vm_compute in mismatches (x_ok fmt_current imp_current) cases.\nPrint M.\n"
	per := 40
	if c.Thorough() {
		per = 80
	}
	return &xCaseWriter{c: c, cs: c.NewCases("c20x", hdr, "x_case", ftr, per)}
}

func obsClass(o Obs) string {
	switch {
	case o.Crash || o.Timeout || o.CPUHang:
		return "OCrash"
	case o.RC == 0:
		return "OOk"
	}
	return "OErr"
}

// the runs of a fmt-* model that read the project's format attributes
func (w *xCaseWriter) addFmtModel(m *SModel, text string, runs []*Run, obs map[*Run]Obs) {
	if len(runs) == 0 || runs[0].dir == "" {
		return
	}
	var raw []byte
	for _, r := range runs {
		if r.Class == "pb" && hasFlag(r.Argv, "json") && !hasFlag(r.Argv, "--filter") && !hasFlag(r.Argv, "--split-apps") {
			if o, ok := flagVal(r.Argv, "-o"); ok {
				raw, _ = os.ReadFile(filepath.Join(r.dir, o))
			}
		}
	}
	if len(raw) == 0 {
		w.c.Hist("projection:no-json")
		return
	}
	for _, r := range runs {
		user, names, owner := "", []string(nil), m.Project
		switch {
		case r.Class == "sd" && hasFlag(r.Argv, "-a") && !hasFlag(r.Argv, "-s"):
			if a, _ := flagVal(r.Argv, "-a"); a == m.Project || a == "SeqProj" {
				user, names, owner = "FSd", []string{"seqtitle", "epfmt", "appfmt"}, a
			}
		case r.Class == "ints" || r.Class == "ints-epa" || r.Class == "ints-clustered":
			if p, _ := flagVal(r.Argv, "-j"); p == m.Project && !hasFlag(r.Argv, "-e") {
				user, names = "FInts", []string{"appfmt", "epfmt", "title"}
			}
		}
		if user == "" {
			continue
		}
		fmts, rxt, uses, ok := fmtCaseParts(raw, owner, names)
		if !ok {
			w.c.Hist("projection:bad-json")
			continue
		}
		cls := obsClass(obs[r])
		w.c.Hist("modelled:XFmt-" + user)
		w.cs.Add(fmt.Sprintf("XFmt %s %s %s\n   %s %s", user, fmts, rxt, uses, cls),
			map[string]interface{}{"shape": m.Shape, "sysl": text, "observed": strings.Join(r.Argv, " ") + " => " + cls})
	}
}

func (w *xCaseWriter) addImp(d impDoc, o Obs) {
	cls := obsClass(o)
	w.c.Hist("modelled:XImp")
	w.cs.Add(fmt.Sprintf("XImp %s %s %s", common.GBool(d.exact), d.entries, cls), map[string]interface{}{"note": d.note, "spec": d.text, "observed": cls})
}

func (w *xCaseWriter) close() { w.cs.Close() }
