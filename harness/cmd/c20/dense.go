// Round 3 generators.
//
// (0) DENSE CYCLES: call graphs in which each of two or three endpoints has two or more call edges to each of the
// others - written in `if` and `else`, as retries, at different nesting depths, under `one of` - plus chords and
// self calls written several times, with project views that seed from / pass through every subset; tables whose
// foreign keys do the same (several columns per direction, chords, repeated self references). Every generator with a
// visited / in-progress set (ints WalkPassthrough, sd, the two mermaid printers, the table depth order) sees a node
// again through a second edge after the first one was cut, which is where a wrong marker discipline shows.
//
// (0b) DELTA PAIRS: two versions of one application for `generate-db-scripts-delta`; tables present in both versions
// get columns added, removed and retyped across EVERY type kind, new tables carry every kind too.
package main

import (
	"fmt"
	"strings"

	"verifharness/common"
)

var blockKinds = []string{"if", "for", "loop", "until", "alt"}
var blockText = map[string]string{"if": "cond", "for": "x in xs", "loop": "3 times", "until": "done", "alt": "choice1"}

// nest wraps a statement into `depth` randomly chosen blocks
func nest(r *common.Rng, s SStmt, depth int) []SStmt {
	out := []SStmt{s}
	for d := 0; d < depth; d++ {
		k := pick(r, blockKinds)
		body := out
		if r.Chance(1, 3) {
			body = append([]SStmt{{K: "act", Text: "work"}}, body...)
		}
		out = []SStmt{{K: k, Text: blockText[k], Body: body}}
	}
	return out
}

// twice writes the same call in the `if` and in the `else` arm
func twice(c SStmt) []SStmt {
	return []SStmt{{K: "if", Text: "ok", Body: []SStmt{c}}, {K: "else", Body: []SStmt{c}}}
}

func denseShapes() []SModel {
	var out []SModel
	// two pass-through endpoints, three edges per direction at different depths, a seed in front
	out = append(out, SModel{Shape: "dense-two-node-cycle", Project: "P", Apps: []SApp{
		{Name: "A", Eps: []SEp{{Name: "E", Stmts: []SStmt{call("B", "F")}}}},
		{Name: "B", Eps: []SEp{{Name: "F", Stmts: append(twice(call("C", "G")), SStmt{K: "loop", Text: "3 times", Body: []SStmt{{K: "if", Text: "retry", Body: []SStmt{call("C", "G")}}}})}}},
		{Name: "C", Eps: []SEp{{Name: "G", Stmts: []SStmt{{K: "for", Text: "x in xs", Body: []SStmt{call("B", "F")}}, call("B", "F"), {K: "until", Text: "done", Body: []SStmt{{K: "alt", Text: "v", Body: []SStmt{call("B", "F")}}}}}}}}},
		Views: []SView{{Name: "V", Apps: []string{"A"}, Pass: []string{"B", "C"}}, {Name: "W", Apps: []string{"A", "B", "C"}, Pass: []string{"A", "B", "C"}}}})
	// three endpoints, two edges to each of the others, chords and repeated self calls
	mk := func(self, x, y SStmt) []SStmt {
		var ss []SStmt
		ss = append(ss, twice(x)...)
		ss = append(ss, SStmt{K: "for", Text: "i in is", Body: []SStmt{y, {K: "if", Text: "again", Body: []SStmt{y, self}}}})
		ss = append(ss, self, SStmt{K: "loop", Text: "2 times", Body: []SStmt{self}})
		return ss
	}
	out = append(out, SModel{Shape: "dense-three-node-chords", Project: "P", Apps: []SApp{
		{Name: "A", Eps: []SEp{{Name: "E", Stmts: mk(call("A", "E"), call("B", "F"), call("C", "G"))}}},
		{Name: "B", Eps: []SEp{{Name: "F", Stmts: mk(call("B", "F"), call("C", "G"), call("A", "E"))}}},
		{Name: "C", Eps: []SEp{{Name: "G", Stmts: mk(call("C", "G"), call("A", "E"), call("B", "F"))}}}},
		Views: []SView{{Name: "V", Apps: []string{"A"}, Pass: []string{"A", "B", "C"}}, {Name: "W", Apps: []string{"A", "B"}, Pass: []string{"C"}}}})
	// one endpoint calling itself several times; reached from a seed and seeded itself
	out = append(out, SModel{Shape: "self-loop-repeated", Project: "P", Apps: []SApp{
		{Name: "A", Eps: []SEp{{Name: "E", Stmts: []SStmt{call("B", "F")}}}},
		{Name: "B", Eps: []SEp{{Name: "F", Stmts: append(twice(call("B", "F")), call("B", "F"), SStmt{K: "until", Text: "done", Body: []SStmt{call("B", "F"), call("B", "F")}})}}}},
		Views: []SView{{Name: "V", Apps: []string{"A"}, Pass: []string{"B"}}, {Name: "W", Apps: []string{"B"}, Pass: []string{"B"}}}})
	// several endpoints of ONE pass-through application calling each other both ways, twice
	out = append(out, SModel{Shape: "dense-within-app", Project: "P", Apps: []SApp{
		{Name: "A", Eps: []SEp{{Name: "E", Stmts: []SStmt{call("B", "F1"), call("B", "F2")}}}},
		{Name: "B", Eps: []SEp{
			{Name: "F1", Stmts: append(twice(call("B", "F2")), call("B", "F1"), call("B", "F3"))},
			{Name: "F2", Stmts: append(twice(call("B", "F1")), call("B", "F3"), call("B", "F3"))},
			{Name: "F3", Stmts: []SStmt{call("B", "F1"), call("B", "F2"), call("B", "F1"), call("B", "F2"), ret("ok <: string")}}}}},
		Views: []SView{{Name: "V", Apps: []string{"A"}, Pass: []string{"B"}}}})
	// foreign keys: several columns per direction, a chord, repeated self references, next to an orderable chain
	out = append(out, SModel{Shape: "table-fk-dense-cycle", Apps: []SApp{{Name: "A", Types: []SType{
		{Name: "T", Kind: "table", Fields: []SField{{Name: "id", Type: "int", PK: true}, {Name: "u1", Type: "U.id"}, {Name: "u2", Type: "U.id"}, {Name: "s1", Type: "T.id"}, {Name: "s2", Type: "T.id"}}},
		{Name: "U", Kind: "table", Fields: []SField{{Name: "id", Type: "int", PK: true}, {Name: "t1", Type: "T.id"}, {Name: "t2", Type: "T.u1"}, {Name: "v", Type: "V.id"}}},
		{Name: "V", Kind: "table", Fields: []SField{{Name: "id", Type: "int", PK: true}, {Name: "t", Type: "T.id"}, {Name: "u", Type: "U.t1"}, {Name: "v1", Type: "V.id"}, {Name: "v2", Type: "V.t"}}},
		{Name: "W", Kind: "table", Fields: []SField{{Name: "id", Type: "int", PK: true}}},
		{Name: "X", Kind: "table", Fields: []SField{{Name: "id", Type: "int", PK: true}, {Name: "w1", Type: "W.id"}, {Name: "w2", Type: "W.id"}}}}}}})
	for i := range out {
		if out[i].Project == "" {
			out[i].Project = "P"
			var names []string
			for _, a := range out[i].Apps {
				names = append(names, a.Name)
			}
			out[i].Views = []SView{{Name: "V", Apps: names}}
		}
	}
	return out
}

// genDense: 2 or 3 endpoints (in as many applications, or all in one), every ordered pair connected by 2-3 call
// edges at random nesting depths, 0-3 self calls each, sometimes a dangling call inside the cycle; tables likewise.
func genDense(r *common.Rng) SModel {
	m := SModel{Shape: "random-dense", Project: "Proj"}
	n := 2 + r.Intn(2)
	oneApp := r.Chance(1, 4)
	type node struct{ app, ep string }
	nodes := make([]node, n)
	for i := range nodes {
		if oneApp {
			nodes[i] = node{"Svc", fmt.Sprintf("Ep%d", i)}
		} else {
			nodes[i] = node{fmt.Sprintf("Svc%d", i), "Ep"}
		}
	}
	stmtsOf := make([][]SStmt, n)
	for i := range nodes {
		var ss []SStmt
		for j := range nodes {
			k := 2 + r.Intn(2)
			if i == j {
				k = r.Intn(4)
			}
			for e := 0; e < k; e++ {
				c := call(nodes[j].app, nodes[j].ep)
				if e == 0 && r.Chance(1, 3) {
					ss = append(ss, twice(c)...)
					e++
					continue
				}
				ss = append(ss, nest(r, c, r.Intn(4))...)
			}
		}
		if r.Chance(1, 4) {
			ss = append(ss, nest(r, call("Ghost0", "Gone"), r.Intn(2))...)
		}
		if r.Chance(1, 3) {
			ss = append(ss, ret("ok <: string"))
		}
		// shuffle lightly: rotate
		if len(ss) > 1 {
			k := r.Intn(len(ss))
			ss = append(append([]SStmt{}, ss[k:]...), ss[:k]...)
		}
		// an `else` must follow its `if`: a rotation that starts with `else` is rotated once more
		for len(ss) > 0 && ss[0].K == "else" {
			ss = append(ss[1:], ss[0])
		}
		stmtsOf[i] = ss
	}
	apps := map[string]*SApp{}
	var order []string
	for i, nd := range nodes {
		a, ok := apps[nd.app]
		if !ok {
			a = &SApp{Name: nd.app}
			apps[nd.app] = a
			order = append(order, nd.app)
		}
		a.Eps = append(a.Eps, SEp{Name: nd.ep, Stmts: stmtsOf[i]})
	}
	// a seed application in front
	front := SApp{Name: "Front", Eps: []SEp{{Name: "Go", Stmts: []SStmt{call(nodes[0].app, nodes[0].ep), call(nodes[r.Intn(n)].app, nodes[r.Intn(n)].ep)}}}}
	m.Apps = append(m.Apps, front)
	for _, an := range order {
		m.Apps = append(m.Apps, *apps[an])
	}
	// tables: 2-3 tables, 2 FK columns per ordered pair with probability, self FKs
	nt := 2 + r.Intn(2)
	var tbs []SType
	for i := 0; i < nt; i++ {
		t := SType{Name: fmt.Sprintf("Tb%d", i), Kind: "table", Fields: []SField{{Name: "id", Type: "int", PK: true}}}
		for j := 0; j < nt; j++ {
			k := r.Intn(3)
			for e := 0; e < k; e++ {
				col := "id"
				if r.Chance(1, 4) {
					col = fmt.Sprintf("r%d_0", (j+1)%nt) // another table's FK column: a chord (may not exist)
				}
				t.Fields = append(t.Fields, SField{Name: fmt.Sprintf("r%d_%d", j, e), Type: fmt.Sprintf("Tb%d.%s", j, col)})
			}
		}
		tbs = append(tbs, t)
	}
	m.Apps[len(m.Apps)-1].Types = tbs
	// views: seeds and pass-through sets over every subset
	nv := 1 + r.Intn(2)
	for v := 0; v < nv; v++ {
		view := SView{Name: fmt.Sprintf("View%d", v), Apps: []string{"Front"}}
		for _, an := range order {
			if r.Bool() {
				view.Apps = append(view.Apps, an)
			}
			if r.Chance(3, 4) {
				view.Pass = append(view.Pass, an)
			}
		}
		if r.Chance(1, 4) {
			view.Pass = append(view.Pass, "Front")
		}
		m.Views = append(m.Views, view)
	}
	return m
}

// ---------------------------------------------------------------- delta pairs
// column type kinds of a table column
var deltaKinds = []struct{ kind, typ string }{
	{"prim", "int"}, {"prim-sized", "string(20)"}, {"prim-date", "date"}, {"prim-opt", "int?"},
	{"fk", "Ref.id"}, {"fk-text", "Ref.code"}, {"fk-missing-col", "Ref.nocol"}, {"fk-missing-table", "Lost.id"},
	{"alias", "Money"}, {"type", "Addr"}, {"enum", "Colour"}, {"table-name", "Ref"},
	{"undefined", "Gone"}, {"undefined-deep", "Nope.Gone.id"},
	{"set", "set of string"}, {"sequence", "sequence of Addr"}, {"set-undefined", "set of Gone"},
}

const deltaPrelude = `    !alias Money:
        decimal
    !type Addr:
        street <: string
    !enum Colour:
        red: 1
        green: 2
    !table Ref:
        id <: int [~pk]
        code <: string(8)
`

type dcol struct{ name, typ, attrs string }

func renderDelta(tables map[string][]dcol, order []string, extraType bool) string {
	var b strings.Builder
	b.WriteString("App0:\n" + deltaPrelude)
	if extraType {
		b.WriteString("    !type Extra:\n        note <: string\n")
	}
	for _, tn := range order {
		fmt.Fprintf(&b, "    !table %s:\n", tn)
		if len(tables[tn]) == 0 {
			b.WriteString("        ...\n")
		}
		for _, c := range tables[tn] {
			fmt.Fprintf(&b, "        %s <: %s%s\n", c.name, c.typ, c.attrs)
		}
	}
	return b.String()
}

type deltaPair struct {
	shape    string
	old, new string
}

// deltaAllKinds: table T of the old version has one column per kind; in the new version column i is retyped to
// kind i+1 (so every kind is both source and target of a retype), every third one is removed instead, and one
// column per kind is added; table N (new in the second version) has one column per kind; table D is dropped.
func deltaAllKinds() deltaPair {
	old := map[string][]dcol{}
	nw := map[string][]dcol{}
	old["T"] = []dcol{{"id", "int", " [~pk, ~autoinc]"}}
	nw["T"] = []dcol{{"id", "int", " [~pk]"}}
	for i, k := range deltaKinds {
		old["T"] = append(old["T"], dcol{fmt.Sprintf("c%d", i), k.typ, ""})
		if i%3 != 2 {
			nw["T"] = append(nw["T"], dcol{fmt.Sprintf("c%d", i), deltaKinds[(i+1)%len(deltaKinds)].typ, ""})
		}
		nw["T"] = append(nw["T"], dcol{fmt.Sprintf("a%d", i), k.typ, ""})
		nw["N"] = append(nw["N"], dcol{fmt.Sprintf("n%d", i), k.typ, ""})
		old["D"] = append(old["D"], dcol{fmt.Sprintf("d%d", i), k.typ, ""})
	}
	// removal of each kind: a second retained table loses all its typed columns
	old["R"] = append([]dcol{{"id", "int", " [~pk]"}}, old["D"]...)
	nw["R"] = []dcol{{"id", "int", " [~pk]"}, {"k", "int", " [~pk]"}}
	return deltaPair{"delta-all-kinds", renderDelta(old, []string{"T", "D", "R"}, false), renderDelta(nw, []string{"T", "N", "R"}, true)}
}

func genDeltaPair(r *common.Rng) deltaPair {
	old := map[string][]dcol{}
	nw := map[string][]dcol{}
	var oOrder, nOrder []string
	kt := func() string { return deltaKinds[r.Intn(len(deltaKinds))].typ }
	pkAttr := func() string {
		switch r.Intn(6) {
		case 0:
			return " [~pk]"
		case 1:
			return " [~pk, ~autoinc]"
		case 2:
			return " [~autoinc]"
		}
		return ""
	}
	nt := 1 + r.Intn(3)
	for t := 0; t < nt; t++ {
		tn := fmt.Sprintf("T%d", t)
		inOld, inNew := true, true
		switch r.Intn(6) {
		case 0:
			inOld = false // new table
		case 1:
			inNew = false // dropped table
		}
		if inOld {
			oOrder = append(oOrder, tn)
			if r.Chance(4, 5) {
				old[tn] = append(old[tn], dcol{"id", "int", pkAttr()})
			}
		}
		if inNew {
			nOrder = append(nOrder, tn)
			if r.Chance(4, 5) {
				nw[tn] = append(nw[tn], dcol{"id", "int", pkAttr()})
			}
		}
		nc := r.Intn(6)
		for c := 0; c < nc; c++ {
			cn := fmt.Sprintf("c%d", c)
			ty := kt()
			if r.Chance(1, 5) && t > 0 {
				ty = fmt.Sprintf("T%d.c%d", r.Intn(nt), r.Intn(3)) // FK into a sibling (or itself), column may be absent / retyped
			}
			at := ""
			if !strings.Contains(ty, " ") && !strings.Contains(ty, ".") && r.Chance(1, 8) {
				at = pkAttr()
			}
			switch r.Intn(5) {
			case 0: // removed
				if inOld {
					old[tn] = append(old[tn], dcol{cn, ty, at})
				}
			case 1: // added
				if inNew {
					nw[tn] = append(nw[tn], dcol{cn, ty, at})
				}
			case 2, 3: // retyped
				if inOld {
					old[tn] = append(old[tn], dcol{cn, ty, at})
				}
				if inNew {
					nw[tn] = append(nw[tn], dcol{cn, kt(), pkAttr()})
				}
			default: // kept
				if inOld {
					old[tn] = append(old[tn], dcol{cn, ty, at})
				}
				if inNew {
					nw[tn] = append(nw[tn], dcol{cn, ty, at})
				}
			}
		}
	}
	// a name that is a table in one version and a plain type in the other
	return deltaPair{"delta-random", renderDelta(old, oOrder, r.Chance(1, 3)), renderDelta(nw, nOrder, r.Chance(1, 2))}
}

// deltaPairRuns: compile both versions to JSON (for the model), then the delta both ways
func deltaPairRuns(p deltaPair, idx int) []*Run {
	files := map[string]string{"old.sysl": p.old, "new.sysl": p.new}
	note := fmt.Sprintf("%s#%08x", p.shape, digest(p.old+"\x00"+p.new))
	mk := func(class string, argv ...string) *Run {
		return &Run{Class: class, Files: files, Argv: argv, Note: note}
	}
	return []*Run{
		mk("pb", "pb", "--mode", "json", "-o", "out0/old.json", "old.sysl"),
		mk("pb", "pb", "--mode", "json", "-o", "out1/new.json", "new.sysl"),
		mk("generate-db-scripts-delta", "generate-db-scripts-delta", "-o", "out2/", "-a", "App0", "-d", "postgres", "-t", "T", "old.sysl", "new.sysl"),
		mk("generate-db-scripts-delta", "generate-db-scripts-delta", "-o", "out3/", "-a", "App0", "-d", "postgres", "-t", "T", "new.sysl", "old.sysl"),
	}
}
