// Round 3, second pass: ERROR PATHS of `sysl import`. The import matrix of imports.go feeds documents that convert; here
// the conversion FAILS for a semantic reason (or, as a control, does not) at a chosen place and nesting depth:
//
//	Swagger 2 (the legacy importer, pkg/importer/openapi3_legacy.go): a tree of schemas - inline object properties, arrays
//	of inline objects, allOf members, nested 0-4 deep, sitting in a definition, a parameter, a request body or a response -
//	whose innermost schema has a duplicate field (allOf Base + an own property of another type), is composed of a
//	definition that is being defined (circular), is an array without items, refers to a definition that does not exist, or
//	has a property of an unknown type. The same tree is printed as the `entry` list of Cmds/ImpModel.v.
//	OpenAPI 3, XSD, Avro, SQL (three dialects), protobuf, JSON schema: documents with an unknown reference, a duplicate
//	name, a cycle, a syntax error, nested 1-4 deep.
//
// Required of every run: an error message and a non-zero status, or output and status 0 - never a Go runtime trace.
package main

import (
	"fmt"
	"strings"

	"verifharness/common"
)

// ---------------------------------------------------------------- Swagger 2 schema trees
type impSch struct {
	Kind    string // obj arr leaf
	NoItems bool   // arr: no items
	Dup     bool   // obj: allOf Base{x:string} + own property x:integer
	Kids    []impKid
	BadRef  bool // leaf: $ref to a definition that does not exist (the loader refuses the document)
	BadType bool // leaf: type: nosuchtype (imported as a string alias)
}
type impKid struct {
	Via  string // field items allof
	Circ bool   // items / allof: a $ref to the definition that is being defined
	S    *impSch
}

// yaml of a schema, `ind` = indentation of its keys; loop = name of the definition a circular member refers to
func (s *impSch) yaml(ind string, loop string, cnt *int) string {
	var b strings.Builder
	switch s.Kind {
	case "leaf":
		switch {
		case s.BadRef:
			fmt.Fprintf(&b, "%s$ref: '#/definitions/Nope'\n", ind)
		case s.BadType:
			fmt.Fprintf(&b, "%stype: nosuchtype\n", ind)
		default:
			fmt.Fprintf(&b, "%stype: string\n", ind)
		}
	case "arr":
		fmt.Fprintf(&b, "%stype: array\n", ind)
		if !s.NoItems {
			fmt.Fprintf(&b, "%sitems:\n", ind)
			k := s.Kids[0]
			if k.Circ {
				fmt.Fprintf(&b, "%s  $ref: '#/definitions/%s'\n", ind, loop)
			} else {
				b.WriteString(k.S.yaml(ind+"  ", loop, cnt))
			}
		}
	case "obj":
		fmt.Fprintf(&b, "%stype: object\n", ind)
		var allof, props []impKid
		for _, k := range s.Kids {
			if k.Via == "allof" {
				allof = append(allof, k)
			} else {
				props = append(props, k)
			}
		}
		if len(allof) > 0 || s.Dup {
			fmt.Fprintf(&b, "%sallOf:\n", ind)
			if s.Dup {
				fmt.Fprintf(&b, "%s  - $ref: '#/definitions/Base'\n", ind)
			}
			for _, k := range allof {
				if k.Circ {
					fmt.Fprintf(&b, "%s  - $ref: '#/definitions/%s'\n", ind, loop)
				} else {
					y := k.S.yaml(ind+"    ", loop, cnt)
					b.WriteString(ind + "  - " + strings.TrimPrefix(y, ind+"    "))
				}
			}
		}
		fmt.Fprintf(&b, "%sproperties:\n", ind)
		*cnt++
		fmt.Fprintf(&b, "%s  keep%d:\n%s    type: string\n", ind, *cnt, ind)
		if s.Dup {
			fmt.Fprintf(&b, "%s  x:\n%s    type: integer\n", ind, ind)
		}
		for _, k := range props {
			*cnt++
			fmt.Fprintf(&b, "%s  p%d:\n", ind, *cnt)
			b.WriteString(k.S.yaml(ind+"    ", loop, cnt))
		}
	}
	return b.String()
}

// the schema as a term of Cmds/ImpModel.v: Sch kind [(via, kid)]. A leaf property goes through buildField without
// touching the stack beyond its own push / pop and is left out; an inline array property whose items are an inline
// object is one VField step (buildField descends to the items itself).
func (s *impSch) term(circ string) string {
	kind := "KLeaf"
	switch s.Kind {
	case "arr":
		kind = "KArr " + common.GBool(s.NoItems)
	case "obj":
		kind = "KObj " + common.GBool(s.Dup)
	}
	var ks []string
	if s.Dup {
		ks = append(ks, "(VAllOf false, Sch (KObj false) [])") // allOf: - $ref Base
	}
	// loadTypeSchema handles the allOf members before the properties
	for pass := 0; pass < 2; pass++ {
		for _, k := range s.Kids {
			if (k.Via == "allof") != (pass == 0) {
				continue
			}
			switch k.Via {
			case "allof":
				if k.Circ {
					ks = append(ks, circ)
				} else {
					ks = append(ks, "(VAllOf false, "+k.S.term(circ)+")")
				}
			case "items":
				// items that are a $ref are an alias for loadTypeSchema (never "object"): no descent
				if !k.Circ && k.S.Kind != "leaf" {
					ks = append(ks, "(VItems false, "+k.S.term(circ)+")")
				}
			case "field":
				if t := k.S.fieldTerm(circ); t != "" {
					ks = append(ks, "(VField, "+t+")")
				}
			}
		}
	}
	return "Sch (" + kind + ") " + common.GList(ks)
}

// what buildField loads for a property of this schema: the object itself, or - for an array - its items when they are an
// inline object / an array (typeNameFromSchemaRef says "object"); "" when buildField does not descend
func (s *impSch) fieldTerm(circ string) string {
	switch s.Kind {
	case "obj":
		return s.term(circ)
	case "arr":
		if s.NoItems {
			// buildField gives an array without items an empty object as items: loaded, never fails
			return "Sch (KObj false) []"
		}
		k := s.Kids[0]
		if k.Circ {
			return "" // items are a $ref: buildField returns early
		}
		if k.S.Kind == "leaf" {
			return ""
		}
		return k.S.term(circ)
	}
	return ""
}

func (s *impSch) fails() bool {
	if s.NoItems || s.Dup || s.BadRef {
		return true
	}
	for _, k := range s.Kids {
		if k.Circ || (k.S != nil && k.S.fails()) {
			return true
		}
	}
	return false
}

// wrap the fault in `depth` levels of inline nesting
func genImpSch(r *common.Rng, fault string, depth int) *impSch {
	var inner *impSch
	switch fault {
	case "dup":
		inner = &impSch{Kind: "obj", Dup: true}
	case "circ-allof":
		inner = &impSch{Kind: "obj", Kids: []impKid{{Via: "allof", Circ: true}}}
	case "circ-items":
		inner = &impSch{Kind: "arr", Kids: []impKid{{Via: "items", Circ: true}}}
	case "noitems":
		inner = &impSch{Kind: "arr", NoItems: true}
	case "badref":
		inner = &impSch{Kind: "obj", Kids: []impKid{{Via: "field", S: &impSch{Kind: "leaf", BadRef: true}}}}
	case "badtype":
		inner = &impSch{Kind: "obj", Kids: []impKid{{Via: "field", S: &impSch{Kind: "leaf", BadType: true}}}}
	default:
		inner = &impSch{Kind: "obj", Kids: []impKid{{Via: "field", S: &impSch{Kind: "leaf"}}}}
	}
	cur := inner
	for d := 0; d < depth; d++ {
		var w *impSch
		switch r.Intn(4) {
		case 0: // array of ...
			w = &impSch{Kind: "arr", Kids: []impKid{{Via: "items", S: cur}}}
			// an array directly inside an array is not an "object" item for the importer: keep an object between
			if cur.Kind == "arr" {
				w = &impSch{Kind: "obj", Kids: []impKid{{Via: "field", S: cur}}}
			}
		case 1: // allOf member
			if cur.Kind == "obj" {
				w = &impSch{Kind: "obj", Kids: []impKid{{Via: "allof", S: cur}}}
			} else {
				w = &impSch{Kind: "obj", Kids: []impKid{{Via: "field", S: cur}}}
			}
		default: // inline object property, with a sibling now and then
			w = &impSch{Kind: "obj", Kids: []impKid{{Via: "field", S: cur}}}
			if r.Chance(1, 3) {
				sib := &impSch{Kind: "obj", Kids: []impKid{{Via: "field", S: &impSch{Kind: "leaf"}}}}
				if r.Bool() {
					w.Kids = append([]impKid{{Via: "field", S: sib}}, w.Kids...)
				} else {
					w.Kids = append(w.Kids, impKid{Via: "field", S: sib})
				}
			}
		}
		cur = w
	}
	return cur
}

type impDoc struct {
	text    string
	entries string // Gallina: list entry
	note    string
	fails   bool
	exact   bool // the model's Ok / Err is compared exactly
}

var impFaults = []string{"dup", "dup", "circ-allof", "circ-items", "noitems", "badref", "badtype", "none"}
var impPlaces = []string{"def", "def", "resp", "body", "param", "pathparam"}

func genImpDoc(r *common.Rng, fault, place string, depth int) impDoc {
	s := genImpSch(r, fault, depth)
	if (place == "resp" || place == "body") && s.Kind != "obj" {
		// fieldForMediaType loads an array's items through buildField and the array itself directly: keep one shape
		s = &impSch{Kind: "obj", Kids: []impKid{{Via: "field", S: s}}}
	}
	cnt := 0
	var b strings.Builder
	b.WriteString("swagger: \"2.0\"\ninfo:\n  title: T\n  version: \"1\"\n")
	loop := "Loop"
	var entries []string
	ent := func(k string, t string) {
		if t != "" {
			entries = append(entries, k+" ("+t+")")
		}
	}
	// what a member `allOf: - $ref Loop` is when it is met: Loop is marked "being defined" only below such a member
	const circHit = "(VAllOf true, Sch KLeaf [])"
	const loopPlain = "(VAllOf false, Sch (KObj false) [])" // Loop as defined above: one string property
	switch place {
	case "def":
		b.WriteString("paths: {}\n")
	case "resp":
		b.WriteString("paths:\n  /a:\n    get:\n      responses:\n        \"200\":\n          description: ok\n          schema:\n" + s.yaml("            ", loop, &cnt))
	case "body":
		b.WriteString("paths:\n  /a:\n    post:\n      parameters:\n        - name: b\n          in: body\n          schema:\n" + s.yaml("            ", loop, &cnt) + "      responses:\n        \"200\":\n          description: ok\n")
	case "param", "pathparam":
		// a Swagger 2 non-body parameter has no schema: an array of ... is the deepest it goes
		items := "          items:\n            type: string\n"
		if fault == "noitems" {
			items = ""
		}
		prm := "        - name: q\n          in: query\n          type: array\n" + items
		if place == "pathparam" {
			b.WriteString("paths:\n  /a:\n    parameters:\n" + strings.ReplaceAll(prm, "        ", "      ") + "    get:\n      responses:\n        \"200\":\n          description: ok\n")
		} else {
			b.WriteString("paths:\n  /a:\n    get:\n      parameters:\n" + prm + "      responses:\n        \"200\":\n          description: ok\n")
		}
	}
	b.WriteString("definitions:\n  Base:\n    type: object\n    properties:\n      x:\n        type: string\n")
	b.WriteString("  Loop:\n    type: object\n    properties:\n      name:\n        type: string\n")
	ent("EDef", "Sch (KObj false) []") // Base
	usesLoop := strings.HasPrefix(fault, "circ")
	exact := true
	if place == "def" {
		if usesLoop {
			// the faulty tree sits INSIDE Loop (an inline object composed of its container). convertSpec enters Loop
			// unmarked, so the member is not circular at the first meeting: Loop's value is loaded again below it, now
			// marked, and the second meeting is the circular one.
			b.WriteString("      inner:\n" + s.yaml("        ", loop, &cnt))
			pass2 := "Sch (KObj false) [(VField, " + orEmpty(s.fieldTerm(circHit)) + ")]"
			pass1 := s.fieldTerm("(VAllOf false, " + pass2 + ")")
			ent("EDef", "Sch (KObj false) [(VField, "+orEmpty(pass1)+")]")
		} else {
			ent("EDef", "Sch (KObj false) []") // Loop
			b.WriteString("  Top:\n" + s.yaml("    ", loop, &cnt))
			topTerm := s.term(loopPlain)
			if s.Kind == "arr" && !s.NoItems && (s.Kids[0].Circ || s.Kids[0].S.Kind == "leaf") {
				topTerm = "Sch (KArr false) []"
			}
			ent("EDef", topTerm)
		}
	} else {
		ent("EDef", "Sch (KObj false) []") // Loop
		switch place {
		case "resp":
			ent("EResp", orEmpty(s.fieldTerm(loopPlain)))
		case "body":
			ent("EBody", orEmpty(s.fieldTerm(loopPlain)))
		}
	}
	if fault == "badref" {
		exact = false // the loader refuses the document before the importer sees it: entries do not apply
		entries = nil
	}
	if place == "param" || place == "pathparam" {
		exact = false
	}
	return impDoc{text: b.String(), entries: common.GList(entries), note: fmt.Sprintf("swagger error document: %s at depth %d in %s", fault, depth, place),
		fails: s.fails() && place != "param" && place != "pathparam", exact: exact}
}

func orEmpty(t string) string {
	if t == "" {
		return "Sch KLeaf []"
	}
	return t
}

// the documents of the seeding round, literally
func impFixedDocs() []impDoc {
	hdr := "swagger: \"2.0\"\ninfo:\n  title: Demo\n  version: \"1.0\"\npaths: {}\n"
	base := "definitions:\n  Base:\n    type: object\n    properties:\n      x:\n        type: string\n"
	return []impDoc{
		{text: hdr + base + "  Outer:\n    type: object\n    properties:\n      inner:\n        type: object\n        allOf:\n          - $ref: '#/definitions/Base'\n        properties:\n          x:\n            type: integer\n",
			entries: "[EDef (Sch (KObj false) []); EDef (Sch (KObj false) [(VField, Sch (KObj true) [])])]", note: "swagger error document: duplicate field in an inline object", fails: true, exact: true},
		{text: hdr + base + "  Outer:\n    type: object\n    properties:\n      mid:\n        type: object\n        properties:\n          inner:\n            type: object\n            allOf:\n              - $ref: '#/definitions/Base'\n            properties:\n              x:\n                type: integer\n",
			entries: "[EDef (Sch (KObj false) []); EDef (Sch (KObj false) [(VField, Sch (KObj false) [(VField, Sch (KObj true) [])])])]", note: "swagger error document: duplicate field two levels down", fails: true, exact: true},
		{text: hdr + "definitions:\n  Outer:\n    type: object\n    properties:\n      name:\n        type: string\n      inner:\n        type: object\n        allOf:\n          - $ref: '#/definitions/Outer'\n",
			entries: "[EDef (Sch (KObj false) [(VField, Sch (KObj false) [(VAllOf false, Sch (KObj false) [(VField, Sch (KObj false) [(VAllOf true, Sch KLeaf [])])])])])]", note: "swagger error document: inline object composed of its container", fails: true, exact: true},
		{text: hdr + base + "  Outer:\n    type: object\n    properties:\n      inner:\n        type: object\n        allOf:\n          - $ref: '#/definitions/Base'\n        properties:\n          y:\n            type: integer\n",
			entries: "[EDef (Sch (KObj false) []); EDef (Sch (KObj false) [(VField, Sch (KObj false) [(VAllOf false, Sch (KObj false) [])])])]", note: "swagger control document: the same nesting without a conflict", fails: false, exact: true},
		{text: hdr + "definitions:\n  A:\n    type: array\n", entries: "[EDef (Sch (KArr true) [])]", note: "swagger error document: definition of type array without items", fails: true, exact: true},
	}
}

func impErrRun(d impDoc, k int) *Run {
	return &Run{Class: "import-swagger", Files: map[string]string{"spec.yaml": d.text}, Note: d.note,
		Argv: []string{"import", "-i", "spec.yaml", "-a", "Imported", "-f", "swagger", "-o", fmt.Sprintf("out%d/imported.sysl", k)}}
}

// ---------------------------------------------------------------- the other formats: failing documents, oracle only
func nestXSD(inner string, depth int) string {
	for d := 0; d < depth; d++ {
		inner = fmt.Sprintf("<xs:element name=\"n%d\"><xs:complexType><xs:sequence>%s</xs:sequence></xs:complexType></xs:element>", d, inner)
	}
	return inner
}

func otherErrDocs(r *common.Rng, thorough bool) []*Run {
	var runs []*Run
	k := 0
	add := func(format, file, content, note string, extra ...string) {
		argv := append([]string{"import", "-i", file, "-a", "Imported", "-f", format, "-o", fmt.Sprintf("out%d/imported.sysl", k)}, extra...)
		k++
		runs = append(runs, &Run{Class: "import-" + format, Files: map[string]string{file: content}, Argv: argv, Note: "failing " + format + " document: " + note})
	}
	depth := 1 + r.Intn(4)
	// XSD: unknown type, duplicate element, extension of an undefined / own base, nested anonymous types
	xsd := func(body string) string {
		return "<?xml version=\"1.0\"?>\n<xs:schema xmlns:xs=\"http://www.w3.org/2001/XMLSchema\">\n" + body + "\n</xs:schema>\n"
	}
	xsdFaults := map[string]string{
		"unknown-type":      "<xs:element name=\"f\" type=\"Nope\"/>",
		"duplicate-element": "<xs:element name=\"f\" type=\"xs:int\"/><xs:element name=\"f\" type=\"xs:string\"/>",
		"ref-unknown":       "<xs:element ref=\"Nope\"/>",
		"empty-name":        "<xs:element name=\"\" type=\"xs:int\"/>",
		"no-type":           "<xs:element name=\"f\"/>",
	}
	for n, f := range xsdFaults {
		if thorough || r.Chance(1, 2) {
			add("xsd", "spec.xsd", xsd("<xs:element name=\"Root\" type=\"T\"/><xs:complexType name=\"T\"><xs:sequence>"+nestXSD(f, depth)+"</xs:sequence></xs:complexType>"), fmt.Sprintf("%s at depth %d", n, depth))
		}
	}
	add("xsd", "spec.xsd", xsd("<xs:complexType name=\"T\"><xs:complexContent><xs:extension base=\"T\"><xs:sequence><xs:element name=\"f\" type=\"xs:int\"/></xs:sequence></xs:extension></xs:complexContent></xs:complexType>"), "type extending itself")
	add("xsd", "spec.xsd", xsd("<xs:complexType name=\"A\"><xs:complexContent><xs:extension base=\"B\"><xs:sequence><xs:element name=\"f\" type=\"xs:int\"/></xs:sequence></xs:extension></xs:complexContent></xs:complexType>"+
		"<xs:complexType name=\"B\"><xs:complexContent><xs:extension base=\"A\"><xs:sequence><xs:element name=\"g\" type=\"A\"/></xs:sequence></xs:extension></xs:complexContent></xs:complexType>"+
		"<xs:complexType name=\"C\"><xs:complexContent><xs:extension base=\"A\"><xs:sequence/></xs:extension></xs:complexContent></xs:complexType>"), "two types extending each other")
	add("xsd", "spec.xsd", xsd("<xs:complexType name=\"T\"><xs:complexContent><xs:extension base=\"Nope\"><xs:sequence/></xs:extension></xs:complexContent></xs:complexType>"), "extension of an undefined base")
	add("xsd", "spec.xsd", "<?xml version=\"1.0\"?>\n<xs:schema xmlns:xs=\"http://www.w3.org/2001/XMLSchema\"><xs:complexType name=\"T\">", "truncated document")
	// Avro: unknown type, duplicate field, nested records
	avroInner := map[string]string{
		"unknown-type":    `{"name":"f","type":"Nope"}`,
		"duplicate-field": `{"name":"f","type":"int"},{"name":"f","type":"string"}`,
		"array-no-items":  `{"name":"f","type":{"type":"array"}}`,
		"map-no-values":   `{"name":"f","type":{"type":"map"}}`,
		"enum-no-symbols": `{"name":"f","type":{"type":"enum","name":"E"}}`,
		"union-in-union":  `{"name":"f","type":["null",["int","string"]]}`,
	}
	for n, f := range avroInner {
		if thorough || r.Chance(1, 2) {
			doc := f
			for d := 0; d < depth; d++ {
				doc = fmt.Sprintf(`{"name":"n%d","type":{"type":"record","name":"R%d","fields":[%s]}}`, d, d, doc)
			}
			add("avro", "spec.avsc", `{"type":"record","name":"Top","fields":[`+doc+`]}`, fmt.Sprintf("%s at depth %d", n, depth))
		}
	}
	add("avro", "spec.avsc", `{"type":"record","name":"Top","fields":[{"name":"f"`, "truncated document")
	add("avro", "spec.avsc", `{"type":"record","fields":[]}`, "record without a name")
	add("avro", "spec.avsc", `[]`, "not a record")
	// SQL
	sqlFaults := map[string]string{
		"missing-table":    "CREATE TABLE a (id int primary key, f int references nope(id));",
		"duplicate-column": "CREATE TABLE a (id int primary key, id int);",
		"duplicate-table":  "CREATE TABLE a (id int primary key);\nCREATE TABLE a (id int primary key);",
		"syntax":           "CREATE TABLE a (id int primary key,",
		"self-fk":          "CREATE TABLE a (id int primary key, p int references a(nocol));",
		"empty":            "",
		"unknown-type":     "CREATE TABLE a (id nosuchtype primary key);",
	}
	for n, f := range sqlFaults {
		for _, dialect := range []string{"postgres", "mysql", "spannerSQL", "bigquery"} {
			if thorough || r.Chance(1, 3) {
				txt := f
				if dialect == "spannerSQL" || dialect == "bigquery" {
					txt = strings.ReplaceAll(strings.ReplaceAll(txt, " int primary key", " INT64 NOT NULL"), " int", " INT64")
				}
				add(dialect, "spec.sql", txt, n)
			}
		}
	}
	// the arr.ai based importers are slow: a few each
	protoFaults := map[string]string{
		"unknown-message":  "syntax = \"proto3\";\npackage p;\nmessage A {\n  Nope f = 1;\n}\n",
		"duplicate-number": "syntax = \"proto3\";\npackage p;\nmessage A {\n  int32 f = 1;\n  int32 g = 1;\n}\n",
		"nested-unknown":   "syntax = \"proto3\";\npackage p;\nmessage A {\n  message B {\n    message C {\n      Nope f = 1;\n    }\n  }\n  B b = 1;\n}\nservice S {\n  rpc Do(Nope) returns (A);\n}\n",
		"syntax":           "syntax = \"proto3\";\nmessage A {\n  int32 f = ;\n",
	}
	oa3 := func(schema string) string {
		return "openapi: \"3.0.0\"\ninfo:\n  title: T\n  version: \"1\"\npaths:\n  /a:\n    get:\n      responses:\n        \"200\":\n          description: ok\n          content:\n            application/json:\n              schema:\n" + schema + "components:\n  schemas:\n    Base:\n      type: object\n      properties:\n        x:\n          type: string\n"
	}
	oa3Faults := map[string]string{
		"duplicate-allof": "                type: object\n                properties:\n                  inner:\n                    type: object\n                    allOf:\n                      - $ref: '#/components/schemas/Base'\n                    properties:\n                      x:\n                        type: integer\n",
		"unknown-ref":     "                type: object\n                properties:\n                  inner:\n                    type: object\n                    properties:\n                      x:\n                        $ref: '#/components/schemas/Nope'\n",
		"array-no-items":  "                type: object\n                properties:\n                  inner:\n                    type: array\n",
		"unknown-type":    "                type: object\n                properties:\n                  inner:\n                    type: nosuchtype\n",
	}
	jsFaults := map[string]string{
		"unknown-ref":    `{"$schema":"http://json-schema.org/draft-07/schema#","title":"A","type":"object","properties":{"a":{"type":"object","properties":{"b":{"$ref":"#/definitions/Nope"}}}}}`,
		"array-no-items": `{"$schema":"http://json-schema.org/draft-07/schema#","title":"A","type":"object","properties":{"a":{"type":"object","properties":{"b":{"type":"array"}}}}}`,
		"truncated":      `{"$schema":"http://json-schema.org/draft-07/schema#","title":"A","type":"object","properties":{"a":`,
	}
	n := 1
	if thorough {
		n = 4
	}
	pickSome := func(m map[string]string, f func(name, doc string)) {
		var ks []string
		for k := range m {
			ks = append(ks, k)
		}
		for i := range ks {
			for j := i + 1; j < len(ks); j++ {
				if ks[j] < ks[i] {
					ks[i], ks[j] = ks[j], ks[i]
				}
			}
		}
		for i := 0; i < n && len(ks) > 0; i++ {
			j := r.Intn(len(ks))
			f(ks[j], m[ks[j]])
			ks = append(ks[:j], ks[j+1:]...)
		}
	}
	pickSome(protoFaults, func(name, doc string) { add("protobuf", "spec.proto", doc, name) })
	pickSome(oa3Faults, func(name, doc string) { add("openapi3", "spec.yaml", oa3(doc), name) })
	pickSome(jsFaults, func(name, doc string) { add("jsonschema", "spec.json", doc, name) })
	return runs
}
