// Generator of untidy-but-valid Sysl models for C20: an abstract source model (apps, endpoints with
// statement trees, types, tables, a project app) rendered to Sysl text. "Untidy" = everything the
// compiler accepts with at most a lint warning: calls to undefined apps / endpoints, dangling, self and
// cyclic type references, tables referencing missing tables or columns, empty apps, call cycles,
// pass-through cycles, project views naming apps that do not exist.
package main

import (
	"fmt"
	"strings"

	"verifharness/common"
)

type SStmt struct {
	K    string  `json:"k"` // call ret act if else for loop until alt
	App  string  `json:"app,omitempty"`
	Ep   string  `json:"ep,omitempty"`
	Text string  `json:"text,omitempty"`
	Body []SStmt `json:"body,omitempty"`
	// attributes of a call statement (`App <- Ep [owner="w"]`): what a format string's %(@owner) reads
	Attrs []string `json:"attrs,omitempty"`
}
type SEp struct {
	Name   string   `json:"name"` // RPC: the name; REST: "GET /a/{id}"
	Rest   bool     `json:"rest,omitempty"`
	Method string   `json:"method,omitempty"`
	Path   string   `json:"path,omitempty"`
	Attrs  []string `json:"attrs,omitempty"`
	Params string   `json:"params,omitempty"` // "(h <: string [~header, name=\"h\"], b <: Foo [~body])"
	Query  string   `json:"query,omitempty"`  // "?q=string&r=Foo"
	NoRet  bool     `json:"noret,omitempty"`
	Stmts  []SStmt  `json:"stmts,omitempty"`
}
type SField struct {
	Name string `json:"name"`
	Type string `json:"type"`
	PK   bool   `json:"pk,omitempty"`
}
type SType struct {
	Name   string   `json:"name"`
	Kind   string   `json:"kind"` // type table enum alias
	Fields []SField `json:"fields,omitempty"`
	Alias  string   `json:"alias,omitempty"`
}
type SApp struct {
	Name  string   `json:"name"`
	Attrs []string `json:"attrs,omitempty"`
	Eps   []SEp    `json:"eps,omitempty"`
	Types []SType  `json:"types,omitempty"`
}
type SView struct {
	Name  string   `json:"name"`
	Apps  []string `json:"apps"`
	Pass  []string `json:"pass,omitempty"`
	Excl  []string `json:"excl,omitempty"`
	Attrs []string `json:"attrs,omitempty"`
	Calls []SStmt  `json:"calls,omitempty"` // call statements of the view (what `sd -a Project` starts from)
}
type SModel struct {
	Shape   string  `json:"shape"`
	Apps    []SApp  `json:"apps"`
	Project string  `json:"project,omitempty"`
	Views   []SView `json:"views,omitempty"`
	// further attributes of the project application: epfmt / appfmt / seqtitle / title format strings
	ProjAttrs []string `json:"projattrs,omitempty"`
}

// ---------------------------------------------------------------- rendering
func attrStr(a []string) string {
	if len(a) == 0 {
		return ""
	}
	return " [" + strings.Join(a, ", ") + "]"
}

func renderStmts(b *strings.Builder, ind string, ss []SStmt) {
	if len(ss) == 0 {
		b.WriteString(ind + "...\n")
		return
	}
	for _, s := range ss {
		switch s.K {
		case "call":
			fmt.Fprintf(b, "%s%s <- %s%s\n", ind, s.App, s.Ep, attrStr(s.Attrs))
		case "ret":
			fmt.Fprintf(b, "%sreturn %s\n", ind, s.Text)
		case "act":
			fmt.Fprintf(b, "%s%s\n", ind, s.Text)
		case "if":
			fmt.Fprintf(b, "%sif %s:\n", ind, s.Text)
			renderStmts(b, ind+"    ", s.Body)
		case "else":
			fmt.Fprintf(b, "%selse:\n", ind)
			renderStmts(b, ind+"    ", s.Body)
		case "for":
			fmt.Fprintf(b, "%sfor each %s:\n", ind, s.Text)
			renderStmts(b, ind+"    ", s.Body)
		case "loop":
			fmt.Fprintf(b, "%sloop %s:\n", ind, s.Text)
			renderStmts(b, ind+"    ", s.Body)
		case "until":
			fmt.Fprintf(b, "%suntil %s:\n", ind, s.Text)
			renderStmts(b, ind+"    ", s.Body)
		case "alt":
			fmt.Fprintf(b, "%sone of:\n", ind)
			fmt.Fprintf(b, "%s    %s:\n", ind, s.Text)
			renderStmts(b, ind+"        ", s.Body)
		}
	}
}

func (m *SModel) Render() string {
	var b strings.Builder
	for _, a := range m.Apps {
		fmt.Fprintf(&b, "%s%s:\n", a.Name, attrStr(a.Attrs))
		if len(a.Eps) == 0 && len(a.Types) == 0 {
			b.WriteString("    ...\n\n")
			continue
		}
		// REST endpoints grouped by path
		for _, e := range a.Eps {
			if e.Rest {
				ps := ""
				if e.Params != "" {
					ps += " " + e.Params
				}
				if e.Query != "" {
					ps += " " + e.Query
				}
				fmt.Fprintf(&b, "    %s:\n        %s%s%s:\n", e.Path, e.Method, ps, attrStr(e.Attrs))
				renderStmts(&b, "            ", e.Stmts)
			} else {
				ps := ""
				if e.Params != "" {
					ps = " " + e.Params
				}
				fmt.Fprintf(&b, "    %s%s%s:\n", e.Name, ps, attrStr(e.Attrs))
				renderStmts(&b, "        ", e.Stmts)
			}
		}
		for _, t := range a.Types {
			switch t.Kind {
			case "alias":
				fmt.Fprintf(&b, "    !alias %s:\n        %s\n", t.Name, t.Alias)
			case "enum":
				fmt.Fprintf(&b, "    !enum %s:\n", t.Name)
				for i, f := range t.Fields {
					fmt.Fprintf(&b, "        %s: %d\n", f.Name, i+1)
				}
			default:
				fmt.Fprintf(&b, "    !%s %s:\n", t.Kind, t.Name)
				if len(t.Fields) == 0 {
					b.WriteString("        ...\n")
				}
				for _, f := range t.Fields {
					pk := ""
					if f.PK {
						pk = " [~pk]"
					}
					fmt.Fprintf(&b, "        %s <: %s%s\n", f.Name, f.Type, pk)
				}
			}
		}
		b.WriteString("\n")
	}
	if m.Project != "" {
		fmt.Fprintf(&b, "%s%s:\n", m.Project, attrStr(append([]string{"~project"}, m.ProjAttrs...)))
		if len(m.Views) == 0 {
			b.WriteString("    ...\n")
		}
		for _, v := range m.Views {
			at := append([]string{}, v.Attrs...)
			if len(v.Pass) > 0 {
				at = append(at, "passthrough=[\""+strings.Join(v.Pass, "\", \"")+"\"]")
			}
			if len(v.Excl) > 0 {
				at = append(at, "exclude=[\""+strings.Join(v.Excl, "\", \"")+"\"]")
			}
			fmt.Fprintf(&b, "    %s%s:\n", v.Name, attrStr(at))
			if len(v.Apps) == 0 && len(v.Calls) == 0 {
				b.WriteString("        ...\n")
			}
			for _, a := range v.Apps {
				fmt.Fprintf(&b, "        %s\n", a)
			}
			if len(v.Calls) > 0 {
				renderStmts(&b, "        ", v.Calls)
			}
		}
	}
	return b.String()
}

// ---------------------------------------------------------------- fixed shapes (each one names the untidiness it carries)
func call(a, e string) SStmt { return SStmt{K: "call", App: a, Ep: e} }
func ret(t string) SStmt     { return SStmt{K: "ret", Text: t} }

func shapeCorpus() []SModel {
	var out []SModel
	add := func(m SModel) { out = append(out, m) }
	// the probe model of the design round
	add(SModel{Shape: "design-probe", Project: "P",
		Apps: []SApp{
			{Name: "A", Eps: []SEp{{Name: "E1", Stmts: []SStmt{call("Missing", "Nope"), call("B", "NoSuchEp"), call("B", "E2"), ret("ok <: A.Resp")}}},
				Types: []SType{
					{Name: "Resp", Kind: "type", Fields: []SField{{Name: "x", Type: "int"}, {Name: "y", Type: "Ghost"}, {Name: "z", Type: "B.Ghost"}, {Name: "s", Type: "set of Ghost2"}, {Name: "r", Type: "Resp"}}},
					{Name: "T", Kind: "table", Fields: []SField{{Name: "id", Type: "int", PK: true}, {Name: "other", Type: "T.id"}, {Name: "gone", Type: "Lost.id"}, {Name: "gone2", Type: "T.nocol"}}},
					{Name: "U", Kind: "table", Fields: []SField{{Name: "id", Type: "int", PK: true}, {Name: "t", Type: "T.id"}}}}},
			{Name: "B", Eps: []SEp{{Name: "E2", Stmts: []SStmt{call("A", "E1")}}}},
			{Name: "Empty"}},
		Views: []SView{{Name: "V", Apps: []string{"A", "B", "Empty", "Nowhere"}}}})
	// one untidiness at a time
	add(SModel{Shape: "dangling-app", Project: "P", Apps: []SApp{{Name: "A", Eps: []SEp{{Name: "E", Stmts: []SStmt{call("Ghost", "G")}}}}}, Views: []SView{{Name: "V", Apps: []string{"A"}}}})
	add(SModel{Shape: "dangling-endpoint", Project: "P", Apps: []SApp{{Name: "A", Eps: []SEp{{Name: "E", Stmts: []SStmt{call("B", "Nope")}}}}, {Name: "B", Eps: []SEp{{Name: "F", Stmts: []SStmt{ret("ok")}}}}}, Views: []SView{{Name: "V", Apps: []string{"A", "B"}}}})
	add(SModel{Shape: "dangling-nested", Project: "P", Apps: []SApp{{Name: "A", Eps: []SEp{{Name: "E", Stmts: []SStmt{{K: "if", Text: "c", Body: []SStmt{{K: "for", Text: "x in y", Body: []SStmt{call("Ghost", "G")}}}}, {K: "alt", Text: "v1", Body: []SStmt{call("Ghost2", "H")}}}}}}}, Views: []SView{{Name: "V", Apps: []string{"A"}}}})
	add(SModel{Shape: "call-cycle", Project: "P", Apps: []SApp{{Name: "A", Eps: []SEp{{Name: "E", Stmts: []SStmt{call("B", "F")}}}}, {Name: "B", Eps: []SEp{{Name: "F", Stmts: []SStmt{call("A", "E")}}}}}, Views: []SView{{Name: "V", Apps: []string{"A", "B"}}}})
	add(SModel{Shape: "self-call", Project: "P", Apps: []SApp{{Name: "A", Eps: []SEp{{Name: "E", Stmts: []SStmt{call("A", "E"), call("A", "E")}}}}}, Views: []SView{{Name: "V", Apps: []string{"A"}}}})
	add(SModel{Shape: "passthrough-cycle", Project: "P", Apps: []SApp{
		{Name: "A", Eps: []SEp{{Name: "E", Stmts: []SStmt{call("B", "F")}}}},
		{Name: "B", Eps: []SEp{{Name: "F", Stmts: []SStmt{call("C", "G")}}}},
		{Name: "C", Eps: []SEp{{Name: "G", Stmts: []SStmt{call("B", "F")}}}}},
		Views: []SView{{Name: "V", Apps: []string{"A"}, Pass: []string{"B", "C"}}}})
	add(SModel{Shape: "passthrough-dangling", Project: "P", Apps: []SApp{
		{Name: "A", Eps: []SEp{{Name: "E", Stmts: []SStmt{call("B", "F")}}}},
		{Name: "B", Eps: []SEp{{Name: "F", Stmts: []SStmt{call("Ghost", "G"), call("B", "Nope")}}}}},
		Views: []SView{{Name: "V", Apps: []string{"A"}, Pass: []string{"B", "Ghost"}}}})
	add(SModel{Shape: "view-of-missing-apps", Project: "P", Apps: []SApp{{Name: "A", Eps: []SEp{{Name: "E", Stmts: []SStmt{ret("ok")}}}}}, Views: []SView{{Name: "V", Apps: []string{"Nowhere", "A"}, Excl: []string{"Ghost"}}, {Name: "W", Apps: nil}}})
	add(SModel{Shape: "empty-apps", Project: "P", Apps: []SApp{{Name: "A"}, {Name: "B"}}, Views: []SView{{Name: "V", Apps: []string{"A", "B"}}}})
	add(SModel{Shape: "human-target", Project: "P", Apps: []SApp{{Name: "U", Attrs: []string{"~human"}, Eps: []SEp{{Name: "E", Stmts: []SStmt{call("A", "E")}}}}, {Name: "A", Eps: []SEp{{Name: "E", Attrs: []string{"~hidden"}, Stmts: []SStmt{call("U", "E"), call("Ghost", "X")}}}}}, Views: []SView{{Name: "V", Apps: []string{"A", "U"}}}})
	add(SModel{Shape: "rpc-and-rest", Project: "P", Apps: []SApp{{Name: "A", Eps: []SEp{{Name: "Plain", Stmts: []SStmt{ret("ok")}}, {Name: "GET /a/{id}", Rest: true, Method: "GET", Path: "/a/{id <: int}", Stmts: []SStmt{call("A", "Plain"), ret("ok <: A.R")}}},
		Types: []SType{{Name: "R", Kind: "type", Fields: []SField{{Name: "x", Type: "int"}}}}}}, Views: []SView{{Name: "V", Apps: []string{"A"}}}})
	add(SModel{Shape: "rest-only", Project: "P", Apps: []SApp{{Name: "A", Eps: []SEp{{Name: "GET /a", Rest: true, Method: "GET", Path: "/a", Stmts: []SStmt{ret("ok <: Ghost")}}, {Name: "POST /a", Rest: true, Method: "POST", Path: "/a", Stmts: []SStmt{call("Ghost", "GET /x"), ret("200 <: A.R")}}},
		Types: []SType{{Name: "R", Kind: "type", Fields: []SField{{Name: "x", Type: "Ghost"}, {Name: "y", Type: "sequence of Ghost"}, {Name: "me", Type: "R"}}}}}}, Views: []SView{{Name: "V", Apps: []string{"A"}}}})
	// return payload forms (the payload is free text), parameters of reference / collection type in every position
	add(SModel{Shape: "return-forms", Project: "P", Apps: []SApp{{Name: "A", Eps: []SEp{
		{Name: "E0", Stmts: []SStmt{ret("ok <: R")}}, {Name: "E1", Stmts: []SStmt{ret("ok <: A.R")}}, {Name: "E2", Stmts: []SStmt{ret("ok <: sequence of R")}},
		{Name: "E3", Stmts: []SStmt{ret("ok <: Ghost")}}, {Name: "E4", Stmts: []SStmt{ret("ok<:R")}}, {Name: "E5", Stmts: []SStmt{ret("ok <:R")}},
		{Name: "E6", Stmts: []SStmt{ret("<: R")}}, {Name: "E7", Stmts: []SStmt{ret("200 <: set of Ghost")}}, {Name: "E8", Stmts: []SStmt{ret("error")}},
		{Name: "GET /r", Rest: true, Method: "GET", Path: "/r", Stmts: []SStmt{ret("ok<:R"), ret("404 <: Nope.Ghost")}}},
		Types: []SType{{Name: "R", Kind: "type", Fields: []SField{{Name: "x", Type: "int"}}}}}}, Views: []SView{{Name: "V", Apps: []string{"A"}}}})
	add(SModel{Shape: "rest-ref-params", Project: "P", Apps: []SApp{{Name: "A", Eps: []SEp{
		{Name: "GET /a/{id}/{ref}/{g}", Rest: true, Method: "GET", Path: "/a/{id <: int}/{ref <: R}/{g <: Ghost}", Query: "?q=string&r=R&s=Ghost&o=int?&x={R}", Stmts: []SStmt{ret("ok <: R")}},
		{Name: "POST /c", Rest: true, Method: "POST", Path: "/c", Params: "(body <: R [~body], l <: sequence of R [~body])", Stmts: []SStmt{ret("ok <: set of R")}},
		{Name: "PUT /c", Rest: true, Method: "PUT", Path: "/c", Params: "(h <: string [~header, name=\"h\"], hr <: R [~header, name=\"hr\"], hs <: set of Ghost [~header, name=\"hs\"])", Stmts: []SStmt{ret("ok")}},
		{Name: "Rpc", Params: "(a <: R, b <: sequence of Ghost, c <: B.Q)", Stmts: []SStmt{call("A", "PUT /c"), ret("ok <: R")}}},
		Types: []SType{{Name: "R", Kind: "type", Fields: []SField{{Name: "x", Type: "int"}}}}}}, Views: []SView{{Name: "V", Apps: []string{"A"}}}})
	// sequence-diagram start shapes: the start endpoint's last statement is a block that ends in a call to an endpoint without return payload
	add(SModel{Shape: "tail-block-call", Project: "P", Apps: []SApp{{Name: "A", Eps: []SEp{
		{Name: "E0", Stmts: []SStmt{{K: "act", Text: "prepare"}, {K: "if", Text: "c", Body: []SStmt{call("B", "Quiet")}}}},
		{Name: "E1", Stmts: []SStmt{{K: "for", Text: "x in xs", Body: []SStmt{{K: "act", Text: "work"}, call("B", "Quiet")}}}},
		{Name: "E2", Stmts: []SStmt{{K: "alt", Text: "v", Body: []SStmt{call("B", "Quiet")}}}},
		{Name: "E3", Stmts: []SStmt{{K: "until", Text: "done", Body: []SStmt{{K: "loop", Text: "2 times", Body: []SStmt{call("B", "Loud"), call("B", "Quiet")}}}}}},
		{Name: "E4", Stmts: []SStmt{{K: "if", Text: "c", Body: []SStmt{call("B", "Loud")}}, {K: "else", Body: []SStmt{call("A", "E0")}}}}}},
		{Name: "B", Eps: []SEp{{Name: "Quiet", Stmts: []SStmt{{K: "act", Text: "log"}}}, {Name: "Loud", Stmts: []SStmt{ret("ok <: string")}}}}},
		Views: []SView{{Name: "V", Apps: []string{"A", "B"}}}})
	// type references
	add(SModel{Shape: "type-self-ref", Apps: []SApp{{Name: "A", Types: []SType{{Name: "R", Kind: "type", Fields: []SField{{Name: "me", Type: "R"}, {Name: "us", Type: "set of R"}, {Name: "q", Type: "A.R"}}}}}}})
	add(SModel{Shape: "type-cycle", Apps: []SApp{{Name: "A", Types: []SType{{Name: "R", Kind: "type", Fields: []SField{{Name: "s", Type: "S"}}}, {Name: "S", Kind: "type", Fields: []SField{{Name: "r", Type: "R"}, {Name: "o", Type: "B.Q"}}}}}, {Name: "B", Types: []SType{{Name: "Q", Kind: "type", Fields: []SField{{Name: "r", Type: "A.R"}}}}}}})
	add(SModel{Shape: "type-dangling", Apps: []SApp{{Name: "A", Types: []SType{{Name: "R", Kind: "type", Fields: []SField{{Name: "g", Type: "Ghost"}, {Name: "h", Type: "Nope.Ghost"}, {Name: "i", Type: "A.Ghost"}, {Name: "j", Type: "set of Nope.Ghost"}, {Name: "k", Type: "Ghost.a.b"}}}, {Name: "E", Kind: "type"}}}}})
	add(SModel{Shape: "alias-dangling", Apps: []SApp{{Name: "A", Types: []SType{{Name: "X", Kind: "alias", Alias: "Ghost"}, {Name: "Y", Kind: "alias", Alias: "Y"}, {Name: "Z", Kind: "alias", Alias: "sequence of Ghost"}, {Name: "R", Kind: "type", Fields: []SField{{Name: "x", Type: "X"}, {Name: "y", Type: "Y"}}}}}}})
	// tables
	add(SModel{Shape: "table-self-fk", Apps: []SApp{{Name: "A", Types: []SType{{Name: "T", Kind: "table", Fields: []SField{{Name: "id", Type: "int", PK: true}, {Name: "parent", Type: "T.id"}}}}}}})
	add(SModel{Shape: "table-fk-cycle", Apps: []SApp{{Name: "A", Types: []SType{{Name: "T", Kind: "table", Fields: []SField{{Name: "id", Type: "int", PK: true}, {Name: "u", Type: "U.id"}}}, {Name: "U", Kind: "table", Fields: []SField{{Name: "id", Type: "int", PK: true}, {Name: "t", Type: "T.id"}}}}}}})
	add(SModel{Shape: "table-missing-column", Apps: []SApp{{Name: "A", Types: []SType{{Name: "T", Kind: "table", Fields: []SField{{Name: "id", Type: "int", PK: true}, {Name: "u", Type: "U.nocol"}}}, {Name: "U", Kind: "table", Fields: []SField{{Name: "id", Type: "int", PK: true}}}}}}})
	add(SModel{Shape: "table-missing-table", Apps: []SApp{{Name: "A", Types: []SType{{Name: "T", Kind: "table", Fields: []SField{{Name: "id", Type: "int", PK: true}, {Name: "u", Type: "Gone.id"}}}}}}})
	add(SModel{Shape: "table-bare-ref", Apps: []SApp{{Name: "A", Types: []SType{{Name: "T", Kind: "table", Fields: []SField{{Name: "id", Type: "int", PK: true}, {Name: "w", Type: "Gone"}, {Name: "v", Type: "U"}, {Name: "x", Type: "set of Gone"}}}, {Name: "U", Kind: "table", Fields: []SField{{Name: "id", Type: "int", PK: true}}}}}}})
	add(SModel{Shape: "table-cross-app", Apps: []SApp{{Name: "A", Types: []SType{{Name: "T", Kind: "table", Fields: []SField{{Name: "id", Type: "int", PK: true}, {Name: "b", Type: "B.S.id"}, {Name: "c", Type: "B.S"}}}}}, {Name: "B", Types: []SType{{Name: "S", Kind: "table", Fields: []SField{{Name: "id", Type: "int", PK: true}}}}}}})
	add(SModel{Shape: "table-empty", Apps: []SApp{{Name: "A", Types: []SType{{Name: "T", Kind: "table"}, {Name: "U", Kind: "table", Fields: []SField{{Name: "t", Type: "T.id"}}}}}}})
	add(SModel{Shape: "table-tidy-chain", Apps: []SApp{{Name: "A", Types: []SType{{Name: "T", Kind: "table", Fields: []SField{{Name: "id", Type: "int", PK: true}, {Name: "n", Type: "string(10)"}}}, {Name: "U", Kind: "table", Fields: []SField{{Name: "id", Type: "int", PK: true}, {Name: "t", Type: "T.id"}}}, {Name: "V", Kind: "table", Fields: []SField{{Name: "id", Type: "int", PK: true}, {Name: "u", Type: "U.t"}}}}}}})
	for i := range out {
		if out[i].Project == "" {
			out[i].Project = "P"
			var names []string
			for _, a := range out[i].Apps {
				names = append(names, a.Name)
			}
			out[i].Views = []SView{{Name: "V", Apps: names}}
		}
	}
	return out
}

// ---------------------------------------------------------------- random models
type genCfg struct {
	tidy bool // no untidiness at all (control group)
}

var prims = []string{"int", "string", "bool", "date", "decimal(8.2)", "string(20)", "float", "int64"}
var methods = []string{"GET", "POST", "PUT", "DELETE", "PATCH"}

func pick(r *common.Rng, xs []string) string { return xs[r.Intn(len(xs))] }

func genModel(r *common.Rng, cfg genCfg) SModel {
	m := SModel{Shape: "random", Project: "Proj"}
	if cfg.tidy {
		m.Shape = "random-tidy"
	}
	na := 1 + r.Intn(5)
	appNames := make([]string, na)
	for i := range appNames {
		appNames[i] = fmt.Sprintf("App%d", i)
	}
	// decide endpoints and types first so that references can be resolved (or not) on purpose
	type epref struct {
		app, ep string
		noret   bool
	}
	var allEps []epref
	epsOf := map[string][]string{}
	typesOf := map[string][]string{}
	tablesOf := map[string][]string{}
	colsOf := map[string][]string{}
	apps := make([]SApp, na)
	for i, an := range appNames {
		apps[i].Name = an
		if !cfg.tidy && r.Chance(1, 8) {
			continue // empty app
		}
		if r.Chance(1, 10) {
			apps[i].Attrs = append(apps[i].Attrs, "~human")
		}
		ne := r.Intn(4)
		for j := 0; j < ne; j++ {
			var e SEp
			if r.Chance(1, 3) {
				e.Rest = true
				e.Method = methods[(j+r.Intn(2))%len(methods)]
				e.Path = fmt.Sprintf("/r%d", j)
				nm := e.Path
				if r.Bool() {
					e.Path += "/{id <: int}"
					nm += "/{id}"
				}
				e.Name = e.Method + " " + nm
			} else {
				e.Name = fmt.Sprintf("Ep%d", j)
			}
			if r.Chance(1, 8) {
				e.Attrs = append(e.Attrs, "~hidden")
			}
			e.NoRet = r.Chance(1, 3)
			ptype := func() string { // parameter types: primitive, own type, other app's type, undefined
				if cfg.tidy {
					return pick(r, []string{"int", "string", "bool"})
				}
				switch r.Intn(6) {
				case 0:
					return "Ty0"
				case 1:
					return appNames[r.Intn(na)] + ".Ty0"
				case 2:
					if cfg.tidy {
						return "int"
					}
					return "Ghost"
				default:
					return pick(r, []string{"int", "string", "bool"})
				}
			}
			coll := func(t string) string {
				switch r.Intn(4) {
				case 0:
					return "sequence of " + t
				case 1:
					return "set of " + t
				}
				return t
			}
			if e.Rest {
				if r.Chance(1, 3) { // a second, typed path parameter
					t := ptype()
					e.Path += "/{p <: " + t + "}"
					e.Name += "/{p}"
				}
				if r.Chance(1, 2) {
					qt := ptype() // the query grammar takes no dotted names
					if i := strings.LastIndex(qt, "."); i >= 0 {
						qt = qt[i+1:]
					}
					q := []string{"q=" + qt}
					if r.Bool() {
						q = append(q, "o="+pick(r, []string{"int?", "string?", "{Ty0}"}))
					}
					e.Query = "?" + strings.Join(q, "&")
				}
				if r.Chance(1, 3) {
					var ps []string
					if r.Bool() {
						ps = append(ps, "hdr <: "+coll(ptype())+" [~header, name=\"hdr\"]")
					}
					if r.Bool() || len(ps) == 0 {
						ps = append(ps, "body <: "+coll(ptype())+" [~body]")
					}
					e.Params = "(" + strings.Join(ps, ", ") + ")"
				}
			} else if r.Chance(1, 4) {
				e.Params = "(a <: " + coll(ptype()) + ")"
			}
			dup := false
			for _, x := range apps[i].Eps {
				if x.Name == e.Name || (x.Rest && e.Rest && x.Path == e.Path && x.Method == e.Method) {
					dup = true
				}
			}
			if dup {
				continue
			}
			apps[i].Eps = append(apps[i].Eps, e)
			epsOf[an] = append(epsOf[an], e.Name)
			allEps = append(allEps, epref{an, e.Name, e.NoRet})
		}
		nt := r.Intn(3)
		for j := 0; j < nt; j++ {
			tn := fmt.Sprintf("Ty%d", j)
			typesOf[an] = append(typesOf[an], tn)
		}
		nb := r.Intn(4)
		for j := 0; j < nb; j++ {
			tn := fmt.Sprintf("Tb%d", j)
			tablesOf[an] = append(tablesOf[an], tn)
			colsOf[an+"."+tn] = []string{"id"}
		}
	}
	untidy := func(p, q int) bool { return !cfg.tidy && r.Chance(p, q) }
	// statements
	retForms := []string{"ok <: %s", "ok <: %s", "ok<:%s", "ok <:%s", "<: %s", "200 <: %s", "ok <: sequence of %s", "ok <: set of %s"}
	noRet := false
	var genStmts func(an string, depth int) []SStmt
	genStmts = func(an string, depth int) []SStmt {
		n := r.Intn(4)
		if depth == 0 {
			n = 1 + r.Intn(4)
		}
		var ss []SStmt
		for k := 0; k < n; k++ {
			switch x := r.Intn(10); {
			case x < 5:
				var c SStmt
				switch {
				case untidy(1, 5):
					c = call(fmt.Sprintf("Ghost%d", r.Intn(2)), "Gone")
				case untidy(1, 5) && len(allEps) > 0:
					c = call(allEps[r.Intn(len(allEps))].app, "NoSuchEp")
				case len(allEps) > 0:
					e := allEps[r.Intn(len(allEps))]
					c = call(e.app, e.ep)
				default:
					if cfg.tidy {
						continue
					}
					c = call("Ghost0", "Gone")
				}
				ss = append(ss, c)
			case x == 5:
				if noRet {
					continue
				}
				t := "ok"
				form := retForms[0]
				if !cfg.tidy {
					form = pick(r, retForms)
				}
				if ts := typesOf[an]; len(ts) > 0 && r.Bool() {
					tn := pick(r, ts)
					if r.Chance(1, 3) {
						tn = an + "." + tn
					}
					t = fmt.Sprintf(form, tn)
				} else if untidy(1, 3) {
					t = fmt.Sprintf(form, pick(r, []string{"Ghost", "Nope.Ghost"}))
				} else if r.Chance(1, 4) {
					t = "error"
				}
				ss = append(ss, ret(t))
			case x == 6:
				ss = append(ss, SStmt{K: "act", Text: "do something"})
			case depth < 3:
				kinds := []string{"if", "for", "loop", "until", "alt"}
				k := pick(r, kinds)
				txt := map[string]string{"if": "cond", "for": "x in xs", "loop": "3 times", "until": "done", "alt": "choice1"}[k]
				st := SStmt{K: k, Text: txt, Body: genStmts(an, depth+1)}
				ss = append(ss, st)
				if k == "if" && r.Bool() {
					ss = append(ss, SStmt{K: "else", Body: genStmts(an, depth+1)})
				}
			}
		}
		return ss
	}
	var quiet []epref
	for _, e := range allEps {
		if e.noret {
			quiet = append(quiet, e)
		}
	}
	for i := range apps {
		for j := range apps[i].Eps {
			noRet = apps[i].Eps[j].NoRet
			st := genStmts(apps[i].Name, 0)
			// sequence-diagram start shape: the last statement is a block ending in a call to an endpoint without return payload
			if len(quiet) > 0 && r.Chance(1, 3) {
				q := quiet[r.Intn(len(quiet))]
				k := pick(r, []string{"if", "for", "loop", "until", "alt"})
				txt := map[string]string{"if": "cond", "for": "x in xs", "loop": "3 times", "until": "done", "alt": "choice1"}[k]
				body := []SStmt{call(q.app, q.ep)}
				if r.Bool() {
					body = append([]SStmt{{K: "act", Text: "work"}}, body...)
				}
				st = append(st, SStmt{K: k, Text: txt, Body: body})
			}
			apps[i].Eps[j].Stmts = st
		}
	}
	// types and tables
	for i := range apps {
		an := apps[i].Name
		for _, tn := range typesOf[an] {
			t := SType{Name: tn, Kind: "type"}
			nf := r.Intn(4)
			if cfg.tidy && nf == 0 {
				nf = 1
			}
			for k := 0; k < nf; k++ {
				f := SField{Name: fmt.Sprintf("f%d", k)}
				switch x := r.Intn(8); {
				case x < 3 || cfg.tidy && x < 5:
					f.Type = pick(r, prims)
				case x == 3:
					f.Type = pick(r, typesOf[an]) // same app: self ref or cycle
				case x == 4:
					oa := appNames[r.Intn(na)]
					if ts := typesOf[oa]; len(ts) > 0 {
						f.Type = oa + "." + pick(r, ts)
					} else {
						f.Type = oa + ".Ghost"
					}
				case x == 5:
					f.Type = pick(r, []string{"Ghost", "Nope.Ghost", an + ".Ghost"})
				case x == 6:
					f.Type = pick(r, []string{"set of ", "sequence of "}) + pick(r, append([]string{"Ghost", "int"}, typesOf[an]...))
				default:
					if tb := tablesOf[an]; len(tb) > 0 {
						f.Type = pick(r, tb)
					} else {
						f.Type = "string"
					}
				}
				if cfg.tidy && (strings.Contains(f.Type, "Ghost")) {
					f.Type = "int"
				}
				t.Fields = append(t.Fields, f)
			}
			apps[i].Types = append(apps[i].Types, t)
		}
		for bi, tn := range tablesOf[an] {
			t := SType{Name: tn, Kind: "table", Fields: []SField{{Name: "id", Type: "int", PK: true}}}
			nf := r.Intn(4)
			for k := 0; k < nf; k++ {
				f := SField{Name: fmt.Sprintf("c%d", k)}
				switch x := r.Intn(10); {
				case x < 3:
					f.Type = pick(r, prims)
				case x < 6 && bi > 0:
					// tidy FK to an earlier table's existing column
					ot := tablesOf[an][r.Intn(bi)]
					f.Type = ot + "." + pick(r, colsOf[an+"."+ot])
				case cfg.tidy:
					f.Type = pick(r, prims)
				case x == 6:
					f.Type = tn + ".id" // self
				case x == 7:
					ot := pick(r, tablesOf[an]) // any table incl. later ones: cycles
					f.Type = ot + ".id"
				case x == 8:
					f.Type = pick(r, []string{"Gone.id", "Gone", tn + ".nocol", "set of Gone", tn, "Nope.Gone.id"})
				default:
					f.Type = pick(r, prims)
				}
				t.Fields = append(t.Fields, f)
				colsOf[an+"."+tn] = append(colsOf[an+"."+tn], f.Name)
			}
			apps[i].Types = append(apps[i].Types, t)
		}
	}
	m.Apps = apps
	// project views
	nv := 1 + r.Intn(2)
	for v := 0; v < nv; v++ {
		view := SView{Name: fmt.Sprintf("View%d", v)}
		for _, an := range appNames {
			if r.Chance(2, 3) {
				view.Apps = append(view.Apps, an)
			}
		}
		if untidy(1, 4) {
			view.Apps = append(view.Apps, "Nowhere")
		}
		if r.Chance(1, 3) {
			view.Pass = append(view.Pass, appNames[r.Intn(na)])
			if r.Bool() {
				view.Pass = append(view.Pass, appNames[r.Intn(na)])
			}
			if untidy(1, 3) {
				view.Pass = append(view.Pass, "Ghost0")
			}
		}
		if r.Chance(1, 4) {
			view.Excl = append(view.Excl, appNames[r.Intn(na)])
		}
		m.Views = append(m.Views, view)
	}
	return m
}
