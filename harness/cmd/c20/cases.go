// Projection of the compiled module (sysl pb --mode json) to the abstract module of Cmds/Model.v and
// printing of one Gallina case per model: (module, renderer installed?, [(command, observed class)]).
package main

import (
	"encoding/json"
	"fmt"
	"os"
	"os/exec"
	"path/filepath"
	"sort"
	"strings"

	"verifharness/common"
)

type cmdModel struct{}

type caseWriter struct {
	c    *common.Ctx
	cs   *common.Cases
	rend bool
}

func newCaseWriter(c *common.Ctx) *caseWriter {
	_, err := exec.LookPath("google-chrome")
	hdr := "From Coq Require Import List NArith Bool.\nImport ListNotations.\nRequire Import Verif.Cmds.Walk Verif.Cmds.Model Verif.Cmds.Run Verif.Gen.CmdGuards Verif.Base.Harness.\nLocal Open Scope N_scope.\n" +
		"Definition EP := Build_endpoint.\nDefinition CL := Build_call.\nDefinition FD := Build_field.\nDefinition TY := Build_typ.\nDefinition AP := Build_app.\n"
	ftr := "Definition M := Eval vm_compute in mismatches (c20_ok current) cases.\nPrint M.\n"
	per := 16
	if c.Thorough() {
		per = 40
	}
	return &caseWriter{c: c, cs: c.NewCases("c20", hdr, "c20_case", ftr, per), rend: err == nil}
}

type interner struct {
	ids map[string]int
}

func (in *interner) id(s string) string {
	if v, ok := in.ids[s]; ok {
		return fmt.Sprint(v)
	}
	v := len(in.ids) + 1
	in.ids[s] = v
	return fmt.Sprint(v)
}
func (in *interner) list(ss []string) string {
	it := make([]string, len(ss))
	for i, s := range ss {
		it[i] = in.id(s)
	}
	return "[" + strings.Join(it, ";") + "]"
}

type jm = map[string]interface{}

func gm(x interface{}, k string) jm {
	if m, ok := x.(jm); ok {
		if v, ok := m[k].(jm); ok {
			return v
		}
	}
	return nil
}
func gl(x interface{}, k string) []interface{} {
	if m, ok := x.(jm); ok {
		if v, ok := m[k].([]interface{}); ok {
			return v
		}
	}
	return nil
}
func gs(x interface{}, k string) string {
	if m, ok := x.(jm); ok {
		if v, ok := m[k].(string); ok {
			return v
		}
	}
	return ""
}
func strs(xs []interface{}) []string {
	var out []string
	for _, x := range xs {
		if s, ok := x.(string); ok {
			out = append(out, s)
		}
	}
	return out
}
func sortedKeys(m jm) []string {
	var ks []string
	for k := range m {
		ks = append(ks, k)
	}
	sort.Strings(ks)
	return ks
}

// attribute list value: attrs[name].a.elt[*].s
func attrList(attrs jm, name string) []string {
	var out []string
	for _, e := range gl(gm(gm(attrs, name), "a"), "elt") {
		out = append(out, gs(e, "s"))
	}
	return out
}
func hasPattern(attrs jm, p string) bool {
	for _, s := range attrList(attrs, "patterns") {
		if s == p {
			return true
		}
	}
	return false
}

type pcall struct {
	app, ep string
	alt     bool
}

func flatten(stmts []interface{}, alt bool, calls *[]pcall, acts *[]string) {
	for _, s := range stmts {
		st, _ := s.(jm)
		switch {
		case st["call"] != nil:
			c := gm(st, "call")
			*calls = append(*calls, pcall{strings.Join(strs(gl(gm(c, "target"), "part")), " :: "), gs(c, "endpoint"), alt})
		case st["action"] != nil:
			*acts = append(*acts, gs(gm(st, "action"), "action"))
		case st["cond"] != nil:
			flatten(gl(gm(st, "cond"), "stmt"), alt, calls, acts)
		case st["loop"] != nil:
			flatten(gl(gm(st, "loop"), "stmt"), alt, calls, acts)
		case st["loopN"] != nil:
			flatten(gl(gm(st, "loopN"), "stmt"), alt, calls, acts)
		case st["foreach"] != nil:
			flatten(gl(gm(st, "foreach"), "stmt"), alt, calls, acts)
		case st["group"] != nil:
			flatten(gl(gm(st, "group"), "stmt"), alt, calls, acts)
		case st["alt"] != nil:
			for _, ch := range gl(gm(st, "alt"), "choice") {
				flatten(gl(ch, "stmt"), true, calls, acts)
			}
		}
	}
}

func projectModule(raw []byte, in *interner) (string, error) {
	var mod jm
	if err := json.Unmarshal(raw, &mod); err != nil {
		return "", err
	}
	apps := gm(mod, "apps")
	var appTerms []string
	for _, an := range sortedKeys(apps) {
		a := gm(apps, an)
		var epTerms []string
		eps := gm(a, "endpoints")
		for _, en := range sortedKeys(eps) {
			e := gm(eps, en)
			var calls []pcall
			var acts []string
			flatten(gl(e, "stmt"), false, &calls, &acts)
			ct := make([]string, len(calls))
			for i, c := range calls {
				ct[i] = fmt.Sprintf("CL %s %s %s", in.id(c.app), in.id(c.ep), common.GBool(c.alt))
			}
			attrs := gm(e, "attrs")
			// URL then query parameters as exporter.findSwaggerType classifies their types
			var pcs []string
			rp := gm(e, "restParams")
			for _, k := range []string{"urlParam", "queryParam"} {
				for _, prm := range gl(rp, k) {
					pcs = append(pcs, paramClass(gm(prm, "type")))
				}
			}
			// return statements in source order (syslwrapper.ReturnStatements): (nested?, payload contains "<:" but not " <: ")
			var rets []string
			collectRets(gl(e, "stmt"), false, &rets)
			epTerms = append(epTerms, fmt.Sprintf("EP %s %d %s %s %s %s %s %s", in.id(en), len(strings.Split(en, " ")), common.GList(ct),
				in.list(acts), in.list(attrList(attrs, "passthrough")), in.list(attrList(attrs, "exclude")), common.GList(pcs), common.GList(rets)))
		}
		var tyTerms []string
		types := gm(a, "types")
		for _, tn := range sortedKeys(types) {
			t := gm(types, tn)
			rel := gm(t, "relation")
			var fts []string
			if rel != nil {
				ad := gm(rel, "attrDefs")
				for _, fn := range sortedKeys(ad) {
					f := gm(ad, fn)
					auto := false
					for _, pt := range attrList(gm(f, "attrs"), "patterns") {
						if strings.EqualFold(pt, "autoinc") {
							auto = true
						}
					}
					if tr := gm(f, "typeRef"); tr != nil {
						fts = append(fts, fmt.Sprintf("FD %s (Some %s) %s", in.id(fn), in.list(strs(gl(gm(tr, "ref"), "path"))), common.GBool(auto)))
					} else {
						fts = append(fts, fmt.Sprintf("FD %s None %s", in.id(fn), common.GBool(auto)))
					}
				}
			}
			tyTerms = append(tyTerms, fmt.Sprintf("TY %s %s %s", in.id(tn), common.GBool(rel != nil), common.GList(fts)))
		}
		appTerms = append(appTerms, fmt.Sprintf("AP %s %s %s %s", in.id(an), common.GBool(hasPattern(gm(a, "attrs"), "human")), common.GList(epTerms), common.GList(tyTerms)))
	}
	return common.GList(appTerms), nil
}

func paramClass(t jm) string {
	switch {
	case t == nil:
		return "PPrim"
	case t["primitive"] != nil || t["enum"] != nil:
		return "PPrim"
	case t["typeRef"] != nil || t["tuple"] != nil || t["relation"] != nil:
		return "PObj"
	case t["set"] != nil || t["sequence"] != nil || t["list"] != nil || t["map"] != nil || t["oneOf"] != nil || t["noType"] != nil:
		return "PErr"
	}
	return "PPrim" // no type set
}

func flagVal(argv []string, names ...string) (string, bool) {
	for i, a := range argv {
		for _, n := range names {
			if a == n && i+1 < len(argv) {
				return argv[i+1], true
			}
		}
	}
	return "", false
}
func hasFlag(argv []string, names ...string) bool {
	for _, a := range argv {
		for _, n := range names {
			if a == n {
				return true
			}
		}
	}
	return false
}

// cmdTerm: the Cmds/Model.v command for a command line of the matrix ("" = not modelled)
func cmdTerm(r *Run, in *interner) string {
	av := r.Argv
	opt := func(v string, ok bool) string {
		if !ok {
			return "None"
		}
		return "(Some " + in.id(v) + ")"
	}
	switch r.Class {
	case "sd":
		// the plain form only: one start endpoint, no blackboxes, no grouping, default formats
		if len(av) == 6 && av[1] == "-o" && av[3] == "-s" {
			if parts := strings.SplitN(av[4], " <- ", 2); len(parts) == 2 {
				return fmt.Sprintf("CSd %s %s", in.id(parts[0]), in.id(parts[1]))
			}
		}
	case "template":
		var names []string
		for i, x := range av {
			if x == "--app-name" && i+1 < len(av) {
				names = append(names, av[i+1])
			}
		}
		return fmt.Sprintf("CTemplate %s %s", in.list(names), common.GBool(len(names) == 0))
	case "test-rig":
		var vars map[string]interface{}
		if json.Unmarshal([]byte(r.Files["rig.json"]), &vars) == nil {
			var svcs []string
			for k := range vars {
				svcs = append(svcs, k)
			}
			sort.Strings(svcs)
			return "CTestRig " + in.list(svcs)
		}
	case "diagram-sequence":
		a, okA := flagVal(av, "-a")
		e, okE := flagVal(av, "-e")
		if okA && okE {
			return fmt.Sprintf("CMSeq %s %s", in.id(a), in.id(e))
		}
	case "diagram-integration":
		a, ok := flagVal(av, "-a")
		return "CMInt " + opt(a, ok)
	case "ints", "ints-epa", "ints-clustered":
		p, _ := flagVal(av, "-j")
		ex := "[]"
		if x, ok := flagVal(av, "-e"); ok {
			ex = "[" + in.id(x) + "]"
		}
		return fmt.Sprintf("CInts %s %s", in.id(p), ex)
	case "datamodel-direct":
		o, _ := flagVal(av, "-o")
		return "CDmDirect " + common.GBool(strings.Contains(o, "%(epname)"))
	case "datamodel":
		o, _ := flagVal(av, "-o")
		p, _ := flagVal(av, "-j")
		return fmt.Sprintf("CDmProject %s %s", in.id(p), common.GBool(strings.Contains(o, "%(epname)")))
	case "export-swagger", "export-openapi2":
		a, ok := flagVal(av, "-a")
		return "CSwagger " + opt(a, ok)
	case "export-openapi3":
		a, ok := flagVal(av, "-a")
		return "COpenapi3 " + opt(a, ok)
	case "generate-db-scripts":
		a, _ := flagVal(av, "-a")
		return "CDbCreate " + in.list(strings.Split(a, ","))
	}
	return ""
}

func (w *caseWriter) addModel(m *SModel, text string, runs []*Run, obs map[*Run]Obs) {
	if len(runs) == 0 || runs[0].dir == "" {
		return
	}
	// the matrix's `pb --mode json -o outK/m.json` run
	var raw []byte
	for _, r := range runs {
		if r.Class == "pb" && hasFlag(r.Argv, "json") && !hasFlag(r.Argv, "--filter") && !hasFlag(r.Argv, "--split-apps") {
			if o, ok := flagVal(r.Argv, "-o"); ok {
				raw, _ = os.ReadFile(filepath.Join(r.dir, o))
			}
		}
	}
	if len(raw) == 0 {
		w.c.Hist("projection:no-json")
		return
	}
	in := &interner{ids: map[string]int{}}
	mod, err := projectModule(raw, in)
	if err != nil {
		w.c.Hist("projection:bad-json")
		return
	}
	var items []string
	var lines []string
	for _, r := range runs {
		t := cmdTerm(r, in)
		if t == "" {
			continue
		}
		o := obs[r]
		cls := "OErr"
		switch {
		case o.Crash || o.Timeout || o.CPUHang:
			cls = "OCrash"
		case o.RC == 0:
			cls = "OOk"
		}
		items = append(items, fmt.Sprintf("(%s, %s)", t, cls))
		lines = append(lines, strings.Join(r.Argv, " ")+" => "+cls)
		w.c.Hist("modelled:" + strings.SplitN(t, " ", 2)[0])
	}
	w.cs.Add(fmt.Sprintf("(%s,\n   %s,\n   %s)", mod, common.GBool(w.rend), common.GList(items)),
		map[string]interface{}{"shape": m.Shape, "sysl": text, "observed": lines})
}

func (w *caseWriter) close() { w.cs.Close() }

// addDelta: one case per direction of a delta pair: (module of the version given second, [(CDbDelta <module of the first> apps, class)])
func (w *caseWriter) addDelta(p deltaPair, runs []*Run, obs map[*Run]Obs) {
	if len(runs) != 4 || runs[0].dir == "" {
		return
	}
	rawOld, _ := os.ReadFile(filepath.Join(runs[0].dir, "out0/old.json"))
	rawNew, _ := os.ReadFile(filepath.Join(runs[1].dir, "out1/new.json"))
	if len(rawOld) == 0 || len(rawNew) == 0 {
		w.c.Hist("projection:delta-no-json")
		return
	}
	for dirn, r := range runs[2:] {
		in := &interner{ids: map[string]int{}}
		first, second := rawOld, rawNew
		if dirn == 1 {
			first, second = rawNew, rawOld
		}
		m1, err1 := projectModule(first, in)
		m2, err2 := projectModule(second, in)
		if err1 != nil || err2 != nil {
			w.c.Hist("projection:bad-json")
			continue
		}
		a, _ := flagVal(r.Argv, "-a")
		o := obs[r]
		cls := "OErr"
		switch {
		case o.Crash || o.Timeout || o.CPUHang:
			cls = "OCrash"
		case o.RC == 0:
			cls = "OOk"
		}
		w.c.Hist("modelled:CDbDelta")
		w.cs.Add(fmt.Sprintf("(%s,\n   %s,\n   [(CDbDelta %s %s, %s)])", m2, common.GBool(w.rend), m1, in.list(strings.Split(a, ",")), cls),
			map[string]interface{}{"shape": p.shape, "old": r.Files[r.Argv[len(r.Argv)-2]], "new": r.Files[r.Argv[len(r.Argv)-1]], "observed": strings.Join(r.Argv, " ") + " => " + cls})
	}
}

// collectRets: the return statements of a statement list in the order of syslwrapper.ReturnStatements, as (nested, bad)
func collectRets(stmts []interface{}, nested bool, out *[]string) {
	for _, s := range stmts {
		st, _ := s.(jm)
		switch {
		case st["ret"] != nil:
			pl := gs(gm(st, "ret"), "payload")
			*out = append(*out, fmt.Sprintf("(%s, %s)", common.GBool(nested), common.GBool(strings.Contains(pl, "<:") && len(strings.Split(pl, " <: ")) < 2)))
		case st["cond"] != nil:
			collectRets(gl(gm(st, "cond"), "stmt"), true, out)
		case st["loop"] != nil:
			collectRets(gl(gm(st, "loop"), "stmt"), true, out)
		case st["loopN"] != nil:
			collectRets(gl(gm(st, "loopN"), "stmt"), true, out)
		case st["foreach"] != nil:
			collectRets(gl(gm(st, "foreach"), "stmt"), true, out)
		case st["alt"] != nil:
			for _, ch := range gl(gm(st, "alt"), "choice") {
				collectRets(gl(ch, "stmt"), true, out)
			}
		case st["group"] != nil:
			collectRets(gl(gm(st, "group"), "stmt"), true, out)
		}
	}
}
