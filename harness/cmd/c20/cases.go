package main

import "verifharness/common"

type cmdModel struct{}
type caseWriter struct{ c *common.Ctx }

func newCaseWriter(c *common.Ctx) *caseWriter { return &caseWriter{c} }
func (w *caseWriter) addModel(m *SModel, text string, runs []*Run, obs map[*Run]Obs) {}
func (w *caseWriter) close()                                                          {}
