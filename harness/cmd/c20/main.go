// C20: every command ends with output or an error on every valid model.
// Untidy-but-valid models (they must compile: `sysl pb` exits 0) x the CLI command matrix, each run as a
// subprocess of the binary built from the working tree ($VERIF_SYSL_BIN) with a deadline. The oracle is the
// property itself: exit status 0, or a non-zero status with a message; never `panic:` / `fatal error:` /
// `goroutine ` on stderr (a Go panic exits 2 like sysl's ParseError, so the markers decide), never a hang.
// For the commands that have a Coq model (Cmds/Model.v) the compiled module (from `pb --mode json`) is
// projected to the model's abstract module and printed with the observed outcome class.
package main

import (
	"bytes"
	"context"
	"encoding/json"
	"fmt"
	"os"
	"os/exec"
	"path/filepath"
	"sort"
	"strings"
	"sync"
	"syscall"
	"time"

	"verifharness/common"
)

type Run struct {
	Class    string            `json:"class"` // command class (part of the failure key)
	Files    map[string]string `json:"files"` // written into a fresh directory before the run
	Argv     []string          `json:"argv"`  // arguments of the sysl binary, paths relative to that directory
	Note     string            `json:"note,omitempty"`
	Stdin    string            `json:"stdin,omitempty"`    // fed to the process (closed at once when empty)
	Opt      string            `json:"opt,omitempty"`      // option boundary runs: "<flag>:<kind>"
	MustFail bool              `json:"mustfail,omitempty"` // the value cannot be honoured: exit 0 is a failure too
	// filled by execution
	dir string
	cm  *cmdModel
	lim int
	// infrastructure failures (the process could not be started) so far
	attempt int
}

type Obs struct {
	RC       int
	Timeout  bool
	Stderr   string
	Stdout   int
	OutFiles int
	Crash    bool
	CPUHang  bool // killed by the kernel for exceeding the CPU-time limit: the command was spinning
	Site     string
	Dur      time.Duration
}

var syslBin string
var deadline = 40 * time.Second
var cpuLimit = 6 // seconds of CPU time per subprocess (a normal run needs well under one)

var hangMu sync.Mutex
var hangs = map[string]int{}

func hangCount(class string, add int) int {
	hangMu.Lock()
	defer hangMu.Unlock()
	hangs[class] += add
	return hangs[class]
}

func hasCrashMarker(stderr string) bool {
	return strings.Contains(stderr, "panic:") || strings.Contains(stderr, "fatal error:") || strings.Contains(stderr, "goroutine ")
}

func execRun(r *Run) Obs {
	dir := r.dir
	own := false
	if dir == "" {
		d, err := os.MkdirTemp("", "c20run")
		if err != nil {
			panic(err)
		}
		dir, own = d, true
		for n, c := range r.Files {
			os.MkdirAll(filepath.Dir(filepath.Join(dir, n)), 0o755)
			os.WriteFile(filepath.Join(dir, n), []byte(c), 0o644)
		}
	}
	if own {
		defer os.RemoveAll(dir)
	}
	outDir := ""
	for _, a := range r.Argv {
		if i := strings.Index(a, "out"); i == 0 {
			outDir = strings.SplitN(a, "/", 2)[0]
		}
	}
	if outDir != "" {
		os.MkdirAll(filepath.Join(dir, outDir), 0o755)
	}
	ctx, cancel := context.WithTimeout(context.Background(), deadline)
	defer cancel()
	// A CPU-time limit (RLIMIT_CPU via the shell) tells a command that loops forever from one that is merely
	// starved on a busy machine: the kernel kills the spinning process with SIGXCPU after cpuLimit seconds of its
	// own CPU time, long before the wall-clock deadline, whatever the load.
	lim := cpuLimit
	if strings.Contains(r.Class, "import") || strings.Contains(r.Class, "transform") {
		lim = 4 * cpuLimit // the arr.ai based importers legitimately use several seconds
	} else if hangCount(r.Class, 0) >= 3 {
		lim = 2 // this command class has already spun three times: the rest of the class is cut short
	}
	r.lim = lim
	sh := fmt.Sprintf("ulimit -t %d; exec \"$0\" \"$@\"", lim)
	cmd := exec.CommandContext(ctx, "/bin/sh", append([]string{"-c", sh, syslBin}, r.Argv...)...)
	cmd.Dir = dir
	cmd.Env = append(os.Environ(), "SYSL_PLANTUML=http://localhost:1/plantuml", "GOTRACEBACK=single")
	var so, se bytes.Buffer
	cmd.Stdout, cmd.Stderr = &so, &se
	cmd.Stdin = strings.NewReader(r.Stdin)
	cmd.WaitDelay = 10 * time.Second
	t0 := time.Now()
	err := cmd.Run()
	if _, isExit := err.(*exec.ExitError); err != nil && !isExit && ctx.Err() == nil && r.attempt < 3 {
		// the process could not be started or its pipes were not drained in time (fork failure, WaitDelay on a machine
		// other jobs have filled up): that says nothing about sysl - the run is repeated
		r.attempt++
		cancel()
		time.Sleep(200 * time.Millisecond)
		return execRun(r)
	}
	o := Obs{Dur: time.Since(t0), Stdout: so.Len()}
	o.Stderr = se.String()
	if len(o.Stderr) > 1<<16 {
		// a stack overflow trace is huge; the head names the error and the tail-most frames the recursion
		o.Stderr = o.Stderr[:1<<15] + "\n...\n" + o.Stderr[len(o.Stderr)-(1<<15):]
	}
	if ctx.Err() == context.DeadlineExceeded {
		o.Timeout = true
		return o
	}
	if err != nil {
		if ee, ok := err.(*exec.ExitError); ok {
			o.RC = ee.ExitCode()
			if ws, ok := ee.Sys().(syscall.WaitStatus); ok && ws.Signaled() && (ws.Signal() == syscall.SIGXCPU || ws.Signal() == syscall.SIGKILL) && ctx.Err() == nil {
				// killed for its CPU time only if it really used it: a SIGKILL with little CPU time behind it is the
				// kernel's out-of-memory killer at work on a machine that other jobs have filled up - that run says nothing
				// about sysl and is repeated alone like a missed deadline
				used := ee.ProcessState.UserTime() + ee.ProcessState.SystemTime()
				if ws.Signal() == syscall.SIGXCPU || used >= time.Duration(lim-1)*time.Second {
					o.CPUHang = true
					hangCount(r.Class, 1)
					return o
				}
				o.Timeout = true
				return o
			}
		} else {
			o.RC = -2
			o.Stderr += "\nexec: " + err.Error()
		}
	}
	if outDir != "" {
		if es, err := os.ReadDir(filepath.Join(dir, outDir)); err == nil {
			o.OutFiles = len(es)
		}
	}
	if hasCrashMarker(o.Stderr) || o.RC < 0 {
		o.Crash = true
		o.Site = crashSite(o.Stderr)
	}
	return o
}

// crashSite: "file.go:pkg.func" of the first frame of the crashing goroutine that belongs to the sysl module
// (packages under github.com/anz-bank/sysl/ or cmd/sysl's package main). For a stack overflow the frame that
// occurs most often in the (elided) trace is taken: it is the function that recurses.
func crashSite(stderr string) string {
	t := stderr
	if i := strings.Index(t, "\ngoroutine "); i >= 0 {
		t = t[i+1:]
	}
	lines := strings.Split(t, "\n")
	type fr struct{ fn, file string }
	var frames []fr
	for i := 0; i+1 < len(lines); i++ {
		l := strings.TrimSpace(lines[i])
		nx := strings.TrimSpace(lines[i+1])
		if !strings.HasPrefix(nx, "/") || !strings.Contains(nx, ".go:") {
			continue
		}
		inSysl := strings.HasPrefix(l, "github.com/anz-bank/sysl/") || (strings.HasPrefix(l, "main.") && strings.Contains(nx, "/cmd/sysl/"))
		if !inSysl {
			continue
		}
		fn := l
		if j := strings.LastIndex(fn, "("); j > 0 {
			fn = fn[:j]
		}
		fn = fn[strings.LastIndex(fn, "/")+1:]
		file := nx[strings.LastIndex(nx, "/")+1:]
		if k := strings.Index(file, ":"); k >= 0 {
			file = file[:k]
		}
		frames = append(frames, fr{fn, file})
	}
	if len(frames) == 0 {
		if strings.Contains(stderr, "stack overflow") {
			return "stack-overflow"
		}
		return "unknown"
	}
	if strings.Contains(stderr, "stack overflow") {
		cnt := map[fr]int{}
		best := frames[0]
		for _, f := range frames {
			cnt[f]++
		}
		for _, f := range frames {
			if cnt[f] > cnt[best] {
				best = f
			}
		}
		return "stack-overflow@" + best.file + ":" + best.fn
	}
	return frames[0].file + ":" + frames[0].fn
}

func firstLine(s, marker string) string {
	if i := strings.Index(s, marker); i >= 0 {
		s = s[i:]
	}
	if i := strings.Index(s, "\n"); i >= 0 {
		s = s[:i]
	}
	if len(s) > 160 {
		s = s[:160]
	}
	return s
}

// judge: the property itself, nothing else
func judge(c *common.Ctx, r *Run, o Obs) string {
	c.Hist("class:" + r.Class)
	switch {
	case o.CPUHang:
		c.Hist("outcome:hang")
		c.Fail("hang:"+r.Class, fmt.Sprintf("`sysl %s` on %s does not terminate: it was still computing after %d s of CPU time (a normal run needs well under one)", strings.Join(r.Argv, " "), r.Note, r.lim), r)
		return "hang"
	case o.Timeout:
		c.Hist("outcome:hang")
		c.Fail("hang:"+r.Class, fmt.Sprintf("`sysl %s` on %s did not terminate within %s (nor, run alone, within %s)", strings.Join(r.Argv, " "), r.Note, deadline, 3*deadline), r)
		return "hang"
	case o.Crash:
		c.Hist("outcome:crash")
		msg := firstLine(o.Stderr, "panic:")
		if strings.Contains(o.Stderr, "fatal error:") {
			msg = firstLine(o.Stderr, "fatal error:")
		}
		c.Fail("crash:"+r.Class+":"+o.Site, fmt.Sprintf("`sysl %s` on %s dies with a Go runtime trace (exit %d) at %s: %s", strings.Join(r.Argv, " "), r.Note, o.RC, o.Site, msg), r)
		return "crash"
	case o.RC == 0:
		c.Hist("outcome:ok")
		if r.MustFail {
			c.Fail("accepted:"+r.Class+":"+r.Opt, fmt.Sprintf("`sysl %s` (%s) exits 0 although the value cannot be honoured", strings.Join(r.Argv, " "), r.Note), r)
		}
		if o.OutFiles > 0 || o.Stdout > 0 {
			c.Hist("ok-with-output")
		}
		return "ok"
	default:
		c.Hist("outcome:error")
		c.Hist(fmt.Sprintf("error-status:%d", o.RC))
		if strings.TrimSpace(o.Stderr) == "" && o.Stdout == 0 {
			c.Fail("silent-failure:"+r.Class, fmt.Sprintf("`sysl %s` on %s exits with status %d and no message", strings.Join(r.Argv, " "), r.Note, o.RC), r)
		}
		return "error"
	}
}

// ---------------------------------------------------------------- the command matrix for one model
func matrix(rng *common.Rng, m *SModel, text string, thorough bool) []*Run {
	files := map[string]string{"m.sysl": text}
	for n, c := range extraFiles(m) {
		files[n] = c
	}
	var runs []*Run
	k := 0
	add := func(class string, argv ...string) *Run {
		for i, a := range argv {
			argv[i] = strings.ReplaceAll(a, "out/", fmt.Sprintf("out%d/", k))
		}
		k++
		r := &Run{Class: class, Files: files, Argv: argv, Note: fmt.Sprintf("model %s#%08x", m.Shape, digest(text))}
		runs = append(runs, r)
		return r
	}
	addx := func(class string, argv ...string) { // an extra option set: always in thorough, one in five in quick
		if thorough || rng.Intn(5) == 0 {
			add(class, argv...)
		}
	}
	var apps, eps []string // eps as "App <- Ep"
	type ae struct{ a, e string }
	var aes []ae
	for _, a := range m.Apps {
		apps = append(apps, a.Name)
		for _, e := range a.Eps {
			eps = append(eps, a.Name+" <- "+e.Name)
			aes = append(aes, ae{a.Name, e.Name})
		}
	}
	some := func(n int, total int) []int { // up to n distinct indices
		idx := []int{}
		if total <= n || thorough {
			for i := 0; i < total; i++ {
				idx = append(idx, i)
			}
			return idx
		}
		seen := map[int]bool{}
		for len(idx) < n {
			i := rng.Intn(total)
			if !seen[i] {
				seen[i] = true
				idx = append(idx, i)
			}
		}
		sort.Ints(idx)
		return idx
	}
	// pb
	add("pb", "pb", "--mode", "textpb", "-o", "out/m.textpb", "m.sysl")
	add("pb", "pb", "--mode", "json", "-o", "out/m.json", "m.sysl")
	addx("pb", "pb", "--mode", "textpb", "--compact", "m.sysl")
	if len(apps) > 0 {
		addx("pb", "pb", "--mode", "json", "--filter", apps[0], "-o", "out/m.json", "m.sysl")
		addx("pb", "pb", "--mode", "json", "--split-apps", "out/split", "m.sysl")
	}
	add("validate", "validate", "m.sysl")
	// sd
	for i := range eps { // every endpoint of the model is tried as the start endpoint
		add("sd", "sd", "-o", "out/sd.puml", "-s", eps[i], "m.sysl")
	}
	if len(eps) > 0 {
		i := rng.Intn(len(eps))
		addx("sd", "sd", "-o", "out/sd.puml", "-s", eps[i], "-b", eps[rng.Intn(len(eps))]+"=box", "-t", "Title", "m.sysl")
		addx("sd", "sd", "-o", "out/sd.puml", "-s", eps[i], "-g", "owner", "--endpoint_format", "%(epname) %(@x)", "--app_format", "%(appname) %(@y)", "m.sysl")
	}
	addx("sd", "sd", "-o", "out/sd.puml", "-s", "Ghost0 <- Gone", "m.sysl")
	if len(apps) > 0 {
		addx("sd", "sd", "-o", "out/sd.puml", "-s", apps[0]+" <- NoSuchEp", "m.sysl")
		addx("sd", "sd", "-o", "out/%(epname).puml", "-a", apps[rng.Intn(len(apps))], "m.sysl")
	}
	addx("sd", "sd", "-o", "out/%(epname).puml", "-a", m.Project, "m.sysl")
	// ints
	add("ints", "ints", "-o", "out/%(epname).puml", "-j", m.Project, "m.sysl")
	add("ints-epa", "ints", "--epa", "-o", "out/%(epname).puml", "-j", m.Project, "m.sysl")
	add("ints-clustered", "ints", "-c", "-o", "out/%(epname).puml", "-j", m.Project, "-t", "T", "m.sysl")
	if len(apps) > 0 {
		addx("ints", "ints", "-o", "out/%(epname).puml", "-j", m.Project, "-e", apps[rng.Intn(len(apps))], "m.sysl")
		addx("ints", "ints", "-o", "out/%(epname).puml", "-j", apps[0], "m.sysl")
	}
	addx("ints", "ints", "-o", "out/%(epname).puml", "-j", "NoSuchProject", "m.sysl")
	// datamodel
	add("datamodel", "datamodel", "-o", "out/%(epname).puml", "-j", m.Project, "m.sysl")
	addx("datamodel", "datamodel", "-o", "out/dm.puml", "-j", m.Project, "-t", "T", "m.sysl")
	add("datamodel-direct", "datamodel", "-d", "-o", "out/%(epname).puml", "m.sysl")
	addx("datamodel-direct", "datamodel", "-d", "-o", "out/dm.puml", "--class_format", "%(classname) %(@x)", "m.sysl")
	addx("datamodel", "datamodel", "-o", "out/%(epname).puml", "-j", "NoSuchProject", "m.sysl")
	// diagram (mermaid)
	add("diagram-integration", "diagram", "-i", "-o", "out/d.svg", "m.sysl")
	for _, i := range some(1, len(apps)) {
		add("diagram-integration", "diagram", "-i", "-a", apps[i], "-o", "out/d.svg", "m.sysl")
	}
	addx("diagram-integration", "diagram", "-i", "-a", "Ghost0", "-o", "out/d.svg", "m.sysl")
	for _, i := range some(2, len(aes)) {
		add("diagram-sequence", "diagram", "-s", "-a", aes[i].a, "-e", aes[i].e, "-o", "out/d.svg", "m.sysl")
	}
	addx("diagram-sequence", "diagram", "-s", "-a", "Ghost0", "-e", "Gone", "-o", "out/d.svg", "m.sysl")
	if len(apps) > 0 {
		addx("diagram-sequence", "diagram", "-s", "-a", apps[0], "-e", "NoSuchEp", "-o", "out/d.svg", "m.sysl")
	}
	addx("diagram-sequence", "diagram", "-s", "-o", "out/d.svg", "m.sysl")
	add("diagram-data", "diagram", "-d", "-o", "out/d.svg", "m.sysl")
	addx("diagram", "diagram", "-o", "out/d.svg", "m.sysl")
	// export
	for _, f := range []string{"swagger", "openapi2", "openapi3", "spanner", "proto"} {
		if f == "spanner" || f == "proto" {
			addx("export-"+f, "export", "-f", f, "-o", "out/%(appname).yaml", "m.sysl")
		} else {
			add("export-"+f, "export", "-f", f, "-o", "out/%(appname).yaml", "m.sysl")
		}
		for _, i := range some(1, len(apps)) {
			addx("export-"+f, "export", "-f", f, "-a", apps[i], "-o", "out/x.json", "m.sysl")
		}
	}
	addx("export-swagger", "export", "-f", "swagger", "-a", "Ghost0", "-o", "out/x.yaml", "m.sysl")
	addx("export-openapi3", "export", "-f", "openapi3", "-a", "Ghost0", "-o", "out/x.yaml", "m.sysl")
	addx("export", "export", "-f", "nosuchformat", "-o", "out/x.yaml", "m.sysl")
	// database scripts
	if len(apps) > 0 {
		add("generate-db-scripts", "generate-db-scripts", "-o", "out/", "-a", strings.Join(apps, ","), "-d", "postgres", "-t", "T", "m.sysl")
		for _, i := range some(1, len(apps)) {
			add("generate-db-scripts", "generate-db-scripts", "-o", "out/", "-a", apps[i], "-d", "postgres", "-t", "T", "m.sysl")
		}
		addx("generate-db-scripts", "generate-db-scripts", "-o", "out/", "-a", "Ghost0", "-d", "postgres", "-t", "T", "m.sysl")
		addx("generate-db-scripts", "generate-db-scripts", "-o", "out/", "-a", apps[0], "-d", "mysql", "-t", "T", "m.sysl")
	}
	if strings.HasPrefix(m.Shape, "fmt") {
		// the project application carries format strings: the templated sequence diagrams of the project read them
		add("sd", "sd", "-o", "out/%(epname).puml", "-a", "SeqProj", "m.sysl")
		add("sd", "sd", "-o", "out/%(epname).puml", "-a", m.Project, "m.sysl")
	}
	extraMatrix(rng, m, add, func(class string, argv ...string) *Run {
		if thorough || rng.Intn(5) == 0 {
			return add(class, argv...)
		}
		return nil
	})
	return runs
}

// delta runs need two models
func deltaRuns(m1, m2 *SModel, t1, t2 string) []*Run {
	files := map[string]string{"old.sysl": t1, "new.sysl": t2}
	var apps []string
	seen := map[string]bool{}
	for _, m := range []*SModel{m1, m2} {
		for _, a := range m.Apps {
			if !seen[a.Name] {
				seen[a.Name] = true
				apps = append(apps, a.Name)
			}
		}
	}
	if len(apps) == 0 {
		return nil
	}
	note := "models " + m1.Shape + " -> " + m2.Shape
	return []*Run{
		{Class: "generate-db-scripts-delta", Files: files, Note: note, Argv: []string{"generate-db-scripts-delta", "-o", "out0/", "-a", strings.Join(apps, ","), "-d", "postgres", "-t", "T", "old.sysl", "new.sysl"}},
		{Class: "generate-db-scripts-delta", Files: files, Note: note, Argv: []string{"generate-db-scripts-delta", "-o", "out1/", "-a", apps[0], "-d", "postgres", "-t", "T", "new.sysl", "old.sysl"}},
	}
}

// ---------------------------------------------------------------- running
type done struct {
	r *Run
	o Obs
}

func runAll(runs []*Run, workers int) []done {
	out := make([]done, len(runs))
	var wg sync.WaitGroup
	ch := make(chan int)
	for w := 0; w < workers; w++ {
		wg.Add(1)
		go func() {
			defer wg.Done()
			for i := range ch {
				out[i] = done{runs[i], execRun(runs[i])}
			}
		}()
	}
	for i := range runs {
		ch <- i
	}
	close(ch)
	wg.Wait()
	// a deadline missed while several subprocesses share a busy machine is not yet a hang: such runs are
	// repeated alone with three times the deadline, and only a second miss is judged (a real hang misses it again)
	for i := range out {
		// (a non-zero status with nothing on stderr / stdout is repeated as well: on a machine that other jobs have filled up
		// the pipes of a finished child are sometimes closed before they were drained, and the message is lost)
		if o := out[i].o; o.Timeout || (o.RC != 0 && !o.Crash && !o.CPUHang && strings.TrimSpace(o.Stderr) == "" && o.Stdout == 0) {
			retried++
			old := deadline
			deadline = 3 * old
			out[i].o = execRun(runs[i])
			deadline = old
		}
	}
	return out
}

var retried int

func compiles(text string) (bool, Obs) {
	r := &Run{Class: "pb", Files: map[string]string{"m.sysl": text}, Argv: []string{"pb", "--mode", "pb", "-o", "out/m.pb", "m.sysl"}}
	o := execRun(r)
	return o.RC == 0 && !o.Crash && !o.Timeout, o
}

func main() {
	c := common.Setup("C20")
	syslBin = os.Getenv("VERIF_SYSL_BIN")
	if syslBin == "" {
		fmt.Fprintln(os.Stderr, "c20: VERIF_SYSL_BIN not set")
		os.Exit(3)
	}
	if d := os.Getenv("VERIF_C20_DEADLINE"); d != "" {
		if x, err := time.ParseDuration(d); err == nil {
			deadline = x
		}
	}
	workers := 10
	c.Res.Rule = "a case = one (model, command line) subprocess run of the sysl binary built from the working tree; models are generated untidy-but-valid Sysl texts that `sysl pb` compiles with exit 0 (fixed shape corpus + random), foreign specs for import are generated; non-trivial = the model carries at least one untidiness (dangling call target/endpoint, dangling/self/cyclic type reference, table referencing a missing table/column or itself, empty app, call cycle) or the run ends in an error; distinct by (shape or model digest, command line)"

	if c.Replay != "" {
		var r Run
		if err := common.LoadReplay(c.Replay, &r); err != nil {
			fmt.Fprintln(os.Stderr, err)
			os.Exit(3)
		}
		o := execRun(&r)
		if o.Timeout {
			deadline *= 3
			o = execRun(&r)
			deadline /= 3
		}
		cls := judge(c, &r, o)
		c.Count(r.Class, true)
		fmt.Printf("replay: sysl %s -> %s (exit %d)\n%s\n", strings.Join(r.Argv, " "), cls, o.RC, headOf(o.Stderr, 1500))
		c.Finish()
		return
	}

	nShapeRounds, nRandom, nTidy, nImport, nDelta := 1, 9, 2, 1, 4
	if c.Thorough() {
		nRandom, nTidy, nImport, nDelta = 70, 10, 3, 40
	}
	if c.Search {
		nRandom *= 3
	}
	_ = nShapeRounds
	nDense, nDeltaGen := 3, 6
	if c.Thorough() {
		nDense, nDeltaGen = 24, 40
	}
	if c.Search {
		nDense *= 3
		nDeltaGen *= 3
	}
	var models []SModel
	models = append(models, shapeCorpus()...)
	models = append(models, denseShapes()...)
	for i := 0; i < nDense; i++ {
		models = append(models, genDense(c.Rng.Fork()))
	}
	for i := 0; i < nRandom; i++ {
		models = append(models, genModel(c.Rng.Fork(), genCfg{}))
	}
	// format strings in the model's attributes (epfmt / appfmt / seqtitle / title of the project application)
	nFmt, nImpErr := 5, 40
	if c.Thorough() {
		nFmt, nImpErr = 24, 300
	}
	if c.Search {
		nFmt *= 3
		nImpErr *= 3
	}
	models = append(models, fmtShapes()...)
	for i := 0; i < nFmt; i++ {
		models = append(models, genFmtModel(c.Rng.Fork()))
	}
	for i := 0; i < nTidy; i++ {
		models = append(models, genModel(c.Rng.Fork(), genCfg{tidy: true}))
	}
	onlyOpt := os.Getenv("VERIF_C20_ONLY") == "opt" // development aid: the full option matrix alone
	if onlyOpt {
		models, nDeltaGen, nDelta, nImport = models[:1], 0, 0, 0
	}
	cases := newCaseWriter(c)
	xcases := newXCaseWriter(c)
	var compiled []int
	texts := make([]string, len(models))
	// compile gate (parallel)
	gate := make([]*Run, len(models))
	for i := range models {
		texts[i] = models[i].Render()
		gate[i] = &Run{Class: "pb", Files: map[string]string{"m.sysl": texts[i]}, Argv: []string{"pb", "--mode", "pb", "-o", "out/m.pb", "m.sysl"}, Note: "model " + models[i].Shape}
	}
	for i, d := range runAll(gate, workers) {
		c.Hist("shape:" + models[i].Shape)
		if d.o.Crash || d.o.Timeout {
			judge(c, d.r, d.o)
			c.Count(fmt.Sprint("gate", i), true)
			continue
		}
		if d.o.RC != 0 {
			c.Hist("generator:model-rejected-by-compiler")
			if len(c.Res.Notes) < 5 {
				c.Res.Notes = append(c.Res.Notes, "rejected model ("+models[i].Shape+"): "+firstLine(d.o.Stderr, "msg=")+" :: "+headOf(texts[i], 300))
			}
			continue
		}
		compiled = append(compiled, i)
	}
	if len(compiled)*10 < len(models)*9 {
		c.Res.Notes = append(c.Res.Notes, fmt.Sprintf("only %d of %d generated models compile", len(compiled), len(models)))
	}
	// matrix
	var all []*Run
	perModel := map[int][]*Run{}
	for _, i := range compiled {
		rs := matrix(c.Rng.Fork(), &models[i], texts[i], c.Thorough())
		// one directory per model, shared by its runs
		dir, err := os.MkdirTemp("", "c20m")
		if err != nil {
			panic(err)
		}
		defer os.RemoveAll(dir)
		os.WriteFile(filepath.Join(dir, "m.sysl"), []byte(texts[i]), 0o644)
		for n, c := range extraFiles(&models[i]) {
			os.WriteFile(filepath.Join(dir, n), []byte(c), 0o644)
		}
		for _, r := range rs {
			r.dir = dir
		}
		perModel[i] = rs
		all = append(all, rs...)
	}
	// delta pairs
	for k := 0; k < nDelta && len(compiled) > 1; k++ {
		a := compiled[c.Rng.Intn(len(compiled))]
		b := compiled[c.Rng.Intn(len(compiled))]
		all = append(all, deltaRuns(&models[a], &models[b], texts[a], texts[b])...)
	}
	// generated version pairs of one application: every column type kind added / removed / retyped
	pairs := []deltaPair{deltaAllKinds()}
	for k := 0; k < nDeltaGen; k++ {
		pairs = append(pairs, genDeltaPair(c.Rng.Fork()))
	}
	pairRuns := make([][]*Run, len(pairs))
	for k, p := range pairs {
		dir, err := os.MkdirTemp("", "c20d")
		if err != nil {
			panic(err)
		}
		defer os.RemoveAll(dir)
		os.WriteFile(filepath.Join(dir, "old.sysl"), []byte(p.old), 0o644)
		os.WriteFile(filepath.Join(dir, "new.sysl"), []byte(p.new), 0o644)
		pairRuns[k] = deltaPairRuns(p, k)
		for _, r := range pairRuns[k] {
			r.dir = dir
		}
		c.Hist("shape:" + p.shape)
		all = append(all, pairRuns[k]...)
	}
	// every flag of every command with boundary values
	all = append(all, optionRuns(c.Rng.Fork(), c.Thorough() || onlyOpt)...)
	// commands without a model file
	{
		var ts []string
		for _, i := range compiled {
			ts = append(ts, texts[i])
		}
		all = append(all, standaloneRuns(ts)...)
	}
	// imports
	for k := 0; k < nImport; k++ {
		all = append(all, importRuns(c.Rng.Fork())...)
	}
	// imports that FAIL for a semantic reason at every nesting depth (Swagger 2 trees compared in Coq, the other formats oracle only)
	impDocs := impFixedDocs()
	if !onlyOpt {
		ir := c.Rng.Fork()
		for k := 0; k < nImpErr; k++ {
			impDocs = append(impDocs, genImpDoc(ir, impFaults[k%len(impFaults)], impPlaces[ir.Intn(len(impPlaces))], (k/len(impFaults))%5))
		}
		all = append(all, otherErrDocs(c.Rng.Fork(), c.Thorough())...)
	}
	impRuns := make([]*Run, len(impDocs))
	for k, d := range impDocs {
		impRuns[k] = impErrRun(d, k)
		c.Hist("shape:imp-" + strings.SplitN(strings.TrimPrefix(strings.TrimPrefix(d.note, "swagger error document: "), "swagger control document: "), " ", 2)[0])
		all = append(all, impRuns[k])
	}
	t0 := time.Now()
	results := runAll(all, workers)
	c.Res.Extra["deadline_retries"] = retried
	c.Res.Extra["subprocess_wall_s"] = int(time.Since(t0).Seconds())
	byRun := map[*Run]Obs{}
	var slow time.Duration
	for _, d := range results {
		cls := judge(c, d.r, d.o)
		untidy := !strings.Contains(d.r.Note, "tidy") || cls != "ok"
		c.Count(d.r.Note+"|"+strings.Join(d.r.Argv, " "), untidy)
		byRun[d.r] = d.o
		if d.o.Dur > slow {
			slow = d.o.Dur
		}
	}
	c.Res.Extra["slowest_run_ms"] = slow.Milliseconds()
	c.Res.Extra["models_compiled"] = len(compiled)
	c.Res.Extra["models_generated"] = len(models)
	// correspondence cases
	for _, i := range compiled {
		cases.addModel(&models[i], texts[i], perModel[i], byRun)
		if strings.HasPrefix(models[i].Shape, "fmt") {
			xcases.addFmtModel(&models[i], texts[i], perModel[i], byRun)
		}
	}
	for k, d := range impDocs {
		xcases.addImp(d, byRun[impRuns[k]])
	}
	for k, p := range pairs {
		// both versions must compile (the generator's own gate) and a pair whose delta exits 0 must have written the script
		rs := pairRuns[k]
		if o0, o1 := byRun[rs[0]], byRun[rs[1]]; o0.RC != 0 || o1.RC != 0 {
			c.Hist("generator:delta-version-rejected-by-compiler")
			if len(c.Res.Notes) < 8 {
				c.Res.Notes = append(c.Res.Notes, "rejected delta version ("+p.shape+"): "+firstLine(o0.Stderr+o1.Stderr, "msg="))
			}
			continue
		}
		for _, r := range rs[2:] {
			if o := byRun[r]; o.RC == 0 && !o.Crash && o.OutFiles == 0 {
				c.Fail("no-output:"+r.Class, fmt.Sprintf("`sysl %s` on %s exits 0 without writing the script of an application that both versions define", strings.Join(r.Argv, " "), r.Note), r)
			}
		}
		cases.addDelta(p, rs, byRun)
	}
	cases.close()
	xcases.close()
	if len(compiled) > 0 {
		c.Sample(map[string]interface{}{"shape": models[compiled[0]].Shape, "sysl": texts[compiled[0]]})
		if len(compiled) > 30 {
			c.Sample(map[string]interface{}{"shape": models[compiled[30]].Shape, "sysl": texts[compiled[30]]})
		}
	}
	c.Finish()
}

func digest(s string) uint32 {
	h := uint32(2166136261)
	for i := 0; i < len(s); i++ {
		h = (h ^ uint32(s[i])) * 16777619
	}
	return h
}

func headOf(s string, n int) string {
	if len(s) > n {
		return s[:n]
	}
	return s
}

var _ = json.Marshal
