// Small generated foreign specifications for `sysl import`: each format gets a spec with a few
// definitions whose references are, at random, resolved, self-referential, cyclic or dangling.
package main

import (
	"fmt"
	"strings"

	"verifharness/common"
)

func refName(r *common.Rng, self string, others []string) string {
	switch r.Intn(4) {
	case 0:
		return self
	case 1:
		return "Gone"
	default:
		return others[r.Intn(len(others))]
	}
}

func importRuns(r *common.Rng) []*Run {
	names := []string{"Alpha", "Beta", "Gamma"}
	var runs []*Run
	add := func(format, file, content string, extra ...string) {
		argv := []string{"import", "-i", file, "-a", "Imported", "-f", format, "-o", "out0/imported.sysl"}
		argv = append(argv, extra...)
		runs = append(runs, &Run{Class: "import-" + format, Files: map[string]string{file: content}, Argv: argv, Note: "generated " + format + " spec"})
	}
	// openapi3 / swagger
	{
		var defs3, defs2 strings.Builder
		for _, n := range names {
			fmt.Fprintf(&defs3, "    %s:\n      type: object\n      properties:\n        id:\n          type: integer\n", n)
			fmt.Fprintf(&defs2, "  %s:\n    type: object\n    properties:\n      id:\n        type: integer\n", n)
			for k := 0; k < r.Intn(3); k++ {
				t := refName(r, n, names)
				if r.Bool() {
					fmt.Fprintf(&defs3, "        f%d:\n          $ref: '#/components/schemas/%s'\n", k, t)
					fmt.Fprintf(&defs2, "      f%d:\n        $ref: '#/definitions/%s'\n", k, t)
				} else {
					fmt.Fprintf(&defs3, "        f%d:\n          type: array\n          items:\n            $ref: '#/components/schemas/%s'\n", k, t)
					fmt.Fprintf(&defs2, "      f%d:\n        type: array\n        items:\n          $ref: '#/definitions/%s'\n", k, t)
				}
			}
		}
		resp := refName(r, "Alpha", names)
		add("openapi3", "spec.yaml", "openapi: \"3.0.0\"\ninfo:\n  title: T\n  version: \"1\"\npaths:\n  /a/{id}:\n    get:\n      parameters:\n        - name: id\n          in: path\n          required: true\n          schema:\n            type: string\n      responses:\n        \"200\":\n          description: ok\n          content:\n            application/json:\n              schema:\n                $ref: '#/components/schemas/"+resp+"'\ncomponents:\n  schemas:\n"+defs3.String())
		add("swagger", "spec.yaml", "swagger: \"2.0\"\ninfo:\n  title: T\n  version: \"1\"\npaths:\n  /a/{id}:\n    get:\n      parameters:\n        - name: id\n          in: path\n          required: true\n          type: string\n      responses:\n        \"200\":\n          description: ok\n          schema:\n            $ref: '#/definitions/"+resp+"'\ndefinitions:\n"+defs2.String())
	}
	// xsd
	{
		var b strings.Builder
		b.WriteString("<?xml version=\"1.0\"?>\n<xs:schema xmlns:xs=\"http://www.w3.org/2001/XMLSchema\">\n  <xs:element name=\"Root\" type=\"Alpha\"/>\n")
		for _, n := range names {
			fmt.Fprintf(&b, "  <xs:complexType name=\"%s\">\n    <xs:sequence>\n      <xs:element name=\"n\" type=\"xs:int\"/>\n", n)
			for k := 0; k < r.Intn(3); k++ {
				fmt.Fprintf(&b, "      <xs:element name=\"f%d\" type=\"%s\" minOccurs=\"0\"/>\n", k, refName(r, n, names))
			}
			b.WriteString("    </xs:sequence>\n  </xs:complexType>\n")
		}
		b.WriteString("  <xs:complexType name=\"Empty\"/>\n</xs:schema>\n")
		add("xsd", "spec.xsd", b.String())
		// regression corpus: a directly recursive complexType and a two-type cycle (stack overflow before fixes/C20-9)
		add("xsd", "recursive.xsd", "<?xml version=\"1.0\"?>\n<xs:schema xmlns:xs=\"http://www.w3.org/2001/XMLSchema\">\n  <xs:element name=\"Root\" type=\"Node\"/>\n"+
			"  <xs:complexType name=\"Node\">\n    <xs:sequence>\n      <xs:element name=\"v\" type=\"xs:int\"/>\n      <xs:element name=\"next\" type=\"Node\" minOccurs=\"0\"/>\n      <xs:element name=\"other\" type=\"Peer\" minOccurs=\"0\"/>\n    </xs:sequence>\n  </xs:complexType>\n"+
			"  <xs:complexType name=\"Peer\">\n    <xs:sequence>\n      <xs:element name=\"back\" type=\"Node\" minOccurs=\"0\"/>\n    </xs:sequence>\n  </xs:complexType>\n</xs:schema>\n")
	}
	// avro
	{
		t := refName(r, "Alpha", []string{"Alpha", "string", "int"})
		add("avro", "spec.avsc", fmt.Sprintf(`{"type":"record","name":"Alpha","fields":[{"name":"self","type":["null","Alpha"]},{"name":"x","type":"%s"},{"name":"n","type":"int"},{"name":"arr","type":{"type":"array","items":"%s"}}]}`, t, refName(r, "Alpha", []string{"long", "Alpha"})))
	}
	// SQL dialects
	{
		var pg, sp strings.Builder
		tabs := []string{"alpha", "beta", "gamma"}
		for _, n := range tabs {
			fmt.Fprintf(&pg, "CREATE TABLE %s (id int primary key", n)
			fmt.Fprintf(&sp, "CREATE TABLE %s (id INT64 NOT NULL", n)
			var cons []string
			for k := 0; k < r.Intn(3); k++ {
				t := strings.ToLower(refName(r, n, tabs))
				fmt.Fprintf(&pg, ", f%d int references %s(id)", k, t)
				fmt.Fprintf(&sp, ", f%d INT64", k)
				cons = append(cons, fmt.Sprintf("CONSTRAINT fk_%s_%d FOREIGN KEY (f%d) REFERENCES %s (id)", n, k, k, t))
			}
			pg.WriteString(");\n")
			for _, c := range cons {
				sp.WriteString(", " + c)
			}
			sp.WriteString(") PRIMARY KEY (id);\n")
		}
		add("postgres", "spec.sql", pg.String())
		add("mysql", "spec.sql", pg.String())
		add("spannerSQL", "spec.sql", sp.String())
	}
	// protobuf and jsonschema (arr.ai importers: slow, one each)
	{
		var b strings.Builder
		b.WriteString("syntax = \"proto3\";\npackage p;\n")
		for _, n := range names {
			fmt.Fprintf(&b, "message %s {\n  int32 n = 1;\n", n)
			for k := 0; k < r.Intn(3); k++ {
				fmt.Fprintf(&b, "  %s f%d = %d;\n", refName(r, n, names), k, k+2)
			}
			b.WriteString("}\n")
		}
		fmt.Fprintf(&b, "message Empty {}\nservice S {\n  rpc Do(%s) returns (%s);\n}\n", refName(r, "Alpha", names), refName(r, "Beta", names))
		add("protobuf", "spec.proto", b.String())
		add("jsonschema", "spec.json", fmt.Sprintf(`{"$schema":"http://json-schema.org/draft-07/schema#","title":"Alpha","type":"object","properties":{"self":{"$ref":"#"},"x":{"$ref":"#/definitions/%s"},"n":{"type":"integer"}},"definitions":{"Beta":{"type":"object","properties":{"a":{"$ref":"#"},"g":{"$ref":"#/definitions/%s"}}}}}`, refName(r, "Beta", []string{"Beta"}), refName(r, "Beta", []string{"Beta"})))
	}
	return runs
}
