// Round 3, second pass: FORMAT STRINGS IN THE MODEL. A project application may carry epfmt / appfmt / seqtitle / title
// attributes; `sysl sd -a Project` and `sysl ints -j Project` label calls, applications and diagrams with them. The model is
// valid Sysl whatever the attribute's text is, so a format string the parser cannot read - and in particular a search
// expansion %(var~/re/..) whose regular expression does not compile - must end the command with an error message, never
// with a Go panic in the middle of the generation, whether or not a call carries the searched attribute.
// Generated: every expansion form (plain, conditional == / !=, search ~/re/, both, with and without yes / else part, nested)
// with patterns that compile and patterns that do not, over models whose calls / endpoints / applications do or do not
// carry the attribute the format looks at.
package main

import (
	"fmt"
	"regexp"
	"strings"

	"verifharness/common"
)

var rxValid = []string{"^w", "[a-z]+", "w|x", ".*", "a{1,2}", "(?i)W", "house$", "^$"}
var rxInvalid = []string{"[a-z", "(", "a{2,1}", "*a", "(?P<n", "a)", "[z-a]", "x**"}

type fmtGen struct {
	r      *common.Rng
	vars   []string
	badRx  bool // use a pattern that does not compile (once)
	usedRx bool
}

func (g *fmtGen) rx() string {
	if g.badRx && (!g.usedRx || g.r.Chance(1, 3)) {
		g.usedRx = true
		return pick(g.r, rxInvalid)
	}
	return pick(g.r, rxValid)
}

func (g *fmtGen) lit() string {
	return pick(g.r, []string{"", "by ", "yes", "no", " - ", "100%% ", "x y", "[", "]", "<<", "a=b", "q? ", "'s "})
}

func (g *fmtGen) body(depth int) string {
	if depth < 2 && g.r.Chance(1, 2) {
		return g.lit() + g.expansion(depth+1) + g.lit()
	}
	return g.lit()
}

func (g *fmtGen) expansion(depth int) string {
	v := pick(g.r, g.vars)
	var b strings.Builder
	b.WriteString("%(" + v)
	form := g.r.Intn(10)
	if form >= 2 && form <= 4 || form == 8 { // conditional
		b.WriteString(pick(g.r, []string{"==", "!="}) + "'" + pick(g.r, []string{"warehouse", "w", "ops team", "GET"}) + "'")
	}
	if form >= 5 { // search (form 8: both)
		b.WriteString("~/" + g.rx() + "/")
	}
	if form >= 1 {
		switch g.r.Intn(4) {
		case 0:
			b.WriteString(pick(g.r, []string{"?", "="}) + g.body(depth))
		case 1:
			b.WriteString(pick(g.r, []string{"?", "="}) + g.body(depth) + "|" + g.body(depth))
		case 2:
			b.WriteString("|" + g.body(depth))
		}
	}
	b.WriteString(")")
	return b.String()
}

// genFormat: a format string that is well-formed up to its patterns (bad = one pattern does not compile)
func genFormat(r *common.Rng, vars []string, bad bool) string {
	g := &fmtGen{r: r, vars: vars, badRx: bad}
	for try := 0; ; try++ {
		var b strings.Builder
		n := 1 + r.Intn(3)
		for i := 0; i < n; i++ {
			b.WriteString(g.lit())
			b.WriteString(g.expansion(0))
		}
		b.WriteString(g.lit())
		if !bad || g.usedRx || try > 20 {
			if bad && !g.usedRx {
				return b.String() + "%(" + vars[0] + "~/" + pick(r, rxInvalid) + "/?y|n)"
			}
			return b.String()
		}
	}
}

var malformedFormats = []string{"%(", "%(@owner==", "%(epname", "%(appname~/x", "%(@owner=='w'?yes", "text %(", "%(epname?%(appname)"}

func fmtAttr(name, val string) string {
	return name + "=\"" + strings.ReplaceAll(strings.ReplaceAll(val, "\\", "\\\\"), "\"", "\\\"") + "\""
}

// fmtModel: two or three applications calling each other; owner / team attributes on some calls, endpoints and
// applications (carry: none / some / all); the project carries the given format attributes, views for ints (application
// lists) and for sd (call statements)
func fmtModel(r *common.Rng, shape string, projAttrs []string, carry int) SModel {
	own := func(p int) []string { // p in 0..2: chance that the attribute is there
		switch {
		case carry == 0:
			return nil
		case carry == 2 || r.Intn(2) < p:
			return []string{fmtAttr(pick(r, []string{"owner", "owner", "team"}), pick(r, []string{"warehouse", "w", "ops team", "Z"}))}
		}
		return nil
	}
	c := func(a, e string) SStmt { return SStmt{K: "call", App: a, Ep: e, Attrs: own(1)} }
	m := SModel{Shape: shape, Project: "Proj", ProjAttrs: projAttrs}
	m.Apps = []SApp{
		{Name: "Shop", Attrs: own(1), Eps: []SEp{
			{Name: "Order", Attrs: own(1), Stmts: []SStmt{c("Stock", "Reserve"), {K: "if", Text: "paid", Body: []SStmt{c("Stock", "Release"), c("Shop", "Notify")}}, ret("ok <: string")}},
			{Name: "Notify", Stmts: []SStmt{{K: "act", Text: "send mail"}}},
			{Name: "GET /items", Rest: true, Method: "GET", Path: "/items", Attrs: own(1), Stmts: []SStmt{c("Stock", "Reserve"), ret("ok <: string")}}}},
		{Name: "Stock", Attrs: own(1), Eps: []SEp{
			{Name: "Reserve", Attrs: own(1), Stmts: []SStmt{c("Ledger", "Book"), ret("ok <: int")}},
			{Name: "Release", Stmts: []SStmt{c("Ghost", "Gone"), ret("ok")}}}},
		{Name: "Ledger", Attrs: own(2), Eps: []SEp{{Name: "Book", Stmts: []SStmt{{K: "act", Text: "write"}}}}},
	}
	// `sd -a App` draws one diagram per endpoint of App from the endpoint's call statements and gives up at the first
	// endpoint without any: the application the sequence diagrams are made from has call statements in every endpoint
	// and carries the same format attributes as the project of the integration views
	m.Apps = append(m.Apps, SApp{Name: "SeqProj", Attrs: projAttrs, Eps: []SEp{
		{Name: "Buy", Attrs: own(1), Stmts: []SStmt{c("Shop", "Order"), c("Shop", "GET /items")}},
		{Name: "Restock", Stmts: []SStmt{c("Stock", "Release"), {K: "if", Text: "low", Body: []SStmt{c("Stock", "Reserve")}}}}}})
	m.Views = []SView{
		{Name: "All", Apps: []string{"Shop", "Stock", "Ledger"}},
		{Name: "Mixed", Attrs: own(1), Apps: []string{"Shop"}, Calls: []SStmt{c("Shop", "Order")}},
		{Name: "Pass", Apps: []string{"Shop"}, Pass: []string{"Stock"}, Attrs: own(1)},
	}
	if r.Chance(1, 3) {
		m.Views = append(m.Views, SView{Name: "Epa", Apps: []string{"Shop", "Stock"}, Attrs: []string{"view=\"epa\""}})
	}
	return m
}

var epVars = []string{"epname", "@owner", "@owner", "@team", "args", "patterns", "human", "controls", "needs_int"}
var appVars = []string{"appname", "@owner", "@owner", "@team", "controls"}
var titleVars = []string{"epname", "eplongname", "@owner", "@team"}

func fmtShapes() []SModel {
	r := common.NewRng(20)
	bad := "%(@owner~/[a-z/?%(epname) by %(@owner)|%(epname))"
	good := "%(@owner~/^w/?%(epname) by %(@owner)|%(epname))"
	return []SModel{
		fmtModel(r, "fmt-valid-all-forms", []string{fmtAttr("epfmt", good+" %(@team=='ops team'?T|t)%(args)"), fmtAttr("appfmt", "%(appname)%(@owner? of %(@owner))%(controls~/x/| -)"), fmtAttr("seqtitle", "%(epname) %(@owner!='w'=x)")}, 1),
		fmtModel(r, "fmt-bad-rx-epfmt-attr-set", []string{fmtAttr("epfmt", bad)}, 2),
		fmtModel(r, "fmt-bad-rx-epfmt-attr-unset", []string{fmtAttr("epfmt", bad)}, 0),
		fmtModel(r, "fmt-bad-rx-appfmt-attr-set", []string{fmtAttr("appfmt", "%(@owner~/(/?%(appname)!|%(appname))")}, 2),
		fmtModel(r, "fmt-bad-rx-appfmt-attr-unset", []string{fmtAttr("appfmt", "%(@owner~/(/?%(appname)!|%(appname))")}, 0),
		fmtModel(r, "fmt-bad-rx-seqtitle", []string{fmtAttr("seqtitle", "%(@owner~/a{2,1}/?x|%(epname))")}, 2),
		fmtModel(r, "fmt-bad-rx-on-epname", []string{fmtAttr("epfmt", "%(epname~/*a/?y|n)"), fmtAttr("appfmt", "%(appname~/[z-a]/)")}, 1),
		fmtModel(r, "fmt-malformed-appfmt", []string{fmtAttr("appfmt", "%(")}, 1),
		fmtModel(r, "fmt-malformed-epfmt", []string{fmtAttr("epfmt", "%(epname")}, 1),
		fmtModel(r, "fmt-malformed-title", []string{fmtAttr("title", "%(epname=='"), fmtAttr("seqtitle", "%(@owner==")}, 1),
		fmtModel(r, "fmt-bad-rx-title", []string{fmtAttr("title", "%(epname~/(/?a|b)")}, 1),
	}
}

func genFmtModel(r *common.Rng) SModel {
	var attrs []string
	anyBad := false
	wantBad := r.Chance(2, 3)
	for _, a := range []struct {
		name string
		vars []string
	}{{"epfmt", epVars}, {"appfmt", appVars}, {"seqtitle", titleVars}, {"title", titleVars}} {
		if !r.Chance(2, 3) {
			continue
		}
		switch x := r.Intn(10); {
		case x < 5 || !wantBad:
			attrs = append(attrs, fmtAttr(a.name, genFormat(r, a.vars, false)))
		case x < 9:
			attrs = append(attrs, fmtAttr(a.name, genFormat(r, a.vars, true)))
			anyBad = true
		default:
			attrs = append(attrs, fmtAttr(a.name, pick(r, malformedFormats)))
			anyBad = true
		}
	}
	if len(attrs) == 0 {
		attrs = append(attrs, fmtAttr("epfmt", genFormat(r, epVars, wantBad)))
		anyBad = wantBad
	}
	shape := "fmt-random"
	if anyBad {
		shape = "fmt-random-bad"
	}
	return fmtModel(r, shape, attrs, r.Intn(3))
}

// ---------------------------------------------------------------- correspondence: the XFmt case of Cmds/RunX.v
var reSearchAt = regexp.MustCompile(`^~/([^/]+)/`)

// every pattern a search expansion of the string can hold, with regexp.Compile's verdict
func patternsOf(f string, into map[string]bool) {
	for i := 0; i+1 < len(f); i++ {
		if f[i] == '~' && f[i+1] == '/' {
			if m := reSearchAt.FindStringSubmatch(f[i:]); m != nil {
				_, err := regexp.Compile(m[1])
				into[m[1]] = err == nil
			}
		}
	}
}

func strAttrs(attrs jm) map[string]string {
	out := map[string]string{}
	for _, k := range sortedKeys(attrs) {
		out[k] = gs(attrs[k], "s")
	}
	return out
}

func kvTerm(k, v string) string { return "KV " + common.GBytes(k) + " " + common.GBytes(v) }

func useTerm(base [][2]string, attrs map[string]string) string {
	var it []string
	for _, kv := range base {
		it = append(it, kvTerm(kv[0], kv[1]))
	}
	var ks []string
	for k := range attrs {
		ks = append(ks, k)
	}
	// deterministic order
	for i := range ks {
		for j := i + 1; j < len(ks); j++ {
			if ks[j] < ks[i] {
				ks[i], ks[j] = ks[j], ks[i]
			}
		}
	}
	for _, k := range ks {
		it = append(it, kvTerm("@"+k, attrs[k]))
	}
	return common.GList(it)
}

func collectCallUses(stmts []interface{}, out *[]string) {
	for _, s := range stmts {
		st, _ := s.(jm)
		if c := gm(st, "call"); c != nil {
			*out = append(*out, useTerm([][2]string{{"epname", gs(c, "endpoint")}, {"appname", strings.Join(strs(gl(gm(c, "target"), "part")), " :: ")}}, strAttrs(gm(st, "attrs"))))
		}
		for _, k := range []string{"cond", "loop", "loopN", "foreach", "group"} {
			if b := gm(st, k); b != nil {
				collectCallUses(gl(b, "stmt"), out)
			}
		}
		if a := gm(st, "alt"); a != nil {
			for _, ch := range gl(a, "choice") {
				collectCallUses(gl(ch, "stmt"), out)
			}
		}
	}
}

// fmtCaseTerm: (fmts, rx table, uses) of the project application `project` in the compiled module
func fmtCaseParts(raw []byte, project string, names []string) (fmts, rxt, uses string, ok bool) {
	var mod jm
	if jsonUnmarshal(raw, &mod) != nil {
		return "", "", "", false
	}
	apps := gm(mod, "apps")
	pa := strAttrs(gm(gm(apps, project), "attrs"))
	var fs []string
	pats := map[string]bool{}
	for _, n := range names {
		if v := pa[n]; v != "" {
			fs = append(fs, common.GBytes(v))
			patternsOf(v, pats)
		}
	}
	var rt []string
	var pk []string
	for p := range pats {
		pk = append(pk, p)
	}
	for i := range pk {
		for j := i + 1; j < len(pk); j++ {
			if pk[j] < pk[i] {
				pk[i], pk[j] = pk[j], pk[i]
			}
		}
	}
	for _, p := range pk {
		rt = append(rt, fmt.Sprintf("(%s, %s)", common.GBytes(p), common.GBool(pats[p])))
	}
	var us []string
	for _, an := range sortedKeys(apps) {
		a := gm(apps, an)
		aa := strAttrs(gm(a, "attrs"))
		us = append(us, useTerm([][2]string{{"appname", an}}, aa))
		eps := gm(a, "endpoints")
		for _, en := range sortedKeys(eps) {
			e := gm(eps, en)
			merged := map[string]string{}
			for k, v := range aa {
				merged[k] = v
			}
			for k, v := range strAttrs(gm(e, "attrs")) {
				merged[k] = v
			}
			us = append(us, useTerm([][2]string{{"epname", en}, {"eplongname", gs(e, "longName")}, {"appname", en}}, merged))
			collectCallUses(gl(e, "stmt"), &us)
		}
	}
	return common.GList(fs), common.GList(rt), common.GList(us), true
}
