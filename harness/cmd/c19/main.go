// C19: every generator is deterministic. Oracle: each library entry point is run N times in-process on the
// same input (the input is re-parsed for every repetition, so every Go map is rebuilt and every `range`
// re-randomised), the CLI binary is run a few times as a subprocess, and the outputs must be byte-identical.
// Correspondence: the order in which keyed items appear in the real output at the sites listed in
// sites.go is compared inside Coq with what the model (Determ/MapOrder.v) computes from the class that the
// MapRanges translator assigned to that `range` statement.
package main

import (
	"crypto/sha1"
	"encoding/json"
	"fmt"
	"os"
	"path/filepath"
	"regexp"
	"runtime"
	"sort"
	"strings"
	"sync"
	"time"

	"github.com/anz-bank/sysl/pkg/sysl"
	"google.golang.org/protobuf/proto"

	"verifharness/common"
)

type replay struct {
	Generator string `json:"generator"`
	Input     input  `json:"input"`
	Reps      int    `json:"reps"`
	Cli       bool   `json:"cli,omitempty"`
	Note      string `json:"note,omitempty"`
}

func digest(s string) string { return fmt.Sprintf("%x", sha1.Sum([]byte(s)))[:12] }

// firstDiff describes where two outputs start to differ
func firstDiff(a, b string) string {
	la, lb := strings.Split(a, "\n"), strings.Split(b, "\n")
	for i := 0; i < len(la) && i < len(lb); i++ {
		if la[i] != lb[i] {
			return fmt.Sprintf("line %d: %q vs %q", i+1, clip(la[i], 80), clip(lb[i], 80))
		}
	}
	return fmt.Sprintf("length %d vs %d lines", len(la), len(lb))
}
func clip(s string, n int) string {
	if len(s) > n {
		return s[:n] + "..."
	}
	return s
}

// repeat runs every applicable generator reps times on in; returns per generator the list of outputs.
// One parse per repetition; every generator gets its own deep copy of the module.
// key prefix of the "second generation from the same parsed module" pair in the result of repeat
const again = "again:"

// key prefix of the runs of a generator after the other generators ran in another order
const reorder = "reorder:"

func repeat(gens []*generator, in *input, reps int) map[string][]string {
	outs := map[string][]string{}
	for r := 0; r < reps; r++ {
		var m *sysl.Module
		var perr error
		needModel := false
		for _, g := range gens {
			if strings.HasPrefix(g.kind, "sysl") {
				needModel = true
			}
		}
		if needModel {
			t0 := time.Now()
			m, perr = parseFiles(in.Text, in.Files)
			addTime("(parse)", time.Since(t0))
		}
		for _, g := range gens {
			var o string
			if strings.HasPrefix(g.kind, "sysl") {
				if perr != nil {
					o = "PARSE-ERROR: " + perr.Error()
				} else {
					c := proto.Clone(m).(*sysl.Module)
					o = runOn(g, c, in)
					if r == 0 {
						// the SAME module once more, in the same process: a generator must not leave state in the
						// model (or anywhere else) that changes what the next generation produces
						outs[again+g.name] = []string{o, runOn(g, c, in)}
					}
				}
			} else {
				o = runOn(g, nil, in)
			}
			outs[g.name] = append(outs[g.name], o)
		}
		if r == 0 && perr == nil && m != nil {
			// the generators once more in two OTHER orders (reversed; rotated by a third), each on a fresh copy of the
			// parsed module: what a generator leaves behind in package-level state must not change what another one
			// (or itself) produces afterwards
			n := len(gens)
			for _, ord := range [][2]int{{n - 1, -1}, {n / 3, 1}} {
				for k := 0; k < n; k++ {
					g := gens[((ord[0]+ord[1]*k)%n+n)%n]
					if !strings.HasPrefix(g.kind, "sysl") || len(outs[g.name]) == 0 {
						continue
					}
					o := runOn(g, proto.Clone(m).(*sysl.Module), in)
					outs[reorder+g.name] = append(outs[reorder+g.name], o)
				}
			}
		}
	}
	return outs
}

var (
	timeMu sync.Mutex
	timeBy = map[string]time.Duration{}
)

func addTime(k string, d time.Duration) {
	timeMu.Lock()
	timeBy[k] += d
	timeMu.Unlock()
}

func runOn(g *generator, m *sysl.Module, in *input) (out string) {
	t0 := time.Now()
	defer func() { addTime(g.name, time.Since(t0)) }()
	defer func() {
		if r := recover(); r != nil {
			out = fmt.Sprintf("PANIC: %v", r)
		}
	}()
	s, err := g.run(m, in)
	if err != nil {
		return s + "\nERROR: " + err.Error()
	}
	return s
}

func distinct(outs []string) int {
	seen := map[string]bool{}
	for _, o := range outs {
		seen[o] = true
	}
	return len(seen)
}

func differing(outs []string) (string, string) {
	for _, o := range outs[1:] {
		if o != outs[0] {
			return outs[0], o
		}
	}
	return "", ""
}

type finding struct {
	key, what string
	rp        replay
	size      int
}

type runner struct {
	c        *common.Ctx
	findings []finding
	seenKey  map[string]int
	cases    *common.Cases
	sortCases *common.Cases
	jobs     []*job
}

func gensFor(kind string, slow bool) []*generator {
	var out []*generator
	for i := range generators {
		if generators[i].kind == kind && generators[i].slow == slow {
			out = append(out, &generators[i])
		}
	}
	return out
}

type job struct {
	gens   []*generator
	in     *input
	reps   int
	stream string
	after  func(outs map[string][]string)
	outs   map[string][]string
}

// submit queues one (generators, input) job; runJobs executes the queue on a few workers (the generators
// share no state; the outputs are judged afterwards, in submission order, so the run is reproducible)
func (r *runner) submit(gens []*generator, in *input, reps int, stream string, after func(outs map[string][]string)) {
	r.jobs = append(r.jobs, &job{gens: gens, in: in, reps: reps, stream: stream, after: after})
}

func (r *runner) runJobs() {
	workers := 8
	if n := runtime.NumCPU(); n < workers {
		workers = n
	}
	ch := make(chan *job)
	var wg sync.WaitGroup
	for w := 0; w < workers; w++ {
		wg.Add(1)
		go func() {
			defer wg.Done()
			for j := range ch {
				j.outs = repeat(j.gens, j.in, j.reps)
			}
		}()
	}
	for _, j := range r.jobs {
		ch <- j
	}
	close(ch)
	wg.Wait()
	for _, j := range r.jobs {
		r.account(j.gens, j.in, j.reps, j.stream, j.outs)
		if j.after != nil {
			j.after(j.outs)
		}
	}
	r.jobs = nil
}

func (r *runner) judge(gens []*generator, in *input, reps int, stream string) map[string][]string {
	outs := repeat(gens, in, reps)
	r.account(gens, in, reps, stream, outs)
	return outs
}

func (r *runner) account(gens []*generator, in *input, reps int, stream string, outs map[string][]string) {
	for _, g := range gens {
		os_ := outs[g.name]
		// a generator that is repeated only a few times (arr.ai-backed ones: 2x in the quick tier): the runs in the other
		// orders count as further repetitions - with so few runs a difference there cannot be told from plain
		// non-determinism, and `order-leak` must not be reported for it
		fewReps := len(os_) < 4
		if fewReps {
			os_ = append(append([]string{}, os_...), outs[reorder+g.name]...)
		}
		n := distinct(os_)
		nontrivial := len(os_[0]) > 0 && !strings.HasPrefix(os_[0], "PARSE-ERROR") && !strings.Contains(os_[0], "PANIC: ")
		r.c.Count(g.name+"/"+digest(in.Text+in.Old), nontrivial)
		r.c.Hist("gen:" + g.name)
		switch {
		case strings.HasPrefix(os_[0], "PARSE-ERROR"):
			r.c.Hist("outcome:parse-error")
		case strings.Contains(os_[0], "PANIC: "):
			r.c.Hist("outcome:panic")
		case strings.Contains(os_[0], "\nERROR: "):
			r.c.Hist("outcome:error")
		default:
			r.c.Hist("outcome:output")
		}
		if pair := outs[again+g.name]; len(pair) == 2 && pair[0] != pair[1] && n == 1 {
			r.c.Hist("failure-kind:state-leak")
			r.findings = append(r.findings, finding{"state-leak:" + g.name,
				fmt.Sprintf("%s: the second generation from the SAME parsed module in one process differs from the first on one %s input (%d bytes); first difference %s",
					g.name, stream, len(in.Text), firstDiff(pair[0], pair[1])),
				replay{Generator: g.name, Input: *in, Reps: reps * 4, Note: "again"}, len(in.Text)})
		}
		if n == 1 && !fewReps {
			for _, o := range outs[reorder+g.name] {
				if o != os_[0] {
					if g.name == "export:proto" && sameModuloEnumAliasOrder([]string{os_[0], o}) {
						// the listed arr.ai `orderby` tie (which of two names of one enum value comes first): within one
						// process it shows up between evaluations in different contexts rather than between repetitions
						r.seenKey["nondeterministic:export:proto:enum-alias-order"]++
						r.findings = append(r.findings, finding{"nondeterministic:export:proto:enum-alias-order",
							fmt.Sprintf("export:proto: output differs between evaluations in one process only in the order of enum members with one value (one %s input, %d bytes); first difference %s",
								stream, len(in.Text), firstDiff(os_[0], o)),
							replay{Generator: g.name, Input: *in, Reps: reps * 4, Note: "reorder"}, len(in.Text)})
						break
					}
					r.c.Hist("failure-kind:order-leak")
					r.findings = append(r.findings, finding{"order-leak:" + g.name,
						fmt.Sprintf("%s: the output on a fresh copy of the parsed module differs after the other generators ran in another order in the same process (one %s input, %d bytes); first difference %s",
							g.name, stream, len(in.Text), firstDiff(os_[0], o)),
						replay{Generator: g.name, Input: *in, Reps: reps * 4, Note: "reorder"}, len(in.Text)})
					break
				}
			}
			if len(outs[reorder+g.name]) > 0 {
				r.c.Hist("reordered-runs")
			}
		}
		if n > 1 {
			a, b := differing(os_)
			key := "nondeterministic:" + g.name
			if g.name == "export:proto" && sameModuloEnumAliasOrder(os_) {
				// the only difference is the order of `NAME = n;` lines of one enum that carry the same n
				key += ":enum-alias-order"
			}
			r.seenKey[key]++
			r.findings = append(r.findings, finding{key,
				fmt.Sprintf("%s: %d distinct outputs in %d in-process runs on one %s input (%d bytes); first difference %s",
					g.name, n, len(os_), stream, len(in.Text), firstDiff(a, b)),
				replay{Generator: g.name, Input: *in, Reps: reps * 4}, len(in.Text)})
		}
	}
}

func (r *runner) flush() {
	// smallest input first, so that the driver's replay is the most readable one
	sort.SliceStable(r.findings, func(i, j int) bool { return r.findings[i].size < r.findings[j].size })
	for _, f := range r.findings {
		r.c.Fail(f.key, f.what, f.rp)
	}
}

var reEnumMember = regexp.MustCompile(`^\s*(\w+) = (-?\d+);$`)

// sameModuloEnumAliasOrder: are all outputs equal once every run of consecutive `NAME = n;` lines with one n is sorted?
func sameModuloEnumAliasOrder(outs []string) bool {
	norm := func(s string) string {
		ls := strings.Split(s, "\n")
		for i := 0; i < len(ls); {
			m := reEnumMember.FindStringSubmatch(ls[i])
			if m == nil {
				i++
				continue
			}
			j := i + 1
			for j < len(ls) {
				m2 := reEnumMember.FindStringSubmatch(ls[j])
				if m2 == nil || m2[2] != m[2] {
					break
				}
				j++
			}
			sort.Strings(ls[i:j])
			i = j
		}
		return strings.Join(ls, "\n")
	}
	for _, o := range outs[1:] {
		if norm(o) != norm(outs[0]) {
			return false
		}
	}
	return true
}

func inputOf(m *model) *input {
	return &input{Text: m.render(), Project: m.Project, SeqProj: m.SeqProj, Group: m.Group,
		Apps: append(m.appNames(), m.Project, m.SeqProj)}
}

func main() {
	c := common.Setup("C19")
	defer c.Finish()
	r := &runner{c: c, seenKey: map[string]int{}}
	c.Res.Rule = "each case = one (generator+option set, input) pair run N times in-process (input re-parsed per repetition) plus a second generation from the SAME parsed module in the same process (run 1 vs run 2); inputs: generated Sysl models with 2..9 entries in every map the generators walk and names whose byte order differs from declaration order, two-file models whose tables and columns sit on EQUAL line numbers (sort-key ties), older/newer model pairs for the delta script, generated and corpus OpenAPI3/Swagger/XSD specs for import, the repository's tests/*.sysl, schema models of tables only (relgom code generator), enumerations with two names for one value, Swagger documents whose schema names clash after sanitising; after the first repetition every generator runs again with the generators in reversed and rotated order on fresh copies of the module (package-level state); CLI repetitions are fresh processes with GOMAXPROCS varied; distinct = distinct (generator, input text); non-trivial = the generator produced output (no parse error, no panic)"

	if c.Replay != "" {
		var rp replay
		if err := common.LoadReplay(c.Replay, &rp); err != nil {
			fmt.Fprintln(os.Stderr, err)
			os.Exit(3)
		}
		doReplay(r, &rp)
		r.flush()
		return
	}

	if os.Getenv("C19_DEBUG") != "" {
		debugDump(c)
		return
	}
	reps, nModels, nForeign, cliModels, cliReps := 6, 8, 3, 1, 2
	if c.Thorough() {
		reps, nModels, nForeign, cliModels, cliReps = 30, 40, 12, 2, 6
	}
	if c.Search {
		reps, nModels = reps*2, nModels*3
	}
	if v := os.Getenv("C19_MODELS"); v != "" { // development aid
		fmt.Sscan(v, &nModels)
		nForeign = 2
	}
	c.Res.Extra["reps_in_process"] = reps
	c.Res.Extra["reps_cli"] = cliReps
	t0 := time.Now()

	syslGens := gensFor("sysl", false)
	slowGens := append(gensFor("sysl", true), gensFor("sysl-delta", true)...)
	slowReps, slowModels := 2, 1
	if c.Thorough() {
		slowReps, slowModels = 12, 10
	} else {
		// quick tier: `export -f spanner` (and the arr.ai OpenAPI3 importer below) cost several seconds per call
		// and hold a worker for the whole run on a loaded machine: thorough tier only
		var keep []*generator
		for _, g := range slowGens {
			if g.name != "export:spanner" {
				keep = append(keep, g)
			}
		}
		slowGens = keep
	}
	c.Res.Extra["reps_slow_generators"] = slowReps

	skip := func(s string) bool { return strings.Contains(os.Getenv("C19_SKIP"), s) } // development aid
	// stream 1: regression corpus (inputs of earlier findings, hand-minimised)
	for i, in := range corpusInputs() {
		if skip("corpus") {
			break
		}
		r.submit(syslGens, in, reps+2, fmt.Sprintf("corpus[%d]", i), nil)
		c.Hist("stream:corpus")
	}
	// stream 2: generated models
	var models []*model
	for i := 0; i < nModels; i++ {
		size := []int{1, 0, 1, 2, 0, 1, 1, 2}[i%8]
		if c.Thorough() {
			size = []int{1, 2, 1, 0, 2}[i%5]
		}
		m := genModel(c.Rng.Fork(), size)
		models = append(models, m)
		in := inputOf(m)
		r.submit(syslGens, in, reps, "generated", func(outs map[string][]string) { r.addCases(m, in, outs) })
		c.Hist(fmt.Sprintf("stream:generated-size%d", size))
		if i < 2 {
			c.Sample(map[string]interface{}{"model_bytes": len(in.Text), "apps": in.Apps, "head": clip(in.Text, 300)})
		}
		// arr.ai-backed exporters, relational model, delta script (previous version = the same model with
		// some tables / columns removed, added, retyped)
		old := mutateForDelta(c.Rng.Fork(), m)
		if i < slowModels {
			din := inputOf(m)
			din.Old = old.render()
			r.submit(slowGens, din, slowReps, "generated", nil)
		}
	}
	// stream 2b: sort-key ties (equal source lines in two files)
	nTies := 3
	if c.Thorough() {
		nTies = 12
	}
	for i := 0; i < nTies; i++ {
		in := tieInput(c.Rng.Fork(), i%3)
		gs := append(append([]*generator{}, syslGens...), findGen("codegen:relgom"))
		if i == 0 || c.Thorough() {
			gs = append(append([]*generator{}, syslGens...), slowGens...)
		}
		r.submit(gs, in, reps+2, "line-ties", func(outs map[string][]string) { r.addSortCases(in, outs) })
		c.Hist("stream:line-ties")
	}
	// stream 2c: schema models (tables only) for the relgom code generator and the database scripts
	nSchema := 2
	if c.Thorough() {
		nSchema = 10
	}
	for i := 0; i < nSchema; i++ {
		in := schemaInput(c.Rng.Fork(), i%3)
		in.Old = in.Text
		r.submit([]*generator{findGen("codegen:relgom"), findGen("db:create"), findGen("datamodel:direct"), findGen("mermaid:data-full"), findGen("pb:json")},
			in, reps+2, "schema", nil)
		c.Hist("stream:schema")
	}
	// stream 3: hostile / odd models
	for i, in := range oddInputs(c.Rng.Fork()) {
		if skip("odd") {
			break
		}
		r.submit(syslGens, in, reps, fmt.Sprintf("odd[%d]", i), nil)
		c.Hist("stream:odd")
	}
	// stream 4: foreign specs for import
	for _, kind := range []string{"openapi3", "swagger", "xsd"} {
		if skip("foreign") {
			break
		}
		gs := append(gensFor(kind, false), gensFor(kind, true)...)
		nf, nr, rp := nForeign, 4, reps
		if gs[0].slow { // the OpenAPI3 importer runs an arr.ai script: seconds per call; thorough tier only
			nf, nr, rp = 0, 0, 2
			if c.Thorough() {
				nf, nr, rp = 4, 6, 4
			}
		}
		for i := 0; i < nf; i++ {
			in := &input{Text: genForeign(c.Rng.Fork(), kind, 1+i%3)}
			if kind != "xsd" && i%3 == 2 {
				// two schema names that become one Sysl name (a leading digit gets a `_` prefix)
				in.Text = withClashingSchemaNames(in.Text, kind)
				c.Hist("stream:foreign-" + kind + "-name-clash")
			}
			r.submit(gs, in, rp, "generated-"+kind, nil)
			c.Hist("stream:foreign-" + kind)
		}
		for i, f := range corpusForeign(kind, c.Thorough()) {
			b, err := os.ReadFile(f)
			if err != nil || i >= nr && !c.Thorough() {
				continue
			}
			r.submit(gs, &input{Text: string(b)}, rp, "repo:"+filepath.Base(f), nil)
			c.Hist("stream:repo-" + kind)
		}
	}
	// stream 5: the repository's own models through the generators that need no project app
	if !skip("repo") {
		r.repoModels(reps)
	}
	r.runJobs()
	c.Res.Extra["t_inprocess_s"] = int(time.Since(t0).Seconds())
	// stream 6: CLI subprocesses
	if bin := os.Getenv("VERIF_SYSL_BIN"); bin != "" {
		for i := 0; i < cliModels && i < len(models); i++ {
			r.cli(bin, models[i*2+1], cliReps, c.Thorough())
		}
	} else {
		c.Res.Notes = append(c.Res.Notes, "VERIF_SYSL_BIN not set: CLI subprocess repetitions skipped")
	}
	if r.cases != nil {
		r.cases.Close()
	}
	if r.sortCases != nil {
		r.sortCases.Close()
	}
	c.Res.Extra["harness_wall_s"] = int(time.Since(t0).Seconds())
	tm := map[string]int{}
	for k, d := range timeBy {
		tm[k] = int(d.Milliseconds())
	}
	c.Res.Extra["cpu_ms_by_generator"] = tm
	r.flush()
}

func doReplay(r *runner, rp *replay) {
	if rp.Cli {
		bin := os.Getenv("VERIF_SYSL_BIN")
		if bin == "" {
			fmt.Println("replay needs VERIF_SYSL_BIN")
			return
		}
		r.cliOne(bin, rp.Generator, &rp.Input, rp.Reps)
		return
	}
	g := findGen(rp.Generator)
	if g == nil {
		fmt.Fprintln(os.Stderr, "unknown generator", rp.Generator)
		os.Exit(3)
	}
	reps := rp.Reps
	if reps < 32 {
		reps = 32
	}
	outs := r.judge([]*generator{g}, &rp.Input, reps, "replay")
	os_ := outs[g.name]
	fmt.Printf("replay %s: %d runs, %d distinct outputs\n", g.name, len(os_), distinct(os_))
	if a, b := differing(os_); a != b {
		fmt.Printf("first difference: %s\n", firstDiff(a, b))
	}
}

func jsonStr(v interface{}) string { b, _ := json.Marshal(v); return string(b) }

// debugDump (development aid, env C19_DEBUG): one generated model, and per generator the time and the head of its output
func debugDump(c *common.Ctx) {
	var in *input
	switch os.Getenv("C19_DEBUG") {
	case "corpus0":
		in = corpusInputs()[0]
	case "corpus1":
		in = corpusInputs()[1]
	case "corpus2":
		in = corpusInputs()[2]
	case "ties":
		in = tieInput(c.Rng.Fork(), 1)
		fmt.Println(in.Files["part.sysl"])
	default:
		in = inputOf(genModel(c.Rng.Fork(), 1))
	}
	fmt.Println(in.Text)
	t0 := time.Now()
	m, err := parseFiles(in.Text, in.Files)
	fmt.Println("parse:", time.Since(t0), err)
	for k := 0; k < 3; k++ {
		t0 = time.Now()
		parseModel(in.Text)
		fmt.Println("parse again:", time.Since(t0), len(in.Text))
	}
	if os.Getenv("C19_TRACE") != "" {
		g := findGen(os.Getenv("C19_TRACE"))
		in.Old = in.Text
		g.run(m, in)
	}
	if err != nil {
		return
	}
	for i := range generators {
		g := &generators[i]
		if !strings.HasPrefix(g.kind, "sysl") {
			continue
		}
		if g.kind == "sysl-delta" {
			in.Old = in.Text
		}
		t0 := time.Now()
		o := runOn(g, proto.Clone(m).(*sysl.Module), in)
		fmt.Printf("---- %s (%v, %d bytes)\n%s\n", g.name, time.Since(t0), len(o), clip(o, 600))
	}
}
