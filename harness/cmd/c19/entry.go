package main

// Library entry points of every output-producing command, called the way cmd/sysl calls them.
// Each returns the complete output as one canonical string: file name -> content pairs, sorted by
// file name (the result maps of the diagram commands are written to separate files by the CLI, so their
// key order is not output).

import (
	"bytes"
	"context"
	"encoding/json"
	"fmt"
	"io"
	"os"
	"sort"
	"strings"

	"github.com/anz-bank/sysl/language/go/pkg/relgom"
	"github.com/anz-bank/sysl/pkg/arrai/relmod"
	"github.com/anz-bank/sysl/pkg/cmdutils"
	"github.com/anz-bank/sysl/pkg/database"
	"github.com/anz-bank/sysl/pkg/datamodeldiagram"
	"github.com/anz-bank/sysl/pkg/exporter"
	"github.com/anz-bank/sysl/pkg/importer"
	"github.com/anz-bank/sysl/pkg/integrationdiagram"
	mdata "github.com/anz-bank/sysl/pkg/mermaid/datamodeldiagram"
	mepa "github.com/anz-bank/sysl/pkg/mermaid/endpointanalysisdiagram"
	mints "github.com/anz-bank/sysl/pkg/mermaid/integrationdiagram"
	mseq "github.com/anz-bank/sysl/pkg/mermaid/sequencediagram"
	"github.com/anz-bank/sysl/pkg/parse"
	"github.com/anz-bank/sysl/pkg/pbutil"
	"github.com/anz-bank/sysl/pkg/sequencediagram"
	"github.com/anz-bank/sysl/pkg/sysl"
	"github.com/anz-bank/sysl/pkg/syslutil"
	"github.com/anz-bank/sysl/pkg/syslwrapper"
	"github.com/anz-bank/sysl/pkg/transforms"
	"github.com/sirupsen/logrus"
	"github.com/spf13/afero"
)

var quiet = func() *logrus.Logger { l := logrus.New(); l.SetOutput(io.Discard); return l }()

// what a generator is given
type input struct {
	Text    string            `json:"text"`              // Sysl source (or foreign spec for import)
	Project string            `json:"project,omitempty"` // ints / datamodel project app
	SeqProj string            `json:"seqproj,omitempty"`
	Group   string            `json:"group,omitempty"`
	Apps    []string          `json:"apps,omitempty"`  // app names in declaration order
	Old     string            `json:"old,omitempty"`   // previous version (db delta)
	Files   map[string]string `json:"files,omitempty"` // further source files next to m.sysl (imported by it)
	Ties    *tieMeta          `json:"-"`               // line-tie inputs: what is declared on which line
}

type nameLine struct {
	Name string
	Line int
}

// tieMeta: the tables of the tie application and the columns of each table with the source line of the declaration
// (the same in both files)
type tieMeta struct {
	App    string
	Tables []nameLine
	Cols   map[string][]nameLine
}

type generator struct {
	name string // generator+option: the key of findings
	kind string // "sysl" (input is a model) | "foreign" (input is a spec to import)
	run  func(m *sysl.Module, in *input) (string, error)
	slow bool // arr.ai-backed or double-parse generators: fewer repetitions, fewer inputs
}

func canon(files map[string]string) string {
	ks := make([]string, 0, len(files))
	for k := range files {
		ks = append(ks, k)
	}
	sort.Strings(ks)
	var sb strings.Builder
	for _, k := range ks {
		fmt.Fprintf(&sb, "=== %s\n%s\n", k, files[k])
	}
	return sb.String()
}

func parseModel(text string) (*sysl.Module, error) { return parseFiles(text, nil) }

func parseFiles(text string, files map[string]string) (*sysl.Module, error) {
	fs := afero.NewMemMapFs()
	afero.WriteFile(fs, "m.sysl", []byte(text), 0o644)
	for n, c := range files {
		afero.WriteFile(fs, n, []byte(c), 0o644)
	}
	return parse.NewParser().ParseFromFs("m.sysl", fs)
}

func readAll(fs afero.Fs) map[string]string {
	out := map[string]string{}
	afero.Walk(fs, "/", func(p string, fi os.FileInfo, err error) error {
		if err == nil && !fi.IsDir() {
			b, _ := afero.ReadFile(fs, p)
			out[p] = string(b)
		}
		return nil
	})
	return out
}

func pbGen(mode string, compact bool) func(m *sysl.Module, in *input) (string, error) {
	return func(m *sysl.Module, in *input) (string, error) {
		var b bytes.Buffer
		var err error
		opt := pbutil.OutputOptions{Compact: compact}
		switch mode {
		case "json":
			err = pbutil.FJSONPBWithOpt(&b, m, opt)
		case "textpb":
			err = pbutil.FTextPBWithOpt(&b, m, opt)
		default:
			err = pbutil.GeneratePBBinaryMessage(&b, m)
		}
		return b.String(), err
	}
}

func pbSplit(mode string) func(m *sysl.Module, in *input) (string, error) {
	return func(m *sysl.Module, in *input) (string, error) {
		fs := afero.NewMemMapFs()
		name := map[string]string{"json": "data.json", "textpb": "data.textpb", "pb": "data.pb"}[mode]
		err := pbutil.OutputSplitApplications(m, mode, pbutil.OutputOptions{}, "/out", name, fs)
		return canon(readAll(fs)), err
	}
}

func sdGen(byApp bool, group bool) func(m *sysl.Module, in *input) (string, error) {
	return func(m *sysl.Module, in *input) (string, error) {
		// the title refers to attributes, so that what MergeAttributes hands to the title formatter is visible
		p := &cmdutils.CmdContextParamSeqgen{EndpointFormat: "%(epname)", AppFormat: "%(appname)", BlackboxesFlag: map[string]string{},
			Title: "%(epname)|%(@owner)|%(@Zone)|%(@tier)|%(@cost)|%(@page)"}
		if group {
			p.Group = in.Group
		}
		if byApp {
			p.Output = "%(epname).png"
			p.AppsFlag = []string{in.SeqProj}
		} else {
			p.Output = "out.png"
			sp := m.Apps[in.SeqProj]
			var eps []string
			for k := range sp.GetEndpoints() {
				eps = append(eps, k)
			}
			sort.Strings(eps)
			for _, e := range eps {
				p.EndpointsFlag = append(p.EndpointsFlag, in.SeqProj+" <- "+e)
			}
		}
		r, err := sequencediagram.DoConstructSequenceDiagrams(p, m, quiet)
		return canon(r), err
	}
}

func intsGen(clustered, epa bool, output string) func(m *sysl.Module, in *input) (string, error) {
	return func(m *sysl.Module, in *input) (string, error) {
		p := &cmdutils.CmdContextParamIntgen{Output: output, Project: in.Project, Clustered: clustered, EPA: epa}
		r, err := integrationdiagram.GenerateIntegrations(p, m, quiet)
		return canon(r), err
	}
}

func dataGen(direct bool, output string) func(m *sysl.Module, in *input) (string, error) {
	return func(m *sysl.Module, in *input) (string, error) {
		p := &cmdutils.CmdContextParamDatagen{Output: output, Project: in.Project, Direct: direct, ClassFormat: "%(classname)"}
		r, err := datamodeldiagram.GenerateDataModels(p, m, quiet)
		return canon(r), err
	}
}

func sortedApps(m *sysl.Module) []string {
	var ks []string
	for k := range m.Apps {
		ks = append(ks, k)
	}
	sort.Strings(ks)
	return ks
}

// realApps: the apps of the model that are not the two project pseudo-apps, declaration order
func realApps(in *input) []string {
	var out []string
	for _, a := range in.Apps {
		if a != in.Project && a != in.SeqProj {
			out = append(out, a)
		}
	}
	return out
}

func exportGen(mode, format string) func(m *sysl.Module, in *input) (string, error) {
	return func(m *sysl.Module, in *input) (string, error) {
		out := map[string]string{}
		for _, appName := range sortedApps(m) {
			syslApp := m.Apps[appName]
			switch mode {
			case "swagger":
				// the Swagger exporter indexes strings.Split(name, " ")[1] for every endpoint, i.e. it supports
				// REST endpoints only (a crash on others is C20's matter): hand it the REST part of the app
				for k, ep := range syslApp.Endpoints {
					if ep.RestParams == nil {
						delete(syslApp.Endpoints, k)
					}
				}
				x := exporter.MakeSwaggerExporter(syslApp, quiet)
				if err := x.GenerateSwagger(); err != nil {
					out[appName] = "error: " + err.Error()
					continue
				}
				b, err := x.SerializeOutput(format)
				if err != nil {
					return "", err
				}
				out[appName] = string(b)
			case "openapi3":
				mod := &sysl.Module{Apps: map[string]*sysl.Application{syslutil.GetAppName(syslApp.Name): syslApp}}
				mapper := syslwrapper.MakeAppMapper(mod)
				mapper.IndexTypes()
				simpleApps, err := mapper.Map()
				if err != nil {
					out[appName] = "error: " + err.Error()
					continue
				}
				x := exporter.MakeOpenAPI3Exporter(simpleApps, quiet)
				if err := x.Export(); err != nil {
					out[appName] = "error: " + err.Error()
					continue
				}
				b, err := x.SerializeOutput(syslutil.GetAppName(syslApp.Name), format)
				if err != nil {
					return "", err
				}
				out[appName] = string(b)
			}
		}
		return canon(out), nil
	}
}

func transformExport(name string) func(m *sysl.Module, in *input) (string, error) {
	return func(m *sysl.Module, in *input) (string, error) {
		x := exporter.MakeTransformExporter(afero.NewMemMapFs(), quiet, "/", "out."+name, name)
		var b bytes.Buffer
		err := x.ExportToWriter(&b, []*sysl.Module{m}, []string{"m.sysl"})
		return b.String(), err
	}
}

func dbCreate(m *sysl.Module, in *input) (string, error) {
	out := map[string]string{}
	for _, appName := range realApps(in) {
		app := m.Apps[appName]
		if app == nil {
			continue
		}
		v := database.MakeDatabaseScriptView("t", quiet)
		out[appName] = v.GenerateDatabaseScriptCreate(app.GetTypes(), "postgres", appName)
	}
	return canon(out), nil
}

func dbDelta(m *sysl.Module, in *input) (string, error) {
	old, err := parseModel(in.Old)
	if err != nil {
		return "", err
	}
	// the delta script dereferences GetRelation() of every retained type: tables only (tuples crash it, C16/C20)
	for _, mod := range []*sysl.Module{old, m} {
		for _, a := range mod.Apps {
			for k, t := range a.Types {
				if t.GetRelation() == nil {
					delete(a.Types, k)
				}
			}
		}
	}
	v := database.MakeDatabaseScriptView("t", quiet)
	outs := v.ProcessModSysls(old.GetApps(), m.GetApps(), realApps(in), "/o", "postgres")
	var sb strings.Builder
	for _, o := range outs {
		b, _ := json.Marshal(o)
		sb.Write(b)
		sb.WriteString("\n")
	}
	return sb.String(), nil
}

func relmodGen(m *sysl.Module, in *input) (string, error) {
	s, err := relmod.Normalize(context.Background(), m)
	if err != nil {
		return "", err
	}
	b, err := json.Marshal(s)
	return string(b), err
}

// ---- code generators ----

// memFSW collects what a code generator writes (codegen.FileSystemWriter)
type memFSW struct{ files map[string]*bytes.Buffer }
type bufCloser struct{ *bytes.Buffer }

func (bufCloser) Close() error { return nil }
func (w *memFSW) Create(name string) (io.WriteCloser, error) {
	b := &bytes.Buffer{}
	w.files[name] = b
	return bufCloser{b}, nil
}

// relgomGen: language/go/cmd/relgom (Go model library of one application) through relgom.Generate, which parses the
// source itself; run for the first two applications that declare a table
func relgomGen(_ *sysl.Module, in *input) (string, error) {
	fs := afero.NewMemMapFs()
	afero.WriteFile(fs, "m.sysl", []byte(in.Text), 0o644)
	for n, c := range in.Files {
		afero.WriteFile(fs, n, []byte(c), 0o644)
	}
	out := map[string]string{}
	n := 0
	for _, appName := range realApps(in) {
		if n >= 2 {
			break
		}
		n++
		w := &memFSW{files: map[string]*bytes.Buffer{}}
		err := func() (err error) {
			defer func() {
				if r := recover(); r != nil {
					err = fmt.Errorf("panic: %v", r)
				}
			}()
			return relgom.Generate(w, fs, "m.sysl", appName)
		}()
		if err != nil {
			// relgom supports applications made of tables only and stops at the first other type it meets while
			// ranging over the type map: WHICH error comes first is not output (assumption of the property)
			out[appName] = "error"
			continue
		}
		for f, b := range w.files {
			out[appName+"/"+f] = b.String()
		}
	}
	return canon(out), nil
}

// templateGen: `sysl template` (pkg/transforms + pkg/eval) with the harness's own text template, the way
// cmd/sysl/cmd_template.go drives it
func templateGen(m *sysl.Module, in *input) (string, error) {
	fs := afero.NewMemMapFs()
	afero.WriteFile(fs, "tmpl.sysl", []byte(textTemplate), 0o644)
	tx, name, err := parse.LoadAndGetDefaultApp("tmpl.sysl", fs, parse.NewParser())
	if err != nil {
		return "", err
	}
	t, err := transforms.NewWorker(tx, name, "start")
	if err != nil {
		return "", err
	}
	out := map[string]string{}
	for f, v := range t.Apply(m, realApps(in)...) {
		out[f] = v.GetS()
	}
	return canon(out), nil
}

func mermaidGen(which string) func(m *sysl.Module, in *input) (string, error) {
	return func(m *sysl.Module, in *input) (string, error) {
		apps := realApps(in)
		switch which {
		case "ints-full":
			return mints.GenerateFullIntegrationDiagram(m)
		case "ints-app":
			return mints.GenerateIntegrationDiagram(m, apps[0])
		case "ints-multi":
			return mints.GenerateMultipleAppIntegrationDiagram(m, apps[:2])
		case "data-full":
			return mdata.GenerateFullDataDiagram(m)
		case "data-type":
			a := m.Apps[apps[0]]
			var ts []string
			for t := range a.Types {
				ts = append(ts, t)
			}
			sort.Strings(ts)
			return mdata.GenerateDataDiagramWithAppAndType(m, apps[0], ts[0])
		case "epa-full":
			return mepa.GenerateEndpointAnalysisDiagram(m)
		case "epa-multi":
			return mepa.GenerateMultipleAppEndpointAnalysisDiagram(m, apps[:2])
		case "seq":
			a := m.Apps[apps[0]]
			var es []string
			for e := range a.Endpoints {
				es = append(es, e)
			}
			sort.Strings(es)
			return mseq.GenerateSequenceDiagram(m, apps[0], es[0])
		}
		return "", fmt.Errorf("unknown mermaid generator %s", which)
	}
}

func importGen(format string) func(m *sysl.Module, in *input) (string, error) {
	return func(_ *sysl.Module, in *input) (string, error) {
		imp, err := importer.Factory("/spec", false, format, []byte(in.Text), quiet)
		if err != nil {
			return "", err
		}
		imp, err = imp.Configure(&importer.ImporterArg{AppName: "Imported", PackageName: "pkg"})
		if err != nil {
			return "", err
		}
		return imp.Load(in.Text)
	}
}

var generators = []generator{
	{"pb:json", "sysl", pbGen("json", false), false},
	{"pb:json-compact", "sysl", pbGen("json", true), false},
	{"pb:textpb", "sysl", pbGen("textpb", false), false},
	{"pb:binary", "sysl", pbGen("pb", false), false},
	{"pb:split-json", "sysl", pbSplit("json"), false},
	{"pb:split-textpb", "sysl", pbSplit("textpb"), false},
	{"sd:app", "sysl", sdGen(true, false), false},
	{"sd:app-groupby", "sysl", sdGen(true, true), false},
	{"sd:endpoints", "sysl", sdGen(false, false), false},
	{"sd:endpoints-groupby", "sysl", sdGen(false, true), false},
	{"ints:plain", "sysl", intsGen(false, false, "%(epname).png"), false},
	{"ints:clustered", "sysl", intsGen(true, false, "%(epname).png"), false},
	{"ints:epa", "sysl", intsGen(false, true, "%(epname).png"), false},
	{"ints:epa-clustered", "sysl", intsGen(true, true, "%(epname).png"), false},
	{"ints:fixed-output-name", "sysl", intsGen(false, false, "out.png"), false},
	{"datamodel:project", "sysl", dataGen(false, "%(epname).png"), false},
	{"datamodel:project-fixed-output-name", "sysl", dataGen(false, "out.png"), false},
	{"datamodel:direct-fixed-output-name", "sysl", dataGen(true, "out.png"), false},
	{"datamodel:direct", "sysl", dataGen(true, "%(epname).png"), false},
	{"mermaid:ints-full", "sysl", mermaidGen("ints-full"), false},
	{"mermaid:ints-app", "sysl", mermaidGen("ints-app"), false},
	{"mermaid:ints-multi", "sysl", mermaidGen("ints-multi"), false},
	{"mermaid:data-full", "sysl", mermaidGen("data-full"), false},
	{"mermaid:data-type", "sysl", mermaidGen("data-type"), false},
	{"mermaid:epa-full", "sysl", mermaidGen("epa-full"), false},
	{"mermaid:epa-multi", "sysl", mermaidGen("epa-multi"), false},
	{"mermaid:seq", "sysl", mermaidGen("seq"), false},
	{"export:swagger-yaml", "sysl", exportGen("swagger", "yaml"), false},
	{"export:swagger-json", "sysl", exportGen("swagger", "json"), false},
	{"export:openapi3-yaml", "sysl", exportGen("openapi3", "yaml"), false},
	{"export:openapi3-json", "sysl", exportGen("openapi3", "json"), false},
	{"export:proto", "sysl", transformExport("proto"), true},
	{"export:spanner", "sysl", transformExport("spanner"), true},
	{"db:create", "sysl", dbCreate, false},
	{"db:delta", "sysl-delta", dbDelta, true},
	{"relmod", "sysl", relmodGen, true},
	{"codegen:relgom", "sysl", relgomGen, true},
	{"template:text", "sysl", templateGen, false},
	{"import:openapi3", "openapi3", importGen("openapi3"), true},
	{"import:swagger", "swagger", importGen("swagger"), false},
	{"import:xsd", "xsd", importGen("xsd"), false},
}

func findGen(name string) *generator {
	for i := range generators {
		if generators[i].name == name {
			return &generators[i]
		}
	}
	return nil
}

// runOnce runs a generator, turning a panic into an outcome (whether a command crashes is C20's matter;
// here a crash is just one more possible output that has to repeat)
func runOnce(g *generator, in *input) (out string) {
	defer func() {
		if r := recover(); r != nil {
			out = fmt.Sprintf("PANIC: %v", r)
		}
	}()
	var m *sysl.Module
	if strings.HasPrefix(g.kind, "sysl") {
		var err error
		m, err = parseModel(in.Text)
		if err != nil {
			return "PARSE-ERROR: " + err.Error()
		}
	}
	s, err := g.run(m, in)
	if err != nil {
		return s + "\nERROR: " + err.Error()
	}
	return s
}
