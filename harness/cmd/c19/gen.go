package main

// Generator of Sysl models for C19: every map a generator walks gets >= 2 entries (apps, endpoints,
// REST endpoints, params, types, fields, enum items, attributes, group-by attribute values, name-space
// clusters, project views), and names are drawn from pools whose byte-wise sorted order differs from
// the order of declaration (mixed case, digits, underscore), shuffled per model.

import (
	"fmt"
	"sort"
	"strings"

	"verifharness/common"
)

type field struct {
	Name string
	Type string // rendered type expression
	Pk   bool
}
type typ struct {
	Kind   string // table | type
	Name   string
	Fields []field
}
type enum struct {
	Name  string
	Items []string // value = position-dependent, see render
	Vals  []int
}
type param struct{ Name, Type string }
type endpoint struct {
	Tags   []string // ~tag patterns
	Name   string
	Params []param
	Attrs  []kv
	Calls  [][2]string // (app, endpoint)
	Ret    string      // type name or ""
}
type restEp struct {
	Path    string
	Method  string
	Query   []param
	Header  []param
	Body    string
	Rets    [][2]string // (status, type)
	Calls   [][2]string
	XAttrs  []kv
	Summary string
}
type kv struct{ K, V string }
type app struct {
	Tags  []string
	Name  string // may be "Ns :: leaf"
	Attrs []kv
	Eps   []endpoint
	Rest  []restEp
	Types []typ
	Enums []enum
}
type view struct {
	Name  string
	Apps  []string
	Attrs []kv
}
type seq struct {
	Name  string
	Attrs []kv
	Calls [][2]string
}
type model struct {
	Apps    []app
	Project string
	Views   []view
	SeqProj string
	Seqs    []seq
	Group   string // group-by attribute name
}

var (
	leafPool  = []string{"Zeta", "alpha", "Mid", "Beta2", "beta10", "Omega", "delta", "Kappa", "B", "a1", "A_9", "zz"}
	nsPool    = []string{"Sys", "grp", "Net", "core"}
	epPool    = []string{"Ping", "get", "Zap", "load", "Apply", "b2", "B10", "fetch"}
	typePool  = []string{"Req", "Resp", "item", "Zed", "Account", "b2", "Order", "customer"}
	fieldPool = []string{"id", "Name", "zip", "amount", "B", "a", "created", "Total", "k9", "K10"}
	enumPool  = []string{"RED", "blue", "Green", "amber", "Z", "a0"}
	attrPool  = []string{"owner", "Zone", "x-ext", "tier", "x-Alt", "cost", "B"}
	valPool   = []string{"red", "Blue", "north", "east", "v1", "V0", "zz"}
	primPool  = []string{"int", "string", "bool", "float", "date", "datetime", "decimal(10.2)", "string(30)"}
	pathPool  = []string{"/zeta", "/alpha/{id <: int}", "/Mid/list", "/b/{key <: string}/c", "/A"}
	methods   = []string{"GET", "POST", "PUT", "DELETE", "PATCH"}
	statuses  = []string{"200", "404", "500", "201", "ok", "error"}
)

func pick(r *common.Rng, pool []string, n int) []string {
	idx := make([]int, len(pool))
	for i := range idx {
		idx[i] = i
	}
	for i := len(idx) - 1; i > 0; i-- {
		j := r.Intn(i + 1)
		idx[i], idx[j] = idx[j], idx[i]
	}
	if n > len(pool) {
		n = len(pool)
	}
	out := make([]string, n)
	for i := 0; i < n; i++ {
		out[i] = pool[idx[i]]
	}
	return out
}

func between(r *common.Rng, lo, hi int) int { return lo + r.Intn(hi-lo+1) }

// genModel: size 0 = small (2 entries everywhere), 1 = medium, 2 = large
func genModel(r *common.Rng, size int) *model {
	lo, hi := 2, 2+size*2
	m := &model{Project: "Proj", SeqProj: "Seqs", Group: "team"}
	nApps := between(r, lo+1, hi+1)
	leaves := pick(r, leafPool, nApps)
	nss := pick(r, nsPool, 2+size)
	names := make([]string, nApps)
	for i, l := range leaves {
		switch {
		case i < 4 && i < nApps-1:
			// two clusters with two members each (clustered ints view: a package block needs >= 2 members)
			names[i] = nss[i/2%len(nss)] + " :: " + l
		case r.Chance(1, 4):
			names[i] = nss[r.Intn(len(nss))] + " :: " + l
		default:
			names[i] = l
		}
	}
	// interleave so that namespaced apps are not adjacent / sorted
	for i := len(names) - 1; i > 0; i-- {
		j := r.Intn(i + 1)
		names[i], names[j] = names[j], names[i]
	}
	teams := pick(r, valPool, between(r, lo, hi+1))
	for i, n := range names {
		a := app{Name: n}
		a.Attrs = append(a.Attrs, kv{m.Group, teams[i%len(teams)]})
		if r.Bool() {
			a.Tags = pick(r, tagPool, between(r, 2, 2+hi))
		}
		for _, k := range pick(r, attrPool, between(r, lo, hi)) {
			a.Attrs = append(a.Attrs, kv{k, valPool[r.Intn(len(valPool))]})
		}
		// types
		tnames := pick(r, typePool, between(r, lo, hi))
		for ti, tn := range tnames {
			t := typ{Kind: "type", Name: tn}
			if ti%2 == 0 {
				t.Kind = "table"
			}
			fns := pick(r, fieldPool, between(r, lo+1, hi+1))
			for fi, fn := range fns {
				f := field{Name: fn, Type: primPool[r.Intn(len(primPool))]}
				if t.Kind == "table" && fi == 0 {
					f.Pk = true
					f.Type = "int"
				}
				if r.Chance(1, 4) {
					f.Type += "?"
				} else if r.Chance(1, 6) && t.Kind == "type" {
					f.Type = "sequence of " + strings.TrimSuffix(f.Type, "?")
				} else if r.Chance(1, 5) && ti > 0 && !f.Pk {
					// reference to an earlier type of this app
					ref := a.Types[r.Intn(len(a.Types))]
					if ref.Kind == "table" && t.Kind == "table" {
						f.Type = ref.Name + "." + ref.Fields[0].Name
					} else {
						f.Type = ref.Name
					}
				}
				t.Fields = append(t.Fields, f)
			}
			a.Types = append(a.Types, t)
		}
		en := pick(r, []string{"Colour", "state", "Kind"}, between(r, 1, 2))
		for _, e := range en {
			items := pick(r, enumPool, between(r, lo, hi))
			vals := make([]int, len(items))
			for k := range vals {
				vals[k] = len(items) - k // declaration order opposite to numeric order
			}
			// two names for one value (legal in Sysl as in protobuf): whatever inverts the name->value map must not
			// let the iteration order pick the surviving name
			if len(items) >= 2 && r.Chance(1, 2) {
				vals[1] = vals[0]
				if len(items) >= 4 && r.Bool() {
					vals[len(vals)-1] = vals[len(vals)-2]
				}
			}
			a.Enums = append(a.Enums, enum{Name: e, Items: items, Vals: vals})
		}
		m.Apps = append(m.Apps, a)
	}
	// endpoints (need all app names first for calls)
	epNames := map[string][]string{}
	for i := range m.Apps {
		eps := pick(r, epPool, between(r, lo, hi))
		epNames[m.Apps[i].Name] = eps
	}
	for i := range m.Apps {
		a := &m.Apps[i]
		for _, en := range epNames[a.Name] {
			e := endpoint{Name: en}
			for _, pn := range pick(r, fieldPool, r.Intn(3)) {
				e.Params = append(e.Params, param{pn, a.Types[r.Intn(len(a.Types))].Name})
			}
			for _, k := range pick(r, attrPool, between(r, lo, hi)) {
				e.Attrs = append(e.Attrs, kv{k, valPool[r.Intn(len(valPool))]})
			}
			if r.Chance(2, 3) {
				e.Tags = pick(r, tagPool, between(r, 2, 2+hi))
			}
			nc := between(r, 1, 2+size)
			for c := 0; c < nc; c++ {
				// calls go "forward" only so that call graphs are acyclic (cycles are C13/C14/C20 matter)
				if i+1 >= len(m.Apps) {
					break
				}
				t := m.Apps[i+1+r.Intn(len(m.Apps)-i-1)]
				te := epNames[t.Name]
				e.Calls = append(e.Calls, [2]string{t.Name, te[r.Intn(len(te))]})
			}
			if r.Bool() {
				e.Ret = a.Types[r.Intn(len(a.Types))].Name
			}
			a.Eps = append(a.Eps, e)
		}
		paths := pick(r, pathPool, between(r, 1, 2))
		for _, p := range paths {
			ms := pick(r, methods, 1+r.Intn(4)/3)
			for _, me := range ms {
				re := restEp{Path: p, Method: me}
				for _, q := range pick(r, fieldPool, between(r, lo, hi)) {
					re.Query = append(re.Query, param{q, []string{"int", "string", "bool"}[r.Intn(3)]})
				}
				for _, h := range pick(r, []string{"Accept", "x_trace", "Auth"}, r.Intn(3)) {
					re.Header = append(re.Header, param{h, "string"})
				}
				if me == "POST" || me == "PUT" || me == "PATCH" {
					re.Body = a.Types[r.Intn(len(a.Types))].Name
				}
				for _, s := range pick(r, statuses, between(r, lo, hi)) {
					re.Rets = append(re.Rets, [2]string{s, a.Types[r.Intn(len(a.Types))].Name})
				}
				for _, k := range pick(r, []string{"x-one", "x-Two", "x-3"}, between(r, 2, 3)) {
					re.XAttrs = append(re.XAttrs, kv{k, valPool[r.Intn(len(valPool))]})
				}
				if i+1 < len(m.Apps) && r.Bool() {
					t := m.Apps[i+1+r.Intn(len(m.Apps)-i-1)]
					te := epNames[t.Name]
					re.Calls = append(re.Calls, [2]string{t.Name, te[r.Intn(len(te))]})
				}
				a.Rest = append(a.Rest, re)
			}
		}
	}
	// project views
	nv := between(r, lo, hi)
	for _, vn := range pick(r, []string{"view_b", "View_a", "all", "Z1", "c"}, nv) {
		v := view{Name: vn}
		k := between(r, 3, len(m.Apps))
		idx := pick(r, names, k)
		v.Apps = idx
		if r.Chance(1, 3) {
			v.Attrs = append(v.Attrs, kv{"page", valPool[r.Intn(len(valPool))]})
		}
		m.Views = append(m.Views, v)
	}
	// sequence project: SEQ endpoints calling into the first apps
	ns := between(r, lo, hi)
	for i, sn := range pick(r, []string{"SEQ-b", "SEQ-A", "seq-c", "SEQ-1"}, ns) {
		s := seq{Name: sn}
		if i%2 == 0 {
			s.Attrs = append(s.Attrs, kv{"groupby", m.Group})
		}
		// different attribute sets per sequence endpoint (the diagram title refers to them)
		for _, k := range []string{"owner", "Zone", "tier", "cost"} {
			if r.Bool() {
				s.Attrs = append(s.Attrs, kv{k, valPool[r.Intn(len(valPool))]})
			}
		}
		a := m.Apps[r.Intn((len(m.Apps)+1)/2)]
		s.Calls = append(s.Calls, [2]string{a.Name, a.Eps[r.Intn(len(a.Eps))].Name})
		if r.Bool() {
			b := m.Apps[r.Intn(len(m.Apps))]
			s.Calls = append(s.Calls, [2]string{b.Name, b.Eps[r.Intn(len(b.Eps))].Name})
		}
		m.Seqs = append(m.Seqs, s)
	}
	return m
}

func renderAttrs(as []kv, tags ...string) string {
	if len(as) == 0 && len(tags) == 0 {
		return ""
	}
	var p []string
	for _, a := range as {
		p = append(p, fmt.Sprintf("%s=%q", a.K, a.V))
	}
	for _, t := range tags {
		p = append(p, "~"+t)
	}
	return " [" + strings.Join(p, ", ") + "]"
}

var tagPool = []string{"rest", "Soap", "db", "MQ", "batch", "Zed", "a1"}

func (m *model) render() string {
	var sb strings.Builder
	w := func(ind int, f string, a ...interface{}) {
		sb.WriteString(strings.Repeat("    ", ind))
		fmt.Fprintf(&sb, f, a...)
		sb.WriteString("\n")
	}
	for _, a := range m.Apps {
		w(0, "%s%s:", a.Name, renderAttrs(a.Attrs, a.Tags...))
		for _, e := range a.Eps {
			ps := ""
			if len(e.Params) > 0 {
				pp := make([]string, len(e.Params))
				for i, p := range e.Params {
					pp[i] = p.Name + " <: " + p.Type
				}
				ps = "(" + strings.Join(pp, ", ") + ")"
			}
			w(1, "%s%s%s:", e.Name, ps, renderAttrs(e.Attrs, e.Tags...))
			for _, c := range e.Calls {
				w(2, "%s <- %s", c[0], c[1])
			}
			if e.Ret != "" {
				w(2, "return ok <: %s", e.Ret)
			} else if len(e.Calls) == 0 {
				w(2, "...")
			}
		}
		// REST endpoints grouped by path in declaration order
		seen := map[string]bool{}
		for _, re := range a.Rest {
			if seen[re.Path] {
				continue
			}
			seen[re.Path] = true
			w(1, "%s:", re.Path)
			for _, r2 := range a.Rest {
				if r2.Path != re.Path {
					continue
				}
				q := ""
				if len(r2.Query) > 0 {
					qq := make([]string, len(r2.Query))
					for i, p := range r2.Query {
						qq[i] = p.Name + "=" + p.Type
					}
					q = " ?" + strings.Join(qq, "&")
				}
				var ps []string
				for _, h := range r2.Header {
					ps = append(ps, fmt.Sprintf("%s <: %s [~header, name=%q]", h.Name, h.Type, h.Name))
				}
				if r2.Body != "" {
					ps = append(ps, fmt.Sprintf("payload <: %s [~body]", r2.Body))
				}
				p := ""
				if len(ps) > 0 {
					p = " (" + strings.Join(ps, ", ") + ")"
				}
				w(2, "%s%s%s%s:", r2.Method, p, q, renderAttrs(r2.XAttrs))
				for _, c := range r2.Calls {
					w(3, "%s <- %s", c[0], c[1])
				}
				for _, rt := range r2.Rets {
					w(3, "return %s <: %s", rt[0], rt[1])
				}
			}
		}
		for _, t := range a.Types {
			w(1, "!%s %s:", t.Kind, t.Name)
			for _, f := range t.Fields {
				at := ""
				if f.Pk {
					at = " [~pk]"
				}
				w(2, "%s <: %s%s", f.Name, f.Type, at)
			}
		}
		for _, e := range a.Enums {
			w(1, "!enum %s:", e.Name)
			for i, it := range e.Items {
				w(2, "%s: %d", it, e.Vals[i])
			}
		}
		w(0, "")
	}
	w(0, "%s [appfmt=\"%%(appname)\", epfmt=\"%%(patterns)\"]:", m.Project)
	for _, v := range m.Views {
		w(1, "%s%s:", v.Name, renderAttrs(v.Attrs))
		for _, a := range v.Apps {
			w(2, "%s", a)
		}
	}
	w(0, "")
	w(0, "%s [note=\"sequences\"]:", m.SeqProj) // an attribute, so that the app's Attrs map exists
	for _, s := range m.Seqs {
		w(1, "%s%s:", s.Name, renderAttrs(s.Attrs))
		for _, c := range s.Calls {
			w(2, "%s <- %s", c[0], c[1])
		}
	}
	return sb.String()
}

func (m *model) appNames() []string {
	var out []string
	for _, a := range m.Apps {
		out = append(out, a.Name)
	}
	return out
}

func sortedCopy(s []string) []string {
	c := append([]string(nil), s...)
	sort.Strings(c)
	return c
}
