package main

import (
	"fmt"
	"os"
	"os/exec"
	"path/filepath"
	"sort"
	"strings"

	"verifharness/common"
)

// ---- regression corpus: hand-minimised inputs of the findings of the first runs ----

const corpusGroupBoxes = `Net :: A [team="red"]:
    Ping:
        Sys :: B <- Get
        C <- Get
        D <- Get
        E <- Get
Sys :: B [team="Blue"]:
    Get: ...
C [team="north"]:
    Get: ...
D [team="east"]:
    Get: ...
E [team="Zed"]:
    Get: ...
Proj [appfmt="%(appname)"]:
    all:
        Net :: A
        Sys :: B
        C
Seqs [note="sequences"]:
    SEQ-1 [groupby="team"]:
        Net :: A <- Ping
`

const corpusClusters = `Sys :: b:
    E: ...
Sys :: a:
    E:
        Sys :: b <- E
        grp :: y <- E
        Net :: q <- E
        core :: m <- E
grp :: y:
    E: ...
grp :: x:
    E:
        grp :: y <- E
Net :: q:
    E: ...
Net :: p:
    E:
        Net :: q <- E
core :: m:
    E: ...
core :: n:
    E:
        core :: m <- E
Proj [appfmt="%(appname)"]:
    all:
        Sys :: a
        Sys :: b
        grp :: x
        grp :: y
        Net :: p
        Net :: q
        core :: n
        core :: m
Seqs [note="sequences"]:
    SEQ-2 [owner="o", cost="c"]:
        Sys :: b <- E
    SEQ-1 [tier="t"]:
        Sys :: a <- E
`

const corpusOpenAPI = `Shop [team="red"]:
    /orders/{id <: int}:
        GET (Accept <: string [~header, name="Accept"], x_trace <: string [~header, name="x_trace"]) ?zip=string&amount=int&Name=string&B=bool:
            return 200 <: Order
            return 404 <: Problem
            return 500 <: Problem
    !type Order:
        id <: int
        Name <: string
        zip <: string
        amount <: int
        B <: bool
        created <: date
        Total <: int?
    !type Problem:
        a <: string
        K10 <: string
        k9 <: string
        Zed <: string
    !enum Colour:
        RED: 6
        blue: 5
        Green: 4
        amber: 3
        Z: 2
        a0: 1
Proj [appfmt="%(appname)"]:
    all:
        Shop
Seqs:
    SEQ-1:
        Shop <- GET /orders/{id}
`

func corpusInputs() []*input {
	mk := func(t string, apps ...string) *input {
		return &input{Text: t, Project: "Proj", SeqProj: "Seqs", Group: "team", Apps: append(apps, "Proj", "Seqs")}
	}
	return []*input{
		mk(corpusGroupBoxes, "Net :: A", "Sys :: B", "C", "D", "E"),
		mk(corpusClusters, "Sys :: b", "Sys :: a", "grp :: y", "grp :: x", "Net :: q", "Net :: p", "core :: m", "core :: n"),
		mk(corpusOpenAPI, "Shop"),
	}
}

// ---- odd models: shapes the mostly-valid generator does not produce ----

func oddInputs(r *common.Rng) []*input {
	var out []*input
	// 1. single-entry maps everywhere (nothing to permute: must trivially be stable)
	m := genModel(r.Fork(), 0)
	m.Apps = m.Apps[:1]
	m.Apps[0].Eps = m.Apps[0].Eps[:1]
	m.Apps[0].Eps[0].Calls = nil
	m.Apps[0].Rest = nil
	m.Views = []view{{Name: "v", Apps: []string{m.Apps[0].Name}}}
	m.Seqs = []seq{{Name: "S", Calls: [][2]string{{m.Apps[0].Name, m.Apps[0].Eps[0].Name}}}}
	out = append(out, inputOf(m))
	// 2. project and sequence apps missing (generators report an error or crash: that too must repeat)
	m2 := genModel(r.Fork(), 0)
	in2 := inputOf(m2)
	in2.Project, in2.SeqProj = "NoSuchProject", "NoSuchSeq"
	out = append(out, in2)
	// 3. calls to applications and endpoints that do not exist; references to types that do not exist
	m3 := genModel(r.Fork(), 0)
	for i := range m3.Apps {
		for j := range m3.Apps[i].Eps {
			m3.Apps[i].Eps[j].Calls = append(m3.Apps[i].Eps[j].Calls, [2]string{"Ghost", "Nowhere"})
		}
		if len(m3.Apps[i].Types) > 0 {
			t := &m3.Apps[i].Types[0]
			t.Fields = append(t.Fields, field{Name: "dangling", Type: "Ghost.Nothing"})
		}
	}
	out = append(out, inputOf(m3))
	// 4. empty applications and an empty project
	m4 := genModel(r.Fork(), 0)
	for i := range m4.Apps {
		if i%2 == 0 {
			m4.Apps[i].Eps, m4.Apps[i].Rest, m4.Apps[i].Types, m4.Apps[i].Enums = []endpoint{{Name: "only"}}, nil, nil, nil
		}
	}
	in4 := inputOf(m4)
	out = append(out, in4)
	// 5. not Sysl at all
	out = append(out, &input{Text: "this is : not [ sysl\n\t<- ???\n", Project: "Proj", SeqProj: "Seqs", Apps: []string{"Proj", "Seqs"}})
	// 6. many attribute values needing escapes in every position an attribute can take
	m6 := genModel(r.Fork(), 0)
	for i := range m6.Apps {
		m6.Apps[i].Attrs = append(m6.Apps[i].Attrs, kv{"note", `quote " and \\ and : and #`}, kv{"x-multi", "a\\nb"})
	}
	out = append(out, inputOf(m6))
	return out
}

// ---- sort-key ties: tables, and columns of one table, declared in two files on EQUAL line numbers ----
// (pkg/database orders tables and columns by source line; syslutil.NamedTypesInSourceOrder likewise)

func tieInput(r *common.Rng, size int) *input {
	nT := 2 + size // tables per file
	rootT := pick(r, []string{"Zed", "account", "B2", "b10", "Order", "item"}, nT)
	partT := pick(r, []string{"Ua", "zlog", "A9", "customer", "Payment", "m"}, nT)
	meta := &tieMeta{App: "Shop", Cols: map[string][]nameLine{}}
	var root, part strings.Builder
	line := 1 // line number of the next line written (the two files are line-aligned)
	root.WriteString("import part\n")
	part.WriteString("\n") // keeps both files line-aligned
	root.WriteString("Shop [team=\"red\"]:\n")
	part.WriteString("Shop:\n")
	line += 2
	for i := 0; i < nT; i++ {
		nc := between(r, 2, 3+size)
		// table i of the root file: every second one is continued in the other file on the same lines (column
		// ties); the others face a different table that starts on the same line (table ties)
		shared := i%2 == 0
		fmt.Fprintf(&root, "    !table %s:\n", rootT[i])
		meta.Tables = append(meta.Tables, nameLine{rootT[i], line})
		otherT := rootT[i]
		if !shared {
			otherT = partT[i]
			meta.Tables = append(meta.Tables, nameLine{partT[i], line})
		}
		fmt.Fprintf(&part, "    !table %s:\n", otherT)
		line++
		rc := pick(r, []string{"id", "Name", "zip", "amount", "B", "a"}, nc)
		pc := pick(r, []string{"k9", "K10", "Total", "created", "c", "Z"}, nc)
		for j := 0; j < nc; j++ {
			pk := ""
			if j == 0 {
				pk = " [~pk]"
			}
			fmt.Fprintf(&root, "        %s <: int%s\n", rc[j], pk)
			meta.Cols[rootT[i]] = append(meta.Cols[rootT[i]], nameLine{rc[j], line})
			if shared {
				fmt.Fprintf(&part, "        %s <: string\n", pc[j])
			} else {
				fmt.Fprintf(&part, "        %s <: int%s\n", pc[j], pk)
			}
			meta.Cols[otherT] = append(meta.Cols[otherT], nameLine{pc[j], line})
			line++
		}
	}
	root.WriteString("    E:\n        ...\nProj [appfmt=\"%(appname)\"]:\n    all:\n        Shop\nSeqs [note=\"sequences\"]:\n    S:\n        Shop <- E\n")
	old := strings.Replace(root.String(), "import part\n", "\n", 1)
	return &input{Text: root.String(), Files: map[string]string{"part.sysl": part.String()}, Old: old, Ties: meta,
		Project: "Proj", SeqProj: "Seqs", Group: "team", Apps: []string{"Shop", "Proj", "Seqs"}}
}

// ---- schema models for the relgom code generator: one application made of tables only (what relgom supports) ----

func schemaInput(r *common.Rng, size int) *input {
	nT := 3 + size
	tabs := pick(r, []string{"Zed", "account", "B2", "b10", "Order", "item", "Ua", "zlog"}, nT)
	var sb strings.Builder
	sb.WriteString("Store [team=\"red\"]:\n")
	type col struct{ n, t string }
	pks := map[string]col{}
	for i, t := range tabs {
		fmt.Fprintf(&sb, "    !table %s:\n", t)
		cols := pick(r, fieldPool, between(r, 3, 4+size))
		for j, c := range cols {
			ty := []string{"int", "string", "bool", "float", "date", "datetime", "decimal(10.2)", "string(30)"}[r.Intn(8)]
			attr := ""
			switch {
			case j == 0:
				ty, attr = "int", " [~pk]"
				pks[t] = col{c, ty}
			case j == 1 && i > 0 && r.Bool():
				ref := tabs[r.Intn(i)]
				ty = ref + "." + pks[ref].n
			case r.Chance(1, 3):
				ty += "?"
			}
			fmt.Fprintf(&sb, "        %s <: %s%s\n", c, ty, attr)
		}
	}
	sb.WriteString("    E:\n        ...\nProj [appfmt=\"%(appname)\"]:\n    all:\n        Store\nSeqs [note=\"sequences\"]:\n    S:\n        Store <- E\n")
	return &input{Text: sb.String(), Project: "Proj", SeqProj: "Seqs", Group: "team", Apps: []string{"Store", "Proj", "Seqs"}}
}

// ---- older version of a model for the delta script ----

func mutateForDelta(r *common.Rng, m *model) *model {
	o := &model{Project: m.Project, SeqProj: m.SeqProj, Group: m.Group, Views: m.Views, Seqs: m.Seqs}
	for _, a := range m.Apps {
		b := a
		b.Types = nil
		for ti, t := range a.Types {
			if ti > 0 && r.Chance(1, 4) {
				continue // table added in the new version
			}
			t2 := t
			t2.Fields = nil
			for fi, f := range t.Fields {
				if fi > 0 && r.Chance(1, 3) {
					continue // column added in the new version
				}
				if fi > 0 && r.Chance(1, 5) && !strings.Contains(f.Type, ".") {
					f.Type = "string" // retyped
				}
				t2.Fields = append(t2.Fields, f)
			}
			if r.Chance(1, 3) {
				t2.Fields = append(t2.Fields, field{Name: "old_" + t.Name, Type: "int"}) // column dropped in the new version
				t2.Fields = append(t2.Fields, field{Name: "Old2_" + t.Name, Type: "string"})
			}
			b.Types = append(b.Types, t2)
		}
		if r.Chance(1, 2) {
			b.Types = append(b.Types, typ{Kind: "table", Name: "Legacy", Fields: []field{{Name: "lid", Type: "int", Pk: true}, {Name: "v", Type: "string"}}})
			b.Types = append(b.Types, typ{Kind: "table", Name: "ancient", Fields: []field{{Name: "aid", Type: "int", Pk: true}}})
		}
		o.Apps = append(o.Apps, b)
	}
	return o
}

// ---- foreign specs ----

func genForeign(r *common.Rng, kind string, size int) string {
	n := 2 + size*2
	types := pick(r, []string{"Order", "item", "Zed", "account", "B2", "b10", "Customer", "address", "Payment", "log"}, n)
	var sb strings.Builder
	switch kind {
	case "openapi3", "swagger":
		if kind == "openapi3" {
			sb.WriteString("openapi: \"3.0.0\"\ninfo:\n  title: Gen\n  version: \"1\"\npaths:\n")
		} else {
			sb.WriteString("swagger: \"2.0\"\ninfo:\n  title: Gen\n  version: \"1\"\nbasePath: /v1\npaths:\n")
		}
		for _, p := range pick(r, []string{"/zeta", "/alpha/{id}", "/Mid/list", "/b/c", "/A", "/orders", "/Items/{id}"}, n) {
			fmt.Fprintf(&sb, "  %s:\n", p)
			for _, me := range pick(r, []string{"get", "post", "put", "delete", "patch"}, between(r, 2, 3)) {
				fmt.Fprintf(&sb, "    %s:\n      description: op\n      parameters:\n", me)
				if strings.Contains(p, "{id}") {
					if kind == "openapi3" {
						sb.WriteString("        - name: id\n          in: path\n          required: true\n          schema:\n            type: string\n")
					} else {
						sb.WriteString("        - name: id\n          in: path\n          required: true\n          type: string\n")
					}
				}
				for _, q := range pick(r, fieldPool, between(r, 2, 4)) {
					if kind == "openapi3" {
						fmt.Fprintf(&sb, "        - name: %s\n          in: query\n          schema:\n            type: string\n", q)
					} else {
						fmt.Fprintf(&sb, "        - name: %s\n          in: query\n          type: string\n", q)
					}
				}
				for _, h := range pick(r, []string{"Accept", "X-Trace", "auth", "B"}, between(r, 2, 3)) {
					if kind == "openapi3" {
						fmt.Fprintf(&sb, "        - name: %s\n          in: header\n          schema:\n            type: string\n", h)
					} else {
						fmt.Fprintf(&sb, "        - name: %s\n          in: header\n          type: string\n", h)
					}
				}
				if kind == "openapi3" && me != "get" && me != "delete" {
					sb.WriteString("      requestBody:\n        content:\n")
					for _, mt := range pick(r, []string{"application/json", "application/xml", "text/plain"}, between(r, 2, 3)) {
						fmt.Fprintf(&sb, "          %s:\n            schema:\n              $ref: '#/components/schemas/%s'\n", mt, types[r.Intn(len(types))])
					}
				}
				sb.WriteString("      responses:\n")
				for _, st := range pick(r, []string{"200", "201", "400", "404", "500", "default"}, between(r, 2, 4)) {
					t := types[r.Intn(len(types))]
					if kind == "openapi3" {
						fmt.Fprintf(&sb, "        '%s':\n          description: d\n          headers:\n            X-Rate:\n              schema:\n                type: string\n            A-Limit:\n              schema:\n                type: string\n          content:\n", st)
						for _, mt := range pick(r, []string{"application/json", "application/xml", "text/plain"}, between(r, 1, 3)) {
							fmt.Fprintf(&sb, "            %s:\n              schema:\n                $ref: '#/components/schemas/%s'\n", mt, t)
						}
					} else {
						fmt.Fprintf(&sb, "        '%s':\n          description: d\n          schema:\n            $ref: '#/definitions/%s'\n", st, t)
					}
				}
			}
		}
		if kind == "openapi3" {
			sb.WriteString("components:\n  schemas:\n")
		} else {
			sb.WriteString("definitions:\n")
		}
		ind := "    "
		if kind == "swagger" {
			ind = "  "
		}
		for ti, t := range types {
			fs := pick(r, fieldPool, between(r, 3, 3+size*2))
			fmt.Fprintf(&sb, "%s%s:\n%s  type: object\n%s  required:\n", ind, t, ind, ind)
			for _, f := range fs[:2] {
				fmt.Fprintf(&sb, "%s    - %s\n", ind, f)
			}
			fmt.Fprintf(&sb, "%s  properties:\n", ind)
			for fi, f := range fs {
				switch {
				case fi == 2 && ti > 0:
					ref := "#/components/schemas/"
					if kind == "swagger" {
						ref = "#/definitions/"
					}
					fmt.Fprintf(&sb, "%s    %s:\n%s      $ref: '%s%s'\n", ind, f, ind, ref, types[r.Intn(ti)])
				case fi == 3:
					fmt.Fprintf(&sb, "%s    %s:\n%s      type: array\n%s      items:\n%s        type: string\n", ind, f, ind, ind, ind)
				case fi == 4:
					fmt.Fprintf(&sb, "%s    %s:\n%s      type: string\n%s      enum: [zed, Alpha, mid, B]\n", ind, f, ind, ind)
				default:
					fmt.Fprintf(&sb, "%s    %s:\n%s      type: %s\n", ind, f, ind, []string{"string", "integer", "boolean", "number"}[r.Intn(4)])
				}
			}
		}
	case "xsd":
		sb.WriteString("<?xml version=\"1.0\"?>\n<xs:schema xmlns:xs=\"http://www.w3.org/2001/XMLSchema\">\n")
		for ti, t := range types {
			fmt.Fprintf(&sb, "  <xs:complexType name=\"%s\">\n    <xs:sequence>\n", t)
			for fi, f := range pick(r, fieldPool, between(r, 3, 3+size*2)) {
				ty := []string{"xs:string", "xs:int", "xs:boolean", "xs:date", "xs:decimal"}[r.Intn(5)]
				if fi == 1 && ti > 0 {
					ty = types[r.Intn(ti)]
				}
				occ := ""
				if fi%3 == 2 {
					occ = " minOccurs=\"0\" maxOccurs=\"unbounded\""
				}
				fmt.Fprintf(&sb, "      <xs:element name=\"%s\" type=\"%s\"%s/>\n", f, ty, occ)
			}
			sb.WriteString("    </xs:sequence>\n")
			for _, a := range pick(r, []string{"ver", "Lang", "id2"}, between(r, 0, 2)) {
				fmt.Fprintf(&sb, "    <xs:attribute name=\"%s\" type=\"xs:string\"/>\n", a)
			}
			sb.WriteString("  </xs:complexType>\n")
		}
		for _, t := range types {
			fmt.Fprintf(&sb, "  <xs:element name=\"%sRoot\" type=\"%s\"/>\n", t, t)
		}
		sb.WriteString("</xs:schema>\n")
	}
	return sb.String()
}

// withClashingSchemaNames appends two object schemas `9a` and `_9a` (different properties) to a generated document:
// getSyslSafeName maps both to `_9a`
func withClashingSchemaNames(doc, kind string) string {
	ind := "    "
	if kind == "swagger" {
		ind = "  "
	}
	var sb strings.Builder
	sb.WriteString(doc)
	for _, d := range [][2]string{{"_9a", "zip"}, {"9a", "Name"}, {"_1st", "k9"}, {"1st", "amount"}} {
		fmt.Fprintf(&sb, "%s'%s':\n%s  type: object\n%s  properties:\n%s    %s:\n%s      type: string\n", ind, d[0], ind, ind, ind, d[1], ind)
	}
	return sb.String()
}

func repoDir() string {
	if d := os.Getenv("VERIF_REPO"); d != "" {
		return d
	}
	return "/repo"
}

func corpusForeign(kind string, all bool) []string {
	dir, pat := "", ""
	switch kind {
	case "openapi3":
		dir, pat = "pkg/importer/tests/openapi3", "*.yaml"
	case "swagger":
		dir, pat = "pkg/importer/tests/openapi2", "*.yaml"
	case "xsd":
		dir, pat = "pkg/importer/tests/xsd", "*.xsd"
	}
	fs, _ := filepath.Glob(filepath.Join(repoDir(), dir, pat))
	sort.Strings(fs)
	if !all && len(fs) > 8 {
		// quick tier: the larger files (more map entries)
		sort.Slice(fs, func(i, j int) bool {
			a, _ := os.Stat(fs[i])
			b, _ := os.Stat(fs[j])
			if a.Size() != b.Size() {
				return a.Size() > b.Size()
			}
			return fs[i] < fs[j]
		})
		fs = fs[:8]
	}
	return fs
}

// generators that need neither a project app nor named apps
var projectFree = map[string]bool{"pb:json": true, "pb:json-compact": true, "pb:textpb": true, "pb:binary": true, "pb:split-json": true,
	"datamodel:direct": true, "mermaid:ints-full": true, "mermaid:data-full": true, "mermaid:epa-full": true,
	"export:swagger-yaml": true, "export:openapi3-json": true, "relmod": true}

func (r *runner) repoModels(reps int) {
	fs, _ := filepath.Glob(filepath.Join(repoDir(), "tests", "*.sysl"))
	sort.Strings(fs)
	var gens []*generator
	for i := range generators {
		if generators[i].name == "relmod" && !r.c.Thorough() {
			continue // arr.ai payload parser: thorough tier only on the repository's models
		}
		if projectFree[generators[i].name] {
			gens = append(gens, &generators[i])
		}
	}
	n := 0
	for _, f := range fs {
		b, err := os.ReadFile(f)
		if err != nil || len(b) > 20000 || strings.Contains(string(b), "\nimport ") || strings.HasPrefix(string(b), "import ") {
			continue
		}
		if !r.c.Thorough() && (len(b) < 1500 || n >= 4) {
			continue
		}
		n++
		r.submit(gens, &input{Text: string(b)}, reps, "repo:tests/"+filepath.Base(f), nil)
		r.c.Hist("stream:repo-sysl")
	}
}

// ---- CLI subprocesses ----

type cliCmd struct {
	name string
	args func(in *input) []string
	out  string // "stdout" or a file / directory name relative to the work dir
	prep func(dir string) // further files the command needs in the work dir
}

// textTemplate: a `sysl template` template that walks everything the evaluator hands to a template as a map
// (applications, types, fields, endpoints) and writes one text file per application
const textTemplate = `Tmpl:
  !view start(module <: sysl.TemplateInput) -> sysl.TemplateResult:
    module -> (:
      apps = module.Apps -> <set of string> (app:
        app = buildApp(app)
      )
    )

  !view buildApp(app <: sysl.App) -> sysl.TemplateResult:
    app -> (:
      Data = "app " + app.name + "\n" + Join(typeLines(app.types) flatten(.out), "\n") + "\n" + Join(epLines(app.endpoints) flatten(.out), "\n") + "\n"
      Filename = app.name + ".txt"
    )

  !view typeLines(types <: set of Type) -> sequence of string:
    types -> (type:
      out = "type " + type.key + " {" + Join(fieldLines(type.fields) flatten(.out), ",") + "}"
    )

  !view fieldLines(fields <: set of Type) -> sequence of string:
    fields -> (field:
      out = field.key
    )

  !view epLines(eps <: set of Endpoint) -> sequence of string:
    eps -> (ep:
      out = "ep " + ep.value.name
    )
`

var cliCmds = []cliCmd{
	{"cli:pb-json", func(in *input) []string { return []string{"pb", "--mode", "json", "m.sysl"} }, "stdout", nil},
	{"cli:pb-textpb", func(in *input) []string { return []string{"pb", "--mode", "textpb", "m.sysl"} }, "stdout", nil},
	{"cli:pb-split", func(in *input) []string { return []string{"pb", "--mode", "json", "-s", "split", "m.sysl"} }, "split", nil},
	{"cli:sd-groupby", func(in *input) []string {
		return []string{"sd", "-a", in.SeqProj, "-g", in.Group, "-o", "sd/%(epname).puml", "m.sysl"}
	}, "sd", nil},
	{"cli:ints-clustered", func(in *input) []string {
		return []string{"ints", "-j", in.Project, "-c", "-o", "ints/%(epname).puml", "m.sysl"}
	}, "ints", nil},
	{"cli:ints-epa", func(in *input) []string {
		return []string{"ints", "-j", in.Project, "--epa", "-o", "epa/%(epname).puml", "m.sysl"}
	}, "epa", nil},
	{"cli:datamodel", func(in *input) []string {
		return []string{"datamodel", "-j", in.Project, "-o", "data/%(epname).puml", "m.sysl"}
	}, "data", nil},
	{"cli:export-openapi3", func(in *input) []string {
		return []string{"export", "-f", "openapi3", "-o", "oas/%(appname).json", "m.sysl"}
	}, "oas", nil},
	{"cli:export-openapi3-yaml", func(in *input) []string {
		return []string{"export", "-f", "openapi3", "-o", "oasy/%(appname).yaml", "m.sysl"}
	}, "oasy", nil},
	{"cli:pb-binary", func(in *input) []string { return []string{"pb", "--mode", "pb", "-o", "bin/m.pb", "m.sysl"} }, "bin", nil},
	{name: "cli:template", args: func(in *input) []string {
		return []string{"tmpl", "--root", ".", "--root-template", ".", "--template", "tmpl.sysl", "--app-name", realApps(in)[0],
			"--start", "start", "--outdir", "tmplout", "m.sysl"}
	}, out: "tmplout", prep: func(dir string) { os.WriteFile(filepath.Join(dir, "tmpl.sysl"), []byte(textTemplate), 0o644) }},
	// `sysl codegen` on the repository's own grammar + transform + model (tests/): the input does not depend on the model
	{name: "cli:codegen-java", args: func(in *input) []string {
		t := filepath.Join(repoDir(), "tests")
		return []string{"gen", "--root", t, "--root-transform", t, "--transform", "test.gen_multiple_annotations.sysl",
			"--grammar", "test.gen.g", "--app-name", "Model", "--start", "javaFile", "--outdir", "gen", "model.sysl"}
	}, out: "gen"},
	// `sysl transform` with an inline arr.ai script over the relational model of the module
	{name: "cli:transform", args: func(in *input) []string {
		return []string{"transform", "m.sysl", "--script",
			`\input (output: input.models(0).rel.app => .appName)`}
	}, out: "stdout"},
	{"cli:db-scripts", func(in *input) []string {
		return []string{"generate-db-scripts", "-t", "t", "-o", "db", "-a", strings.Join(realApps(in)[:2], ","), "-d", "postgres", "m.sysl"}
	}, "db", nil},
}

func (r *runner) cliOne(bin, name string, in *input, reps int) {
	var cmd *cliCmd
	for i := range cliCmds {
		if cliCmds[i].name == name {
			cmd = &cliCmds[i]
		}
	}
	if cmd == nil {
		return
	}
	var outs []string
	for k := 0; k < reps; k++ {
		// the same directory for every repetition: the compiled model records the path of its source file
		dir := filepath.Join(r.c.Out, "cli", strings.ReplaceAll(name, ":", "_"))
		os.RemoveAll(dir)
		os.MkdirAll(dir, 0o755)
		os.WriteFile(filepath.Join(dir, "m.sysl"), []byte(in.Text), 0o644)
		if cmd.out != "stdout" {
			os.MkdirAll(filepath.Join(dir, cmd.out), 0o755) // the diagram and script commands do not create it
		}
		c := exec.Command(bin, cmd.args(in)...)
		c.Dir = dir
		c.Env = append(os.Environ(), "SYSL_PLANTUML=http://localhost:1")
		var so, se strings.Builder
		c.Stdout, c.Stderr = &so, &se
		err := c.Run()
		o := ""
		if cmd.out == "stdout" {
			o = so.String()
		} else {
			files := map[string]string{}
			filepath.Walk(filepath.Join(dir, cmd.out), func(p string, fi os.FileInfo, err error) error {
				if err == nil && !fi.IsDir() {
					b, _ := os.ReadFile(p)
					rel, _ := filepath.Rel(dir, p)
					files[rel] = string(b)
				}
				return nil
			})
			o = canon(files)
		}
		if err != nil {
			o += "\nEXIT: " + err.Error()
			if strings.Contains(se.String(), "panic:") {
				o += " (panic)"
			}
		}
		outs = append(outs, o)
		os.RemoveAll(dir)
	}
	r.c.Count(name+"/"+digest(in.Text), len(outs[0]) > 0 && !strings.Contains(outs[0], "EXIT:"))
	r.c.Hist("gen:" + name)
	if strings.Contains(outs[0], "EXIT:") {
		r.c.Hist("outcome:cli-exit-nonzero")
	} else {
		r.c.Hist("outcome:cli-output")
	}
	if n := distinct(outs); n > 1 {
		a, b := differing(outs)
		r.findings = append(r.findings, finding{"nondeterministic:" + name,
			fmt.Sprintf("%s: %d distinct outputs in %d subprocess runs of the sysl binary on one generated model; first difference %s", name, n, len(outs), firstDiff(a, b)),
			replay{Generator: name, Input: *in, Reps: reps * 2, Cli: true}, len(in.Text)})
	}
}

// quick tier: one command per command family (every run is a process start + parse of the model)
var cliQuick = map[string]bool{"cli:template": true, "cli:codegen-java": true, "cli:pb-json": true, "cli:sd-groupby": true, "cli:ints-clustered": true,
	"cli:export-openapi3": true, "cli:pb-binary": true, "cli:datamodel": true}

func (r *runner) cli(bin string, m *model, reps int, all bool) {
	in := inputOf(m)
	for i := range cliCmds {
		if all || cliQuick[cliCmds[i].name] {
			n := reps
			switch cliCmds[i].name {
			case "cli:template", "cli:codegen-java", "cli:transform":
				// the code generators: fresh process 8 times (quick: 3)
				n = 3
				if all {
					n = 8
				}
			}
			if cliCmds[i].name == "cli:transform" {
				// arr.ai builds the relational model of the whole module: minutes on a generated model, so the small
				// hand-written corpus model (5 applications) is used
				r.cliOne(bin, cliCmds[i].name, corpusInputs()[0], n)
				continue
			}
			r.cliOne(bin, cliCmds[i].name, in, n)
		}
	}
	r.c.Hist("stream:cli-model")
}
