package main

func (r *runner) addCases(m *model, in *input, outs map[string][]string) {}
