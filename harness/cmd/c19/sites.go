package main

// Correspondence cases: for sites where a generator walks a map and the order of the walk is visible in the
// output, the order observed in the REAL output is printed next to the same keys in the order the model declares
// them; Coq (Determ/Run.v) looks the site up in Gen.MapRanges and checks that the observed order is what the model
// computes for the class the translator assigned (CollectSort: the byte-wise sorted keys; anything else: some
// permutation of them).

import (
	"encoding/json"
	"fmt"
	"regexp"
	"strings"

	"verifharness/common"
)

const caseHeader = `From Coq Require Import String List NArith.
Import ListNotations.
Require Import Verif.Determ.MapOrder Verif.Determ.Run Verif.Gen.MapRanges Verif.Base.Harness.
Local Open Scope string_scope.`
const caseType = "string * nat * list string * list string"
const caseFooter = `Definition M := Eval vm_compute in mismatches (c19_ok ranges) cases.
Print M.`

func gstrs(ss []string) string {
	it := make([]string, len(ss))
	for i, s := range ss {
		it[i] = common.GString(s)
	}
	return "[" + strings.Join(it, ";") + "]"
}

func (r *runner) addCase(fn string, ord int, keys, obs []string, what string) {
	if r.cases == nil {
		r.cases = r.c.NewCases("C19", caseHeader, caseType, caseFooter, 400)
	}
	for _, s := range append(append([]string{}, keys...), obs...) {
		for i := 0; i < len(s); i++ {
			if s[i] < 0x20 || s[i] > 0x7e {
				return // Coq string literals: printable ASCII only
			}
		}
	}
	r.cases.Add(fmt.Sprintf("(%s, %d, %s, %s)", common.GString(fn), ord, gstrs(keys), gstrs(obs)),
		map[string]interface{}{"site": fmt.Sprintf("%s #%d", fn, ord), "what": what, "declared": keys, "observed": obs})
	r.c.Hist("site:" + fn)
}

// filterTo keeps the elements of decl (in order, without repetition) that occur in the set of obs
func filterTo(decl, obs []string) []string {
	in := map[string]bool{}
	for _, o := range obs {
		in[o] = true
	}
	seen := map[string]bool{}
	var out []string
	for _, d := range decl {
		if in[d] && !seen[d] {
			seen[d] = true
			out = append(out, d)
		}
	}
	return out
}

var (
	reBox     = regexp.MustCompile(`(?m)^box "([^"]*)" `)
	rePackage = regexp.MustCompile(`(?m)^package "([^"]*)" \{`)
	reClass   = regexp.MustCompile(`(?m)^class "([^"]*)" as _\d+ << \(D,orchid\) >> \{\n((?:\+ [^\n]*\n)*)\}`)
	reMClass  = regexp.MustCompile(`(?m)^ class (\S+) \{`)
)

// split canon() output back into files
func filesOf(canonOut string) map[string]string {
	out := map[string]string{}
	parts := strings.Split("\n"+canonOut, "\n=== ")
	for _, p := range parts[1:] {
		i := strings.Index(p, "\n")
		if i < 0 {
			continue
		}
		out[p[:i]] = p[i+1:]
	}
	return out
}

func submatches(re *regexp.Regexp, s string, g int) []string {
	var out []string
	for _, m := range re.FindAllStringSubmatch(s, -1) {
		out = append(out, m[g])
	}
	return out
}

func mermaidClean(s string) string {
	s = strings.ReplaceAll(s, " ", "")
	return strings.ReplaceAll(s, ":", "_")
}

func (r *runner) addCases(m *model, in *input, outs map[string][]string) {
	first := func(g string) string {
		if o := outs[g]; len(o) > 0 && !strings.Contains(o[0], "PANIC: ") && !strings.Contains(o[0], "\nERROR: ") {
			return o[0]
		}
		return ""
	}
	// 1. sequence diagram group boxes
	var teams []string
	for _, a := range m.Apps {
		for _, at := range a.Attrs {
			if at.K == m.Group {
				teams = append(teams, at.V)
			}
		}
	}
	for _, g := range []string{"sd:app-groupby", "sd:endpoints-groupby"} {
		for name, txt := range filesOf(first(g)) {
			obs := submatches(reBox, txt, 1)
			if len(obs) >= 2 {
				r.addCase("sequencediagram.GenerateSequenceDiag", 1, filterTo(teams, obs), obs, g+" "+name)
			}
		}
	}
	// 2. clustered integration view: package blocks
	var nss []string
	for _, a := range m.Apps {
		if i := strings.LastIndex(a.Name, " :: "); i > 0 {
			nss = append(nss, a.Name[:i])
		}
	}
	for name, txt := range filesOf(first("ints:clustered")) {
		obs := submatches(rePackage, txt, 1)
		if len(obs) >= 2 {
			r.addCase("integrationdiagram.IntsDiagramVisitor.BuildClusterForIntsView", 2, filterTo(nss, obs), obs, "ints:clustered "+name)
		}
	}
	// 3 + 4. OpenAPI3 export: `required` of every tuple type, `parameters` of every operation
	for appName, txt := range filesOf(first("export:openapi3-json")) {
		var doc struct {
			Paths map[string]map[string]struct {
				Parameters []struct {
					Name string `json:"name"`
				} `json:"parameters"`
			} `json:"paths"`
			Components struct {
				Schemas map[string]struct {
					Required []string `json:"required"`
				} `json:"schemas"`
			} `json:"components"`
		}
		if json.Unmarshal([]byte(txt), &doc) != nil {
			continue
		}
		var a *app
		for i := range m.Apps {
			if m.Apps[i].Name == appName {
				a = &m.Apps[i]
			}
		}
		if a == nil {
			continue
		}
		for _, t := range a.Types {
			if t.Kind != "type" {
				continue
			}
			var req []string
			for _, f := range t.Fields {
				if !strings.HasSuffix(f.Type, "?") {
					req = append(req, f.Name)
				}
			}
			if sc, ok := doc.Components.Schemas[t.Name]; ok && len(req) >= 2 && len(sc.Required) == len(req) {
				r.addCase("exporter.OpenAPI3Exporter.exportType", 2, req, sc.Required, "required of "+appName+"."+t.Name)
			}
		}
		for _, re := range a.Rest {
			path := regexp.MustCompile(` <: \w+`).ReplaceAllString(re.Path, "")
			op, ok := doc.Paths[path][strings.ToLower(re.Method)]
			if !ok {
				continue
			}
			var decl, obs []string
			for _, q := range re.Query {
				decl = append(decl, q.Name)
			}
			for _, h := range re.Header {
				decl = append(decl, h.Name)
			}
			for _, p := range op.Parameters {
				obs = append(obs, p.Name)
			}
			decl = filterTo(decl, obs)
			if len(decl) >= 2 && len(decl) == len(obs) {
				r.addCase("exporter.OpenAPI3Exporter.GenerateOpenAPI3", 4, decl, obs, "parameters of "+appName+" "+re.Method+" "+path)
			}
		}
	}
	// 5. PlantUML data model: attribute order inside each class
	fieldsOf := map[string][]string{}
	kindOf := map[string]string{}
	for _, a := range m.Apps {
		for _, t := range a.Types {
			var fs []string
			for _, f := range t.Fields {
				fs = append(fs, f.Name)
			}
			fieldsOf[a.Name+"."+t.Name] = fs
			kindOf[a.Name+"."+t.Name] = t.Kind
		}
	}
	for _, txt := range filesOf(first("datamodel:direct")) {
		for _, mt := range reClass.FindAllStringSubmatch(txt, -1) {
			var obs []string
			for _, l := range strings.Split(strings.TrimSpace(mt[2]), "\n") {
				if f := strings.Fields(l); len(f) >= 2 {
					obs = append(obs, f[1])
				}
			}
			decl, ok := fieldsOf[mt[1]]
			if ok && len(obs) >= 2 && len(filterTo(decl, obs)) == len(obs) {
				site := "datamodeldiagram.DataModelView.DrawTuple"
				if kindOf[mt[1]] == "table" {
					site = "datamodeldiagram.DataModelView.DrawRelation"
				}
				r.addCase(site, 1, filterTo(decl, obs), obs, "attributes of "+mt[1])
			}
		}
	}
	// 6. Mermaid data diagram: class order
	if txt := first("mermaid:data-full"); txt != "" {
		obs := submatches(reMClass, txt, 1)
		var decl []string
		for _, a := range m.Apps {
			for _, t := range a.Types {
				decl = append(decl, mermaidClean(a.Name)+"."+t.Name)
			}
			for _, e := range a.Enums {
				decl = append(decl, mermaidClean(a.Name)+"."+e.Name)
			}
		}
		if d := filterTo(decl, obs); len(d) >= 2 && len(d) == len(obs) {
			r.addCase("mermaid.SortedKeys", 1, d, obs, "classes of the Mermaid data diagram")
		}
	}
}

// ---- sort sites: the order the REAL output shows for a slice that went through a sort.Slice / sort.Sort comparator,
// next to the elements with the projections the comparator compares (source line, name); Coq (Determ/Run.v
// c19_sort_ok) looks the site up in Gen.MapRanges.sort_sites, requires as many projections as the comparator of the
// current source has links, and compares with the model's sort under the lexicographic chain. ----

const sortCaseHeader = `From Coq Require Import String List NArith.
Import ListNotations.
Require Import Verif.Determ.SortSites Verif.Determ.Run Verif.Gen.MapRanges Verif.Base.Harness.
Local Open Scope string_scope.
Local Open Scope N_scope.`
const sortCaseType = "string * nat * list row * list string"
const sortCaseFooter = `Definition M := Eval vm_compute in mismatches (c19_sort_ok sort_sites) cases.
Print M.`

func (r *runner) addSortCase(fn string, decl []nameLine, obs []string, what string) {
	if len(obs) < 2 || len(obs) != len(decl) {
		return
	}
	if r.sortCases == nil {
		r.sortCases = r.c.NewCases("C19s", sortCaseHeader, sortCaseType, sortCaseFooter, 400)
	}
	rows := make([]string, len(decl))
	tie := false
	seen := map[int]bool{}
	for i, d := range decl {
		rows[i] = fmt.Sprintf("(%s, [KN %d; KS %s])", common.GString(d.Name), d.Line, common.GString(d.Name))
		if seen[d.Line] {
			tie = true
		}
		seen[d.Line] = true
	}
	r.sortCases.Add(fmt.Sprintf("(%s, 1%%nat, [%s], %s)", common.GString(fn), strings.Join(rows, ";"), gstrs(obs)),
		map[string]interface{}{"site": fn, "what": what, "declared": decl, "observed": obs})
	r.c.Hist("sort-site:" + fn)
	if tie {
		r.c.Hist("sort-site-with-tie:" + fn)
	}
}

var (
	reCreate  = regexp.MustCompile(`(?m)^CREATE TABLE (\w+)\(\n((?:  \w+ [^\n]*\n)*)`)
	reColumn  = regexp.MustCompile(`(?m)^  (\w+) `)
	reKeyName = regexp.MustCompile(`(?m)^\t(\w+)Key\b`)
)

// addSortCases: line-tie inputs through the database script (tables, columns) and the relgom code generator (model keys)
func (r *runner) addSortCases(in *input, outs map[string][]string) {
	meta := in.Ties
	if meta == nil {
		return
	}
	first := func(g string) string {
		if o := outs[g]; len(o) > 0 && !strings.Contains(o[0], "PANIC: ") && !strings.Contains(o[0], "\nERROR: ") {
			return o[0]
		}
		return ""
	}
	if txt, ok := filesOf(first("db:create"))[meta.App]; ok {
		var tabs []string
		for _, mt := range reCreate.FindAllStringSubmatch(txt, -1) {
			tabs = append(tabs, mt[1])
			var cols []string
			for _, c := range reColumn.FindAllStringSubmatch(mt[2], -1) {
				if c[1] != "CONSTRAINT" {
					cols = append(cols, c[1])
				}
			}
			r.addSortCase("database.sortNamesByLine", meta.Cols[mt[1]], cols, "db:create columns of "+mt[1])
		}
		r.addSortCase("database.sortNamesByLine", meta.Tables, tabs, "db:create tables")
	}
	if txt, ok := filesOf(first("codegen:relgom"))[meta.App+"/"+meta.App+".go"]; ok {
		byLower := map[string]string{}
		for _, t := range meta.Tables {
			byLower[strings.ToLower(t.Name)] = t.Name
		}
		var obs []string
		for _, k := range submatches(reKeyName, txt, 1) {
			if n, ok := byLower[strings.ToLower(k)]; ok {
				obs = append(obs, n)
			}
		}
		r.addSortCase("syslutil.NamedTypesInSourceOrder", meta.Tables, obs, "relgom model keys")
	}
}
