// C07: compilation is deterministic and safe to run concurrently in one process.
//
// Real side (all in a worker subprocess, so that a fatal error of the runtime - concurrent map access, a race
// report with halt_on_error, out of memory - or a hang is observed from outside and turned into a failing input):
//
//	seq     every spec compiled one after another, R times: text and JSON serialisations must be byte-identical
//	batch   the same specs compiled by K goroutines at once (random start offsets, GOMAXPROCS 1..16): every result
//	        must be byte-identical to the sequential one; afterwards the lexer-state map must be empty
//	churn   the lexer-state map under K goroutines that do exactly what a lexer does to it (look the state up as for
//	        the first token, look it up again, delete it): the second look-up must find the first one's state, the
//	        map must be empty afterwards and the heap must stay small
//	lsp     the language server's syntax check on valid specs, sequentially and concurrently: no diagnostics, map empty
//
// Correspondence with the Coq models (Conc/Run.v), in the main process:
//
//	keyed   2..6 real lexers driven token by token in an interleaved order by one goroutine, sharing the process-global
//	        map: the token stream of each lexer and the number of map entries after every action, vs. Keyed.run at the
//	        indentation machine
//	post    generated modules with mixin chains / diamonds / cycles: per application the member table after
//	        compilation vs. Post.post_process
package main

import (
	"bytes"
	"crypto/sha1"
	"encoding/json"
	"fmt"
	"os"
	"path/filepath"
	"runtime"
	"sort"
	"strings"
	"sync"
	"sync/atomic"
	"time"

	"github.com/antlr/antlr4/runtime/Go/antlr"
	"github.com/sirupsen/logrus"
	"github.com/spf13/afero"

	parser "github.com/anz-bank/sysl/pkg/grammar"
	lspimpl "github.com/anz-bank/sysl/pkg/lsp/impl"
	"github.com/anz-bank/sysl/pkg/parse"
	"github.com/anz-bank/sysl/pkg/pbutil"
	"github.com/anz-bank/sysl/pkg/sysl"
	"github.com/anz-bank/sysl/pkg/syslutil"

	"verifharness/common"
)

// ------------------------------------------------------------------ specs

type spec struct {
	ID   int    `json:"id"`
	Kind string `json:"kind"`           // corpus | gen | mixin | tiny
	Path string `json:"path,omitempty"` // corpus: relative to the repository
	Text string `json:"text,omitempty"` // otherwise: the root file
}

func (s spec) name() string {
	if s.Path != "" {
		return s.Path
	}
	return fmt.Sprintf("%s#%d", s.Kind, s.ID)
}

type outcome struct {
	Text string `json:"text"` // digest of the prototext serialisation
	JSON string `json:"json"` // digest of the JSON serialisation
	Err  string `json:"err"`
}

func digest(b []byte) string { return fmt.Sprintf("%x", sha1.Sum(b))[:16] }

var repoDir = func() string {
	if r := os.Getenv("VERIF_REPO"); r != "" {
		return r
	}
	return "/repo"
}()

// compile one spec with the real parser and serialise it with the real writers
func compile(s *spec) (o outcome, text string) {
	defer func() {
		if x := recover(); x != nil {
			o = outcome{Err: fmt.Sprintf("PANIC: %v", x)}
		}
	}()
	var m *sysl.Module
	var err error
	if s.Path != "" {
		m, err = parse.NewParser().ParseFromFs(s.Path, syslutil.NewChrootFs(afero.NewOsFs(), repoDir))
	} else {
		m, err = parse.NewParser().ParseString(s.Text)
	}
	if err != nil {
		return outcome{Err: "error: " + err.Error()}, ""
	}
	var tb, jb bytes.Buffer
	if err := pbutil.FTextPBWithOpt(&tb, m, pbutil.OutputOptions{}); err != nil {
		return outcome{Err: "textpb: " + err.Error()}, ""
	}
	if err := pbutil.FJSONPBWithOpt(&jb, m, pbutil.OutputOptions{}); err != nil {
		return outcome{Err: "json: " + err.Error()}, ""
	}
	return outcome{Text: digest(tb.Bytes()), JSON: digest(jb.Bytes())}, tb.String()
}

func firstDiff(a, b string) string {
	la, lb := strings.Split(a, "\n"), strings.Split(b, "\n")
	for i := 0; i < len(la) && i < len(lb); i++ {
		if la[i] != lb[i] {
			return fmt.Sprintf("line %d: %q vs %q", i+1, clip(la[i], 70), clip(lb[i], 70))
		}
	}
	return fmt.Sprintf("%d vs %d lines", len(la), len(lb))
}

func clip(s string, n int) string {
	if len(s) > n {
		return s[:n] + "..."
	}
	return s
}

// ------------------------------------------------------------------ worker protocol

type req struct {
	Op      string          `json:"op"` // seq | batch | churn | lsp
	Specs   []spec          `json:"specs,omitempty"`
	Jobs    []int           `json:"jobs,omitempty"` // indexes into Specs
	K       int             `json:"k,omitempty"`
	Procs   int             `json:"procs,omitempty"`
	OffSeed uint64          `json:"offseed,omitempty"`
	N       int             `json:"n,omitempty"`      // churn: iterations per goroutine; lsp: repetitions
	Expect  map[int]outcome `json:"expect,omitempty"` // batch: sequential outcome per spec index
	Cold    bool            `json:"cold,omitempty"`   // lsp: no sequential pass before the concurrent one
	R3      *r3req          `json:"r3,omitempty"`     // round 3 operations (round3.go)
}

type rep struct {
	Outcomes []outcome `json:"outcomes,omitempty"` // per job
	Diffs    []string  `json:"diffs,omitempty"`    // batch: "job <i>: <what differs>"
	Count    int       `json:"count"`              // lexer-state entries after the operation
	Lost     int       `json:"lost,omitempty"`     // churn: look-ups that did not find the state just created
	Errors   int       `json:"errors,omitempty"`   // lsp: diagnostics on valid input
	HeapMB   int       `json:"heap_mb,omitempty"`
	Millis   int64     `json:"millis,omitempty"`
	Gate     *gateOut  `json:"gate,omitempty"` // gate: one compilation through the gate reader
}

func spin(d time.Duration) {
	t0 := time.Now()
	for time.Since(t0) < d {
		runtime.Gosched()
	}
}

func runParallel(k, procs int, offSeed uint64, body func(g int)) {
	if procs > 0 {
		defer runtime.GOMAXPROCS(runtime.GOMAXPROCS(procs))
	}
	rng := common.NewRng(offSeed)
	offs := make([]time.Duration, k)
	for g := range offs {
		offs[g] = time.Duration(rng.Intn(1500)) * time.Microsecond
	}
	var wg sync.WaitGroup
	start := make(chan struct{})
	for g := 0; g < k; g++ {
		wg.Add(1)
		go func(g int) {
			defer wg.Done()
			<-start
			spin(offs[g])
			body(g)
		}(g)
	}
	close(start)
	wg.Wait()
}

// a lexer-sized heap object with an address of its own, as the constructors return (a stack object could move)
//
//go:noinline
func newLexerObject() *parser.SyslLexer { return &parser.SyslLexer{} }

func heapMB() int {
	var ms runtime.MemStats
	runtime.ReadMemStats(&ms)
	return int(ms.HeapSys >> 20)
}

func serve(line []byte) interface{} {
	var q req
	if err := json.Unmarshal(line, &q); err != nil {
		return rep{Diffs: []string{"bad request: " + err.Error()}}
	}
	t0 := time.Now()
	var r rep
	before := parser.VerifLexerStateCount() // entries an earlier request left behind were reported then
	switch q.Op {
	case "seq":
		for _, j := range q.Jobs {
			o, _ := compile(&q.Specs[j])
			r.Outcomes = append(r.Outcomes, o)
		}
	case "batch":
		r.Outcomes = make([]outcome, len(q.Jobs))
		texts := make([]string, len(q.Jobs))
		runParallel(q.K, q.Procs, q.OffSeed, func(g int) {
			for i := g; i < len(q.Jobs); i += q.K {
				r.Outcomes[i], texts[i] = compile(&q.Specs[q.Jobs[i]])
			}
		})
		r.Count = parser.VerifLexerStateCount() - before
		for i, j := range q.Jobs {
			if exp, ok := q.Expect[j]; ok && exp != r.Outcomes[i] {
				o2, t2 := compile(&q.Specs[j]) // alone again, to say what differs
				d := fmt.Sprintf("job %d (%s): concurrent %+v, sequential %+v", i, q.Specs[j].name(), r.Outcomes[i], exp)
				if o2 == exp && texts[i] != "" && t2 != "" {
					d += "; first difference " + firstDiff(texts[i], t2)
				}
				r.Diffs = append(r.Diffs, d)
			}
		}
	case "churn":
		var lost int64
		runParallel(q.K, q.Procs, q.OffSeed, func(g int) {
			for i := 0; i < q.N; i++ {
				l := newLexerObject()
				a := parser.VerifLexerStateID(l) // first token: the state is created
				b := parser.VerifLexerStateID(l) // every later token: it must be found
				if a != b {
					atomic.AddInt64(&lost, 1)
				}
				parser.DeleteLexerState(l) // the parse ends
			}
		})
		time.Sleep(20 * time.Millisecond)
		r.Lost = int(lost)
	case "lsp":
		for n := 0; n < q.N && !q.Cold; n++ {
			for _, j := range q.Jobs {
				r.Errors += lspimpl.VerifSyntaxErrors(q.Specs[j].Text)
			}
		}
		if q.K > 1 {
			var errs int64
			runParallel(q.K, q.Procs, q.OffSeed, func(g int) {
				for i := g; i < len(q.Jobs)*q.N; i += q.K {
					atomic.AddInt64(&errs, int64(lspimpl.VerifSyntaxErrors(q.Specs[q.Jobs[i%len(q.Jobs)]].Text)))
				}
			})
			r.Errors += int(errs)
		}
	default:
		serveRound3(&q, &r)
	}
	if q.Op != "batch" {
		r.Count = parser.VerifLexerStateCount() - before
	}
	r.HeapMB = heapMB()
	r.Millis = time.Since(t0).Milliseconds()
	return r
}

// the worker kills itself before a runaway allocation can hurt the machine
func memoryWatchdog(limitMB int) {
	go func() {
		for {
			time.Sleep(5 * time.Millisecond)
			if h := heapMB(); h > limitMB {
				fmt.Fprintf(os.Stderr, "VERIF-MEMORY-WATCHDOG: heap %d MB > %d MB\n", h, limitMB)
				os.Exit(97)
			}
		}
	}()
}

// ------------------------------------------------------------------ replay descriptor

type replay struct {
	Kind    string            `json:"kind"` // seq | batch | cold | coldlsp | churn | lsp | keyed | post
	Specs   []spec            `json:"specs,omitempty"`
	Jobs    []int             `json:"jobs,omitempty"`
	K       int               `json:"k,omitempty"`
	Procs   int               `json:"procs,omitempty"`
	OffSeed uint64            `json:"offseed,omitempty"`
	N       int               `json:"n,omitempty"`
	Reps    int               `json:"reps,omitempty"`
	Sched   []int             `json:"sched,omitempty"` // keyed: which session acts
	Note    string            `json:"note,omitempty"`
	Graph   []gFile           `json:"graph,omitempty"` // gate: the import graph
	Files   map[string]string `json:"files,omitempty"` // shareimp
	Roots   []string          `json:"roots,omitempty"`
}

// ------------------------------------------------------------------ runner (parent side)

type runner struct {
	c        *common.Ctx
	w        *common.Worker
	deaths   int
	deadline time.Duration
}

// call runs one request in the worker; a dead / hung worker is itself a finding
func (r *runner) call(q req, rp replay) (rep, bool) { return r.callOn(r.w, q, rp, "") }

// callOn: cold != "" marks the first request of a fresh worker process (nothing has warmed the ANTLR tables): a race
// report there gets the key race:cold-start[:<what>]
func (r *runner) callOn(w *common.Worker, q req, rp replay, cold string) (rep, bool) {
	var out rep
	died, timedOut, stderr := w.Call(q, &out, r.deadline)
	if !died && !timedOut {
		return out, true
	}
	r.deaths++
	switch {
	case cold != "" && strings.Contains(stderr, "WARNING: DATA RACE"):
		site := raceSite(stderr)
		r.c.Fail(cold, fmt.Sprintf("race detector, first concurrent %s of a fresh process (k=%d, GOMAXPROCS=%d, no sequential pass before): %s: %s", q.Op, q.K, q.Procs, site, clip(raceSummary(stderr), 300)), rp)
	case timedOut:
		r.c.Fail("hang:"+q.Op, fmt.Sprintf("%s (k=%d, GOMAXPROCS=%d) did not finish within %v", q.Op, q.K, q.Procs, r.deadline), rp)
	case strings.Contains(stderr, "WARNING: DATA RACE"):
		site := raceSite(stderr)
		r.c.Fail("data-race:"+site, fmt.Sprintf("race detector: %s during %s (k=%d, GOMAXPROCS=%d): %s", site, q.Op, q.K, q.Procs, clip(raceSummary(stderr), 300)), rp)
	case strings.Contains(stderr, "VERIF-MEMORY-WATCHDOG") || strings.Contains(stderr, "out of memory") || strings.Contains(stderr, "cannot allocate memory"):
		r.c.Fail("memory:"+q.Op, fmt.Sprintf("%s (k=%d, GOMAXPROCS=%d) exhausts memory: %s", q.Op, q.K, q.Procs, clip(firstFatal(stderr), 200)), rp)
	default:
		r.c.Fail("crash:"+common.PanicSite(stderr), fmt.Sprintf("the process died during %s (k=%d, GOMAXPROCS=%d): %s", q.Op, q.K, q.Procs, clip(firstFatal(stderr), 200)), rp)
	}
	return out, false
}

func firstFatal(stderr string) string {
	for _, l := range strings.Split(stderr, "\n") {
		if strings.HasPrefix(l, "fatal error:") || strings.HasPrefix(l, "panic:") || strings.HasPrefix(l, "VERIF-") || strings.HasPrefix(l, "runtime:") {
			return l
		}
	}
	return clip(strings.TrimSpace(stderr), 200)
}

// first frame of the race report that is in sysl or in the ANTLR runtime
func raceSite(stderr string) string {
	i := strings.Index(stderr, "WARNING: DATA RACE")
	for _, l := range strings.Split(stderr[i:], "\n") {
		l = strings.TrimSpace(l)
		if (strings.Contains(l, "github.com/anz-bank/sysl/") || strings.Contains(l, "github.com/antlr/")) && strings.HasSuffix(l, ")") && !strings.HasPrefix(l, "/") {
			fn := l[:strings.LastIndex(l, "(")]
			return fn[strings.LastIndex(fn, "/")+1:]
		}
	}
	return "unknown"
}

func raceSummary(stderr string) string {
	i := strings.Index(stderr, "WARNING: DATA RACE")
	ls := strings.Split(stderr[i:], "\n")
	var keep []string
	for _, l := range ls {
		t := strings.TrimSpace(l)
		if strings.HasPrefix(t, "Write at") || strings.HasPrefix(t, "Read at") || strings.HasPrefix(t, "Previous") {
			keep = append(keep, t)
		}
		if len(keep) == 2 {
			break
		}
	}
	return strings.Join(keep, " / ")
}

func subset(specs []spec, jobs []int) ([]spec, []int) {
	idx := map[int]int{}
	var ss []spec
	js := make([]int, len(jobs))
	for i, j := range jobs {
		k, ok := idx[j]
		if !ok {
			k = len(ss)
			idx[j] = k
			ss = append(ss, specs[j])
		}
		js[i] = k
	}
	return ss, js
}

// sequential baseline: R passes; returns the outcome per spec (of the first pass) and which specs are stable
func (r *runner) sequential(specs []spec, passes int) ([]outcome, []bool, bool) {
	all := make([]int, len(specs))
	for i := range all {
		all[i] = i
	}
	base := make([]outcome, len(specs))
	stable := make([]bool, len(specs))
	for p := 0; p < passes; p++ {
		out, ok := r.call(req{Op: "seq", Specs: specs, Jobs: all}, replay{Kind: "seq", Specs: specs, Jobs: all, Reps: passes})
		if !ok || len(out.Outcomes) != len(specs) {
			return nil, nil, false
		}
		for i, o := range out.Outcomes {
			r.c.Count("seq:"+specs[i].name()+":"+o.Text, specs[i].Kind != "tiny")
			if p == 0 {
				base[i], stable[i] = o, true
				if o.Err == "" {
					r.c.Hist("seq-result:ok")
				} else {
					r.c.Hist("seq-result:" + strings.SplitN(o.Err, ":", 2)[0])
				}
			} else if o != base[i] && stable[i] {
				stable[i] = false
				ss, js := subset(specs, []int{i})
				r.c.Fail("unstable-sequential:"+specs[i].Kind, fmt.Sprintf("%s compiled twice in a row gives different serialisations: %+v then %+v", specs[i].name(), base[i], o),
					replay{Kind: "seq", Specs: ss, Jobs: js, Reps: 20})
			}
		}
		if out.Count != 0 {
			r.c.Fail("lexer-state-leak:sequential", fmt.Sprintf("%d lexer-state entries left after %d sequential compilations", out.Count, len(specs)),
				replay{Kind: "seq", Specs: specs, Jobs: all, Reps: 1})
		}
	}
	return base, stable, true
}

// one concurrent batch against the baseline
func (r *runner) batch(specs []spec, base []outcome, stable []bool, jobs []int, k, procs int, offSeed uint64, stream string) {
	ss, js := subset(specs, jobs)
	exp := map[int]outcome{}
	for i, j := range jobs {
		if stable[j] {
			exp[js[i]] = base[j]
		}
	}
	rp := replay{Kind: "batch", Specs: ss, Jobs: js, K: k, Procs: procs, OffSeed: offSeed, Reps: 10}
	out, ok := r.call(req{Op: "batch", Specs: ss, Jobs: js, K: k, Procs: procs, OffSeed: offSeed, Expect: exp}, rp)
	r.c.Hist(fmt.Sprintf("batch:%s:k<=%d", stream, bucket(k)))
	r.c.Hist(fmt.Sprintf("batch:GOMAXPROCS<=%d", bucket(procs)))
	if !ok {
		return
	}
	for i, j := range jobs {
		r.c.Count(fmt.Sprintf("conc:%s:%d:%d", specs[j].name(), k, procs), true)
		r.c.Hist("conc-compile:" + specs[j].Kind)
		if e, has := exp[js[i]]; has && i < len(out.Outcomes) && out.Outcomes[i] != e {
			what := fmt.Sprintf("%s compiled by one of %d goroutines (GOMAXPROCS=%d) differs from its sequential result", specs[j].name(), k, procs)
			for _, d := range out.Diffs {
				if strings.HasPrefix(d, fmt.Sprintf("job %d ", i)) {
					what += ": " + d
				}
			}
			r.c.Fail("differs-concurrent:"+specs[j].Kind, clip(what, 500), rp)
		}
	}
	if out.Count != 0 {
		r.c.Fail("lexer-state-leak:compile", fmt.Sprintf("%d lexer-state entries left after a batch of %d compilations by %d goroutines (every parse must delete its entry)", out.Count, len(jobs), k), rp)
	}
}

// coldBatch: a FRESH worker process whose very first action is a concurrent batch over distinct specs (the ANTLR
// runtime fills caches inside ATN states on the first visit of a grammar state, so a sequential pass beforehand would
// hide any sharing of an ATN between instances). The results are compared with the sequential baseline afterwards.
type coldResult struct {
	jobs []int
	outs []outcome
	rp   replay
}

func (r *runner) coldBatch(specs []spec, jobs []int, k, procs int, offSeed uint64) *coldResult {
	ss, js := subset(specs, jobs)
	rp := replay{Kind: "cold", Specs: ss, Jobs: js, K: k, Procs: procs, OffSeed: offSeed, Reps: 5}
	w := common.NewWorker()
	defer w.Close()
	out, ok := r.callOn(w, req{Op: "batch", Specs: ss, Jobs: js, K: k, Procs: procs, OffSeed: offSeed}, rp, "race:cold-start")
	r.c.Hist(fmt.Sprintf("cold-batch:k<=%d", bucket(k)))
	for _, j := range jobs {
		r.c.Count(fmt.Sprintf("cold:%s:%d:%d:%d", specs[j].name(), k, procs, offSeed), true)
		r.c.Hist("cold-compile:" + specs[j].Kind)
	}
	if !ok || len(out.Outcomes) != len(jobs) {
		return nil
	}
	if out.Count != 0 {
		r.c.Fail("lexer-state-leak:compile", fmt.Sprintf("%d lexer-state entries left after the first batch of a fresh process (%d compilations, %d goroutines)", out.Count, len(jobs), k), rp)
	}
	return &coldResult{jobs: jobs, outs: out.Outcomes, rp: rp}
}

func (r *runner) judgeCold(specs []spec, base []outcome, stable []bool, cr *coldResult) {
	if cr == nil {
		return
	}
	for i, j := range cr.jobs {
		if stable[j] && cr.outs[i] != base[j] {
			r.c.Fail("differs-concurrent:cold:"+specs[j].Kind, fmt.Sprintf("%s compiled in the first concurrent batch of a fresh process (k=%d) gives %+v, sequentially %+v", specs[j].name(), cr.rp.K, cr.outs[i], base[j]), cr.rp)
		}
	}
}

func (r *runner) coldLsp(texts []spec, k, procs, n int, offSeed uint64) {
	jobs := make([]int, len(texts))
	for i := range jobs {
		jobs[i] = i
	}
	rp := replay{Kind: "coldlsp", Specs: texts, Jobs: jobs, K: k, Procs: procs, N: n, OffSeed: offSeed, Reps: 5}
	w := common.NewWorker()
	defer w.Close()
	out, ok := r.callOn(w, req{Op: "lsp", Cold: true, Specs: texts, Jobs: jobs, K: k, Procs: procs, N: n, OffSeed: offSeed}, rp, "race:cold-start:lsp-diagnostics")
	r.c.Count(fmt.Sprintf("coldlsp:%d:%d:%d", k, procs, offSeed), true)
	r.c.HistN("lsp:cold-syntax-checks", len(texts)*n)
	if !ok {
		return
	}
	if out.Errors != 0 {
		r.c.Fail("lsp-diagnostics:spurious", fmt.Sprintf("the language server's syntax check, run concurrently in a fresh process, reports %d diagnostics on specs the compiler accepts (k=%d)", out.Errors, k), rp)
	}
	if out.Count != 0 {
		r.c.Fail("lexer-state-leak:lsp-diagnostics", fmt.Sprintf("%d lexer-state entries left after %d concurrent syntax checks by the language server", out.Count, len(texts)*n), rp)
	}
}

func bucket(n int) int {
	for _, b := range []int{1, 2, 4, 8, 16, 32, 64} {
		if n <= b {
			return b
		}
	}
	return 128
}

func (r *runner) churn(k, procs, n int, offSeed uint64, heapLimit int) {
	rp := replay{Kind: "churn", K: k, Procs: procs, N: n, OffSeed: offSeed, Reps: 3}
	out, ok := r.call(req{Op: "churn", K: k, Procs: procs, N: n, OffSeed: offSeed}, rp)
	r.c.Count(fmt.Sprintf("churn:%d:%d:%d", k, procs, n), true)
	r.c.HistN("churn:state-lifecycles", k*n)
	if !ok {
		return
	}
	if out.Lost != 0 {
		r.c.Fail("lexer-state-lost", fmt.Sprintf("%d of %d lexers did not find, on their second look-up, the state created on the first (%d goroutines, GOMAXPROCS=%d): the lexer would continue with an empty indentation stack", out.Lost, k*n, k, procs), rp)
	}
	if out.Count != 0 {
		r.c.Fail("lexer-state-leak:churn", fmt.Sprintf("lexer-state map reports %d entries after %d create/delete cycles by %d goroutines, all ended", out.Count, k*n, k), rp)
	}
	if out.HeapMB > heapLimit {
		r.c.Fail("memory:churn", fmt.Sprintf("heap is %d MB after %d create/delete cycles of lexer states", out.HeapMB, k*n), rp)
	}
}

func (r *runner) lsp(texts []spec, k, procs, n int, offSeed uint64) {
	jobs := make([]int, len(texts))
	for i := range jobs {
		jobs[i] = i
	}
	rp := replay{Kind: "lsp", Specs: texts, Jobs: jobs, K: k, Procs: procs, N: n, OffSeed: offSeed, Reps: 3}
	out, ok := r.call(req{Op: "lsp", Specs: texts, Jobs: jobs, K: k, Procs: procs, N: n, OffSeed: offSeed}, rp)
	r.c.Count(fmt.Sprintf("lsp:%d:%d:%d", k, procs, n), true)
	r.c.HistN("lsp:syntax-checks", len(texts)*n*2)
	if !ok {
		return
	}
	if out.Errors != 0 {
		r.c.Fail("lsp-diagnostics:spurious", fmt.Sprintf("the language server's syntax check reports %d diagnostics on specs the compiler accepts (k=%d)", out.Errors, k), rp)
	}
	if out.Count != 0 {
		r.c.Fail("lexer-state-leak:lsp-diagnostics", fmt.Sprintf("%d lexer-state entries left after %d syntax checks by the language server (diagnoseRaw never deletes its lexer's entry)", out.Count, len(texts)*n*2), rp)
	}
}

// ------------------------------------------------------------------ generators

var prims = []string{"int", "string", "bool", "decimal", "date", "float"}

// a grammatical spec with nested indentation, calls, types: the mostly-valid stream
func genSpec(r *common.Rng) string {
	var sb strings.Builder
	na := 1 + r.Intn(4)
	for a := 0; a < na; a++ {
		fmt.Fprintf(&sb, "App%d", a)
		if r.Chance(1, 3) {
			fmt.Fprintf(&sb, " [owner=\"t%d\", ~tag%d]", r.Intn(5), r.Intn(3))
		}
		sb.WriteString(":\n")
		if r.Chance(1, 3) {
			fmt.Fprintf(&sb, "    @version = \"1.%d\"\n", r.Intn(9))
		}
		nt := r.Intn(4)
		for t := 0; t < nt; t++ {
			kw := "!type"
			if r.Chance(1, 3) {
				kw = "!table"
			}
			fmt.Fprintf(&sb, "    %s T%d:\n", kw, t)
			nf := 1 + r.Intn(4)
			for f := 0; f < nf; f++ {
				ty := prims[r.Intn(len(prims))]
				if t > 0 && r.Chance(1, 4) {
					ty = fmt.Sprintf("T%d", r.Intn(t))
				}
				if r.Chance(1, 5) {
					ty = "sequence of " + ty
				}
				opt := ""
				if r.Chance(1, 4) {
					opt = "?"
				}
				fmt.Fprintf(&sb, "        f%d <: %s%s\n", f, ty, opt)
			}
		}
		ne := 1 + r.Intn(3)
		for e := 0; e < ne; e++ {
			if r.Chance(1, 4) {
				fmt.Fprintf(&sb, "    /res%d/{id <: int}:\n        GET ?q=string:\n            return ok <: T0\n", e)
				continue
			}
			fmt.Fprintf(&sb, "    Ep%d", e)
			if r.Chance(1, 3) {
				fmt.Fprintf(&sb, "(p <: %s)", prims[r.Intn(len(prims))])
			}
			sb.WriteString(":\n")
			var body func(ind string, d int)
			body = func(ind string, d int) {
				ns := 1 + r.Intn(3)
				for k := 0; k < ns; k++ {
					switch r.Intn(8) {
					case 0:
						fmt.Fprintf(&sb, "%sApp%d <- Ep%d\n", ind, r.Intn(na), r.Intn(2))
					case 1:
						fmt.Fprintf(&sb, "%sreturn ok <: T%d\n", ind, r.Intn(3))
					case 2, 3:
						if d > 0 {
							fmt.Fprintf(&sb, "%sif c%d:\n", ind, k)
							body(ind+"    ", d-1)
							if r.Bool() {
								fmt.Fprintf(&sb, "%selse:\n", ind)
								body(ind+"    ", d-1)
							}
						} else {
							fmt.Fprintf(&sb, "%s...\n", ind)
						}
					case 4:
						if d > 0 {
							fmt.Fprintf(&sb, "%s%s:\n", ind, []string{"for each x in y", "loop 3 times", "while c", "alt a"}[r.Intn(4)])
							body(ind+"    ", d-1)
						} else {
							fmt.Fprintf(&sb, "%sdo it\n", ind)
						}
					default:
						fmt.Fprintf(&sb, "%sstep %d\n", ind, k)
					}
				}
			}
			body("        ", 1+r.Intn(3))
		}
		sb.WriteString("\n")
	}
	return sb.String()
}

// hostile stream: a generated spec with a line damaged (the outcome is an error or an odd model; it must be the same
// error or model every time)
func genHostile(r *common.Rng) string {
	lines := strings.Split(genSpec(r), "\n")
	i := r.Intn(len(lines))
	switch r.Intn(5) {
	case 0:
		lines[i] = "  " + lines[i]
	case 1:
		lines[i] = strings.Replace(lines[i], ":", "", 1)
	case 2:
		lines[i] = lines[i] + " <: <:"
	case 3:
		lines[i] = "\t" + strings.TrimLeft(lines[i], " ")
	case 4:
		lines = append(lines[:i], lines[min(i+2, len(lines)):]...)
	}
	return strings.Join(lines, "\n")
}

func min(a, b int) int {
	if a < b {
		return a
	}
	return b
}

// mixin modules: apps M00.. with own types T<j> (field o<app> records the declaring app) and mixin lists that form
// chains, diamonds, cycles, self references and references to a missing app
type mixApp struct {
	idx   int
	types []int
	mix   []int
	abs   bool
}

func genMixin(r *common.Rng, chain bool) []mixApp {
	n := 3 + r.Intn(5)
	apps := make([]mixApp, n)
	for i := range apps {
		apps[i].idx = i
		apps[i].abs = r.Chance(2, 3)
		seen := map[int]bool{}
		for t := r.Intn(4); t > 0; t-- {
			x := r.Intn(6)
			if !seen[x] {
				seen[x] = true
				apps[i].types = append(apps[i].types, x)
			}
		}
		for m := r.Intn(3); m > 0; m-- {
			x := r.Intn(n + 1) // n = a missing app (M99)
			if x == n {
				x = 99
			}
			apps[i].mix = append(apps[i].mix, x)
		}
	}
	if chain { // M00 -|> M01 -|> M02 with types only at the far end: the result depends on the processing order
		apps[0].mix = []int{1}
		apps[1].mix = []int{2}
		apps[0].types, apps[1].types = nil, []int{1}
		apps[2].types = []int{2, 3}
	}
	return apps
}

func renderMixin(apps []mixApp) string {
	var sb strings.Builder
	for _, a := range apps {
		fmt.Fprintf(&sb, "M%02d", a.idx)
		if a.abs {
			sb.WriteString(" [~abstract]")
		}
		sb.WriteString(":\n")
		for _, m := range a.mix {
			fmt.Fprintf(&sb, "    -|> M%02d\n", m)
		}
		sb.WriteString("    Ep: ...\n")
		for _, t := range a.types {
			fmt.Fprintf(&sb, "    !type T%02d:\n        o%02d <: int\n", t, a.idx)
		}
		sb.WriteString("\n")
	}
	return sb.String()
}

func gPairs(ps [][2]int) string {
	it := make([]string, len(ps))
	for i, p := range ps {
		it[i] = fmt.Sprintf("(%d,%d)", p[0], p[1])
	}
	return "[" + strings.Join(it, ";") + "]"
}

func gInts(xs []int) string {
	it := make([]string, len(xs))
	for i, x := range xs {
		it[i] = fmt.Sprint(x)
	}
	return "[" + strings.Join(it, ";") + "]"
}

// compile a mixin module and project, per app, the member table (type number, declaring app), sorted by type
func observeMixin(text string) (map[int][][2]int, error) {
	m, err := parse.NewParser().ParseString(text)
	if err != nil {
		return nil, err
	}
	out := map[int][][2]int{}
	for name, app := range m.Apps {
		var ai int
		if _, err := fmt.Sscanf(name, "M%02d", &ai); err != nil {
			return nil, fmt.Errorf("unexpected app %q", name)
		}
		mem := [][2]int{}
		for tn, t := range app.Types {
			var ti, oi int
			if _, err := fmt.Sscanf(tn, "T%02d", &ti); err != nil {
				return nil, fmt.Errorf("unexpected type %q", tn)
			}
			defs := t.GetTuple().GetAttrDefs()
			if len(defs) != 1 {
				return nil, fmt.Errorf("type %s.%s has %d fields", name, tn, len(defs))
			}
			for fn := range defs {
				if _, err := fmt.Sscanf(fn, "o%02d", &oi); err != nil {
					return nil, fmt.Errorf("unexpected field %q", fn)
				}
			}
			mem = append(mem, [2]int{ti, oi})
		}
		sort.Slice(mem, func(i, j int) bool { return mem[i][0] < mem[j][0] })
		out[ai] = mem
	}
	return out, nil
}

// independent statement of what post-processing must give for a mixin declaration: an app that mixes in a source has,
// afterwards, every type name the source DECLARED itself (own declarations win over mixed-in ones)
func judgeMixin(apps []mixApp, obs map[int][][2]int) string {
	byIdx := map[int]mixApp{}
	for _, a := range apps {
		byIdx[a.idx] = a
	}
	for _, a := range apps {
		have := map[int]int{}
		for _, p := range obs[a.idx] {
			have[p[0]] = p[1]
		}
		for _, t := range a.types {
			if have[t] != a.idx {
				return fmt.Sprintf("M%02d declares T%02d itself but ends up with the one of M%02d", a.idx, t, have[t])
			}
		}
		for _, m := range a.mix {
			src, ok := byIdx[m]
			if !ok {
				continue
			}
			for _, t := range src.types {
				if _, ok := have[t]; !ok {
					return fmt.Sprintf("M%02d mixes in M%02d but lacks its type T%02d", a.idx, m, t)
				}
			}
		}
	}
	return ""
}

// ------------------------------------------------------------------ keyed correspondence: interleaved real lexers

type tokRec struct {
	ty, width   int
	hidden, eof bool
}

func calcSpaces(text string) int {
	s := 0
	for i := 0; i < len(text); i++ {
		if text[i] == ' ' {
			s++
		}
		if text[i] == '\t' {
			s += 4
		}
	}
	return s
}

// drive len(texts) lexers in the order sched prescribes (entry = session that acts; a finished session's turn ends it).
// Returns the Gallina case and the oracle's verdict: every stream must equal the stream of the same text lexed alone.
func interleave(texts []string, sched []int, solo [][]int) (term string, ntoks int, bad string) {
	n := len(texts)
	lex := make([]*parser.SyslLexer, n)
	for i, t := range texts {
		lex[i] = parser.NewThreadSafeSyslLexer(antlr.NewInputStream(t))
	}
	done := make([]bool, n)  // EOF returned
	ended := make([]bool, n) // DeleteLexerState called
	streams := make([][]int, n)
	var events, sizes []string
	base := parser.VerifLexerStateCount()
	act := func(i int) {
		if ended[i] {
			return
		}
		if done[i] {
			parser.DeleteLexerState(lex[i])
			ended[i] = true
			events = append(events, fmt.Sprintf("e %d", i))
			sizes = append(sizes, fmt.Sprint(parser.VerifLexerStateCount()-base))
			return
		}
		t := lex[i].NextToken()
		ty := t.GetTokenType()
		if ty == antlr.TokenEOF {
			done[i] = true
			streams[i] = append(streams[i], 0)
			events = append(events, fmt.Sprintf("u %d 0 0 F T", i))
			sizes = append(sizes, fmt.Sprint(parser.VerifLexerStateCount()-base))
			ntoks++
			return
		}
		streams[i] = append(streams[i], ty)
		ntoks++
		if ty == parser.SyslLexerINDENT || ty == parser.SyslLexerDEDENT {
			return // synthetic (no lexer rule produces these types): not a raw token
		}
		w := 0
		if ty == parser.SyslLexerWS || ty == parser.SyslLexerE_WS {
			w = calcSpaces(t.GetText())
		}
		h := "F"
		if t.GetChannel() == antlr.TokenHiddenChannel {
			h = "T"
		}
		events = append(events, fmt.Sprintf("u %d %d %d %s F", i, ty, w, h))
		sizes = append(sizes, fmt.Sprint(parser.VerifLexerStateCount()-base))
	}
	for _, i := range sched {
		act(i % n)
	}
	for i := 0; i < n; i++ { // run everything to its end
		for !ended[i] {
			act(i)
		}
	}
	var ss []string
	for i := range streams {
		ss = append(ss, fmt.Sprintf("(%d,%s)", i, gInts(streams[i])))
		if bad == "" && solo != nil && !eqInts(streams[i], solo[i]) {
			bad = fmt.Sprintf("lexer %d of %d sees a different token stream when the others run in between (%d vs %d tokens)", i, n, len(streams[i]), len(solo[i]))
		}
	}
	if c := parser.VerifLexerStateCount() - base; bad == "" && c != 0 {
		bad = fmt.Sprintf("%d lexer-state entries left after all %d lexers were deleted", c, n)
	}
	return fmt.Sprintf("([%s], [%s], [%s])", strings.Join(events, ";"), strings.Join(ss, ";"), strings.Join(sizes, ";")), ntoks, bad
}

func eqInts(a, b []int) bool {
	if len(a) != len(b) {
		return false
	}
	for i := range a {
		if a[i] != b[i] {
			return false
		}
	}
	return true
}

func lexAlone(text string) []int {
	l := parser.NewThreadSafeSyslLexer(antlr.NewInputStream(text))
	defer parser.DeleteLexerState(l)
	var out []int
	for {
		t := l.NextToken()
		if t.GetTokenType() == antlr.TokenEOF {
			return append(out, 0)
		}
		out = append(out, t.GetTokenType())
	}
}

// ------------------------------------------------------------------ corpus

func corpus() []spec {
	var out []spec
	for _, dir := range []string{"pkg/parse/tests", "tests", "demo/examples", "pkg/exporter/test-data", "pkg/importer/tests"} {
		filepath.Walk(filepath.Join(repoDir, dir), func(p string, info os.FileInfo, err error) error {
			if err != nil || info.IsDir() || !strings.HasSuffix(p, ".sysl") || info.Size() > 30000 {
				return nil
			}
			b, err := os.ReadFile(p)
			if err != nil || bytes.Contains(b, []byte("import //")) || bytes.Contains(b, []byte("github.com")) {
				return nil // remote imports need the network
			}
			rel, _ := filepath.Rel(repoDir, p)
			out = append(out, spec{Kind: "corpus", Path: rel})
			return nil
		})
	}
	sort.Slice(out, func(i, j int) bool { return out[i].Path < out[j].Path })
	return out
}

const tinySpec = "A:\n    E:\n        B <- F\nB:\n    F: ...\n"

// ------------------------------------------------------------------ main

func main() {
	if common.IsWorker() {
		logrus.SetLevel(logrus.PanicLevel)
		limit := 3000
		if raceEnabled {
			limit = 12000
		}
		memoryWatchdog(limit)
		common.ServeWorker(serve)
		return
	}
	logrus.SetLevel(logrus.PanicLevel)
	c := common.Setup("C07")
	defer c.Finish()
	os.Setenv("GORACE", "halt_on_error=1")
	r := &runner{c: c, w: common.NewWorker(), deadline: 240 * time.Second}
	if raceEnabled {
		r.deadline = 900 * time.Second
	}
	defer r.w.Close()
	c.Res.Extra["race_detector"] = raceEnabled
	c.Res.Rule = "specs = repository .sysl files without remote imports + generated grammatical specs (nested blocks, calls, types, REST) + the same with one damaged line + mixin modules (chains, diamonds, cycles, missing sources); each spec is compiled sequentially (baseline, repeated) and in batches by k..64 goroutines with random start offsets and GOMAXPROCS 1..16, text and JSON serialisations compared byte for byte; the lexer-state map is driven by concurrent create/look-up/delete cycles; distinct = (spec, k, GOMAXPROCS) or sequential result; non-trivial = every concurrent compilation and every sequential compilation of a non-tiny spec. Round 3: generated modules with views (untyped nested transforms under assignments and lets, shared by mixins, equal view and let names in several applications; non-trivial = something to infer) compared with the model and compiled repeatedly in one and in fresh processes; import graphs with differently spelled imports (letter case, ./, a/../, no extension, leading /) compiled through a gate reader under forced completion orders of the reads (distinct = (graph, completion order); non-trivial = a file named by several import statements); one parse.Parser value used twice in a row and by 8 goroutines; 8 compilations sharing one reader; an edit history of one document compiled in order by 1 and 4 goroutines SECOND PASS of round 3: one parse.Parser value compiles 2..4 generated view modules one after another (sources repeated; view names, let names drawn from small ranges so that scope keys recur across sources; half of the modules have a let over an untyped nested transform in every view) - every call must give byte for byte what a parser of its own gives and leave in GetAssigns / GetLets / GetMessages what a fresh parser holds; the same parser used by two goroutines whose calls are interleaved with a gate reader (start 1, start 2, rest of 1, rest of 2); one parser compiles all parser-sharing specs in a random order three times. Non-trivial: every chain / gated run (each has at least two calls on one parser)."

	if c.Replay != "" {
		var rp replay
		if err := common.LoadReplay(c.Replay, &rp); err != nil {
			fmt.Fprintln(os.Stderr, err)
			os.Exit(3)
		}
		doReplay(r, rp)
		fmt.Printf("replay %s: failures=%d\n", rp.Kind, len(c.Res.Failures))
		return
	}

	phaseT := time.Now()
	phases := map[string]float64{}
	c.Res.Extra["phase_seconds"] = phases
	phase := func(name string) {
		phases[name] = float64(time.Since(phaseT).Milliseconds()) / 1000
		phaseT = time.Now()
	}
	thorough := c.Thorough()
	scale := 1
	if c.Search {
		scale = 3
	}

	// ---- specs
	var specs []spec
	corp := corpus()
	c.Res.Extra["corpus_files"] = len(corp)
	nCorp, nGen, nHost, nMix := 30, 14, 8, 12
	if thorough {
		nCorp, nGen, nHost, nMix = len(corp), 60, 30, 40
		if raceEnabled { // a compilation under the race detector costs 5-10x
			nCorp, nGen, nHost, nMix = 110, 40, 20, 30
		}
	}
	if nCorp > len(corp) {
		nCorp = len(corp)
	}
	if thorough && !raceEnabled {
		specs = append(specs, corp...)
	} else { // a seeded sample, always including the repository's mixin example
		perm := make([]int, len(corp))
		for i := range perm {
			perm[i] = i
		}
		for i := len(perm) - 1; i > 0; i-- {
			j := c.Rng.Intn(i + 1)
			perm[i], perm[j] = perm[j], perm[i]
		}
		for _, i := range perm[:nCorp] {
			specs = append(specs, corp[i])
		}
		for _, s := range corp {
			if strings.HasSuffix(s.Path, "/mixin.sysl") {
				specs = append(specs, s)
			}
		}
	}
	for i := 0; i < nGen; i++ {
		specs = append(specs, spec{Kind: "gen", Text: genSpec(c.Rng)})
	}
	for i := 0; i < nHost; i++ {
		specs = append(specs, spec{Kind: "hostile", Text: genHostile(c.Rng)})
	}
	var mixMods [][]mixApp
	for i := 0; i < nMix; i++ {
		apps := genMixin(c.Rng, i%3 == 0)
		mixMods = append(mixMods, apps)
		specs = append(specs, spec{Kind: "mixin", Text: renderMixin(apps)})
	}
	for i := range specs {
		specs[i].ID = i
	}
	c.Sample(map[string]string{"kind": "mixin", "text": specs[len(specs)-nMix].Text})
	c.Sample(map[string]string{"kind": "gen", "text": clip(specs[len(specs)-nMix-nHost-nGen].Text, 600)})

	// ---- post-processing correspondence + oracle (main process)
	pc := c.NewCases("post", "From Coq Require Import List NArith.\nImport ListNotations.\nRequire Import Verif.Conc.Run Verif.Base.Harness.\nLocal Open Scope N_scope.",
		"post_case", "Definition M := Eval vm_compute in mismatches post_ok cases.\nPrint M.", 400)
	nPost := 150
	if thorough {
		nPost = 3000
		if raceEnabled {
			nPost = 500
		}
	}
	for i := 0; i < nPost*scale; i++ {
		var apps []mixApp
		if i < len(mixMods) {
			apps = mixMods[i]
		} else {
			apps = genMixin(c.Rng, i%4 == 0)
		}
		text := renderMixin(apps)
		obs, err := observeMixin(text)
		rp := replay{Kind: "post", Specs: []spec{{Kind: "mixin", Text: text}}}
		chainy := false
		for _, a := range apps {
			for _, m := range a.mix {
				if m < len(apps) && len(apps[m].mix) > 0 {
					chainy = true
				}
			}
		}
		c.Count("post:"+text, chainy)
		if chainy {
			c.Hist("post:mixin-of-a-mixin")
		} else {
			c.Hist("post:flat")
		}
		if err != nil {
			c.Fail("valid-spec-rejected:mixin", "a grammatical mixin module is rejected or comes out with unexpected members: "+strings.TrimSpace(err.Error()), rp)
			continue
		}
		if bad := judgeMixin(apps, obs); bad != "" {
			c.Fail("mixin-incomplete", bad, rp)
		}
		var as, os []string
		for _, a := range apps {
			var mem [][2]int
			for _, t := range a.types {
				mem = append(mem, [2]int{t, a.idx})
			}
			as = append(as, fmt.Sprintf("(%d,%s,%s)", a.idx, gPairs(mem), gInts(a.mix)))
			os = append(os, fmt.Sprintf("(%d,%s)", a.idx, gPairs(obs[a.idx])))
		}
		pc.Add(fmt.Sprintf("([%s], [%s])", strings.Join(as, ";"), strings.Join(os, ";")), rp)
	}
	pc.Close()
	phase("post")

	// ---- keyed correspondence: interleaved real lexers sharing the global map (main process)
	kc := c.NewCases("keyed", "From Coq Require Import List NArith Bool.\nImport ListNotations.\nRequire Import Verif.Conc.Keyed Verif.Conc.Run Verif.Base.Harness.\nLocal Open Scope N_scope.\nNotation T := true.\nNotation F := false.",
		"keyed_case", "Definition M := Eval vm_compute in mismatches keyed_ok cases.\nPrint M.", 12)
	var small []string
	for _, s := range specs {
		t := s.Text
		if s.Path != "" {
			b, _ := os.ReadFile(filepath.Join(repoDir, s.Path))
			t = string(b)
		}
		if len(t) > 0 && len(t) < 1200 {
			small = append(small, t)
		}
	}
	nKeyed := 48
	if thorough {
		nKeyed = 600
		if raceEnabled {
			nKeyed = 150
		}
	}
	for i := 0; i < nKeyed*scale && len(small) > 0; i++ {
		n := 2 + c.Rng.Intn(5)
		texts := make([]string, n)
		solo := make([][]int, n)
		total := 0
		for j := range texts {
			texts[j] = small[c.Rng.Intn(len(small))]
			if j > 0 && c.Rng.Chance(1, 4) {
				texts[j] = texts[0] // the same source in two lexers at once
			}
			solo[j] = lexAlone(texts[j])
			total += len(solo[j])
		}
		sched := make([]int, 0, total+2*n)
		burst := 1 + c.Rng.Intn(6)
		for len(sched) < total+2*n {
			s := c.Rng.Intn(n)
			for b := 1 + c.Rng.Intn(burst); b > 0; b-- {
				sched = append(sched, s)
			}
		}
		var ss []spec
		for _, t := range texts {
			ss = append(ss, spec{Kind: "lexed", Text: t})
		}
		rp := replay{Kind: "keyed", Specs: ss, Sched: sched}
		term, ntoks, bad := interleave(texts, sched, solo)
		c.Count(fmt.Sprintf("keyed:%d:%x", n, sha1.Sum([]byte(term))), true)
		c.Hist(fmt.Sprintf("keyed:lexers=%d", n))
		c.HistN("keyed:tokens", ntoks)
		if bad != "" {
			c.Fail("lexer-crosstalk", bad, rp)
		}
		kc.Add(term, map[string]interface{}{"kind": "keyed", "lexers": n, "tokens": ntoks, "sched_len": len(sched)})
	}
	kc.Close()
	phase("keyed")

	// ---- cold start: fresh processes whose first action is a concurrent batch (before any baseline exists)
	nCold := 2
	if thorough {
		nCold = 6
	}
	var colds []*coldResult
	for i := 0; i < nCold*scale && r.deaths < 3; i++ {
		k := []int{16, 8, 32, 64, 12, 24}[i%6]
		if k > len(specs) {
			k = len(specs)
		}
		perm := make([]int, len(specs))
		for j := range perm {
			perm[j] = j
		}
		for j := len(perm) - 1; j > 0; j-- {
			x := c.Rng.Intn(j + 1)
			perm[j], perm[x] = perm[x], perm[j]
		}
		colds = append(colds, r.coldBatch(specs, perm[:k], k, 4+c.Rng.Intn(13), c.Rng.Uint64()))
	}
	{
		var texts []spec
		for _, s := range specs {
			if (s.Kind == "gen" || s.Kind == "mixin") && len(texts) < 8 {
				texts = append(texts, s)
			}
		}
		for i := 0; i < (nCold+1)/2*scale && r.deaths < 3; i++ {
			r.coldLsp(texts, 8, 8, 4, c.Rng.Uint64())
		}
	}
	phase("cold")

	// ---- sequential baseline
	passes := 2
	if thorough && !raceEnabled {
		passes = 3
	}
	base, stable, ok := r.sequential(specs, passes)
	if !ok {
		return
	}
	for _, cr := range colds {
		r.judgeCold(specs, base, stable, cr)
	}
	phase("sequential")

	// ---- concurrent batches
	rounds := 3
	if thorough {
		rounds = 50
		if raceEnabled {
			rounds = 10
		}
	}
	rounds *= scale
	for round := 0; round < rounds && r.deaths < 3; round++ {
		k := []int{2, 4, 8, 16, 32, 64}[c.Rng.Intn(6)]
		if round == 0 {
			k = 64
		}
		procs := 1 + c.Rng.Intn(16)
		if round == 1 {
			procs = 1
		}
		// k..64 goroutines over k' <= k specs: some specs are compiled by several goroutines at once
		nSpecs := k
		if nSpecs > len(specs) {
			nSpecs = len(specs)
		}
		if c.Rng.Chance(1, 3) {
			nSpecs = 1 + c.Rng.Intn(nSpecs)
		}
		chosen := make([]int, nSpecs)
		for i := range chosen {
			chosen[i] = c.Rng.Intn(len(specs))
		}
		nJobs := k
		if thorough || round > 0 {
			nJobs = k + c.Rng.Intn(k+1)
		}
		jobs := make([]int, nJobs)
		for i := range jobs {
			jobs[i] = chosen[i%nSpecs]
		}
		r.batch(specs, base, stable, jobs, k, procs, c.Rng.Uint64(), "mixed")
	}
	// the order-sensitive family once more, all goroutines on mixin modules
	{
		var jobs []int
		for i, s := range specs {
			if s.Kind == "mixin" || strings.HasSuffix(s.Path, "/mixin.sysl") {
				jobs = append(jobs, i, i)
			}
		}
		if r.deaths < 3 {
			r.batch(specs, base, stable, jobs, 16, 8, c.Rng.Uint64(), "mixin")
		}
	}
	// many short compilations: create / delete of lexer states at the highest rate real compilations reach
	{
		tiny := []spec{{ID: 0, Kind: "tiny", Text: tinySpec}}
		tb, ts, ok := r.sequential(tiny, 1)
		n := 160
		if thorough {
			n = 1500
			if raceEnabled {
				n = 400
			}
		}
		if ok && r.deaths < 3 {
			r.batch(tiny, tb, ts, make([]int, n*scale), 12, 12, c.Rng.Uint64(), "tiny")
		}
	}

	phase("batches")
	// ---- the lexer-state map alone
	nChurn := 60000
	if thorough {
		nChurn = 1500000
		if raceEnabled {
			nChurn = 150000
		}
	}
	for _, kp := range [][2]int{{1, 1}, {8, 8}, {12, 16}} {
		if r.deaths < 3 {
			r.churn(kp[0], kp[1], nChurn*scale, c.Rng.Uint64(), 1500)
		}
	}

	phase("churn")
	// ---- the language server's syntax check
	{
		var valid []spec
		for i, s := range specs {
			if (s.Kind == "gen" || s.Kind == "mixin") && base[i].Err == "" && len(valid) < 6 {
				valid = append(valid, s)
			}
		}
		valid = append(valid, spec{Kind: "gen", Text: "import foo\nApp:\n    !type T:\n        x <: int\n"})
		n := 3
		if thorough {
			n = 20
		}
		if r.deaths < 3 && len(valid) > 0 {
			r.lsp(valid, 8, 8, n*scale, c.Rng.Uint64())
		}
	}
	phase("lsp")
	r.round3(specs, base, phase)
	c.Res.Extra["worker_restarts"] = r.w.Restarts
}

func doReplay(r *runner, rp replay) {
	c := r.c
	reps := rp.Reps
	if reps <= 0 {
		reps = 1
	}
	switch rp.Kind {
	case "seq":
		r.sequential(rp.Specs, reps)
	case "batch":
		jobs := make([]int, len(rp.Specs))
		for i := range jobs {
			jobs[i] = i
		}
		base, stable, ok := r.sequential(rp.Specs, 2)
		if !ok {
			return
		}
		for i := 0; i < reps && r.deaths < 2; i++ {
			r.batch(rp.Specs, base, stable, rp.Jobs, rp.K, rp.Procs, rp.OffSeed+uint64(i), "replay")
		}
	case "churn":
		for i := 0; i < reps && r.deaths < 2; i++ {
			r.churn(rp.K, rp.Procs, rp.N, rp.OffSeed+uint64(i), 1500)
		}
	case "lsp":
		for i := 0; i < reps && r.deaths < 2; i++ {
			r.lsp(rp.Specs, rp.K, rp.Procs, rp.N, rp.OffSeed+uint64(i))
		}
	case "cold":
		var colds []*coldResult
		for i := 0; i < reps && r.deaths < 2; i++ {
			colds = append(colds, r.coldBatch(rp.Specs, rp.Jobs, rp.K, rp.Procs, rp.OffSeed+uint64(i)))
		}
		if base, stable, ok := r.sequential(rp.Specs, 2); ok {
			for _, cr := range colds {
				r.judgeCold(rp.Specs, base, stable, cr)
			}
		}
	case "coldlsp":
		for i := 0; i < reps && r.deaths < 2; i++ {
			r.coldLsp(rp.Specs, rp.K, rp.Procs, rp.N, rp.OffSeed+uint64(i))
		}
	case "keyed":
		texts := make([]string, len(rp.Specs))
		solo := make([][]int, len(rp.Specs))
		for i, s := range rp.Specs {
			texts[i] = s.Text
			solo[i] = lexAlone(s.Text)
		}
		_, _, bad := interleave(texts, rp.Sched, solo)
		c.Count("replay", true)
		if bad != "" {
			c.Fail("lexer-crosstalk", bad, rp)
		}
	case "post":
		// the module is compiled repeatedly and concurrently with itself: every result must be the same
		sp := rp.Specs
		base, stable, ok := r.sequential(sp, 10)
		if ok {
			r.batch(sp, base, stable, make([]int, 32), 16, 8, 1, "replay")
		}
	case "views":
		// the module is compiled again and again, in this process and in fresh ones
		sp := rp.Specs
		for i := range sp {
			sp[i].ID = i
		}
		base, stable, ok := r.sequential(sp, reps)
		for i := 0; ok && i < 3 && r.deaths < 2; i++ {
			w := common.NewWorker()
			out, ok2 := r.callOn(w, req{Op: "seq", Specs: sp, Jobs: []int{0}}, rp, "")
			w.Close()
			if ok2 && len(out.Outcomes) == 1 && stable[0] && out.Outcomes[0] != base[0] {
				c.Fail("unstable-sequential:"+sp[0].Kind, fmt.Sprintf("compiled in two processes: %+v and %+v", base[0], out.Outcomes[0]), rp)
				break
			}
		}
	case "gate":
		n := rp.N
		if n <= 0 {
			n = 60
		}
		r.gateSpec(rp.Graph, n, replay{Kind: "gate", Graph: rp.Graph, N: n}, nil)
	case "pchain", "pgate":
		r.replayCalls(rp)
	case "pshare-reuse", "pshare-conc", "pshare-chain":
		sp := rp.Specs
		for i := range sp {
			sp[i].ID = i
		}
		if b, _, ok := r.sequential(sp, 1); ok {
			for i := 0; i < reps && r.deaths < 2; i++ {
				k := rp.K
				if k <= 0 {
					k = 8
				}
				r.parserShared(sp, b, k, k, rp.OffSeed+uint64(i))
			}
		}
	case "shareimp":
		all := make([]int, len(rp.Roots))
		for i := range all {
			all[i] = i
		}
		base, ok := r.call(req{Op: "shareimp", R3: &r3req{Files: rp.Files, Roots: rp.Roots, Mode: "own"}, Jobs: all, K: 1}, rp)
		for i := 0; ok && i < reps && r.deaths < 2; i++ {
			out, ok2 := r.call(req{Op: "shareimp", R3: &r3req{Files: rp.Files, Roots: rp.Roots, Mode: "shared"}, Jobs: rp.Jobs, K: rp.K, Procs: rp.Procs, OffSeed: rp.OffSeed + uint64(i)}, rp)
			if !ok2 {
				break
			}
			for x, j := range rp.Jobs {
				if x < len(out.Outcomes) && j < len(base.Outcomes) && out.Outcomes[x] != base.Outcomes[j] {
					c.Fail("differs-concurrent:shared-reader", fmt.Sprintf("%s: %+v, alone %+v", rp.Roots[j], out.Outcomes[x], base.Outcomes[j]), rp)
					break
				}
			}
		}
	default:
		fmt.Fprintln(os.Stderr, "unknown replay kind", rp.Kind)
		os.Exit(3)
	}
}
