// Round 3 of C07: what one application, one view, one parse.Parser value or one shared reader can do to another
// compilation.
//
//	views    modules whose applications hold views with untyped nested transforms (the AnonType_<n>__ types of
//	         Parser.inferTypes), mixins that share view objects, equal view / let names in several applications:
//	         per application the member table, the view table and, per nested transform, the anonymous type it was
//	         given, vs. Conc/Infer.pp at the flags of the current source; the oracle compiles the same text again and
//	         again (one process, fresh processes): every serialisation must be the same
//	gate     import graphs whose import statements spell files in ways a careless normalisation would identify
//	         (letter case, ./, a/../, missing extension, leading /); every read blocks in a gate reader and is
//	         released in a forced order: every order must give the same model, and every file that is named must be
//	         compiled (its application is in the model)
//	pshare   ONE parse.Parser value used for two compilations in a row / by k goroutines at once
//	shareimp k compilations with parsers of their own sharing one reader and one file system
//	edits    LSP-style: one file compiled again and again while its text changes and changes back
package main

import (
	"bytes"
	"context"
	"fmt"
	"path"
	"regexp"
	"runtime"
	"sort"
	"strings"
	"sync"
	"time"

	"github.com/anz-bank/golden-retriever/retriever"
	"github.com/spf13/afero"

	"github.com/anz-bank/sysl/pkg/parse"
	"github.com/anz-bank/sysl/pkg/pbutil"
	"github.com/anz-bank/sysl/pkg/sysl"

	"verifharness/common"
)

// ------------------------------------------------------------------ views: generator

type vStmt struct {
	Let  bool  `json:"let"`
	Var  int   `json:"var"`  // l<var> / a<var>
	Pay  []int `json:"pay"`  // untyped nested transforms under the statement, inner before outer
	Kind int   `json:"kind"` // 0 = per Pay; 1 = typed transform only; 2 = literal
}
type vView struct {
	Name  int     `json:"name"` // w<name>
	ID    int     `json:"id"`   // parameter p<id>: the identity of the view object
	Abs   bool    `json:"abs"`
	Stmts []vStmt `json:"stmts"`
}
type vApp struct {
	Idx   int     `json:"idx"`
	Abs   bool    `json:"abs"`
	Types []int   `json:"types"`
	Anon  bool    `json:"anon"` // declares a type called AnonType_0__ itself
	Views []vView `json:"views"`
	Mix   []int   `json:"mix"`
}

func genViews(r *common.Rng, two bool) []vApp {
	n := 1 + r.Intn(4)
	apps := make([]vApp, n)
	nextView, nextPay := 0, 0
	for i := range apps {
		a := &apps[i]
		a.Idx = i
		a.Abs = r.Chance(1, 2)
		seen := map[int]bool{}
		for t := r.Intn(3); t > 0; t-- {
			if x := r.Intn(4); !seen[x] {
				seen[x] = true
				a.Types = append(a.Types, x)
			}
		}
		a.Anon = r.Chance(1, 8)
		for m := r.Intn(3); m > 0 && n > 1; m-- {
			x := r.Intn(n + 1)
			if x == n {
				x = 99
			}
			a.Mix = append(a.Mix, x)
		}
		nv := r.Intn(4)
		if two && i == 0 {
			nv = 2 + r.Intn(2)
		}
		used := map[int]bool{}
		for v := 0; v < nv; v++ {
			name := r.Intn(4)
			if used[name] {
				continue
			}
			used[name] = true
			vw := vView{Name: name, ID: nextView, Abs: !two && r.Chance(1, 8)}
			nextView++
			ns := r.Intn(4)
			if two && i == 0 {
				ns = 1 + r.Intn(2)
			}
			vars := map[int]bool{}
			for s := 0; s < ns && !vw.Abs; s++ {
				st := vStmt{Let: r.Chance(1, 3), Var: r.Intn(3)}
				key := st.Var
				if st.Let {
					key += 10
				}
				if vars[key] { // one statement per name in a transform
					continue
				}
				vars[key] = true
				switch k := r.Intn(8); {
				case two && i == 0 || k < 4:
					st.Pay = []int{nextPay}
					nextPay++
				case k < 6:
					st.Pay = []int{nextPay, nextPay + 1}
					nextPay += 2
				case k == 6:
					st.Kind = 1
				default:
					st.Kind = 2
				}
				vw.Stmts = append(vw.Stmts, st)
			}
			a.Views = append(a.Views, vw)
		}
	}
	return apps
}

func renderViews(apps []vApp) string {
	var sb strings.Builder
	for _, a := range apps {
		fmt.Fprintf(&sb, "V%02d", a.Idx)
		if a.Abs {
			sb.WriteString(" [~abstract]")
		}
		sb.WriteString(":\n")
		for _, m := range a.Mix {
			fmt.Fprintf(&sb, "    -|> V%02d\n", m)
		}
		sb.WriteString("    Ep: ...\n")
		for _, t := range a.Types {
			fmt.Fprintf(&sb, "    !type T%02d:\n        o%02d <: int\n", t, a.Idx)
		}
		if a.Anon {
			fmt.Fprintf(&sb, "    !type AnonType_0__:\n        o%02d <: int\n", a.Idx)
		}
		for _, v := range a.Views {
			if v.Abs {
				fmt.Fprintf(&sb, "    !view w%d(p%d <: int) -> int [~abstract]\n", v.Name, v.ID)
				continue
			}
			fmt.Fprintf(&sb, "    !view w%d(p%d <: int) -> int:\n        p%d -> <Some.Type> (:\n", v.Name, v.ID, v.ID)
			if len(v.Stmts) == 0 {
				sb.WriteString("            out = 1\n")
			}
			for _, s := range v.Stmts {
				lhs := fmt.Sprintf("a%d", s.Var)
				if s.Let {
					lhs = fmt.Sprintf("let l%d", s.Var)
				}
				ind := "            "
				switch {
				case s.Kind == 2:
					fmt.Fprintf(&sb, "%s%s = 1\n", ind, lhs)
				case s.Kind == 1:
					fmt.Fprintf(&sb, "%s%s = .xs -> <set of M.T> (:\n%s    n = .name\n%s)\n", ind, lhs, ind, ind)
				case len(s.Pay) == 1:
					fmt.Fprintf(&sb, "%s%s = .xs -> <set of> (:\n%s    f%d = -> <M.A> (:\n%s        n = .name\n%s    )\n%s)\n",
						ind, lhs, ind, s.Pay[0], ind, ind, ind)
				default: // Pay[0] is reached first: it sits inside the typed transform of Pay[1]'s field
					fmt.Fprintf(&sb, "%s%s = .xs -> <set of> (:\n%s    f%d = -> <M.A> (:\n%s        g = .ys -> <set of> (:\n%s            f%d = -> <M.B> (:\n%s                n = .name\n%s            )\n%s        )\n%s    )\n%s)\n",
						ind, lhs, ind, s.Pay[1], ind, ind, s.Pay[0], ind, ind, ind, ind, ind)
				}
			}
			sb.WriteString("        )\n")
		}
		sb.WriteString("\n")
	}
	return sb.String()
}

// ------------------------------------------------------------------ views: observation of the compiled module

type viewsObs struct {
	mem   map[int][][2]int // per app: (type name number, payload), sorted
	views map[int][][2]int // per app: (view name, view id), sorted
	typed [][3]int         // (transform, anonymous type number, inferring app), sorted by transform
}

var anonRE = regexp.MustCompile(`^AnonType_(\d+)__$`)

func typeNameNum(tn string) (int, error) {
	var x int
	if m := anonRE.FindStringSubmatch(tn); m != nil {
		fmt.Sscanf(m[1], "%d", &x)
		return 1000 + x, nil
	}
	if _, err := fmt.Sscanf(tn, "T%02d", &x); err != nil {
		return 0, fmt.Errorf("unexpected type %q", tn)
	}
	return x, nil
}

func observeViews(m *sysl.Module) (*viewsObs, error) {
	o := &viewsObs{mem: map[int][][2]int{}, views: map[int][][2]int{}}
	typed := map[int][3]int{}
	for name, app := range m.Apps {
		var ai int
		if _, err := fmt.Sscanf(name, "V%02d", &ai); err != nil {
			return nil, fmt.Errorf("unexpected app %q", name)
		}
		mem := [][2]int{}
		for tn, t := range app.Types {
			k, err := typeNameNum(tn)
			if err != nil {
				return nil, err
			}
			defs := t.GetTuple().GetAttrDefs()
			if len(defs) != 1 {
				return nil, fmt.Errorf("type %s.%s has %d fields", name, tn, len(defs))
			}
			for fn := range defs {
				var x int
				switch {
				case strings.HasPrefix(fn, "o"):
					fmt.Sscanf(fn, "o%02d", &x)
					mem = append(mem, [2]int{k, x})
				case strings.HasPrefix(fn, "f"):
					fmt.Sscanf(fn, "f%d", &x)
					mem = append(mem, [2]int{k, 1000 + x})
				default:
					return nil, fmt.Errorf("unexpected field %q of %s.%s", fn, name, tn)
				}
			}
		}
		sort.Slice(mem, func(i, j int) bool { return mem[i][0] < mem[j][0] })
		o.mem[ai] = mem
		vs := [][2]int{}
		for vn, v := range app.Views {
			var wn, id int
			if _, err := fmt.Sscanf(vn, "w%d", &wn); err != nil || len(v.Param) != 1 {
				return nil, fmt.Errorf("unexpected view %q", vn)
			}
			fmt.Sscanf(v.Param[0].Name, "p%d", &id)
			vs = append(vs, [2]int{wn, id})
			var walk func(e *sysl.Expr) error
			walk = func(e *sysl.Expr) error {
				t := e.GetTransform()
				if t == nil {
					return nil
				}
				for _, st := range t.Stmt {
					var sub *sysl.Expr
					if as := st.GetAssign(); as != nil {
						sub = as.Expr
						var x int
						if n, _ := fmt.Sscanf(as.Name, "f%d", &x); n == 1 && strings.HasPrefix(as.Name, "f") {
							// e is the untyped nested transform number x
							if ty := e.Type; ty != nil {
								ref := ty.GetSet().GetTypeRef().GetRef()
								if ref == nil || len(ref.Path) != 1 || len(ref.GetAppname().GetPart()) != 1 {
									return fmt.Errorf("transform %d has an unexpected type %v", x, ty)
								}
								k, err := typeNameNum(ref.Path[0])
								if err != nil {
									return err
								}
								var by int
								fmt.Sscanf(ref.Appname.Part[0], "V%02d", &by)
								typed[x] = [3]int{1000 + x, k, by}
							}
						}
					} else if lt := st.GetLet(); lt != nil {
						sub = lt.Expr
					}
					if sub != nil {
						if err := walk(sub); err != nil {
							return err
						}
					}
				}
				return nil
			}
			if v.Expr != nil {
				if err := walk(v.Expr); err != nil {
					return nil, err
				}
			}
		}
		sort.Slice(vs, func(i, j int) bool { return vs[i][0] < vs[j][0] })
		o.views[ai] = vs
	}
	for _, t := range typed {
		o.typed = append(o.typed, t)
	}
	sort.Slice(o.typed, func(i, j int) bool { return o.typed[i][0] < o.typed[j][0] })
	return o, nil
}

func gTriples(ps [][3]int) string {
	it := make([]string, len(ps))
	for i, p := range ps {
		it[i] = fmt.Sprintf("(%d,(%d,%d))", p[0], p[1], p[2])
	}
	return "[" + strings.Join(it, ";") + "]"
}

// the Gallina case: the module as written + what was observed
func viewsCase(apps []vApp, o *viewsObs) string {
	return fmt.Sprintf("(%s, %s, %s)", viewsAppsTerm(apps), viewsObsTerm(apps, o), gTriples(o.typed))
}

// the module as written: list of (name, declared members, views, mixins)
func viewsAppsTerm(apps []vApp) string {
	var as []string
	for _, a := range apps {
		var mem [][2]int
		for _, t := range a.Types {
			mem = append(mem, [2]int{t, a.Idx})
		}
		if a.Anon {
			mem = append(mem, [2]int{1000, a.Idx})
		}
		var vs []string
		for _, v := range a.Views {
			var ss []string
			for _, s := range v.Stmts {
				pay := make([]int, len(s.Pay))
				for i, p := range s.Pay {
					pay[i] = 1000 + p
				}
				if s.Let {
					ss = append(ss, fmt.Sprintf("(Some %d,%s)", letKey(v.Name, s.Var), gInts(pay))) // scope key <view name>:l<var>
				} else {
					ss = append(ss, fmt.Sprintf("(None,%s)", gInts(pay)))
				}
			}
			vs = append(vs, fmt.Sprintf("(%d,%d,%s,[%s])", v.Name, v.ID, common.GBool(v.Abs), strings.Join(ss, ";")))
		}
		as = append(as, fmt.Sprintf("(%d,%s,[%s],%s)", a.Idx, gPairs(mem), strings.Join(vs, ";"), gInts(a.Mix)))
	}
	return "[" + strings.Join(as, ";") + "]"
}

// the scope key of `let l<var>` in the top transform of view w<view>
func letKey(view, v int) int { return 100*view + v }

// per application: member table and view table as observed
func viewsObsTerm(apps []vApp, o *viewsObs) string {
	var os []string
	for _, a := range apps {
		os = append(os, fmt.Sprintf("(%d,%s,%s)", a.Idx, gPairs(o.mem[a.Idx]), gPairs(o.views[a.Idx])))
	}
	return "[" + strings.Join(os, ";") + "]"
}

// ------------------------------------------------------------------ gate reader (after harness/cmd/c05)

type gate struct {
	afero.Fs
	files   map[string]string
	mu      sync.Mutex
	waiting map[string]chan struct{}
	order   []string // arrival order of the blocked reads
	reads   []string // completion order
	unknown []string
}

func (g *gate) Read(ctx context.Context, p string) ([]byte, error) {
	b, _, _, e := g.ReadHashBranch(ctx, p)
	return b, e
}
func (g *gate) ReadHash(ctx context.Context, p string) ([]byte, retriever.Hash, error) {
	b, h, _, e := g.ReadHashBranch(ctx, p)
	return b, h, e
}

// a file system's view of a path: ./ and a/../ mean nothing, letter case does
func fsName(p string) string { return strings.TrimPrefix(path.Clean("/"+p), "/") }

func (g *gate) ReadHashBranch(ctx context.Context, p string) ([]byte, retriever.Hash, string, error) {
	name := fsName(p)
	g.mu.Lock()
	content, ok := g.files[name]
	if !ok {
		g.unknown = append(g.unknown, p)
		g.mu.Unlock()
		return nil, retriever.ZeroHash, "", fmt.Errorf("no file %s", p)
	}
	if _, dup := g.waiting[name]; dup { // a second read of a file whose first read is still blocked
		g.reads = append(g.reads, name)
		g.mu.Unlock()
		return []byte(content), retriever.ZeroHash, "", nil
	}
	ch := make(chan struct{})
	g.waiting[name] = ch
	g.order = append(g.order, name)
	g.mu.Unlock()
	<-ch
	g.mu.Lock()
	g.reads = append(g.reads, name)
	g.mu.Unlock()
	return []byte(content), retriever.ZeroHash, "", nil
}

// settled: every goroutine of the collection is parked, in our gate or in errgroup's Wait
var stackBuf = make([]byte, 4<<20)

func settled() bool {
	n := runtime.Stack(stackBuf, true)
	for _, gr := range strings.Split(string(stackBuf[:n]), "\n\n") {
		if !strings.Contains(gr, "pkg/parse.") && !strings.Contains(gr, "errgroup") {
			continue
		}
		nl := strings.IndexByte(gr, '\n')
		if nl < 0 {
			return false
		}
		hdr := gr[:nl]
		a, b := strings.IndexByte(hdr, '['), strings.IndexByte(hdr, ']')
		if a < 0 || b < a {
			return false
		}
		st := hdr[a+1 : b]
		if c := strings.IndexByte(st, ','); c >= 0 {
			st = st[:c]
		}
		switch st {
		case "chan receive":
			if !strings.Contains(gr, "gate).ReadHashBranch") {
				return false
			}
		case "semacquire", "sync.WaitGroup.Wait":
			if !strings.Contains(gr, "WaitGroup).Wait") {
				return false
			}
		default:
			return false
		}
	}
	return true
}

type gateOut struct {
	Out    outcome  `json:"out"`
	Apps   []string `json:"apps"`
	Reads  []string `json:"reads"`
	Widths []int    `json:"widths"`
	Hang   bool     `json:"hang"`
	Early  bool     `json:"early"`
	Asked  []string `json:"asked"` // paths asked of the reader that are no file
}

var errClassRE = regexp.MustCompile(`'[^']*'|"[^"]*"`)

// serialise a module / classify an error (names taken out: which of two clashing names comes first in a message may
// depend on the schedule without the result doing so)
func outcomeOf(m *sysl.Module, err error) (outcome, []string) {
	if err != nil {
		return outcome{Err: "error: " + clip(errClassRE.ReplaceAllString(strings.TrimSpace(err.Error()), "<name>"), 160)}, nil
	}
	var tb, jb bytes.Buffer
	if err := pbutil.FTextPBWithOpt(&tb, m, pbutil.OutputOptions{}); err != nil {
		return outcome{Err: "textpb: " + err.Error()}, nil
	}
	if err := pbutil.FJSONPBWithOpt(&jb, m, pbutil.OutputOptions{}); err != nil {
		return outcome{Err: "json: " + err.Error()}, nil
	}
	var apps []string
	for a := range m.Apps {
		apps = append(apps, a)
	}
	sort.Strings(apps)
	return outcome{Text: digest(tb.Bytes()), JSON: digest(jb.Bytes())}, apps
}

// lockstep: one compilation of root through the gate; choice[i] picks, at the i-th decision, among the blocked reads
// sorted by name (index modulo their number; 0 beyond the list)
func lockstep(files map[string]string, root string, choice []int, deadline time.Duration) gateOut {
	rd := &gate{Fs: afero.NewMemMapFs(), files: files, waiting: map[string]chan struct{}{}}
	done := make(chan struct{})
	var res gateOut
	go func() {
		defer close(done)
		defer func() {
			if x := recover(); x != nil {
				res.Out = outcome{Err: fmt.Sprintf("PANIC: %v", x)}
			}
		}()
		m, err := parse.NewParser().Parse(root, rd)
		res.Out, res.Apps = outcomeOf(m, err)
	}()
	limit := time.Now().Add(deadline)
	hang := false
	wait := func() bool { // until settled with something blocked (true) or done (false)
		pause := 40 * time.Microsecond
		runtime.Gosched()
		for {
			select {
			case <-done:
				return false
			default:
			}
			if settled() {
				rd.mu.Lock()
				nw := len(rd.waiting)
				rd.mu.Unlock()
				if nw > 0 {
					return true
				}
			}
			time.Sleep(pause)
			if pause < 2*time.Millisecond {
				pause = pause * 3 / 2
			} else if time.Now().After(limit) {
				hang = true
				return false
			}
		}
	}
	var widths []int
	for step := 0; wait(); step++ {
		rd.mu.Lock()
		var names []string
		for n := range rd.waiting {
			names = append(names, n)
		}
		sort.Strings(names)
		widths = append(widths, len(names))
		pick := 0
		if step < len(choice) {
			pick = choice[step] % len(names)
		}
		ch := rd.waiting[names[pick]]
		delete(rd.waiting, names[pick])
		rd.mu.Unlock()
		close(ch)
	}
	early := false
	rd.mu.Lock()
	for n, ch := range rd.waiting {
		early = !hang
		close(ch)
		delete(rd.waiting, n)
	}
	rd.mu.Unlock()
	select {
	case <-done:
	case <-time.After(5 * time.Second):
		return gateOut{Hang: true, Widths: widths}
	}
	rd.mu.Lock()
	res.Reads, res.Asked = append([]string{}, rd.reads...), append([]string{}, rd.unknown...)
	rd.mu.Unlock()
	res.Widths, res.Hang, res.Early = widths, hang, early
	return res
}

// ------------------------------------------------------------------ gate: generator of import graphs with spellings

type gFile struct {
	Path    string   `json:"path"`
	App     string   `json:"app"`
	Imports []string `json:"imports"` // as written after `import `
}

// which file an import statement written in file `from` names (independent of the parser: directory of the importing
// file unless the path starts with /, extension .sysl when none is given, then what a file system makes of it)
func resolveImport(from, spelled string) string {
	if path.Ext(spelled) == "" {
		spelled += ".sysl"
	}
	if strings.HasPrefix(spelled, "/") {
		return fsName(spelled)
	}
	return fsName(path.Join(path.Dir(from), spelled))
}

// ways to write `target` in an import statement of a file in directory dir
func spellings(r *common.Rng, dir, target string) string {
	rel := target
	if dir != "." {
		rel = "../" + target
		if strings.HasPrefix(target, dir+"/") {
			rel = strings.TrimPrefix(target, dir+"/")
		}
	}
	noext := strings.TrimSuffix(rel, ".sysl")
	opts := []string{rel, noext, "./" + rel, "./" + noext, "/" + target, "/" + strings.TrimSuffix(target, ".sysl")}
	if i := strings.IndexByte(rel, '/'); i > 0 && !strings.HasPrefix(rel, "..") {
		opts = append(opts, rel[:i]+"/../"+rel, rel[:i]+"/./"+rel[i+1:])
	}
	return opts[r.Intn(len(opts))]
}

func genImportGraph(r *common.Rng) []gFile {
	// leaves whose names differ in letter case only, in one directory and across directories
	pool := []string{"billing/Types.sysl", "billing/types.sysl", "billing/TYPES.sysl", "Billing/types.sysl", "types.sysl", "Types.sysl", "sub/types.sysl", "sub/Types.sysl"}
	nl := 2 + r.Intn(3)
	first := r.Intn(2) * 4
	leaves := []string{pool[first], pool[first+1]} // always one pair that differs in case only
	for len(leaves) < nl {
		p := pool[r.Intn(len(pool))]
		dup := false
		for _, q := range leaves {
			dup = dup || p == q
		}
		if !dup {
			leaves = append(leaves, p)
		}
	}
	mids := []string{"a.sysl", "sub/b.sysl", "c.sysl"}[:1+r.Intn(3)]
	var files []gFile
	root := gFile{Path: "main.sysl", App: "Main"}
	for _, m := range mids {
		root.Imports = append(root.Imports, spellings(r, ".", m))
	}
	if r.Chance(1, 2) {
		root.Imports = append(root.Imports, spellings(r, ".", leaves[r.Intn(len(leaves))]))
	}
	files = append(files, root)
	for i, m := range mids {
		f := gFile{Path: m, App: fmt.Sprintf("Mid%d", i)}
		for j, l := range leaves {
			if (i+j)%len(mids) == 0 || r.Chance(1, 2) { // every leaf is imported by some mid, several by more than one
				f.Imports = append(f.Imports, spellings(r, path.Dir(m), l))
			}
		}
		if r.Chance(1, 3) && i+1 < len(mids) {
			f.Imports = append(f.Imports, spellings(r, path.Dir(m), mids[i+1]))
		}
		files = append(files, f)
	}
	for i, l := range leaves {
		files = append(files, gFile{Path: l, App: fmt.Sprintf("Leaf%d", i)})
	}
	return files
}

// every file declares an application of its own and adds a type of its own to the application Shared
func renderImportGraph(files []gFile) map[string]string {
	out := map[string]string{}
	for i, f := range files {
		var sb strings.Builder
		for _, im := range f.Imports {
			fmt.Fprintf(&sb, "import %s\n", im)
		}
		fmt.Fprintf(&sb, "%s:\n    Ep: ...\n    !type Own:\n        x%d <: int\n\nShared:\n    !type From%s:\n        y <: string\n", f.App, i, f.App)
		out[f.Path] = sb.String()
	}
	return out
}

// the applications a compilation of the graph must contain: one per file that is named, transitively, from the root
func reachableApps(files []gFile) ([]string, int) {
	by := map[string]gFile{}
	for _, f := range files {
		by[f.Path] = f
	}
	seen := map[string]bool{}
	shared := 0 // files reached by more than one import statement
	hits := map[string]int{}
	var visit func(p string)
	visit = func(p string) {
		if seen[p] {
			return
		}
		seen[p] = true
		for _, im := range by[p].Imports {
			t := resolveImport(p, im)
			hits[t]++
			visit(t)
		}
	}
	visit(files[0].Path)
	var apps []string
	for p := range seen {
		if f, ok := by[p]; ok {
			apps = append(apps, f.App)
		}
	}
	for _, h := range hits {
		if h > 1 {
			shared++
		}
	}
	apps = append(apps, "Shared")
	sort.Strings(apps)
	return apps, shared
}

// ------------------------------------------------------------------ worker side of the new operations

type r3req struct {
	Files  map[string]string `json:"files,omitempty"`
	Root   string            `json:"root,omitempty"`
	Roots  []string          `json:"roots,omitempty"`
	Choice []int             `json:"choice,omitempty"`
	Mode   string            `json:"mode,omitempty"` // pshare: reuse | conc ; shareimp: own | shared
}

func memFs(files map[string]string) afero.Fs {
	fs := afero.NewMemMapFs()
	for p, c := range files {
		_ = afero.WriteFile(fs, p, []byte(c), 0o644)
	}
	return fs
}

func serveRound3(q *req, r *rep) bool {
	switch q.Op {
	case "gate":
		g := lockstep(q.R3.Files, q.R3.Root, q.R3.Choice, 40*time.Second)
		r.Gate = &g
	case "pshare":
		switch q.R3.Mode {
		case "reuse": // per spec: a parser of its own, used twice in a row
			for _, j := range q.Jobs {
				p := parse.NewParser()
				for rep := 0; rep < 2; rep++ {
					m, err := p.ParseString(q.Specs[j].Text)
					o, _ := outcomeOf(m, err)
					r.Outcomes = append(r.Outcomes, o)
				}
			}
		case "chain": // ONE parser for all jobs, one after another
			p := parse.NewParser()
			for _, j := range q.Jobs {
				m, err := p.ParseString(q.Specs[j].Text)
				o, _ := outcomeOf(m, err)
				r.Outcomes = append(r.Outcomes, o)
			}
		case "conc": // ONE parser for all goroutines
			p := parse.NewParser()
			r.Outcomes = make([]outcome, len(q.Jobs))
			runParallel(q.K, q.Procs, q.OffSeed, func(g int) {
				for i := g; i < len(q.Jobs); i += q.K {
					func() {
						defer func() {
							if x := recover(); x != nil {
								r.Outcomes[i] = outcome{Err: fmt.Sprintf("PANIC: %v", x)}
							}
						}()
						m, err := p.ParseString(q.Specs[q.Jobs[i]].Text)
						r.Outcomes[i], _ = outcomeOf(m, err)
					}()
				}
			})
		}
	case "shareimp":
		fs := memFs(q.R3.Files)
		shared, err := parse.NewReader(fs)
		if err != nil {
			r.Diffs = append(r.Diffs, "NewReader: "+err.Error())
			return true
		}
		r.Outcomes = make([]outcome, len(q.Jobs))
		body := func(i int) {
			defer func() {
				if x := recover(); x != nil {
					r.Outcomes[i] = outcome{Err: fmt.Sprintf("PANIC: %v", x)}
				}
			}()
			rd := shared
			if q.R3.Mode == "own" {
				rd, _ = parse.NewReader(memFs(q.R3.Files))
			}
			m, err := parse.NewParser().Parse(q.R3.Roots[q.Jobs[i]], rd)
			r.Outcomes[i], _ = outcomeOf(m, err)
		}
		if q.K <= 1 {
			for i := range q.Jobs {
				body(i)
			}
		} else {
			runParallel(q.K, q.Procs, q.OffSeed, func(g int) {
				for i := g; i < len(q.Jobs); i += q.K {
					body(i)
				}
			})
		}
	default:
		return false
	}
	return true
}

// ------------------------------------------------------------------ parent side

// all schedules of one import graph, depth first over the choice lists, at most limit runs
func (r *runner) gateSpec(files []gFile, limit int, rp replay, cc *common.Cases) {
	c := r.c
	texts := renderImportGraph(files)
	want, shared := reachableApps(files)
	claims, number := importClaims(files)
	var first *gateOut
	var firstChoice []int
	choice := []int{}
	runs := 0
	orders := map[string]bool{}
	for runs < limit && r.deaths < 3 {
		rq := req{Op: "gate", R3: &r3req{Files: texts, Root: files[0].Path, Choice: choice}}
		rp.Sched = choice
		out, ok := r.call(rq, rp)
		runs++
		if !ok || out.Gate == nil {
			return
		}
		g := out.Gate
		orders[strings.Join(g.Reads, ",")] = true
		c.Count(fmt.Sprintf("gate:%s:%v", digest([]byte(fmt.Sprint(texts))), g.Reads), shared > 0)
		switch {
		case g.Hang:
			c.Fail("hang:gate", fmt.Sprintf("compilation through the gate reader does not finish (choices %v, reads so far %v)", choice, g.Reads), rp)
			return
		case g.Early:
			c.Fail("import-identity:returned-early", fmt.Sprintf("Parse returned while a read was still blocked (choices %v)", choice), rp)
		case len(g.Asked) > 0:
			c.Fail("import-identity:wrong-file", fmt.Sprintf("the parser asked the reader for %v, which no import statement names (files %v)", g.Asked, keysOf(texts)), rp)
		case g.Out.Err != "":
			c.Fail("import-identity:rejected", fmt.Sprintf("a valid import graph is rejected under completion order %v: %s", g.Reads, g.Out.Err), rp)
		case strings.Join(g.Apps, ",") != strings.Join(want, ","):
			c.Fail("import-identity:not-compiled", fmt.Sprintf("completion order %v: the model holds the applications %v, the files named by the import statements declare %v (two spellings taken for one file, or one file missed)", g.Reads, g.Apps, want), rp)
		}
		if cc != nil && g.Out.Err == "" {
			var rs []int
			for _, p := range g.Reads {
				n, ok := number[p]
				if !ok {
					n = 999
				}
				rs = append(rs, n)
			}
			cc.Add(fmt.Sprintf("(%s, %s)", gInts(claims), gInts(rs)), rp)
		}
		if first == nil {
			first, firstChoice = g, append([]int{}, choice...)
		} else if g.Out != first.Out {
			c.Fail("import-identity:order-dependent", fmt.Sprintf("the same import graph compiles to different models under two completion orders of its reads: %v (choices %v) gives %+v, %v (choices %v) gives %+v",
				first.Reads, firstChoice, first.Out, g.Reads, choice, g.Out), rp)
		}
		// next choice list: odometer over the widths seen on this run
		next := make([]int, len(g.Widths))
		copy(next, choice)
		i := len(next) - 1
		for ; i >= 0; i-- {
			if next[i]+1 < g.Widths[i] {
				next[i]++
				next = next[:i+1]
				break
			}
		}
		if i < 0 {
			break
		}
		choice = next
	}
	c.HistN("gate:runs", runs)
	c.Hist(fmt.Sprintf("gate:distinct-orders<=%d", bucket(len(orders))))
	if shared > 0 {
		c.Hist("gate:file-named-by-several-imports")
	}
}

// every import statement reachable from the root, as the number of the file it names (depth first, root first)
func importClaims(files []gFile) ([]int, map[string]int) {
	by := map[string]gFile{}
	var names []string
	for _, f := range files {
		by[f.Path] = f
		names = append(names, f.Path)
	}
	sort.Strings(names)
	number := map[string]int{}
	for i, n := range names {
		number[n] = i + 1
	}
	var claims []int
	seen := map[string]bool{}
	var visit func(p string)
	visit = func(p string) {
		claims = append(claims, number[p])
		if seen[p] {
			return
		}
		seen[p] = true
		for _, im := range by[p].Imports {
			visit(resolveImport(p, im))
		}
	}
	visit(files[0].Path)
	return claims, number
}

func keysOf(m map[string]string) []string {
	var k []string
	for x := range m {
		k = append(k, x)
	}
	sort.Strings(k)
	return k
}

// views: correspondence cases + repetition oracle
func (r *runner) viewsStream(nCases, nRepeatSpecs, reps, nCold int) {
	c := r.c
	vc := c.NewCases("infer", "From Coq Require Import List NArith Bool.\nImport ListNotations.\nRequire Import Verif.Conc.Run Verif.Base.Harness.\nLocal Open Scope N_scope.\nNotation T := true.\nNotation F := false.",
		"infer_case", "Definition M := Eval vm_compute in mismatches infer_ok cases.\nPrint M.", 300)
	var repeat []spec
	for i := 0; i < nCases; i++ {
		apps := genViews(c.Rng, i%3 == 0)
		text := renderViews(apps)
		rp := replay{Kind: "views", Specs: []spec{{Kind: "views", Text: text}}, Reps: 40}
		nAnonViews, nPay, lets := 0, 0, 0
		for _, a := range apps {
			k := 0
			for _, v := range a.Views {
				p := 0
				for _, s := range v.Stmts {
					p += len(s.Pay)
					if s.Let && len(s.Pay) > 0 {
						lets++
					}
				}
				nPay += p
				if p > 0 {
					k++
				}
			}
			if k > nAnonViews {
				nAnonViews = k
			}
		}
		c.Count("views:"+text, nPay > 0)
		switch {
		case nAnonViews >= 2:
			c.Hist("views:app-with->=2-views-that-need-anonymous-types")
		case nPay > 0:
			c.Hist("views:anonymous-types-in-one-view-per-app")
		default:
			c.Hist("views:nothing-to-infer")
		}
		if lets > 0 {
			c.Hist("views:let-with-untyped-transform")
		}
		m, err := parse.NewParser().ParseString(text)
		if err != nil {
			c.Fail("valid-spec-rejected:views", "a grammatical module with views is rejected: "+clip(strings.TrimSpace(err.Error()), 200), rp)
			continue
		}
		o, err := observeViews(m)
		if err != nil {
			c.Fail("valid-spec-rejected:views", "a module with views comes out with unexpected members: "+err.Error(), rp)
			continue
		}
		vc.Add(viewsCase(apps, o), rp)
		if nAnonViews >= 2 && len(repeat) < nRepeatSpecs {
			repeat = append(repeat, spec{ID: len(repeat), Kind: "views", Text: text})
		}
		if i == 0 {
			c.Sample(map[string]string{"kind": "views", "text": clip(text, 900)})
		}
	}
	vc.Close()
	if len(repeat) == 0 || r.deaths >= 3 {
		return
	}
	// the same text again and again: one process ...
	base, stable, ok := r.sequential(repeat, reps)
	c.HistN("views:repeated-compilations", len(repeat)*reps)
	if !ok {
		return
	}
	// ... and fresh processes (Go seeds its map iteration per process and per loop)
	for i := 0; i < nCold && r.deaths < 3; i++ {
		w := common.NewWorker()
		all := make([]int, len(repeat))
		for j := range all {
			all[j] = j
		}
		rp := replay{Kind: "seq", Specs: repeat, Jobs: all, Reps: reps}
		out, ok := r.callOn(w, req{Op: "seq", Specs: repeat, Jobs: all}, rp, "")
		w.Close()
		if !ok {
			continue
		}
		c.HistN("views:fresh-process-compilations", len(repeat))
		for j, o := range out.Outcomes {
			c.Count(fmt.Sprintf("views-cold:%d:%d", i, j), true)
			if stable[j] && o != base[j] {
				stable[j] = false
				ss, js := subset(repeat, []int{j})
				c.Fail("unstable-sequential:views", fmt.Sprintf("%s compiled in two processes gives different serialisations: %+v and %+v", repeat[j].name(), base[j], o),
					replay{Kind: "seq", Specs: ss, Jobs: js, Reps: 40})
			}
		}
	}
}

// one parse.Parser value used for more than one compilation
func (r *runner) parserShared(specs []spec, base []outcome, k, procs int, offSeed uint64) {
	c := r.c
	all := make([]int, len(specs))
	for i := range all {
		all[i] = i
	}
	// (a) twice in a row
	rp := replay{Kind: "pshare-reuse", Specs: specs, Jobs: all}
	out, ok := r.call(req{Op: "pshare", R3: &r3req{Mode: "reuse"}, Specs: specs, Jobs: all}, rp)
	if ok && len(out.Outcomes) == 2*len(specs) {
		for i, s := range specs {
			c.Count("pshare-reuse:"+s.name(), true)
			c.Hist("parser-reuse:" + s.Kind)
			for rep := 0; rep < 2; rep++ {
				if o := out.Outcomes[2*i+rep]; o != base[i] {
					ss, js := subset(specs, []int{i})
					c.Fail("parser-reuse:"+s.Kind, fmt.Sprintf("%s compiled with a parse.Parser value that has compiled it %d time(s) before gives %+v, with a parser of its own %+v", s.name(), rep, o, base[i]),
						replay{Kind: "pshare-reuse", Specs: ss, Jobs: js})
					break
				}
			}
		}
	}
	// (a') ONE parser for all specs, in a random order with repetitions: whatever the parser compiled before, every
	// compilation must give what a parser of its own gives
	{
		var jobs []int
		for rep := 0; rep < 3; rep++ {
			jobs = append(jobs, all...)
		}
		rng := common.NewRng(offSeed)
		for i := len(jobs) - 1; i > 0; i-- {
			j := rng.Intn(i + 1)
			jobs[i], jobs[j] = jobs[j], jobs[i]
		}
		rp := replay{Kind: "pshare-chain", Specs: specs, Jobs: jobs}
		out, ok := r.call(req{Op: "pshare", R3: &r3req{Mode: "chain"}, Specs: specs, Jobs: jobs}, rp)
		if ok && len(out.Outcomes) == len(jobs) {
			for i, j := range jobs {
				c.Count(fmt.Sprintf("pshare-chain:%d:%s", i, specs[j].name()), true)
				if o := out.Outcomes[i]; o != base[j] {
					c.Fail("parser-reuse:"+specs[j].Kind, fmt.Sprintf("%s compiled as number %d of a series made with ONE parse.Parser value (order %v) gives %+v, with a parser of its own %+v", specs[j].name(), i+1, jobs[:i+1], o, base[j]), rp)
					break
				}
			}
			c.HistN("parser-reuse:chain-compilations", len(jobs))
		}
	}
	// (b) by k goroutines at once: specs without views (the parser's maps are written by view inference only) and, apart, all
	var plain, viewy []int
	for i, s := range specs {
		if s.Kind == "views" {
			viewy = append(viewy, i)
		} else {
			plain = append(plain, i)
		}
	}
	for _, part := range []struct {
		name string
		idx  []int
	}{{"plain", plain}, {"views", viewy}} {
		if len(part.idx) == 0 || r.deaths >= 3 {
			continue
		}
		var jobs []int
		for rep := 0; rep < 3; rep++ {
			jobs = append(jobs, part.idx...)
		}
		ss, js := subset(specs, jobs)
		rp := replay{Kind: "pshare-conc", Specs: ss, Jobs: js, K: k, Procs: procs, OffSeed: offSeed, Reps: 3}
		out, ok := r.callRekey(req{Op: "pshare", R3: &r3req{Mode: "conc"}, Specs: ss, Jobs: js, K: k, Procs: procs, OffSeed: offSeed}, rp, "parser-shared:"+part.name)
		c.Hist("parser-shared:" + part.name)
		for range jobs {
			c.Count(fmt.Sprintf("pshare-conc:%s:%d:%d", part.name, k, offSeed), true)
		}
		if !ok {
			continue
		}
		for i, j := range jobs {
			if i < len(out.Outcomes) && out.Outcomes[i] != base[j] {
				c.Fail("parser-shared:"+part.name, fmt.Sprintf("%s compiled by one of %d goroutines that share ONE parse.Parser value gives %+v, with a parser of its own %+v", specs[j].name(), k, out.Outcomes[i], base[j]), rp)
				break
			}
		}
	}
}

// callRekey: a death of the worker during this request is reported under `key` (the stream's own class) with the cause
func (r *runner) callRekey(q req, rp replay, key string) (rep, bool) {
	var out rep
	died, timedOut, stderr := r.w.Call(q, &out, r.deadline)
	if !died && !timedOut {
		return out, true
	}
	r.deaths++
	cause := clip(firstFatal(stderr), 200)
	if strings.Contains(stderr, "WARNING: DATA RACE") {
		cause = "race detector: " + raceSite(stderr) + ": " + clip(raceSummary(stderr), 300)
	}
	if timedOut {
		cause = "no answer within " + r.deadline.String()
	}
	r.c.Fail(key, fmt.Sprintf("the process died during %s (k=%d, GOMAXPROCS=%d): %s", q.Op, q.K, q.Procs, cause), rp)
	return out, false
}

// k compilations, each with a parser of its own, that share one reader and import the same files
func (r *runner) sharedImports(rng *common.Rng, k, procs, rounds int) {
	c := r.c
	files := genImportGraph(rng)
	texts := renderImportGraph(files)
	// several roots over the same imported files
	roots := []string{files[0].Path}
	for i := 0; i < 3; i++ {
		p := fmt.Sprintf("root%d.sysl", i)
		var sb strings.Builder
		for _, f := range files[1:] {
			if rng.Chance(2, 3) {
				fmt.Fprintf(&sb, "import %s\n", spellings(rng, ".", f.Path))
			}
		}
		fmt.Fprintf(&sb, "Root%d:\n    Ep: ...\n", i)
		texts[p] = sb.String()
		roots = append(roots, p)
	}
	all := make([]int, len(roots))
	for i := range all {
		all[i] = i
	}
	rp := replay{Kind: "shareimp", Files: texts, Roots: roots, K: k, Procs: procs, Reps: rounds}
	base, ok := r.call(req{Op: "shareimp", R3: &r3req{Files: texts, Roots: roots, Mode: "own"}, Jobs: all, K: 1}, rp)
	if !ok || len(base.Outcomes) != len(roots) {
		return
	}
	for i, o := range base.Outcomes {
		if o.Err != "" {
			c.Fail("valid-spec-rejected:imports", fmt.Sprintf("%s of a valid import graph is rejected: %s", roots[i], o.Err), rp)
			return
		}
	}
	for round := 0; round < rounds && r.deaths < 3; round++ {
		var jobs []int
		for i := 0; i < 2*k; i++ {
			jobs = append(jobs, rng.Intn(len(roots)))
		}
		seed := rng.Uint64()
		rp.OffSeed, rp.Jobs = seed, jobs
		out, ok := r.call(req{Op: "shareimp", R3: &r3req{Files: texts, Roots: roots, Mode: "shared"}, Jobs: jobs, K: k, Procs: procs, OffSeed: seed}, rp)
		c.Hist("shared-reader:batches")
		if !ok {
			return
		}
		for i, j := range jobs {
			c.Count(fmt.Sprintf("shareimp:%d:%d:%d", round, i, seed), true)
			if i < len(out.Outcomes) && out.Outcomes[i] != base.Outcomes[j] {
				c.Fail("differs-concurrent:shared-reader", fmt.Sprintf("%s compiled by one of %d goroutines that share one reader and file system gives %+v, alone %+v", roots[j], k, out.Outcomes[i], base.Outcomes[j]), rp)
				break
			}
		}
	}
}

// LSP-style: one document whose text changes and changes back, compiled after every change, by one goroutine and by several
func editChain(r *common.Rng, n int) []spec {
	lines := strings.Split(strings.TrimRight(genSpec(r), "\n"), "\n")
	texts := []string{strings.Join(lines, "\n") + "\n"}
	for len(texts) < n {
		l := append([]string{}, lines...)
		i := r.Intn(len(l))
		kind := r.Intn(4)
		switch kind {
		case 0: // a line goes away (possibly leaving an error behind)
			l = append(l[:i], l[i+1:]...)
		case 1: // a new application at the end
			l = append(l, fmt.Sprintf("Extra%d:", len(texts)), "    Ep: ...")
		case 2: // typing inside a line
			l[i] = l[i] + " "
		default: // an import line at the top, as the editor would hold it half-typed; it never stays: with two
			// unreadable imports WHICH of them the error names depends on the schedule of the two reads (same class of
			// error, not a different result)
			l = append([]string{"import missing_" + fmt.Sprint(len(texts))}, l...)
		}
		if kind != 3 && r.Chance(1, 2) {
			lines = l // the change stays
		}
		texts = append(texts, strings.Join(l, "\n")+"\n")
	}
	out := make([]spec, len(texts))
	for i, t := range texts {
		out[i] = spec{ID: i, Kind: "edit", Text: t}
	}
	return out
}

func (r *runner) edits(rng *common.Rng, nVersions, laps, k int) {
	c := r.c
	vs := editChain(rng, nVersions)
	base, stable, ok := r.sequential(vs, 1)
	if !ok {
		return
	}
	var jobs []int
	for l := 0; l < laps; l++ { // forth and back
		for i := range vs {
			jobs = append(jobs, i)
		}
		for i := len(vs) - 2; i > 0; i-- {
			jobs = append(jobs, i)
		}
	}
	c.HistN("edits:compilations", 2*len(jobs))
	// one goroutine: the document's history in order; k goroutines: k documents with the same history at once
	r.batch(vs, base, stable, jobs, 1, 1, rng.Uint64(), "edits")
	if r.deaths < 3 {
		r.batch(vs, base, stable, jobs, k, k, rng.Uint64(), "edits")
	}
}

// everything of round 3, with the scopes of the tier
func (r *runner) round3(specs []spec, base []outcome, phase func(string)) {
	c := r.c
	thorough := c.Thorough()
	scale := 1
	if c.Search {
		scale = 3
	}
	pick := func(quick, thor, thorRace int) int {
		n := quick
		if thorough {
			n = thor
			if raceEnabled {
				n = thorRace
			}
		}
		return n * scale
	}

	r.viewsStream(pick(120, 2000, 300), pick(6, 20, 8), pick(12, 40, 15), pick(2, 4, 2))
	phase("views")

	nGraphs, perGraph := pick(8, 60, 12), pick(14, 60, 24)
	cc := c.NewCases("claim", "From Coq Require Import List NArith Bool.\nImport ListNotations.\nRequire Import Verif.Conc.Run Verif.Base.Harness.\nLocal Open Scope N_scope.",
		"claim_case", "Definition M := Eval vm_compute in mismatches claim_ok cases.\nPrint M.", 2000)
	for i := 0; i < nGraphs && r.deaths < 3; i++ {
		files := genImportGraph(c.Rng)
		if i == 0 {
			c.Sample(map[string]interface{}{"kind": "gate", "files": files})
		}
		r.gateSpec(files, perGraph, replay{Kind: "gate", Graph: files, N: perGraph}, cc)
	}
	cc.Close()
	phase("gate")

	// parser sharing: a few plain specs and a few with views
	{
		var ss []spec
		for _, s := range specs {
			if (s.Kind == "gen" || s.Kind == "mixin") && len(ss) < 6 {
				ss = append(ss, s)
			}
		}
		for i := 0; i < 4; i++ {
			ss = append(ss, spec{Kind: "views", Text: renderViews(genViews(c.Rng, true))})
		}
		for i := range ss {
			ss[i].ID = i
		}
		if b, _, ok := r.sequential(ss, 1); ok && r.deaths < 3 {
			r.parserShared(ss, b, 8, 8, c.Rng.Uint64())
		}
	}
	phase("parser-shared")

	r.parserLife(pick(30, 400, 40), pick(12, 150, 16))
	phase("parser-life")

	r.refsStream(pick(120, 1500, 150), pick(4, 12, 4), pick(8, 30, 8), pick(1, 3, 1))
	phase("refs")

	if r.deaths < 3 {
		r.sharedImports(c.Rng, 8, 8, pick(3, 20, 8))
	}
	phase("shared-reader")

	if r.deaths < 3 {
		r.edits(c.Rng, pick(6, 12, 8), pick(2, 6, 3), 4)
	}
	phase("edits")
}
