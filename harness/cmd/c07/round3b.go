// Round 3, second pass of C07: the life of ONE parse.Parser value.
//
//	pchain   one parser compiles 2..4 sources one after another (generated modules with views; view names, let names
//	         and transform shapes are drawn from small ranges, so the sources share scope keys; sources are repeated).
//	         Oracle: every call gives, byte for byte, what a parser of its own gives (key parser-reuse:views), and leaves
//	         behind - GetAssigns / GetLets / GetMessages - what a fresh parser holds after compiling that source
//	         (key parser-reuse:getters).
//	pgate    the same parser used by two goroutines AT ONCE, under the one interleaving the model refutes: both calls
//	         pass the start of Parse (where the accumulators are made fresh) and block in their first read - a gate
//	         reader -, then the first is released and finishes, then the second.  Oracle: each call gives what a parser
//	         of its own gives (key parser-shared:views - a listed finding: the second call sees the let keys of the first).
//
// Both print Coq cases (sched_case): the modules, the schedule, and per finished call the compiled module and the parser's
// let keys and messages, compared with Conc/Infer.run_sched at the current flags and the current reset.
package main

import (
	"fmt"
	"sort"
	"strings"
	"time"

	"github.com/spf13/afero"

	"github.com/anz-bank/golden-retriever/reader"
	"github.com/anz-bank/sysl/pkg/msg"
	"github.com/anz-bank/sysl/pkg/parse"
	"github.com/anz-bank/sysl/pkg/sysl"

	"verifharness/common"
)

// what a parser holds after a call
type parserObs struct {
	lets []int         // scope keys of GetLets(), sorted
	msgs map[int][]int // per view name: scope keys of the ErrRedefined messages, in order
	dump string        // canonical text of the three accumulators (oracle)
}

func observeParser(p *parse.Parser) (*parserObs, error) {
	o := &parserObs{msgs: map[int][]int{}}
	var sb strings.Builder
	var bad []string
	// AssignTypes: key -> attribute names of the recorded tuple
	{
		as := p.GetAssigns()
		keys := make([]string, 0, len(as))
		for k := range as {
			keys = append(keys, k)
		}
		sort.Strings(keys)
		for _, k := range keys {
			var attrs []string
			for a := range as[k].Tuple.GetTuple().GetAttrDefs() {
				attrs = append(attrs, a)
			}
			sort.Strings(attrs)
			fmt.Fprintf(&sb, "assign %s = {%s} ref=%v\n", k, strings.Join(attrs, ","), as[k].RefType != nil)
		}
	}
	{
		ls := p.GetLets()
		keys := make([]string, 0, len(ls))
		for k := range ls {
			keys = append(keys, k)
		}
		sort.Strings(keys)
		for _, k := range keys {
			fmt.Fprintf(&sb, "let %s tuple=%v ref=%v\n", k, ls[k].Tuple != nil, ls[k].RefType != nil)
			var w, l int
			if n, _ := fmt.Sscanf(k, "w%d:l%d", &w, &l); n != 2 || k != fmt.Sprintf("w%d:l%d", w, l) {
				bad = append(bad, "let key "+k)
				continue
			}
			o.lets = append(o.lets, letKey(w, l))
		}
		sort.Ints(o.lets)
	}
	{
		ms := p.GetMessages()
		keys := make([]string, 0, len(ms))
		for k := range ms {
			keys = append(keys, k)
		}
		sort.Strings(keys)
		for _, k := range keys {
			var w int
			okView := false
			if n, _ := fmt.Sscanf(k, "w%d", &w); n == 1 && k == fmt.Sprintf("w%d", w) {
				okView = true
			}
			for _, m := range ms[k] {
				fmt.Fprintf(&sb, "msg %s: %d %q\n", k, m.MessageID, m.MessageData)
				var l int
				if !okView || m.MessageID != msg.ErrRedefined || len(m.MessageData) != 2 || m.MessageData[0] != k {
					bad = append(bad, fmt.Sprintf("message %s: %d %q", k, m.MessageID, m.MessageData))
					continue
				}
				if n, _ := fmt.Sscanf(m.MessageData[1], "l%d", &l); n != 1 {
					bad = append(bad, fmt.Sprintf("message %s: %d %q", k, m.MessageID, m.MessageData))
					continue
				}
				o.msgs[w] = append(o.msgs[w], letKey(w, l))
			}
		}
	}
	o.dump = sb.String()
	if bad != nil {
		return o, fmt.Errorf("the parser holds entries the generator cannot have caused: %s", strings.Join(bad, "; "))
	}
	return o, nil
}

func (o *parserObs) term() string {
	views := make([]int, 0, len(o.msgs))
	for v := range o.msgs {
		views = append(views, v)
	}
	sort.Ints(views)
	ms := make([]string, len(views))
	for i, v := range views {
		ms[i] = fmt.Sprintf("(%d,%s)", v, gInts(o.msgs[v]))
	}
	return fmt.Sprintf("%s, [%s]", gInts(o.lets), strings.Join(ms, ";"))
}

// one finished call
type callObs struct {
	g    int
	out  outcome
	mod  *sysl.Module
	pobs *parserObs
	perr error
}

const pgateFile = "temp.sysl"

// runCalls drives ONE parser through calls[i] = index into texts.  interleaved: exactly two calls; both are started (and
// pass the start of Parse) before either reads its file; then the first runs to its end, then the second.
func runCalls(texts []string, calls []int, interleaved bool) (obs []callObs, hang string) {
	p := parse.NewParser()
	finish := func(g int, m *sysl.Module, err error) {
		o, _ := outcomeOf(m, err)
		po, perr := observeParser(p)
		obs = append(obs, callObs{g: g, out: o, mod: m, pobs: po, perr: perr})
	}
	if !interleaved {
		for i, g := range calls { // the entry points of the API in turn: all end in Parser.Parse
			var m *sysl.Module
			var err error
			switch i % 3 {
			case 0:
				m, err = p.ParseString(texts[g])
			case 1:
				m, err = p.ParseFromFs(pgateFile, memFs(map[string]string{pgateFile: texts[g]}))
			default:
				var rd reader.Reader
				if rd, err = parse.NewReader(memFs(map[string]string{pgateFile: texts[g]})); err == nil {
					m, err = p.Parse(pgateFile, rd)
				}
			}
			finish(g, m, err)
		}
		return obs, ""
	}
	type res struct {
		m   *sysl.Module
		err error
	}
	gates := make([]*gate, len(calls))
	done := make([]chan res, len(calls))
	arrived := func(g *gate) bool {
		for t := time.Now(); time.Since(t) < 20*time.Second; time.Sleep(200 * time.Microsecond) {
			g.mu.Lock()
			n := len(g.waiting)
			g.mu.Unlock()
			if n > 0 {
				return true
			}
		}
		return false
	}
	for i, c := range calls {
		gates[i] = &gate{Fs: afero.NewMemMapFs(), files: map[string]string{pgateFile: texts[c]}, waiting: map[string]chan struct{}{}}
		done[i] = make(chan res, 1)
		i := i
		go func() {
			defer func() {
				if x := recover(); x != nil {
					done[i] <- res{nil, fmt.Errorf("PANIC: %v", x)}
				}
			}()
			m, err := p.Parse(pgateFile, gates[i])
			done[i] <- res{m, err}
		}()
		if !arrived(gates[i]) { // the call is now parked in its first read: the start of Parse is behind it
			return obs, fmt.Sprintf("call %d never asked for its file", i+1)
		}
	}
	for i, c := range calls {
		gates[i].mu.Lock()
		ch := gates[i].waiting[pgateFile]
		gates[i].mu.Unlock()
		close(ch)
		select {
		case r := <-done[i]:
			finish(c, r.m, r.err)
		case <-time.After(40 * time.Second):
			return obs, fmt.Sprintf("call %d did not finish after its read was released", i+1)
		}
	}
	return obs, ""
}

// a parser of its own for every source: outcome and what the parser holds afterwards
func freshBase(texts []string) ([]outcome, []string) {
	outs, dumps := make([]outcome, len(texts)), make([]string, len(texts))
	for i, t := range texts {
		p := parse.NewParser()
		m, err := p.ParseString(t)
		outs[i], _ = outcomeOf(m, err)
		if po, _ := observeParser(p); po != nil {
			dumps[i] = po.dump
		}
	}
	return outs, dumps
}

// judge one run of calls against parsers of their own; returns whether some call differed
func (r *runner) judgeCalls(texts []string, calls []int, interleaved bool, obs []callObs, hang string, rp replay) bool {
	c := r.c
	if hang != "" {
		c.Fail("hang:pgate", hang, rp)
		return true
	}
	base, dumps := freshBase(texts)
	how, key := "one after another", "parser-reuse"
	if interleaved {
		how, key = "at once (both calls started before either read its file; then call 1 finished, then call 2)", "parser-shared"
	}
	differs := false
	for i, o := range obs {
		if o.out != base[o.g] {
			differs = true
			c.Fail(key+":views", fmt.Sprintf("call %d of %d made with ONE parse.Parser value %s (sources %v) compiles source %d to %+v, a parser of its own to %+v",
				i+1, len(calls), how, calls, o.g, o.out, base[o.g]), rp)
			break
		}
		if o.pobs.dump != dumps[o.g] {
			differs = true
			gk := key + ":getters"
			if interleaved { // one defect: the accumulators of a parser used by two calls at once are shared
				gk = key + ":views"
			}
			c.Fail(gk, fmt.Sprintf("after call %d of %d made with ONE parse.Parser value %s (sources %v) GetAssigns / GetLets / GetMessages show\n%s\na fresh parser after compiling source %d shows\n%s",
				i+1, len(calls), how, calls, clip(o.pobs.dump, 600), o.g, clip(dumps[o.g], 600)), rp)
			break
		}
	}
	return differs
}

// the Coq case of one run; "" when something cannot be expressed (reported by the caller)
func schedCase(mods [][]vApp, calls []int, interleaved bool, obs []callObs) (string, error) {
	var ml, sched, os []string
	for g, apps := range mods {
		ml = append(ml, fmt.Sprintf("(%d,%s)", g, viewsAppsTerm(apps)))
	}
	if interleaved {
		for i := range calls {
			sched = append(sched, fmt.Sprintf("(T,%d)", 100+i))
		}
		for i := range calls {
			sched = append(sched, fmt.Sprintf("(F,%d)", 100+i))
		}
		// calls are numbered 100+i and bound to their sources below
		ml = ml[:0]
		for i, g := range calls {
			ml = append(ml, fmt.Sprintf("(%d,%s)", 100+i, viewsAppsTerm(mods[g])))
		}
	} else {
		ml = ml[:0]
		for i, g := range calls {
			sched = append(sched, fmt.Sprintf("(T,%d);(F,%d)", 100+i, 100+i))
			ml = append(ml, fmt.Sprintf("(%d,%s)", 100+i, viewsAppsTerm(mods[g])))
		}
	}
	for i, o := range obs {
		if o.mod == nil {
			return "", fmt.Errorf("call %d: %s", i+1, o.out.Err)
		}
		if o.perr != nil {
			return "", o.perr
		}
		vo, err := observeViews(o.mod)
		if err != nil {
			return "", err
		}
		os = append(os, fmt.Sprintf("(%d,%s,%s,%s)", 100+i, viewsObsTerm(mods[o.g], vo), gTriples(vo.typed), o.pobs.term()))
	}
	return fmt.Sprintf("([%s], [%s], [%s])", strings.Join(ml, ";"), strings.Join(sched, ";"), strings.Join(os, ";")), nil
}

// a module made to collide with itself and with its neighbours: every view has a let over an untyped nested transform
func letHeavy(r *common.Rng) []vApp {
	apps := genViews(r, true)
	pay := 500
	for i := range apps {
		for j := range apps[i].Views {
			v := &apps[i].Views[j]
			if v.Abs {
				continue
			}
			has := false
			for _, s := range v.Stmts {
				has = has || (s.Let && len(s.Pay) > 0)
			}
			if !has {
				used := map[int]bool{}
				for _, s := range v.Stmts {
					if s.Let {
						used[s.Var] = true
					}
				}
				for x := 0; x < 3; x++ {
					if !used[x] {
						v.Stmts = append(v.Stmts, vStmt{Let: true, Var: x, Pay: []int{pay}})
						pay++
						break
					}
				}
			}
		}
	}
	return apps
}

const oneLetText = "V00:\n    Ep: ...\n    !view w1(p0 <: int) -> int:\n        p0 -> <Some.Type> (:\n            let l0 = .xs -> <set of> (:\n                f7 = -> <M.A> (:\n                    n = .name\n                )\n            )\n        )\n"

var oneLetApps = []vApp{{Idx: 0, Views: []vView{{Name: 1, ID: 0, Stmts: []vStmt{{Let: true, Var: 0, Pay: []int{7}}}}}}}

// parserLife: the two streams
func (r *runner) parserLife(nChains, nGated int) {
	c := r.c
	sc := c.NewCases("plife", "From Coq Require Import List NArith Bool.\nImport ListNotations.\nRequire Import Verif.Conc.Run Verif.Base.Harness.\nLocal Open Scope N_scope.\nNotation T := true.\nNotation F := false.",
		"sched_case", "Definition M := Eval vm_compute in mismatches sched_ok cases.\nPrint M.", 150)
	defer sc.Close()
	gen := func(i int) ([]vApp, string) {
		if i == 0 {
			return oneLetApps, oneLetText
		}
		var apps []vApp
		if c.Rng.Chance(1, 2) {
			apps = letHeavy(c.Rng)
		} else {
			apps = genViews(c.Rng, c.Rng.Chance(1, 2))
		}
		return apps, renderViews(apps)
	}
	run := func(n int, interleaved bool) {
		for i := 0; i < n; i++ {
			nSrc := 1 + c.Rng.Intn(3)
			if interleaved {
				nSrc = 1 + c.Rng.Intn(2)
			}
			mods, texts := make([][]vApp, nSrc), make([]string, nSrc)
			for g := range mods {
				k := 1
				if i == 0 && g == 0 {
					k = 0 // the first run of each stream uses the witness of the model's refutation
				}
				mods[g], texts[g] = gen(k)
			}
			var calls []int
			if interleaved {
				calls = []int{0, nSrc - 1}
			} else {
				for n := 2 + c.Rng.Intn(3); len(calls) < n; {
					calls = append(calls, c.Rng.Intn(nSrc))
				}
				if i == 0 {
					calls = []int{0, 0}
				}
			}
			kind, stream := "pchain", "pchain"
			if interleaved {
				kind, stream = "pgate", "pgate"
			}
			specs := make([]spec, nSrc)
			for g := range specs {
				specs[g] = spec{ID: g, Kind: "views", Text: texts[g]}
			}
			rp := replay{Kind: kind, Specs: specs, Jobs: calls}
			obs, hang := runCalls(texts, calls, interleaved)
			repeated := false
			seen := map[int]bool{}
			for _, g := range calls {
				repeated = repeated || seen[g]
				seen[g] = true
			}
			c.Count(fmt.Sprintf("%s:%d:%v:%s", stream, i, calls, strings.Join(texts, "\x00")), true)
			c.HistN(stream+":calls", len(calls))
			if repeated {
				c.Hist(stream + ":a-source-compiled-again")
			}
			differs := r.judgeCalls(texts, calls, interleaved, obs, hang, rp)
			if differs {
				c.Hist(stream + ":some-call-differs-from-a-parser-of-its-own")
			}
			nMsgs := 0
			for _, o := range obs {
				if o.pobs != nil {
					for _, m := range o.pobs.msgs {
						nMsgs += len(m)
					}
				}
			}
			if nMsgs > 0 {
				c.Hist(stream + ":let-skipped-with-message")
			}
			if hang != "" {
				continue
			}
			term, err := schedCase(mods, calls, interleaved, obs)
			if err != nil {
				c.Fail("valid-spec-rejected:views", "a grammatical module with views compiled with a used parser: "+clip(err.Error(), 300), rp)
				continue
			}
			sc.Add(term, rp)
			if i == 1 {
				c.Sample(map[string]interface{}{"kind": kind, "calls": calls, "text0": clip(texts[0], 600)})
			}
		}
	}
	run(nChains, false)
	run(nGated, true)
}

// replay of a pchain / pgate finding
func (r *runner) replayCalls(rp replay) {
	texts := make([]string, len(rp.Specs))
	for i, s := range rp.Specs {
		texts[i] = s.Text
	}
	interleaved := rp.Kind == "pgate"
	obs, hang := runCalls(texts, rp.Jobs, interleaved)
	r.c.Count("replay", true)
	r.judgeCalls(texts, rp.Jobs, interleaved, obs, hang, rp)
}

// ------------------------------------------------------------------ refs: fixTypeRefScope inside the application loop
//
// Applications N0..N3 and types that may carry the names of applications; fields r<id> and endpoint parameters q<id> typed
// `N<a>.<type>` (one application part, one type part: the only references fixTypeRefScope rewrites); mixins move types - and
// the reference objects inside them - between applications.  A reference comes out "local" when postProcess turned it into
// Appname = nil, Path = [N<a>, <type>].

type rRef struct {
	ID    int  `json:"id"`
	Param bool `json:"param"`
	Owner int  `json:"owner"` // field: number of the declared type it sits in
	App   int  `json:"app"`   // N<app>
	Type  int  `json:"type"`
}
type rApp struct {
	Idx   int    `json:"idx"`
	Abs   bool   `json:"abs"`
	Types []int  `json:"types"` // 0..3 = N0..N3 (names of applications), 10.. = Q0..
	Mix   []int  `json:"mix"`
	Refs  []rRef `json:"refs"`
}

func rTypeName(t int) string {
	if t >= 10 {
		return fmt.Sprintf("Q%d", t-10)
	}
	return fmt.Sprintf("N%d", t)
}
func rTypeNum(s string) (int, bool) {
	var x int
	if n, _ := fmt.Sscanf(s, "Q%d", &x); n == 1 && s == fmt.Sprintf("Q%d", x) {
		return 10 + x, true
	}
	if n, _ := fmt.Sscanf(s, "N%d", &x); n == 1 && s == fmt.Sprintf("N%d", x) {
		return x, true
	}
	return 0, false
}

func genRefs(r *common.Rng) []rApp {
	n := 2 + r.Intn(3)
	apps := make([]rApp, n)
	id := 0
	pickType := func() int {
		if r.Chance(1, 2) {
			return r.Intn(4)
		}
		return 10 + r.Intn(3)
	}
	pickApp := func() int {
		if r.Chance(1, 10) {
			return 9 // no such application
		}
		return r.Intn(n)
	}
	for i := range apps {
		a := &apps[i]
		a.Idx = i
		a.Abs = r.Chance(2, 3)
		seen := map[int]bool{}
		for k := r.Intn(4); k > 0; k-- {
			if t := pickType(); !seen[t] {
				seen[t] = true
				a.Types = append(a.Types, t)
			}
		}
		for k := r.Intn(3); k > 0; k-- {
			x := r.Intn(n + 1)
			if x == n {
				x = 9
			}
			a.Mix = append(a.Mix, x)
		}
		for _, t := range a.Types {
			for k := r.Intn(3); k > 0; k-- {
				a.Refs = append(a.Refs, rRef{ID: id, Owner: t, App: pickApp(), Type: pickType()})
				id++
			}
		}
		for k := r.Intn(3); k > 0; k-- {
			a.Refs = append(a.Refs, rRef{ID: id, Param: true, App: pickApp(), Type: pickType()})
			id++
		}
	}
	return apps
}

func renderRefs(apps []rApp) string {
	var sb strings.Builder
	for _, a := range apps {
		fmt.Fprintf(&sb, "N%d", a.Idx)
		if a.Abs {
			sb.WriteString(" [~abstract]")
		}
		sb.WriteString(":\n")
		for _, m := range a.Mix {
			fmt.Fprintf(&sb, "    -|> N%d\n", m)
		}
		var ps []string
		for _, rf := range a.Refs {
			if rf.Param {
				ps = append(ps, fmt.Sprintf("q%d <: N%d.%s", rf.ID, rf.App, rTypeName(rf.Type)))
			}
		}
		if len(ps) > 0 {
			fmt.Fprintf(&sb, "    Ep(%s):\n        ...\n", strings.Join(ps, ", "))
		} else {
			sb.WriteString("    Ep: ...\n")
		}
		for _, t := range a.Types {
			fmt.Fprintf(&sb, "    !type %s:\n        o%02d <: int\n", rTypeName(t), a.Idx)
			for _, rf := range a.Refs {
				if !rf.Param && rf.Owner == t {
					fmt.Fprintf(&sb, "        r%d <: N%d.%s\n", rf.ID, rf.App, rTypeName(rf.Type))
				}
			}
		}
		sb.WriteString("\n")
	}
	return sb.String()
}

type refsObs struct {
	mem    map[int][][2]int
	local  []int
	reason string // a reference that is neither as written nor the local deep form
}

func observeRefs(m *sysl.Module, apps []rApp) (*refsObs, error) {
	o := &refsObs{mem: map[int][][2]int{}}
	want := map[int]rRef{}
	for _, a := range apps {
		for _, rf := range a.Refs {
			want[rf.ID] = rf
		}
	}
	form := map[int]string{}
	note := func(id int, ref *sysl.Scope) error {
		rf, ok := want[id]
		if !ok || ref == nil {
			return fmt.Errorf("reference %d is unknown or empty", id)
		}
		an, tn := fmt.Sprintf("N%d", rf.App), rTypeName(rf.Type)
		var f string
		switch {
		case len(ref.GetAppname().GetPart()) == 1 && ref.Appname.Part[0] == an && len(ref.Path) == 1 && ref.Path[0] == tn:
			f = "full"
		case ref.Appname == nil && len(ref.Path) == 2 && ref.Path[0] == an && ref.Path[1] == tn:
			f = "local"
		default:
			return fmt.Errorf("reference %d (%s.%s) came out as appname %v path %v", id, an, tn, ref.GetAppname().GetPart(), ref.Path)
		}
		if g, seen := form[id]; seen && g != f {
			return fmt.Errorf("reference %d is seen as %s and as %s", id, g, f)
		}
		form[id] = f
		return nil
	}
	for name, app := range m.Apps {
		var ai int
		if n, _ := fmt.Sscanf(name, "N%d", &ai); n != 1 {
			return nil, fmt.Errorf("unexpected app %q", name)
		}
		mem := [][2]int{}
		for tn, t := range app.Types {
			k, ok := rTypeNum(tn)
			if !ok {
				return nil, fmt.Errorf("unexpected type %s.%s", name, tn)
			}
			decl := -1
			for fn, ft := range t.GetTuple().GetAttrDefs() {
				var x int
				switch {
				case strings.HasPrefix(fn, "o"):
					fmt.Sscanf(fn, "o%02d", &decl)
				case strings.HasPrefix(fn, "r"):
					fmt.Sscanf(fn, "r%d", &x)
					if err := note(x, ft.GetTypeRef().GetRef()); err != nil {
						return nil, err
					}
				default:
					return nil, fmt.Errorf("unexpected field %s of %s.%s", fn, name, tn)
				}
			}
			if decl < 0 {
				return nil, fmt.Errorf("type %s.%s has no owner field", name, tn)
			}
			mem = append(mem, [2]int{k, decl})
		}
		sort.Slice(mem, func(i, j int) bool { return mem[i][0] < mem[j][0] })
		o.mem[ai] = mem
		for _, ep := range app.Endpoints {
			for _, p := range ep.Param {
				var x int
				if n, _ := fmt.Sscanf(p.Name, "q%d", &x); n == 1 {
					if err := note(x, p.GetType().GetTypeRef().GetRef()); err != nil {
						return nil, err
					}
				}
			}
		}
	}
	for id, f := range form {
		if f == "local" {
			o.local = append(o.local, id)
		}
	}
	sort.Ints(o.local)
	if len(form) != len(want) {
		return nil, fmt.Errorf("%d references written, %d found", len(want), len(form))
	}
	return o, nil
}

func refsCase(apps []rApp, o *refsObs) string {
	var as, os []string
	for _, a := range apps {
		var mem [][2]int
		for _, t := range a.Types {
			mem = append(mem, [2]int{t, a.Idx})
		}
		var rs []string
		for _, rf := range a.Refs {
			f := "None"
			if !rf.Param {
				f = fmt.Sprintf("Some %d", rf.Owner)
			}
			rs = append(rs, fmt.Sprintf("(%d,%s,%d,%d)", rf.ID, f, rf.App, rf.Type))
		}
		as = append(as, fmt.Sprintf("(%d,%s,%s,[%s])", a.Idx, gPairs(mem), gInts(a.Mix), strings.Join(rs, ";")))
		os = append(os, fmt.Sprintf("(%d,%s)", a.Idx, gPairs(o.mem[a.Idx])))
	}
	return fmt.Sprintf("([%s], [%s], %s)", strings.Join(as, ";"), strings.Join(os, ";"), gInts(o.local))
}

// refsStream: correspondence cases; the oracle is the repetition: a sample of the texts is compiled again and again in
// this process and in fresh ones (every serialisation the same - the order of mod.Apps must not reach the references)
func (r *runner) refsStream(nCases, nRepeat, reps, nCold int) {
	c := r.c
	rc := c.NewCases("refs", "From Coq Require Import List NArith Bool.\nImport ListNotations.\nRequire Import Verif.Conc.Run Verif.Base.Harness.\nLocal Open Scope N_scope.",
		"refs_case", "Definition M := Eval vm_compute in mismatches refs_ok cases.\nPrint M.", 400)
	var repeat []spec
	for i := 0; i < nCases; i++ {
		apps := genRefs(c.Rng)
		text := renderRefs(apps)
		rp := replay{Kind: "views", Specs: []spec{{Kind: "refs", Text: text}}, Reps: 40}
		nRefs := 0
		for _, a := range apps {
			nRefs += len(a.Refs)
		}
		c.Count("refs:"+text, nRefs > 0)
		m, err := parse.NewParser().ParseString(text)
		if err != nil {
			c.Fail("valid-spec-rejected:refs", "a grammatical module with type references is rejected: "+clip(strings.TrimSpace(err.Error()), 200), rp)
			continue
		}
		o, err := observeRefs(m, apps)
		if err != nil {
			c.Fail("valid-spec-rejected:refs", "a module with type references comes out unexpectedly: "+err.Error(), rp)
			continue
		}
		switch {
		case len(o.local) > 0:
			c.Hist("refs:some-reference-made-local")
		case nRefs > 0:
			c.Hist("refs:all-references-left-as-written")
		default:
			c.Hist("refs:no-references")
		}
		rc.Add(refsCase(apps, o), rp)
		if len(o.local) > 0 && len(repeat) < nRepeat {
			repeat = append(repeat, spec{ID: len(repeat), Kind: "refs", Text: text})
		}
		if i == 0 {
			c.Sample(map[string]string{"kind": "refs", "text": clip(text, 900)})
		}
	}
	rc.Close()
	if len(repeat) == 0 || r.deaths >= 3 {
		return
	}
	base, stable, ok := r.sequential(repeat, reps)
	c.HistN("refs:repeated-compilations", len(repeat)*reps)
	for i := 0; ok && i < nCold && r.deaths < 3; i++ {
		w := common.NewWorker()
		all := make([]int, len(repeat))
		for j := range all {
			all[j] = j
		}
		out, ok2 := r.callOn(w, req{Op: "seq", Specs: repeat, Jobs: all}, replay{Kind: "seq", Specs: repeat, Jobs: all, Reps: reps}, "")
		w.Close()
		if !ok2 {
			continue
		}
		for j, o := range out.Outcomes {
			c.Count(fmt.Sprintf("refs-cold:%d:%d", i, j), true)
			if stable[j] && o != base[j] {
				stable[j] = false
				ss, js := subset(repeat, []int{j})
				c.Fail("unstable-sequential:refs", fmt.Sprintf("%s compiled in two processes gives different serialisations: %+v and %+v", repeat[j].name(), base[j], o),
					replay{Kind: "seq", Specs: ss, Jobs: js, Reps: 40})
			}
		}
	}
}
