// C12, third pass: the `info` / `servers` / `host` part of the exported documents.
//
//	appInfo       generator stream: a small application of the main stream with or WITHOUT a version, a long name, a description,
//	              contact.* / env.1.* / host attributes, extension attributes (x-...), an array-valued one, near misses of the prefix
//	infoCaseTerm  projection for Export/OasInfo.v: the application's name, long name and attributes as compiled by the real parser,
//	              the info of the OpenAPI 3 document and of the Swagger document as the real exporters wrote them
package main

import (
	"encoding/json"
	"fmt"
	"sort"
	"strings"

	"github.com/anz-bank/sysl/pkg/sysl"

	"verifharness/common"
)

type aAttr struct {
	K   string   `json:"k"`
	V   string   `json:"v,omitempty"`
	Arr []string `json:"arr,omitempty"` // non-nil: an array-valued attribute
}

var infoAttrPool = []aAttr{
	{K: "contact.name", V: "Bob"}, {K: "contact.email", V: "bob@example.com"}, {K: "contact.url", V: "http://example.com/bob"},
	{K: "env.1.description", V: "production"}, {K: "env.2.url", V: "http://two.example.com"}, {K: "host", V: "api.example.com"},
	{K: "basePath", V: "/v1"}, {K: "x-foo", V: "bar"}, {K: "x-Zed", V: "z z"}, {K: "x-audience", V: ""},
	{K: "x-tags", Arr: []string{"a", "b"}}, {K: "owner", V: "team"}, {K: "xfoo", V: "no dash"}, {K: "ax-foo", V: "not a prefix"},
	{K: "X-upper", V: "upper case"}, {K: "tags", Arr: []string{"t"}},
}

func (g *gen) appInfo(name string, style string) aApp {
	a := g.app(name, style, false)
	if g.r.Chance(2, 5) {
		a.Version = "" // no @version at all
	}
	if g.r.Chance(1, 2) {
		a.Desc = "The " + name + " service"
	}
	if g.r.Chance(1, 2) {
		a.Long = "The " + strings.ReplaceAll(name, " :: ", " ") + " API"
	}
	n := g.r.Intn(len(infoAttrPool) + 1)
	for _, k := range g.pickDistinct(poolKeys(), n) {
		for _, at := range infoAttrPool {
			if at.K == k {
				a.Attrs = append(a.Attrs, at)
			}
		}
	}
	if g.r.Chance(1, 6) {
		a.Attrs = append(a.Attrs, aAttr{K: "version", Arr: []string{"1", "2"}}) // a version that is not a string reads as ""
		a.Version = ""
	}
	return a
}

func poolKeys() []string {
	var ks []string
	for _, at := range infoAttrPool {
		ks = append(ks, at.K)
	}
	return ks
}

func renderAttrs(b *strings.Builder, a aApp) {
	for _, at := range a.Attrs {
		if at.Arr != nil {
			var qs []string
			for _, s := range at.Arr {
				qs = append(qs, fmt.Sprintf("%q", s))
			}
			fmt.Fprintf(b, "    @%s = [%s]\n", at.K, strings.Join(qs, ", "))
		} else {
			fmt.Fprintf(b, "    @%s = %q\n", at.K, at.V)
		}
	}
}

// ---------------------------------------------------------------- projection

func infoCaseTerm(app *sysl.Application, o3, o2 exportOut) string {
	keys := make([]string, 0, len(app.GetAttrs()))
	for k := range app.GetAttrs() {
		keys = append(keys, k)
	}
	sort.Strings(keys)
	rank := map[string]int{}
	var attrs []string
	for i, k := range keys {
		rank[k] = i + 1
		val := "AOther"
		if s, ok := app.GetAttrs()[k].GetAttribute().(*sysl.Attribute_S); ok {
			val = "(AStr " + common.GString(s.S) + ")"
		}
		attrs = append(attrs, fmt.Sprintf("(%s,(%s,%s))", common.GN(i+1), common.GString(k), val))
		if !asciiOnly(k) || !asciiOnly(app.GetAttrs()[k].GetS()) {
			return ""
		}
	}
	name := strings.Join(app.GetName().GetPart(), " :: ")
	obs3, obs2 := "None", "None"
	str := func(v interface{}) string {
		if v == nil {
			return common.GString("")
		}
		if s, ok := v.(string); ok {
			return common.GString(s)
		}
		return common.GString("?not-a-string")
	}
	var d3, d2 map[string]interface{}
	if o3.Err == "" && o3.Panic == "" && json.Unmarshal(o3.Bytes, &d3) == nil {
		info := asMap(d3["info"])
		contact := asMap(info["contact"])
		var ext []string
		for _, k := range sortedKeys(info) {
			switch k {
			case "title", "version", "description", "contact", "license", "termsOfService":
				continue
			}
			ext = append(ext, fmt.Sprintf("(%s,(%s,%s))", common.GN(rank[k]), common.GString(k), str(info[k])))
		}
		var servers []string
		for _, s := range asList(d3["servers"]) {
			servers = append(servers, fmt.Sprintf("(%s,%s)", str(asMap(s)["url"]), str(asMap(s)["description"])))
		}
		obs3 = fmt.Sprintf("(Some (I3 %s %s %s %s %s %s %s %s))", str(info["title"]), str(info["version"]), str(info["description"]),
			str(contact["name"]), str(contact["email"]), str(contact["url"]), common.GList(ext), common.GList(servers))
	}
	if o2.Err == "" && o2.Panic == "" && json.Unmarshal(o2.Bytes, &d2) == nil {
		info := asMap(d2["info"])
		obs2 = fmt.Sprintf("(Some (I2 %s %s %s %s))", str(info["title"]), str(info["version"]), str(info["description"]), str(d2["host"]))
	}
	if obs3 == "None" && obs2 == "None" {
		return ""
	}
	return fmt.Sprintf("(IA %s %s %s,\n %s,\n %s)", common.GString(name), common.GString(app.GetLongName()), common.GList(attrs), obs3, obs2)
}

const infoHeader = `From Coq Require Import String List NArith ZArith Bool.
Import ListNotations.
Require Import Verif.Export.OasInfo Verif.Export.Run Verif.Base.Harness.
Local Open Scope string_scope.
Local Open Scope N_scope.`

const infoFooter = `Definition M := Eval vm_compute in mismatches c12i_ok cases.
Print M.`
