package main

// Drives the REAL exporters and importers of $VERIF_REPO and projects what they read / wrote into Gallina terms
// for the Coq model (Export/Run.v).

import (
	"encoding/json"
	"fmt"
	"io"
	"runtime/debug"
	"sort"
	"strconv"
	"strings"

	"github.com/anz-bank/sysl/pkg/exporter"
	"github.com/anz-bank/sysl/pkg/importer"
	"github.com/anz-bank/sysl/pkg/parse"
	"github.com/anz-bank/sysl/pkg/sysl"
	"github.com/anz-bank/sysl/pkg/syslutil"
	"github.com/anz-bank/sysl/pkg/syslwrapper"
	"github.com/sirupsen/logrus"
	"github.com/spf13/afero"
	"google.golang.org/protobuf/proto"

	"verifharness/common"
)

var quiet = func() *logrus.Logger { l := logrus.New(); l.SetOutput(io.Discard); return l }()

func compile(text string) (m *sysl.Module, errText string) {
	defer func() {
		if x := recover(); x != nil {
			m, errText = nil, "panic: "+fmt.Sprint(x)
		}
	}()
	fs := afero.NewMemMapFs()
	afero.WriteFile(fs, "m.sysl", []byte(text), 0o644)
	mod, err := parse.NewParser().ParseFromFs("m.sysl", fs)
	if err != nil {
		return nil, err.Error()
	}
	return mod, ""
}

type exportOut struct {
	Bytes []byte
	Err   string
	Panic string
}

// exactly what cmd/sysl/cmd_export.go writeSwaggerForApp does for `-f openapi3`
func runExport3(app *sysl.Application, mode string) (o exportOut) {
	defer func() {
		if x := recover(); x != nil {
			o = exportOut{Panic: fmt.Sprint(x)}
		}
	}()
	mod := &sysl.Module{Apps: map[string]*sysl.Application{syslutil.GetAppName(app.Name): app}}
	mapper := syslwrapper.MakeAppMapper(mod)
	mapper.IndexTypes()
	simple, err := mapper.Map()
	if err != nil {
		return exportOut{Err: err.Error()}
	}
	ex := exporter.MakeOpenAPI3Exporter(simple, quiet)
	if err := ex.Export(); err != nil {
		return exportOut{Err: err.Error()}
	}
	b, err := ex.SerializeOutput(syslutil.GetAppName(app.Name), mode)
	if err != nil {
		return exportOut{Err: err.Error()}
	}
	return exportOut{Bytes: b}
}

// ... and for `-f swagger`
func runExport2(app *sysl.Application, mode string) (o exportOut) {
	defer func() {
		if x := recover(); x != nil {
			o = exportOut{Panic: fmt.Sprint(x)}
		}
	}()
	ex := exporter.MakeSwaggerExporter(app, quiet)
	if err := ex.GenerateSwagger(); err != nil {
		return exportOut{Err: err.Error()}
	}
	b, err := ex.SerializeOutput(mode)
	if err != nil {
		return exportOut{Err: err.Error()}
	}
	return exportOut{Bytes: b}
}

type importOut struct {
	Text  string
	Err   string
	Panic string
	Stack string
}

// re-import through the real importer: importer.Factory picks the importer for the format name
// (legacy=true: the Go OpenAPI 3 importer that the OpenAPI 2 importer is built on, instead of the arr.ai one)
func runImport(format string, legacy bool, text string) (r importOut) {
	defer func() {
		if x := recover(); x != nil {
			r = importOut{Panic: fmt.Sprint(x), Stack: string(debug.Stack())}
		}
	}()
	var imp importer.Importer
	var err error
	if legacy {
		imp = importer.NewLegacyOpenAPIV3Importer(quiet, afero.NewMemMapFs())
	} else {
		imp, err = importer.Factory("/gen/spec.yaml", false, format, []byte(text), quiet)
		if err != nil {
			return importOut{Err: "factory: " + err.Error()}
		}
	}
	imp, err = imp.Configure(&importer.ImporterArg{AppName: "Reimported", PackageName: ""})
	if err != nil {
		return importOut{Err: "configure: " + err.Error()}
	}
	out, err := imp.Load(text)
	if err != nil {
		return importOut{Err: err.Error()}
	}
	return importOut{Text: out}
}

// ---------------------------------------------------------------- names -> numbers (ascending byte order)

type nameTable struct {
	ids map[string]int
}

const unknownName = 999999

func newNameTable(names map[string]bool) *nameTable {
	var ks []string
	for k := range names {
		if k != "" {
			ks = append(ks, k)
		}
	}
	sort.Strings(ks)
	t := &nameTable{ids: map[string]int{"": 0}}
	for i, k := range ks {
		t.ids[k] = i + 1
	}
	return t
}
func (t *nameTable) id(s string) string {
	if i, ok := t.ids[s]; ok {
		return strconv.Itoa(i)
	}
	return strconv.Itoa(unknownName)
}

// ---------------------------------------------------------------- projection of the compiled application (model input)

type projector struct {
	names       map[string]bool
	unsupported string
}

func (p *projector) n(s string) string { p.names[s] = true; return s }

// returns a function producing the term once the name table exists
type lazy func(t *nameTable) string

func coqString(s string) string { return common.GString(s) }

func (p *projector) ty(t *sysl.Type) lazy {
	if t == nil {
		p.unsupported = "nil type"
		return func(*nameTable) string { return "(SNoType false)" }
	}
	opt := common.GBool(t.GetOpt())
	if t.Type == nil {
		// a Type without any type: what the parser builds for `?status=Status` (no case of MapType's switch matches)
		return func(*nameTable) string { return "(SUntyped " + opt + ")" }
	}
	switch x := t.Type.(type) {
	case *sysl.Type_NoType_:
		return func(*nameTable) string { return "(SNoType " + opt + ")" }
	case *sysl.Type_Primitive_:
		prim := strings.ToLower(x.Primitive.String())
		return func(*nameTable) string { return fmt.Sprintf("(P %s %s)", opt, coqString(prim)) }
	case *sysl.Type_Enum_:
		type it struct {
			n string
			v int64
		}
		var items []it
		for n, v := range x.Enum.GetItems() {
			if v < 0 {
				p.unsupported = "negative enum value"
			}
			items = append(items, it{p.n(n), v})
		}
		sort.Slice(items, func(i, j int) bool { return items[i].n < items[j].n })
		return func(nt *nameTable) string {
			var s []string
			for _, i := range items {
				s = append(s, fmt.Sprintf("(%s,%d)", nt.id(i.n), i.v))
			}
			return fmt.Sprintf("(SEnum %s %s)", opt, common.GList(s))
		}
	case *sysl.Type_Set:
		e := p.ty(x.Set)
		return func(nt *nameTable) string { return fmt.Sprintf("(SSet %s %s)", opt, e(nt)) }
	case *sysl.Type_Sequence:
		e := p.ty(x.Sequence)
		return func(nt *nameTable) string { return fmt.Sprintf("(SSeq %s %s)", opt, e(nt)) }
	case *sysl.Type_List_:
		e := p.ty(x.List.GetType())
		return func(nt *nameTable) string { return fmt.Sprintf("(SList %s %s)", opt, e(nt)) }
	case *sysl.Type_TypeRef:
		ref := x.TypeRef.GetRef()
		var path []string
		for _, s := range ref.GetPath() {
			if strings.Contains(s, ".") {
				p.unsupported = "'.' inside a reference path element"
			}
			path = append(path, p.n(s))
		}
		app, ctx := "", ""
		hasApp, hasCtx := ref.GetAppname() != nil, x.TypeRef.GetContext() != nil
		if hasApp {
			app = p.n(syslutil.GetAppName(ref.GetAppname()))
		}
		if hasCtx {
			ctx = p.n(syslutil.GetAppName(x.TypeRef.GetContext().GetAppname()))
		}
		if strings.Contains(app, ".") || strings.Contains(ctx, ".") {
			p.unsupported = "'.' inside an application name"
		}
		return func(nt *nameTable) string {
			var ps []string
			for _, s := range path {
				ps = append(ps, nt.id(s))
			}
			a, c := "None", "None"
			if hasApp {
				a = "(Some " + nt.id(app) + ")"
			}
			if hasCtx {
				c = "(Some " + nt.id(ctx) + ")"
			}
			return fmt.Sprintf("(Rf %s %s %s %s)", opt, common.GList(ps), a, c)
		}
	case *sysl.Type_Tuple_:
		_, mapKey := t.GetAttrs()["json_map_key"]
		type fl struct {
			n string
			t lazy
		}
		var fs []fl
		for n, ft := range x.Tuple.GetAttrDefs() {
			fs = append(fs, fl{p.n(n), p.ty(ft)})
		}
		sort.Slice(fs, func(i, j int) bool { return fs[i].n < fs[j].n })
		return func(nt *nameTable) string {
			var s []string
			for _, f := range fs {
				s = append(s, fmt.Sprintf("(%s,%s)", nt.id(f.n), f.t(nt)))
			}
			return fmt.Sprintf("(STuple %s %s %s)", opt, common.GBool(mapKey), common.GList(s))
		}
	case *sysl.Type_Relation_:
		// MapType: an attribute that is a TypeRef goes through convertTableRef (Context.Appname.Part[0], Ref.Path[0])
		type fl struct {
			n string
			t lazy
		}
		var fs []fl
		for n, ft := range x.Relation.GetAttrDefs() {
			if tr, ok := ft.Type.(*sysl.Type_TypeRef); ok {
				parts, path := tr.TypeRef.GetContext().GetAppname().GetPart(), tr.TypeRef.GetRef().GetPath()
				if len(parts) == 0 || len(path) == 0 {
					p.unsupported = "relation attribute reference without context or path (convertTableRef indexes [0])"
					continue
				}
				if strings.Contains(parts[0], ".") || strings.Contains(path[0], ".") {
					p.unsupported = "'.' inside a table reference"
				}
				ap, ty, fo := p.n(parts[0]), p.n(path[0]), common.GBool(ft.GetOpt())
				fs = append(fs, fl{p.n(n), func(nt *nameTable) string { return fmt.Sprintf("(STabRef %s %s %s)", fo, nt.id(ap), nt.id(ty)) }})
				continue
			}
			fs = append(fs, fl{p.n(n), p.ty(ft)})
		}
		sort.Slice(fs, func(i, j int) bool { return fs[i].n < fs[j].n })
		return func(nt *nameTable) string {
			var s []string
			for _, f := range fs {
				s = append(s, fmt.Sprintf("(%s,%s)", nt.id(f.n), f.t(nt)))
			}
			return fmt.Sprintf("(SRel %s %s)", opt, common.GList(s))
		}
	case *sysl.Type_OneOf_:
		var alts []lazy
		for _, at := range x.OneOf.GetType() {
			alts = append(alts, p.ty(at))
		}
		return func(nt *nameTable) string {
			var s []string
			for _, a := range alts {
				s = append(s, a(nt))
			}
			return fmt.Sprintf("(SUnion %s %s)", opt, common.GList(s))
		}
	}
	p.unsupported = fmt.Sprintf("type kind %T", t.Type)
	return func(*nameTable) string { return "(SNoType false)" }
}

func hasPattern(attrs map[string]*sysl.Attribute, pat string) bool {
	if a, ok := attrs["patterns"]; ok && a.GetA() != nil {
		for _, e := range a.GetA().Elt {
			if e.GetS() == pat {
				return true
			}
		}
	}
	return false
}

func (p *projector) simpleRet(text string) lazy {
	if strings.Contains(text, ".") {
		parts := strings.Split(text, ".")
		a, b := p.n(parts[0]), p.n(parts[1])
		return func(nt *nameTable) string { return fmt.Sprintf("(RDotted %s %s)", nt.id(a), nt.id(b)) }
	}
	for i := 0; i < len(text); i++ {
		if text[i] < 0x20 || text[i] > 0x7e {
			p.unsupported = "non-ASCII return type text"
		}
	}
	p.n(text)
	return func(nt *nameTable) string { return fmt.Sprintf("(RPlain %s %s)", nt.id(text), coqString(text)) }
}

// the statement tree of an endpoint, as far as return statements are concerned: StRet for a return statement, StNest <oneof
// case> for a statement with a body (the statements of all choices of a one-of, in order), StLeaf for anything else
func (p *projector) stmts(sts []*sysl.Statement) []lazy {
	var out []lazy
	nest := func(kind string, body []*sysl.Statement) lazy {
		inner := p.stmts(body)
		return func(nt *nameTable) string {
			var ss []string
			for _, x := range inner {
				ss = append(ss, x(nt))
			}
			return fmt.Sprintf("(StNest %s %s)", coqString(kind), common.GList(ss))
		}
	}
	for _, st := range sts {
		switch x := st.GetStmt().(type) {
		case *sysl.Statement_Ret:
			if r := p.ret(x.Ret); r != nil {
				out = append(out, r)
			}
		case *sysl.Statement_Cond:
			out = append(out, nest("Cond", x.Cond.GetStmt()))
		case *sysl.Statement_Loop:
			out = append(out, nest("Loop", x.Loop.GetStmt()))
		case *sysl.Statement_LoopN:
			out = append(out, nest("LoopN", x.LoopN.GetStmt()))
		case *sysl.Statement_Foreach:
			out = append(out, nest("Foreach", x.Foreach.GetStmt()))
		case *sysl.Statement_Alt:
			var all []*sysl.Statement
			for _, ch := range x.Alt.GetChoice() {
				all = append(all, ch.GetStmt()...)
			}
			out = append(out, nest("Alt", all))
		case *sysl.Statement_Group:
			out = append(out, nest("Group", x.Group.GetStmt()))
		default:
			out = append(out, func(*nameTable) string { return "StLeaf" })
		}
	}
	return out
}

func (p *projector) ret(ret *sysl.Return) lazy {
	payload := ret.GetPayload()
	name, tyText, bare := payload, payload, true
	if strings.Contains(payload, "<:") {
		parts := strings.Split(payload, " <: ")
		if len(parts) < 2 {
			p.unsupported = "return payload with '<:' but without ' <: '"
			return nil
		}
		name, tyText, bare = parts[0], parts[1], false
	}
	p.n(name)
	var shape lazy
	switch {
	case strings.Contains(tyText, "sequence of "):
		s := p.simpleRet(strings.Replace(tyText, "sequence of ", "", 1))
		shape = func(nt *nameTable) string { return "(RSeqOf " + s(nt) + ")" }
	case strings.Contains(tyText, "set of "):
		s := p.simpleRet(strings.Replace(tyText, "set of ", "", 1))
		shape = func(nt *nameTable) string { return "(RSetOf " + s(nt) + ")" }
	default:
		s := p.simpleRet(tyText)
		shape = func(nt *nameTable) string { return "(RSimple " + s(nt) + ")" }
	}
	atoi := "None"
	if v, err := strconv.Atoi(name); err == nil {
		atoi = "(Some " + common.GZ(int64(v)) + ")"
	}
	isOK := common.GBool(name == "ok")
	return func(nt *nameTable) string {
		return fmt.Sprintf("(StRet (RT %s %s %s %s %s))", common.GBool(bare), nt.id(name), isOK, atoi, shape(nt))
	}
}

func (p *projector) endpoint(key string, ep *sysl.Endpoint) lazy {
	toks := strings.Split(key, " ")
	var keyTerm lazy
	if len(toks) > 1 {
		m, path := toks[0], p.n(toks[1])
		keyTerm = func(nt *nameTable) string { return fmt.Sprintf("(KRest %s %s)", coqString(m), nt.id(path)) }
	} else {
		p.n(key)
		keyTerm = func(nt *nameTable) string { return fmt.Sprintf("(KPlain %s)", nt.id(key)) }
	}
	var params, query, url, rets []lazy
	for _, pa := range ep.GetParam() {
		n, t, body := p.n(pa.GetName()), p.ty(pa.GetType()), hasPattern(pa.GetType().GetAttrs(), "body")
		params = append(params, func(nt *nameTable) string { return fmt.Sprintf("(SP %s %s %s)", nt.id(n), common.GBool(body), t(nt)) })
	}
	for _, q := range ep.GetRestParams().GetQueryParam() {
		n, t := p.n(q.GetName()), p.ty(q.GetType())
		query = append(query, func(nt *nameTable) string { return fmt.Sprintf("(QP %s %s)", nt.id(n), t(nt)) })
	}
	for _, q := range ep.GetRestParams().GetUrlParam() {
		n, t := p.n(q.GetName()), p.ty(q.GetType())
		url = append(url, func(nt *nameTable) string { return fmt.Sprintf("(QP %s %s)", nt.id(n), t(nt)) })
	}
	rets = p.stmts(ep.GetStmt())
	return func(nt *nameTable) string {
		l := func(ls []lazy) string {
			var s []string
			for _, x := range ls {
				s = append(s, x(nt))
			}
			return common.GList(s)
		}
		return fmt.Sprintf("(EP %s %s %s %s %s)", keyTerm(nt), l(params), l(query), l(url), l(rets))
	}
}

func (p *projector) app(a *sysl.Application) lazy {
	appName := p.n(syslutil.GetAppName(a.Name))
	p.n("200")
	type ent struct {
		n string
		t lazy
	}
	var types, eps []ent
	for n, t := range a.GetTypes() {
		types = append(types, ent{p.n(n), p.ty(t)})
	}
	for k, e := range a.GetEndpoints() {
		eps = append(eps, ent{p.n(k), p.endpoint(k, e)})
	}
	sort.Slice(types, func(i, j int) bool { return types[i].n < types[j].n })
	sort.Slice(eps, func(i, j int) bool { return eps[i].n < eps[j].n })
	return func(nt *nameTable) string {
		l := func(es []ent) string {
			var s []string
			for _, e := range es {
				s = append(s, fmt.Sprintf("(%s,%s)", nt.id(e.n), e.t(nt)))
			}
			return common.GList(s)
		}
		return fmt.Sprintf("(AP %s %s\n  %s\n  %s)", nt.id(appName), nt.id("200"), l(types), l(eps))
	}
}

// ---------------------------------------------------------------- projection of the exported OpenAPI 3 document (observation)

func asMap(v interface{}) map[string]interface{} { m, _ := v.(map[string]interface{}); return m }
func asList(v interface{}) []interface{}         { l, _ := v.([]interface{}); return l }
func asStr(v interface{}) string                 { s, _ := v.(string); return s }

func sortedKeys(m map[string]interface{}) []string {
	ks := make([]string, 0, len(m))
	for k := range m {
		ks = append(ks, k)
	}
	sort.Strings(ks)
	return ks
}

func schemaTerm(v interface{}, nt *nameTable, refPrefix string) string {
	m := asMap(v)
	ref := "0"
	if r, ok := m["$ref"].(string); ok {
		if strings.HasPrefix(r, refPrefix) {
			ref = nt.id(strings.TrimPrefix(r, refPrefix))
		} else {
			ref = strconv.Itoa(unknownName)
		}
	}
	items := "None"
	if it, ok := m["items"]; ok {
		items = "(Some " + schemaTerm(it, nt, refPrefix) + ")"
	}
	var props, req, enum []string
	pm := asMap(m["properties"])
	type kv struct {
		id int
		s  string
	}
	var ps []kv
	for k, pv := range pm {
		id, _ := strconv.Atoi(nt.id(k))
		ps = append(ps, kv{id, schemaTerm(pv, nt, refPrefix)})
	}
	sort.Slice(ps, func(i, j int) bool { return ps[i].id < ps[j].id })
	for _, p := range ps {
		props = append(props, fmt.Sprintf("(%d,%s)", p.id, p.s))
	}
	for _, r := range asList(m["required"]) {
		req = append(req, nt.id(asStr(r)))
	}
	for _, e := range asList(m["enum"]) {
		enum = append(enum, nt.id(asStr(e)))
	}
	return fmt.Sprintf("(Sch %s %s %s %s %s %s %s)", ref, coqString(asStr(m["type"])), coqString(asStr(m["format"])), items,
		common.GList(props), common.GList(req), common.GList(enum))
}

var methodCode = map[string]int{"connect": 0, "delete": 1, "get": 2, "head": 3, "options": 4, "patch": 5, "post": 6, "put": 7, "trace": 8}

func doc3Term(doc map[string]interface{}, nt *nameTable) string {
	const pre = "#/components/schemas/"
	type kv struct {
		id int
		s  string
	}
	var schemas, ops []kv
	for k, v := range asMap(asMap(doc["components"])["schemas"]) {
		id, _ := strconv.Atoi(nt.id(k))
		schemas = append(schemas, kv{id, schemaTerm(v, nt, pre)})
	}
	for path, pi := range asMap(doc["paths"]) {
		pid, _ := strconv.Atoi(nt.id(path))
		for meth, opv := range asMap(pi) {
			code, ok := methodCode[meth]
			if !ok {
				continue
			}
			op := asMap(opv)
			var params, resps []string
			for _, pv := range asList(op["parameters"]) {
				p := asMap(pv)
				req, _ := p["required"].(bool)
				params = append(params, fmt.Sprintf("(OP %s %s %s %s)", nt.id(asStr(p["name"])), coqString(asStr(p["in"])), common.GBool(req), schemaTerm(p["schema"], nt, pre)))
			}
			body := "None"
			if rb, ok := op["requestBody"]; ok {
				b := asMap(rb)
				req, _ := b["required"].(bool)
				sch := "None"
				if s, ok := asMap(asMap(b["content"])["application/json"])["schema"]; ok {
					sch = "(Some " + schemaTerm(s, nt, pre) + ")"
				}
				body = fmt.Sprintf("(Some (OB %s %s))", common.GBool(req), sch)
			}
			rm := asMap(op["responses"])
			type rkv struct {
				code int
				s    string
			}
			var rs []rkv
			for c, rv := range rm {
				n := 0
				if c != "default" {
					n, _ = strconv.Atoi(c)
				}
				r := asMap(rv)
				val := "RNoContent"
				if ct, ok := r["content"]; ok {
					sch := "None"
					if s, ok := asMap(asMap(ct)["application/json"])["schema"]; ok {
						sch = "(Some " + schemaTerm(s, nt, pre) + ")"
					}
					val = "(RContent " + sch + ")"
				}
				rs = append(rs, rkv{n, val})
			}
			sort.Slice(rs, func(i, j int) bool { return rs[i].code < rs[j].code })
			for _, r := range rs {
				resps = append(resps, fmt.Sprintf("(%d,%s)", r.code, r.s))
			}
			ops = append(ops, kv{pid*16 + code, fmt.Sprintf("(OPN %s %s %s)", common.GList(params), body, common.GList(resps))})
		}
	}
	sort.Slice(schemas, func(i, j int) bool { return schemas[i].id < schemas[j].id })
	sort.Slice(ops, func(i, j int) bool { return ops[i].id < ops[j].id })
	var ss, os []string
	for _, s := range schemas {
		ss = append(ss, fmt.Sprintf("(%d,%s)", s.id, s.s))
	}
	for _, o := range ops {
		os = append(os, fmt.Sprintf("(%d,%s)", o.id, o.s))
	}
	return fmt.Sprintf("(D3\n  %s\n  %s)", common.GList(ss), common.GList(os))
}

// caseTerm: the Gallina case for one application and the document the real exporter wrote for it
func caseTerm(app *sysl.Application, out exportOut) (term string, skipped string) {
	p := &projector{names: map[string]bool{}}
	appTerm := p.app(app)
	if p.unsupported != "" {
		return "", p.unsupported
	}
	if out.Err != "" {
		return "", "export error"
	}
	var doc map[string]interface{}
	if out.Panic == "" {
		if err := json.Unmarshal(out.Bytes, &doc); err != nil {
			return "", "output is not JSON"
		}
	}
	nt := newNameTable(p.names)
	obs := "None"
	if out.Panic == "" {
		obs = "(Some " + doc3Term(doc, nt) + ")"
	}
	return fmt.Sprintf("(%s,\n %s)", appTerm(nt), obs), ""
}

// ---------------------------------------------------------------- Swagger 2 definitions: projection for Export/SwExport.v

func s2Term(t *sysl.Type) string {
	if t == nil || t.Type == nil {
		return "S2Nil"
	}
	switch x := t.Type.(type) {
	case *sysl.Type_Primitive_:
		return "(S2Prim " + coqString(x.Primitive.String()) + ")"
	case *sysl.Type_Enum_:
		return "S2Enum"
	case *sysl.Type_Tuple_:
		return "S2Tuple"
	case *sysl.Type_Relation_:
		return "S2Rel"
	case *sysl.Type_TypeRef:
		ref := x.TypeRef.GetRef()
		if ref.GetAppname() == nil {
			if len(ref.GetPath()) == 0 {
				return "S2Other" // the exporter indexes Path[0]: not generated
			}
			return "(S2Ref " + coqString(ref.GetPath()[0]) + ")"
		}
		return "(S2Ref " + coqString(syslutil.GetAppName(ref.GetAppname())) + ")"
	}
	return "S2Other"
}

func ft2Term(t *sysl.Type) string {
	switch x := t.GetType().(type) {
	case *sysl.Type_Set:
		return "(F2Set " + s2Term(x.Set) + ")"
	case *sysl.Type_Sequence:
		return "(F2Seq " + s2Term(x.Sequence) + ")"
	}
	return "(F2Plain " + s2Term(t) + ")"
}

func asciiOnly(s string) bool {
	for i := 0; i < len(s); i++ {
		if s[i] < 0x20 || s[i] > 0x7e {
			return false
		}
	}
	return true
}

func fschTerm(v interface{}) string {
	m := asMap(v)
	ty := asStr(m["type"])
	if l := asList(m["type"]); l != nil {
		var ss []string
		for _, x := range l {
			ss = append(ss, asStr(x))
		}
		ty = strings.Join(ss, ",")
	}
	items := "None"
	if it, ok := m["items"]; ok {
		im := asMap(it)
		items = fmt.Sprintf("(Some (%s,%s))", coqString(asStr(im["format"])), coqString(asStr(im["type"])))
	}
	return fmt.Sprintf("(F %s %s %s)", coqString(ty), coqString(asStr(m["format"])), items)
}

// typesOnlyExport2: the Swagger export of the application without its endpoints, i.e. populateTypes alone (an error
// of the endpoint part must not be taken for an error of the type part)
func typesOnlyExport2(app *sysl.Application) exportOut {
	c := proto.Clone(app).(*sysl.Application)
	c.Endpoints = nil
	return runExport2(c, "json")
}

// swCaseTerm: the Gallina case for the Swagger definitions of one application
func swCaseTerm(app *sysl.Application, out exportOut) (term string, skipped string) {
	if out.Panic != "" {
		return "", "swagger export panics"
	}
	names := map[string]bool{}
	for n, t := range app.GetTypes() {
		names[n] = true
		for f := range t.GetTuple().GetAttrDefs() {
			names[f] = true
		}
		for f := range t.GetRelation().GetAttrDefs() {
			names[f] = true
		}
	}
	var doc map[string]interface{}
	if out.Err == "" {
		if err := json.Unmarshal(out.Bytes, &doc); err != nil {
			return "", "output is not JSON"
		}
		for n, d := range asMap(doc["definitions"]) {
			names[n] = true
			for f := range asMap(asMap(d)["properties"]) {
				names[f] = true
			}
		}
	}
	for n := range names {
		if !asciiOnly(n) {
			return "", "non-ASCII name"
		}
	}
	nt := newNameTable(names)
	type ent struct {
		id int
		s  string
	}
	sortJoin := func(es []ent) string {
		sort.Slice(es, func(i, j int) bool { return es[i].id < es[j].id })
		var ss []string
		for _, e := range es {
			ss = append(ss, fmt.Sprintf("(%d,%s)", e.id, e.s))
		}
		return common.GList(ss)
	}
	idOf := func(s string) int { i, _ := strconv.Atoi(nt.id(s)); return i }
	var types []ent
	for n, t := range app.GetTypes() {
		var ms []ent
		members := t.GetTuple().GetAttrDefs()
		if t.GetRelation() != nil {
			members = t.GetRelation().GetAttrDefs()
		}
		for f, ft := range members {
			ms = append(ms, ent{idOf(f), ft2Term(ft)})
		}
		types = append(types, ent{idOf(n), fmt.Sprintf("(T2 %s %s)", ft2Term(t), sortJoin(ms))})
	}
	obs := "None"
	if out.Err == "" {
		var defs []ent
		for n, d := range asMap(doc["definitions"]) {
			var ps []ent
			for f, p := range asMap(asMap(d)["properties"]) {
				ps = append(ps, ent{idOf(f), fschTerm(p)})
			}
			defs = append(defs, ent{idOf(n), fmt.Sprintf("(D %s %s)", fschTerm(d), sortJoin(ps))})
		}
		obs = "(Some " + sortJoin(defs) + ")"
	}
	return fmt.Sprintf("(%s,\n %s)", sortJoin(types), obs), ""
}
